(* C21 (part B): CoinStatsIndex — src/index/coinstatsindex.cpp, src/index/db_key.h,
   src/kernel/coinstats.cpp (TxOutSer / ApplyCoinHash / GetBogoSize / ComputeUTXOStats).

   A block is given with its undo data already paired with the inputs (tx->vin[j].prevout with
   block.undo_data->vtxundo.at(i - 1).vprevout[j]).  The index object is its member variables plus
   its database (height index, hash index, DB_MUHASH).  Executable definitions only. *)
From Coq Require Import NArith.
From BV Require Import lib.Ints model.CryptoBase model.MuHash model.Index.
Local Open Scope Z_scope.

(* ---------------- kernel/coinstats.cpp ---------------- *)
(* uint64_t GetBogoSize(const CScript& script_pub_key)
     return 32 + 4 + 4 + 8 + 2 + script_pub_key.size(); *)
Definition bogo_size (script : bytes) : Z := 32 + 4 + 4 + 8 + 2 + Z.of_nat (length script).

(* WriteCompactSize *)
Definition compact_size (n : Z) : bytes :=
  if n <? 253 then le_bytes 1 n
  else if n <=? 65535 then 253%N :: le_bytes 2 n
  else if n <=? 4294967295 then 254%N :: le_bytes 4 n
  else 255%N :: le_bytes 8 n.

(* static void TxOutSer(T& ss, const COutPoint& outpoint, const Coin& coin)
     ss << outpoint;                                                  // 32 bytes txid, uint32 n
     ss << ((uint32_t{coin.nHeight} << 1) | uint32_t{coin.fCoinBase});
     ss << coin.out;                                                  // int64 nValue, CScript *)
Definition txout_ser (e : utxo_entry) : bytes :=
  let '(op, c) := e in
  op_txid op ++ le_bytes 4 (wrapu32 (op_n op))
  ++ le_bytes 4 (wrapu32 (2 * c_height c + (if c_coinbase c then 1 else 0)))
  ++ le_bytes 8 (wrapu64 (c_value c)) ++ compact_size (Z.of_nat (length (c_script c))) ++ c_script c.

(* void ApplyCoinHash(MuHash3072& muhash, outpoint, coin): muhash.Insert(TxOutSer bytes)
   void RemoveCoinHash(MuHash3072& muhash, outpoint, coin): muhash.Remove(TxOutSer bytes) *)
Definition apply_coin_hash (m : muhash) (e : utxo_entry) : muhash := mh_insert m (txout_ser e).
Definition remove_coin_hash (m : muhash) (e : utxo_entry) : muhash := mh_remove m (txout_ser e).

(* bool CScript::IsUnspendable() const
     return (size() > 0 && *begin() == OP_RETURN) || (size() > MAX_SCRIPT_SIZE);     OP_RETURN = 0x6a, MAX_SCRIPT_SIZE = 10000 *)
Definition is_unspendable (script : bytes) : bool :=
  match script with
  | [] => false
  | b :: _ => N.eqb b 106 || (10000 <? Z.of_nat (length script))
  end.

(* bool IsBIP30Unspendable(const uint256& block_hash, int block_height)   (validation.cpp)
     (block_height==91722 && block_hash == uint256{"00000000000271a2dc26e7667f8419f2e15416dc6955e5a6c6cdf3f2574dd08e"}) ||
     (block_height==91812 && block_hash == uint256{"00000000000af0aed4792b1acee3d966af36cf5def14935db8de83d6f9306f2f"})
   block hashes are kept in internal byte order here (the reverse of the hex text) *)
Definition hash_of_be_hex_value (v : Z) : bytes := le_bytes 32 v.
Definition BIP30_HASH_91722 : bytes := hash_of_be_hex_value 0x00000000000271a2dc26e7667f8419f2e15416dc6955e5a6c6cdf3f2574dd08e.
Definition BIP30_HASH_91812 : bytes := hash_of_be_hex_value 0x00000000000af0aed4792b1acee3d966af36cf5def14935db8de83d6f9306f2f.
Definition is_bip30_unspendable (block_hash : bytes) (block_height : Z) : bool :=
  ((block_height =? 91722) && bytes_eqb block_hash BIP30_HASH_91722) ||
  ((block_height =? 91812) && bytes_eqb block_hash BIP30_HASH_91812).

(* CAmount GetBlockSubsidy(int nHeight, const Consensus::Params& consensusParams)
     int halvings = nHeight / consensusParams.nSubsidyHalvingInterval;
     if (halvings >= 64) return 0;
     CAmount nSubsidy = 50 * COIN; nSubsidy >>= halvings; return nSubsidy; *)
Definition COIN : Z := 100000000.
Definition block_subsidy (interval : Z) (height : Z) : Z :=
  let halvings := cdiv height interval in
  if 64 <=? halvings then 0 else Z.shiftr (50 * COIN) halvings.

(* ---------------- the index ---------------- *)
Definition wrap256 (x : Z) : Z := wrapu 256 x.
(* arith_uint256 += / + with a CAmount operand: the int64 converts to uint64_t (base_uint(uint64_t b)) *)
Definition add256_amount (a : Z) (v : Z) : Z := wrap256 (a + wrapu64 v).

(* struct DBVal *)
Record dbval : Type := {
  v_muhash : bytes;
  v_txouts : Z;          (* uint64_t transaction_output_count *)
  v_bogo : Z;            (* uint64_t bogo_size *)
  v_amount : Z;          (* CAmount total_amount *)
  v_subsidy : Z;         (* CAmount total_subsidy *)
  v_prevout_spent : Z;   (* arith_uint256 *)
  v_new_outputs : Z;     (* arith_uint256 total_new_outputs_ex_coinbase_amount *)
  v_coinbase : Z;        (* arith_uint256 total_coinbase_amount *)
  v_unsp_genesis : Z; v_unsp_bip30 : Z; v_unsp_scripts : Z; v_unsp_unclaimed : Z   (* CAmount *)
}.
Definition dbval0 : dbval :=
  {| v_muhash := repeat 0%N 32; v_txouts := 0; v_bogo := 0; v_amount := 0; v_subsidy := 0; v_prevout_spent := 0;
     v_new_outputs := 0; v_coinbase := 0; v_unsp_genesis := 0; v_unsp_bip30 := 0; v_unsp_scripts := 0; v_unsp_unclaimed := 0 |}.

(* the member variables m_muhash, m_transaction_output_count, ... (the counters live in a dbval whose
   v_muhash field is not used), m_current_block_hash, and the database *)
Record cs_index : Type := {
  cs_mh : muhash;
  cs_v : dbval;
  cs_cur : bytes;                              (* uint256 m_current_block_hash{} *)
  cs_dbh : list (Z * (bytes * dbval));         (* DBHeightKey(height) -> (block hash, DBVal); newest write first *)
  cs_dbs : list (bytes * dbval);               (* DBHashKey(hash) -> DBVal *)
  cs_db_muhash : option muhash                 (* DB_MUHASH, written by CustomCommit *)
}.
Definition cs_init : cs_index :=
  {| cs_mh := mh_empty; cs_v := dbval0; cs_cur := repeat 0%N 32; cs_dbh := []; cs_dbs := []; cs_db_muhash := None |}.

Fixpoint dbh_read (db : list (Z * (bytes * dbval))) (h : Z) : option (bytes * dbval) :=
  match db with
  | [] => None
  | (k, v) :: r => if k =? h then Some v else dbh_read r h
  end.
Fixpoint dbs_read (db : list (bytes * dbval)) (hash : bytes) : option dbval :=
  match db with
  | [] => None
  | (k, v) :: r => if bytes_eqb k hash then Some v else dbs_read r hash
  end.

(* static bool LookUpOne(db, BlockRef block, DBVal& result)   (db_key.h) *)
Definition look_up_one (x : cs_index) (hash : bytes) (height : Z) : option dbval :=
  match dbh_read (cs_dbh x) height with
  | None => None
  | Some (h, v) => if bytes_eqb h hash then Some v else dbs_read (cs_dbs x) hash
  end.

(* the outputs loop of CustomAppend for one transaction:
     const Coin coin{out, block.height, is_coinbase}; const COutPoint outpoint{tx->GetHash(), j};
     if (coin.out.scriptPubKey.IsUnspendable()) { m_total_unspendables_scripts += coin.out.nValue; continue; }
     ApplyCoinHash(m_muhash, outpoint, coin);
     if (is_coinbase) m_total_coinbase_amount += coin.out.nValue; else m_total_new_outputs_ex_coinbase_amount += coin.out.nValue;
     ++m_transaction_output_count; m_total_amount += coin.out.nValue; m_bogo_size += GetBogoSize(coin.out.scriptPubKey); *)
Definition entry_of_out (height : Z) (t : tx) (j : Z) (o : txout) : utxo_entry :=
  ({| op_txid := t_txid t; op_n := j |},
   {| c_value := o_value o; c_script := o_script o; c_height := height; c_coinbase := t_coinbase t |}).

Definition append_out (height : Z) (t : tx) (acc : muhash * dbval * Z) (o : txout) : muhash * dbval * Z :=
  let '(m, v, j) := acc in
  if is_unspendable (o_script o) then
    (m, {| v_muhash := v_muhash v; v_txouts := v_txouts v; v_bogo := v_bogo v; v_amount := v_amount v;
           v_subsidy := v_subsidy v; v_prevout_spent := v_prevout_spent v; v_new_outputs := v_new_outputs v;
           v_coinbase := v_coinbase v; v_unsp_genesis := v_unsp_genesis v; v_unsp_bip30 := v_unsp_bip30 v;
           v_unsp_scripts := wrap64 (v_unsp_scripts v + o_value o); v_unsp_unclaimed := v_unsp_unclaimed v |}, j + 1)
  else
    (apply_coin_hash m (entry_of_out height t j o),
     {| v_muhash := v_muhash v;
        v_txouts := wrapu64 (v_txouts v + 1);
        v_bogo := wrapu64 (v_bogo v + bogo_size (o_script o));
        v_amount := wrap64 (v_amount v + o_value o);
        v_subsidy := v_subsidy v; v_prevout_spent := v_prevout_spent v;
        v_new_outputs := if t_coinbase t then v_new_outputs v else add256_amount (v_new_outputs v) (o_value o);
        v_coinbase := if t_coinbase t then add256_amount (v_coinbase v) (o_value o) else v_coinbase v;
        v_unsp_genesis := v_unsp_genesis v; v_unsp_bip30 := v_unsp_bip30 v;
        v_unsp_scripts := v_unsp_scripts v; v_unsp_unclaimed := v_unsp_unclaimed v |}, j + 1).

(* the undo loop:  RemoveCoinHash(m_muhash, outpoint, coin); m_total_prevout_spent_amount += coin.out.nValue;
     --m_transaction_output_count; m_total_amount -= coin.out.nValue; m_bogo_size -= GetBogoSize(coin.out.scriptPubKey); *)
Definition append_in (acc : muhash * dbval) (i : txin) : muhash * dbval :=
  let '(m, v) := acc in
  let c := i_coin i in
  (remove_coin_hash m (i_prevout i, c),
   {| v_muhash := v_muhash v;
      v_txouts := wrapu64 (v_txouts v - 1);
      v_bogo := wrapu64 (v_bogo v - bogo_size (c_script c));
      v_amount := wrap64 (v_amount v - c_value c);
      v_subsidy := v_subsidy v;
      v_prevout_spent := add256_amount (v_prevout_spent v) (c_value c);
      v_new_outputs := v_new_outputs v; v_coinbase := v_coinbase v;
      v_unsp_genesis := v_unsp_genesis v; v_unsp_bip30 := v_unsp_bip30 v;
      v_unsp_scripts := v_unsp_scripts v; v_unsp_unclaimed := v_unsp_unclaimed v |}).

Definition set_unsp_bip30 (v : dbval) (x : Z) : dbval :=
  {| v_muhash := v_muhash v; v_txouts := v_txouts v; v_bogo := v_bogo v; v_amount := v_amount v;
     v_subsidy := v_subsidy v; v_prevout_spent := v_prevout_spent v; v_new_outputs := v_new_outputs v;
     v_coinbase := v_coinbase v; v_unsp_genesis := v_unsp_genesis v; v_unsp_bip30 := x;
     v_unsp_scripts := v_unsp_scripts v; v_unsp_unclaimed := v_unsp_unclaimed v |}.
Definition set_subsidy (v : dbval) (x : Z) : dbval :=
  {| v_muhash := v_muhash v; v_txouts := v_txouts v; v_bogo := v_bogo v; v_amount := v_amount v;
     v_subsidy := x; v_prevout_spent := v_prevout_spent v; v_new_outputs := v_new_outputs v;
     v_coinbase := v_coinbase v; v_unsp_genesis := v_unsp_genesis v; v_unsp_bip30 := v_unsp_bip30 v;
     v_unsp_scripts := v_unsp_scripts v; v_unsp_unclaimed := v_unsp_unclaimed v |}.
Definition set_unsp_genesis (v : dbval) (x : Z) : dbval :=
  {| v_muhash := v_muhash v; v_txouts := v_txouts v; v_bogo := v_bogo v; v_amount := v_amount v;
     v_subsidy := v_subsidy v; v_prevout_spent := v_prevout_spent v; v_new_outputs := v_new_outputs v;
     v_coinbase := v_coinbase v; v_unsp_genesis := x; v_unsp_bip30 := v_unsp_bip30 v;
     v_unsp_scripts := v_unsp_scripts v; v_unsp_unclaimed := v_unsp_unclaimed v |}.
Definition set_unsp_unclaimed (v : dbval) (x : Z) : dbval :=
  {| v_muhash := v_muhash v; v_txouts := v_txouts v; v_bogo := v_bogo v; v_amount := v_amount v;
     v_subsidy := v_subsidy v; v_prevout_spent := v_prevout_spent v; v_new_outputs := v_new_outputs v;
     v_coinbase := v_coinbase v; v_unsp_genesis := v_unsp_genesis v; v_unsp_bip30 := v_unsp_bip30 v;
     v_unsp_scripts := v_unsp_scripts v; v_unsp_unclaimed := x |}.
Definition set_muhash (v : dbval) (h : bytes) : dbval :=
  {| v_muhash := h; v_txouts := v_txouts v; v_bogo := v_bogo v; v_amount := v_amount v;
     v_subsidy := v_subsidy v; v_prevout_spent := v_prevout_spent v; v_new_outputs := v_new_outputs v;
     v_coinbase := v_coinbase v; v_unsp_genesis := v_unsp_genesis v; v_unsp_bip30 := v_unsp_bip30 v;
     v_unsp_scripts := v_unsp_scripts v; v_unsp_unclaimed := v_unsp_unclaimed v |}.

(* one transaction of the loop in CustomAppend
     if (is_coinbase && IsBIP30Unspendable(block.hash, block.height)) { m_total_unspendables_bip30 += block_subsidy; continue; }
     outputs loop;  if (!is_coinbase) undo loop *)
Definition append_tx (bip30 : bool) (subsidy height : Z) (acc : muhash * dbval) (t : tx) : muhash * dbval :=
  let '(m, v) := acc in
  if t_coinbase t && bip30 then (m, set_unsp_bip30 v (wrap64 (v_unsp_bip30 v + subsidy)))
  else
    let '(m1, v1, _) := fold_left (append_out height t) (t_outs t) (m, v, 0) in
    if t_coinbase t then (m1, v1) else fold_left append_in (t_ins t) (m1, v1).

(* bool CoinStatsIndex::CustomAppend(const interfaces::BlockInfo& block) *)
Definition cs_append (interval : Z) (x : cs_index) (b : block) : res cs_index :=
  let subsidy := block_subsidy interval (b_height b) in
  (* m_total_subsidy += block_subsidy; *)
  let v0 := set_subsidy (cs_v x) (wrap64 (v_subsidy (cs_v x) + subsidy)) in
  let step :=
    if 0 <? b_height b then
      (* if (m_current_block_hash != expected_block_hash) { LogError(...); return false; } *)
      if negb (bytes_eqb (cs_cur x) (b_prev b)) then Err EPrevMismatch
      else Ok (fold_left (append_tx (is_bip30_unspendable (b_hash b) (b_height b)) subsidy (b_height b)) (b_txs b) (cs_mh x, v0))
    else
      (* genesis block: m_total_unspendables_genesis_block += block_subsidy; *)
      Ok (cs_mh x, set_unsp_genesis v0 (wrap64 (v_unsp_genesis v0 + subsidy))) in
  match step with
  | Err e => Err e
  | Ok (m, v) =>
    (* const CAmount temp_total_unspendable_amount{genesis + bip30 + scripts + unclaimed};
       const arith_uint256 unclaimed_rewards{(m_total_prevout_spent_amount + m_total_subsidy) -
            (m_total_new_outputs_ex_coinbase_amount + m_total_coinbase_amount + temp_total_unspendable_amount)};
       assert(unclaimed_rewards <= arith_uint256(std::numeric_limits<CAmount>::max()));
       m_total_unspendables_unclaimed_rewards += static_cast<CAmount>(unclaimed_rewards.GetLow64()); *)
    let temp := wrap64 (wrap64 (wrap64 (v_unsp_genesis v + v_unsp_bip30 v) + v_unsp_scripts v) + v_unsp_unclaimed v) in
    let unclaimed := wrap256 (add256_amount (v_prevout_spent v) (v_subsidy v)
                              - add256_amount (wrap256 (v_new_outputs v + v_coinbase v)) temp) in
    if INT64_MAX <? unclaimed then Err EAssertUnclaimed
    else
      let v' := set_unsp_unclaimed v (wrap64 (v_unsp_unclaimed v + wrap64 (wrapu64 unclaimed))) in
      (* m_muhash.Finalize(out); value.second.muhash = out;  (Finalize normalises m_muhash) *)
      let out := mh_finalize m in
      let entry := set_muhash v' out in
      (* m_current_block_hash = block.hash;  m_db->Write(DBHeightKey(block.height), value); *)
      Ok {| cs_mh := mh_finalize_state m; cs_v := v'; cs_cur := b_hash b;
            cs_dbh := (b_height b, (b_hash b, entry)) :: cs_dbh x; cs_dbs := cs_dbs x;
            cs_db_muhash := cs_db_muhash x |}
  end.

(* RevertBlock: Roll back muhash by removing the new UTXOs that were created by the block and
   reapplying the old UTXOs that were spent by the block *)
Definition revert_out (height : Z) (t : tx) (acc : muhash * Z) (o : txout) : muhash * Z :=
  let '(m, j) := acc in
  if negb (is_unspendable (o_script o)) then (remove_coin_hash m (entry_of_out height t j o), j + 1) else (m, j + 1).
Definition revert_in (m : muhash) (i : txin) : muhash := apply_coin_hash m (i_prevout i, i_coin i).
Definition revert_tx (bip30 : bool) (height : Z) (m : muhash) (t : tx) : muhash :=
  if t_coinbase t && bip30 then m
  else
    let '(m1, _) := fold_left (revert_out height t) (t_outs t) (m, 0) in
    if t_coinbase t then m1 else fold_left revert_in (t_ins t) m1.

(* bool CoinStatsIndex::CustomRemove(block):  CopyHeightIndexToHashIndex(height); RevertBlock(block) *)
Definition cs_remove (x : cs_index) (b : block) : res cs_index :=
  match dbh_read (cs_dbh x) (b_height b) with
  | None => Err ENoHeightEntry
  | Some (hh, hv) =>
    let dbs' := (hh, hv) :: cs_dbs x in                       (* batch.Write(DBHashKey(value.first), value.second) *)
    (* RevertBlock *)
    let read_out : res (bytes * dbval) :=
      if 0 <? b_height b then
        match dbh_read (cs_dbh x) (b_height b - 1) with
        | None => Err ENoPrevEntry
        | Some (ph, pv) =>
          if bytes_eqb ph (b_prev b) then Ok (ph, pv)
          else
            (* if (!m_db->Read(index_util::DBHashKey(expected_block_hash), read_out.second)) { LogError("previous block header not found"); return false; }
               "Entries of the hash index hold the bare DBVal (see index_util::CopyHeightIndexToHashIndex)"
               (since /repo commit b3a3ee2; before it the value was read into the whole std::pair<uint256, DBVal> and the
               read always failed: cs_remove_prefix_b3a3ee2 below) *)
            match dbs_read dbs' (b_prev b) with
            | Some pv' => Ok (ph, pv')
            | None => Err ENoPrevEntry
            end
        end
      else Ok (repeat 0%N 32, dbval0) in
    match read_out with
    | Err e => Err e
    | Ok (_, pv) =>
      let m := fold_left (revert_tx (is_bip30_unspendable (b_hash b) (b_height b)) (b_height b)) (b_txs b) (cs_mh x) in
      (* m_muhash.Finalize(out); Assert(read_out.second.muhash == out); *)
      if negb (bytes_eqb (v_muhash pv) (mh_finalize m)) then Err EAssertMuhash
      (* "Apply the other values from the DB to the member variables" (the digest itself is not a member) *)
      else Ok {| cs_mh := mh_finalize_state m; cs_v := set_muhash pv (v_muhash (cs_v x)); cs_cur := b_prev b;
                 cs_dbh := cs_dbh x; cs_dbs := dbs'; cs_db_muhash := cs_db_muhash x |}
    end
  end.

(* CustomRemove as it was BEFORE /repo commit b3a3ee2 (finding C21-revert-fallback, repaired): the fallback
   m_db->Read(DBHashKey(expected_block_hash), read_out) deserialised the bare DBVal stored under a hash key (192 bytes) into
   a std::pair<uint256, DBVal> (224 bytes); the stream underflow was caught by CDBWrapper::Read, which returned false whether
   or not the entry existed.  Kept only for the witness theorem about the old code (proofs/IndexRefuted.v). *)
Definition cs_remove_prefix_b3a3ee2 (x : cs_index) (b : block) : res cs_index :=
  match dbh_read (cs_dbh x) (b_height b) with
  | None => Err ENoHeightEntry
  | Some (hh, hv) =>
    let dbs' := (hh, hv) :: cs_dbs x in
    let read_out : res (bytes * dbval) :=
      if 0 <? b_height b then
        match dbh_read (cs_dbh x) (b_height b - 1) with
        | None => Err ENoPrevEntry
        | Some (ph, pv) => if bytes_eqb ph (b_prev b) then Ok (ph, pv) else Err ENoPrevEntry
        end
      else Ok (repeat 0%N 32, dbval0) in
    match read_out with
    | Err e => Err e
    | Ok (_, pv) =>
      let m := fold_left (revert_tx (is_bip30_unspendable (b_hash b) (b_height b)) (b_height b)) (b_txs b) (cs_mh x) in
      if negb (bytes_eqb (v_muhash pv) (mh_finalize m)) then Err EAssertMuhash
      else Ok {| cs_mh := mh_finalize_state m; cs_v := set_muhash pv (v_muhash (cs_v x)); cs_cur := b_prev b;
                 cs_dbh := cs_dbh x; cs_dbs := dbs'; cs_db_muhash := cs_db_muhash x |}
    end
  end.

(* std::optional<CCoinsStats> CoinStatsIndex::LookUpStats(const CBlockIndex& block_index) const *)
Definition cs_lookup (x : cs_index) (hash : bytes) (height : Z) : option dbval := look_up_one x hash height.

(* bool CoinStatsIndex::CustomCommit(CDBBatch& batch): batch.Write(DB_MUHASH, m_muhash); *)
Definition cs_commit (x : cs_index) : cs_index :=
  {| cs_mh := cs_mh x; cs_v := cs_v x; cs_cur := cs_cur x; cs_dbh := cs_dbh x; cs_dbs := cs_dbs x;
     cs_db_muhash := Some (cs_mh x) |}.

(* bool CoinStatsIndex::CustomInit(const std::optional<interfaces::BlockRef>& block) on a fresh object
   over the persisted database *)
Definition cs_custom_init (db : cs_index) (best : option (bytes * Z)) : res cs_index :=
  let m := match cs_db_muhash db with Some m => m | None => mh_empty end in      (* Read fails: key absent *)
  match best with
  | None => Ok {| cs_mh := m; cs_v := dbval0; cs_cur := repeat 0%N 32; cs_dbh := cs_dbh db; cs_dbs := cs_dbs db;
                  cs_db_muhash := cs_db_muhash db |}
  | Some (hash, height) =>
    match look_up_one db hash height with
    | None => Err EInitCorrupt
    | Some entry =>
      if negb (bytes_eqb (v_muhash entry) (mh_finalize m)) then Err EInitCorrupt
      else Ok {| cs_mh := mh_finalize_state m; cs_v := set_muhash entry (v_muhash dbval0); cs_cur := hash; cs_dbh := cs_dbh db; cs_dbs := cs_dbs db;
                 cs_db_muhash := cs_db_muhash db |}
    end
  end.

(* ---------------- the UTXO set of a chain, and ComputeUTXOStats ---------------- *)
Definition outpoint_eqb (a b : outpoint) : bool := bytes_eqb (op_txid a) (op_txid b) && (op_n a =? op_n b).
Definition coin_eqb (a b : coin) : bool :=
  (c_value a =? c_value b) && bytes_eqb (c_script a) (c_script b) && (c_height a =? c_height b)
  && Bool.eqb (c_coinbase a) (c_coinbase b).
Definition entry_eqb (a b : utxo_entry) : bool := outpoint_eqb (fst a) (fst b) && coin_eqb (snd a) (snd b).

(* SpendCoin on the exact coin recorded in the undo data; None when it is not there *)
Fixpoint utxo_spend (u : list utxo_entry) (e : utxo_entry) : option (list utxo_entry) :=
  match u with
  | [] => None
  | x :: r => if entry_eqb x e then Some r
              else match utxo_spend r e with Some r' => Some (x :: r') | None => None end
  end.
Definition utxo_has_outpoint (u : list utxo_entry) (op : outpoint) : bool := existsb (fun x => outpoint_eqb (fst x) op) u.

(* AddCoins(view, tx, height): every output that is not unspendable becomes a coin; an outpoint that
   is already present makes the block invalid here (BIP30 / BIP34: no overwrite) *)
Fixpoint utxo_add_outs (height : Z) (t : tx) (j : Z) (outs : list txout) (u : list utxo_entry) : option (list utxo_entry) :=
  match outs with
  | [] => Some u
  | o :: r =>
    if is_unspendable (o_script o) then utxo_add_outs height t (j + 1) r u
    else
      let e := entry_of_out height t j o in
      if utxo_has_outpoint u (fst e) then None else utxo_add_outs height t (j + 1) r (u ++ [e])
  end.
Fixpoint utxo_spend_all (u : list utxo_entry) (ins : list txin) : option (list utxo_entry) :=
  match ins with
  | [] => Some u
  | i :: r => match utxo_spend u (i_prevout i, i_coin i) with Some u' => utxo_spend_all u' r | None => None end
  end.
(* ConnectBlock's effect on the UTXO set: for each transaction spend the inputs, then add the outputs *)
Definition utxo_connect_tx (bip30 : bool) (height : Z) (u : option (list utxo_entry)) (t : tx) : option (list utxo_entry) :=
  match u with
  | None => None
  | Some u0 =>
    if t_coinbase t && bip30 then Some u0
    else match (if t_coinbase t then Some u0 else utxo_spend_all u0 (t_ins t)) with
         | None => None
         | Some u1 => utxo_add_outs height t 0 (t_outs t) u1
         end
  end.
Definition utxo_connect_block (u : option (list utxo_entry)) (b : block) : option (list utxo_entry) :=
  if 0 <? b_height b
  then fold_left (utxo_connect_tx (is_bip30_unspendable (b_hash b) (b_height b)) (b_height b)) (b_txs b) u
  else u.   (* the genesis block's outputs are not in the UTXO set *)
Definition utxo_of_chain (chain : list block) : option (list utxo_entry) := fold_left utxo_connect_block chain (Some []).

(* ComputeUTXOStats(CoinStatsHashType::MUHASH, ...) over the coins of the set, in the cursor's order:
     ApplyStats: stats.nTransactionOutputs++; total_amount = CheckedAdd( *total_amount, value) (nullopt on overflow);
                 stats.nBogoSize += GetBogoSize(script);
     ApplyHash: ApplyCoinHash(muhash, outpoint, coin);   FinalizeHash: muhash.Finalize(out) *)
Record utxo_stats : Type := { us_hash : bytes; us_txouts : Z; us_bogo : Z; us_amount : option Z }.
Definition checked_add (a b : Z) : option Z :=
  if (INT64_MIN <=? a + b) && (a + b <=? INT64_MAX) then Some (a + b) else None.
Definition utxo_count (u : list utxo_entry) : Z := fold_left (fun n _ => wrapu64 (n + 1)) u 0.
Definition utxo_bogo (u : list utxo_entry) : Z := fold_left (fun n e => wrapu64 (n + bogo_size (c_script (snd e)))) u 0.
Definition utxo_amount (u : list utxo_entry) : option Z :=
  fold_left (fun a e => match a with Some x => checked_add x (c_value (snd e)) | None => None end) u (Some 0).
Definition utxo_muhash (u : list utxo_entry) : bytes := mh_finalize (fold_left apply_coin_hash u mh_empty).
Definition compute_utxo_stats (u : list utxo_entry) : utxo_stats :=
  {| us_hash := utxo_muhash u; us_txouts := utxo_count u; us_bogo := utxo_bogo u; us_amount := utxo_amount u |}.
(* the same without the MuHash (the drivers predict the hash at the end of a case only: 0.1 s per coin) *)
Definition compute_utxo_stats_nohash (u : list utxo_entry) : utxo_stats :=
  {| us_hash := []; us_txouts := utxo_count u; us_bogo := utxo_bogo u; us_amount := utxo_amount u |}.

(* the property's predicate on one observation: index entry against the from-scratch statistics *)
Definition stats_agree (v : dbval) (s : utxo_stats) : bool :=
  bytes_eqb (v_muhash v) (us_hash s) && (v_txouts v =? us_txouts s) && (v_bogo v =? us_bogo s)
  && match us_amount s with Some a => v_amount v =? a | None => true end.

(* ---------------- event sequences (used by the drivers) ---------------- *)
Inductive cs_event : Type := EvAppend (b : block) | EvRemove (b : block) | EvCommit.
Fixpoint cs_run (interval : Z) (x : cs_index) (evs : list cs_event) : res cs_index :=
  match evs with
  | [] => Ok x
  | EvAppend b :: r => match cs_append interval x b with Ok x' => cs_run interval x' r | Err e => Err e end
  | EvRemove b :: r => match cs_remove x b with Ok x' => cs_run interval x' r | Err e => Err e end
  | EvCommit :: r => cs_run interval (cs_commit x) r
  end.
