(* C46 (family signing): Gallina transcription of the template dispatch of SignStep / ProduceSignature
   (src/script/sign.cpp) for the standard templates P2PK, P2PKH, k-of-n multisig, P2WPKH, P2SH(.), P2WSH(.), with
   signatures abstracted to "a signature by key k" (they are produced and verified by the real code in the
   correspondence); a compositional specification of the spend each template needs; the timelock predicates of the
   interpreter; and a small semantic evaluator for miniscript policies used as an oracle. *)
From BV Require Import lib.Ints.
Local Open Scope Z_scope.

Definition key := nat.

Inductive tmpl :=
| TPK (k : key)                       (* <pubkey> OP_CHECKSIG *)
| TPKH (k : key)                      (* OP_DUP OP_HASH160 <keyid> OP_EQUALVERIFY OP_CHECKSIG *)
| TMulti (m : nat) (ks : list key)    (* m <pubkeys...> n OP_CHECKMULTISIG *)
| TWPKH (k : key)                     (* OP_0 <keyid> *)
| TSH (inner : tmpl)                  (* OP_HASH160 <scriptid> OP_EQUAL *)
| TWSH (inner : tmpl)                 (* OP_0 <sha256(script)> *)
| TOther.                             (* NONSTANDARD / NULL_DATA / WITNESS_UNKNOWN *)

(* what the signing provider can do *)
Record provider := mkProv {
  has_priv : key -> bool;      (* GetKey: the private key is available (CreateSig succeeds) *)
  knows_pub : key -> bool;     (* GetPubKey by key id *)
  knows_scripts : bool         (* GetCScript: redeem / witness scripts *)
}.

(* stack elements, signatures abstracted *)
Inductive elem := ESig (k : key) | EPub (k : key) | EEmpty | EScript | EProg (k : key).

Inductive kind := KPK | KPKH | KMulti | KWPKH | KSH | KWSH | KOther.
Definition kind_of (t : tmpl) : kind :=
  match t with TPK _ => KPK | TPKH _ => KPKH | TMulti _ _ => KMulti | TWPKH _ => KWPKH | TSH _ => KSH | TWSH _ => KWSH | TOther => KOther end.
Definition kind_eqb (a b : kind) : bool :=
  match a, b with
  | KPK, KPK | KPKH, KPKH | KMulti, KMulti | KWPKH, KWPKH | KSH, KSH | KWSH, KWSH | KOther, KOther => true
  | _, _ => false
  end.

(* sign.cpp SignStep, case TxoutType::MULTISIG:
     size_t required = vSolutions.front()[0];
     ret.emplace_back(); // workaround CHECKMULTISIG bug
     for (size_t i = 1; i < vSolutions.size() - 1; ++i) {
         CPubKey pubkey = CPubKey(vSolutions[i]);
         if (CreateSig(creator, sigdata, provider, sig, pubkey, scriptPubKey, sigversion)) {
             if (ret.size() < required + 1) { ret.push_back(std::move(sig)); } } }
     bool ok = ret.size() == required + 1;
     for (size_t i = 0; i + ret.size() < required + 1; ++i) { ret.emplace_back(); }
     return ok; *)
Fixpoint multisig_sigs (P : provider) (m : nat) (ks : list key) (have : nat) : list elem :=
  match ks with
  | [] => []
  | k :: t => if has_priv P k && (have <? m)%nat then ESig k :: multisig_sigs P m t (S have)
              else multisig_sigs P m t have
  end.

(* the padding loop above, literally: BOTH i and ret.size() grow, so only about half of the missing elements are added
   (a 2-of-3 with no key available gives [<>, <>], not [<>, <>, <>]); found by the correspondence, kept as the code has it *)
Fixpoint pad_loop (fuel i size limit : nat) : nat :=
  match fuel with
  | O => O
  | S f => if (i + size <? limit)%nat then S (pad_loop f (S i) (S size) limit) else O
  end.
Definition pad_count (m have : nat) : nat := pad_loop (S m) 0 (S have) (S m).

(* SignStep: (solved, ret).  `ret.clear()` first; a failed CreateSig returns false with ret empty.
     case PUBKEY:     if (!CreateSig(...)) return false; ret.push_back(sig); return true;
     case PUBKEYHASH: if (!GetPubKey(provider, sigdata, keyID, pubkey)) { ...; return false; }
                      if (!CreateSig(...)) return false; ret.push_back(sig); ret.push_back(ToByteVector(pubkey)); return true;
     case SCRIPTHASH: if (GetCScript(...)) { ret.emplace_back(scriptRet...); return true; } return false;
     case WITNESS_V0_KEYHASH: ret.push_back(vSolutions[0]); return true;
     case WITNESS_V0_SCRIPTHASH: if (GetCScript(...)) { ret.emplace_back(...); return true; } return false;
     case NONSTANDARD / NULL_DATA / WITNESS_UNKNOWN: return false; *)
Definition sign_step (P : provider) (t : tmpl) : bool * list elem :=
  match t with
  | TPK k => if has_priv P k then (true, [ESig k]) else (false, [])
  | TPKH k => if knows_pub P k then (if has_priv P k then (true, [ESig k; EPub k]) else (false, [])) else (false, [])
  | TMulti m ks =>
      let sigs := multisig_sigs P m ks 0 in
      ((length sigs =? m)%nat, EEmpty :: sigs ++ repeat EEmpty (pad_count m (length sigs)))
  | TWPKH k => (true, [EProg k])
  | TSH _ | TWSH _ => if knows_scripts P then (true, [EScript]) else (false, [])
  | TOther => (false, [])
  end.

Record sigres := mkSigRes { sr_solved : bool; sr_ss : list elem; sr_wit : list elem }.

(* ProduceSignature (before the final VerifyScript):
     bool solved = SignStep(provider, creator, fromPubKey, result, whichType, SigVersion::BASE, sigdata);
     bool P2SH = false;
     if (solved && whichType == TxoutType::SCRIPTHASH) {
         subscript = CScript(result[0].begin(), result[0].end());
         solved = solved && SignStep(provider, creator, subscript, result, whichType, SigVersion::BASE, sigdata) && whichType != TxoutType::SCRIPTHASH;
         P2SH = true; }
     if (solved && whichType == TxoutType::WITNESS_V0_KEYHASH) {
         witnessscript << OP_DUP << OP_HASH160 << ToByteVector(result[0]) << OP_EQUALVERIFY << OP_CHECKSIG;
         solved = solved && SignStep(provider, creator, witnessscript, result, subType, SigVersion::WITNESS_V0, sigdata);
         sigdata.scriptWitness.stack = result;  sigdata.witness = true;  result.clear();
     } else if (solved && whichType == TxoutType::WITNESS_V0_SCRIPTHASH) {
         CScript witnessscript(result[0].begin(), result[0].end());
         solved = solved && SignStep(provider, creator, witnessscript, result, subType, SigVersion::WITNESS_V0, sigdata)
                  && subType != SCRIPTHASH && subType != WITNESS_V0_SCRIPTHASH && subType != WITNESS_V0_KEYHASH;
         if (!solved && result.empty()) { ... miniscript satisfier (fails for the templates: it needs the same keys) ... }
         result.emplace_back(witnessscript.begin(), witnessscript.end());
         sigdata.scriptWitness.stack = result;  sigdata.witness = true;  result.clear();
     } ...
     if (!sigdata.witness) sigdata.scriptWitness.stack.clear();
     if (P2SH) { result.emplace_back(subscript.begin(), subscript.end()); }
     sigdata.scriptSig = PushAll(result); *)
Definition produce (P : provider) (t : tmpl) : sigres :=
  let '(solved0, result0) := sign_step P t in
  (* P2SH unwrapping: cur = the script whose type `whichType` now is *)
  let '(solved1, result1, cur, p2sh) :=
    match t with
    | TSH inner =>
        if solved0 then
          let '(s, r) := sign_step P inner in
          (s && negb (kind_eqb (kind_of inner) KSH), r, inner, true)
        else (solved0, result0, t, false)
    | _ => (solved0, result0, t, false)
    end in
  let '(solved2, result2, wit) :=
    match cur with
    | TWPKH k =>
        if solved1 then let '(s, r) := sign_step P (TPKH k) in (s, [], r) else (solved1, result1, [])
    | TWSH inner =>
        if solved1 then
          let '(s, r) := sign_step P inner in
          let ki := kind_of inner in
          (s && negb (kind_eqb ki KSH) && negb (kind_eqb ki KWSH) && negb (kind_eqb ki KWPKH), [], r ++ [EScript])
        else (solved1, result1, [])
    | _ => (solved1, result1, [])
    end in
  mkSigRes solved2 (if p2sh then result2 ++ [EScript] else result2) wit.

(* ---------------------------------------------------------------------------------------------- *)
(* Specification: the spend each template needs, written compositionally (independent of the control flow above) *)

Definition avail_keys (P : provider) (ks : list key) : list key := filter (has_priv P) ks.

(* the stack that satisfies a script executed directly (bare, or as redeem / witness script) *)
Definition base_stack (P : provider) (t : tmpl) : option (list elem) :=
  match t with
  | TPK k => if has_priv P k then Some [ESig k] else None
  | TPKH k => if knows_pub P k && has_priv P k then Some [ESig k; EPub k] else None
  | TMulti m ks => if (m <=? length (avail_keys P ks))%nat
                   then Some (EEmpty :: map ESig (firstn m (avail_keys P ks))) else None
  | _ => None
  end.

(* witness of a segwit output *)
Definition wit_stack (P : provider) (t : tmpl) : option (list elem) :=
  match t with
  | TWPKH k => base_stack P (TPKH k)
  | TWSH inner => if knows_scripts P then
                    match base_stack P inner with Some s => Some (s ++ [EScript]) | None => None end
                  else None
  | _ => None
  end.

(* (scriptSig pushes, witness) of a complete spend *)
Definition spec_spend (P : provider) (t : tmpl) : option (list elem * list elem) :=
  match t with
  | TPK _ | TPKH _ | TMulti _ _ => match base_stack P t with Some s => Some (s, []) | None => None end
  | TWPKH _ | TWSH _ => match wit_stack P t with Some w => Some ([], w) | None => None end
  | TSH inner =>
      if knows_scripts P then
        match inner with
        | TPK _ | TPKH _ | TMulti _ _ => match base_stack P inner with Some s => Some (s ++ [EScript], []) | None => None end
        | TWPKH _ | TWSH _ => match wit_stack P inner with Some w => Some ([EScript], w) | None => None end
        | _ => None
        end
      else None
  | TOther => None
  end.

(* ---------------------------------------------------------------------------------------------- *)
(* Timelocks as the interpreter checks them (interpreter.cpp GenericTransactionSignatureChecker):
   CheckLockTime(nLockTime):
     if (!((txTo->nLockTime <  LOCKTIME_THRESHOLD && nLockTime <  LOCKTIME_THRESHOLD) ||
           (txTo->nLockTime >= LOCKTIME_THRESHOLD && nLockTime >= LOCKTIME_THRESHOLD))) return false;
     if (nLockTime > (int64_t)txTo->nLockTime) return false;
     if (CTxIn::SEQUENCE_FINAL == txTo->vin[nIn].nSequence) return false;
   CheckSequence(nSequence):
     if (txTo->version < 2) return false;
     if (txToSequence & CTxIn::SEQUENCE_LOCKTIME_DISABLE_FLAG) return false;
     const uint32_t nLockTimeMask = CTxIn::SEQUENCE_LOCKTIME_TYPE_FLAG | CTxIn::SEQUENCE_LOCKTIME_MASK;
     txToSequenceMasked = txToSequence & nLockTimeMask;  nSequenceMasked = nSequence & nLockTimeMask;
     if (!((both < SEQUENCE_LOCKTIME_TYPE_FLAG) || (both >= SEQUENCE_LOCKTIME_TYPE_FLAG))) return false;
     if (nSequenceMasked > txToSequenceMasked) return false; *)
Record txctx := mkTx { tx_version : Z; tx_locktime : Z; tx_sequence : Z }.
Definition LOCKTIME_THRESHOLD : Z := 500000000.
Definition SEQUENCE_FINAL : Z := 4294967295.
Definition SEQ_DISABLE : Z := 2147483648.      (* 1 << 31 *)
Definition SEQ_TYPE : Z := 4194304.            (* 1 << 22 *)
Definition SEQ_MASK : Z := 65535.

Definition check_locktime (tx : txctx) (n : Z) : bool :=
  (((tx_locktime tx <? LOCKTIME_THRESHOLD) && (n <? LOCKTIME_THRESHOLD)) ||
   ((LOCKTIME_THRESHOLD <=? tx_locktime tx) && (LOCKTIME_THRESHOLD <=? n))) &&
  (n <=? tx_locktime tx) && negb (tx_sequence tx =? SEQUENCE_FINAL).

Definition seq_masked (s : Z) : Z := Z.land s (SEQ_TYPE + SEQ_MASK).
Definition check_sequence (tx : txctx) (n : Z) : bool :=
  (2 <=? tx_version tx) && (Z.land (tx_sequence tx) SEQ_DISABLE =? 0) &&
  (((seq_masked (tx_sequence tx) <? SEQ_TYPE) && (seq_masked n <? SEQ_TYPE)) ||
   ((SEQ_TYPE <=? seq_masked (tx_sequence tx)) && (SEQ_TYPE <=? seq_masked n))) &&
  (seq_masked n <=? seq_masked (tx_sequence tx)).

(* ---------------------------------------------------------------------------------------------- *)
(* Miniscript policies (semantics only): can the spending conditions be met with what is available? *)
Inductive ms :=
| MPk (k : key) | MOlder (n : Z) | MAfter (n : Z) | MSha (h : nat)
| MAnd (a b : ms) | MOr (a b : ms) | MThresh (k : nat) (l : list ms) | MMulti (k : nat) (ks : list key).

Fixpoint ms_sat (P : provider) (pre : nat -> bool) (tx : txctx) (m : ms) : bool :=
  match m with
  | MPk k => has_priv P k
  | MOlder n => check_sequence tx n
  | MAfter n => check_locktime tx n
  | MSha h => pre h
  | MAnd a b => ms_sat P pre tx a && ms_sat P pre tx b
  | MOr a b => ms_sat P pre tx a || ms_sat P pre tx b
  | MThresh k l => (k <=? length (filter (fun b => b) (map (ms_sat P pre tx) l)))%nat
  | MMulti k ks => (k <=? length (avail_keys P ks))%nat
  end.

(* the report of the driver: ProduceSignature's `complete`, and the independent VerifyScript verdict *)
Definition report_ok (complete verify_ok : bool) : bool := implb complete verify_ok.
