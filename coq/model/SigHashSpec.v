(* Specification side of C10: WHAT each signature-hash algorithm commits to, as a projection
   ("view") of the signing context.  The commitment theorems (proofs/SigHash*.v) say that two
   contexts have the same preimage exactly when they have the same view: every field in the view
   is pinned by the digest, every field outside it is free.  Definitions only. *)
From Coq Require Import NArith.
From BV Require Import lib.Ints gen.Params_gen model.SerBase model.SerTx model.SigHash.
Local Open Scope Z_scope.

Definition outpoint_of (i : txin) : list N * Z := (in_hash i, in_n i).

(* ---- well-formedness of a signing context (what the C++ types guarantee) ---- *)
Definition len_ok {A} (b : list A) : Prop := Z.of_nat (length b) <= UINT64_MAX.
Definition ht32_ok (ht : Z) : Prop := INT32_MIN <= ht <= INT32_MAX.          (* int32_t nHashType *)
Definition amount_ok (a : Z) : Prop := INT64_MIN <= a <= INT64_MAX.          (* CAmount *)

(* ---- legacy: the transaction the reference SignatureHashOld (src/test/sighash_tests.cpp) builds ----
   other inputs' scripts blanked, this input's script = scriptCode without OP_CODESEPARATOR, other
   inputs' sequences zeroed under SINGLE/NONE, only this input under ANYONECANPAY, no outputs under
   NONE, outputs 0..nIn with all but the last nulled under SINGLE. *)
Definition legacy_blank_input (sc : list N) (nIn : nat) (zero_seq : bool) (k : nat) (i : txin) : txin :=
  mk_txin (in_hash i) (in_n i)
          (if (k =? nIn)%nat then strip_codeseparators sc else [])
          (if negb (k =? nIn)%nat && zero_seq then 0 else in_sequence i) [].
Definition legacy_single_output (nIn : nat) (k : nat) (o : txout) : txout :=
  if negb (k =? nIn)%nat then null_txout else o.

Inductive legacy_view_t : Type :=
| LvAssert
| LvOne                                 (* SIGHASH_SINGLE without matching output: nothing is committed *)
| LvTx (txtmp : tx) (ht : Z).           (* the digest is that of TX_NO_WITNESS(txtmp) followed by the hash type *)

Definition legacy_view (t : tx) (nIn : nat) (ht : Z) (sc : list N) : legacy_view_t :=
  match nth_error (tx_vin t) nIn with
  | None => LvAssert
  | Some me =>
    if ht_single ht && (length (tx_vout t) <=? nIn)%nat then LvOne
    else
      let zs := ht_single ht || ht_none ht in
      let vin' := if ht_acp ht then [legacy_blank_input sc nIn zs nIn me]
                  else mapi_from 0 (legacy_blank_input sc nIn zs) (tx_vin t) in
      let vout' := if ht_none ht then []
                   else if ht_single ht then mapi_from 0 (legacy_single_output nIn) (firstn (S nIn) (tx_vout t))
                   else tx_vout t in
      LvTx (mk_tx (tx_version t) vin' vout' (tx_locktime t)) ht
  end.

(* ---- BIP143 ---- *)
Inductive out_view : Type :=
| OutAll (l : list txout)               (* all outputs *)
| OutOne (o : option txout)             (* SINGLE: the output at the input's index, if there is one *)
| OutNone.                              (* NONE *)

Definition bip143_out_view (t : tx) (nIn : nat) (ht : Z) : out_view :=
  if negb (ht_single ht) && negb (ht_none ht) then OutAll (tx_vout t)
  else if ht_single ht then OutOne (nth_error (tx_vout t) nIn) else OutNone.

Record bip143_view_t : Type := mk_v143 {
  v143_version : Z;
  v143_prevouts : option (list (list N * Z));     (* all outpoints, unless ANYONECANPAY *)
  v143_sequences : option (list Z);               (* all sequences, only for ALL without ANYONECANPAY *)
  v143_outpoint : list N * Z;                     (* this input *)
  v143_script_code : list N;
  v143_amount : Z;
  v143_sequence : Z;
  v143_outputs : out_view;
  v143_locktime : Z;
  v143_hash_type : Z
}.

Definition bip143_view (t : tx) (nIn : nat) (ht : Z) (sc : list N) (amount : Z) : option bip143_view_t :=
  match nth_error (tx_vin t) nIn with
  | None => None
  | Some me =>
    Some (mk_v143 (tx_version t)
                  (if ht_acp ht then None else Some (map outpoint_of (tx_vin t)))
                  (if negb (ht_acp ht) && negb (ht_single ht) && negb (ht_none ht) then Some (map in_sequence (tx_vin t)) else None)
                  (outpoint_of me) sc amount (in_sequence me)
                  (bip143_out_view t nIn ht)
                  (tx_locktime t) ht)
  end.

(* ---- BIP341 / BIP342 ---- *)
Record tap_view_t : Type := mk_vtap {
  vt_hash_type : Z;
  vt_version : Z;
  vt_locktime : Z;
  (* unless ANYONECANPAY: all outpoints, all spent amounts, all spent scriptPubKeys, all sequences *)
  vt_all_inputs : option (list (list N * Z) * list Z * list (list N) * list Z);
  vt_all_outputs : option (list txout);           (* output type ALL (incl. DEFAULT) *)
  vt_annex : option (list N);                     (* presence and content *)
  (* ANYONECANPAY: this input's outpoint, spent output, sequence; otherwise its index *)
  vt_this_input : (list N * Z) * txout * Z + nat;
  vt_single_output : option txout;                (* output type SINGLE *)
  vt_leaf : option (list N * Z)                   (* tapscript: leaf hash and codeseparator position; also fixes ext_flag *)
}.

Inductive tap_view_res : Type := TvAssert | TvMissing | TvFail | TvOk (v : tap_view_t).

Definition taproot_view (t : tx) (nIn : nat) (ht : Z) (c : tap_ctx) : tap_view_res :=
  match nth_error (tx_vin t) nIn with
  | None => TvAssert
  | Some me =>
    match tc_spent c with
    | [] => TvMissing
    | _ :: _ =>
      match nth_error (tc_spent c) nIn with
      | None => TvAssert
      | Some spent_me =>
        if negb (length (tc_spent c) =? length (tx_vin t))%nat then TvAssert
        else if negb (tap_hash_type_valid ht) then TvFail
        else if (tap_output_type ht =? SIGHASH_SINGLE) && (length (tx_vout t) <=? nIn)%nat then TvFail
        else TvOk (mk_vtap ht (tx_version t) (tx_locktime t)
                    (if tap_acp ht then None
                     else Some (map outpoint_of (tx_vin t), map out_value (tc_spent c), map out_script (tc_spent c), map in_sequence (tx_vin t)))
                    (if tap_output_type ht =? SIGHASH_ALL then Some (tx_vout t) else None)
                    (tc_annex c)
                    (if tap_acp ht then inl (outpoint_of me, spent_me, in_sequence me) else inr nIn)
                    (if tap_output_type ht =? SIGHASH_SINGLE then nth_error (tx_vout t) nIn else None)
                    (tc_leaf c))
      end
    end
  end.

Definition tap_ctx_wf (c : tap_ctx) : Prop :=
  Forall txout_wf (tc_spent c) /\
  match tc_annex c with Some a => len_ok a | None => True end /\
  match tc_leaf c with Some (leaf, pos) => length leaf = 32%nat /\ 0 <= pos <= UINT32_MAX | None => True end.
