(* Amounts and block subsidy.  Transcribed from
     src/consensus/amount.h        MoneyRange
     src/validation.cpp            GetBlockSubsidy
   Executable definitions only (proofs are in proofs/AmountLemmas.v). *)
From BV Require Import lib.Ints lib.ChainParams gen.Params_gen.
Local Open Scope Z_scope.

(* inline bool MoneyRange(const CAmount& nValue) { return (nValue >= 0 && nValue <= MAX_MONEY); } *)
Definition money_range (v : Z) : bool := (0 <=? v) && (v <=? MAX_MONEY).

(* CAmount GetBlockSubsidy(int nHeight, const Consensus::Params& consensusParams)
   {
       int halvings = nHeight / consensusParams.nSubsidyHalvingInterval;   // int division: truncates
       if (halvings >= 64) return 0;
       CAmount nSubsidy = 50 * COIN;
       nSubsidy >>= halvings;
       return nSubsidy;
   } *)
Definition get_block_subsidy (interval height : Z) : Z :=
  let halvings := cdiv height interval in
  if halvings >=? 64 then 0
  else Z.shiftr (wrap64 (50 * COIN)) halvings.

Definition chain_subsidy (c : chain_params) (height : Z) : Z :=
  get_block_subsidy (cp_halving_interval c) height.

(* The specification the property states: 50 BTC shifted right once per completed halving
   interval, zero from the 64th halving on.  (1 BTC = 10^8 satoshi, written out, not COIN.) *)
Definition subsidy_spec (interval height : Z) : Z :=
  let k := height / interval in
  if k <? 64 then (50 * 100000000) / 2 ^ k else 0.

(* sum of f over heights 0 .. n-1 *)
Fixpoint sum_heights (f : Z -> Z) (n : nat) : Z :=
  match n with O => 0 | S m => sum_heights f m + f (Z.of_nat m) end.

(* Closed-form total used by the executable predicate of C31: interval * sum_{k<64} (50 BTC >> k) *)
Fixpoint sum_halvings (k : nat) : Z :=
  match k with O => 0 | S j => sum_halvings j + (50 * 100000000) / 2 ^ (Z.of_nat j) end.
Definition total_issuance_bound (interval : Z) : Z := interval * sum_halvings 64.
Definition TWENTY_ONE_MILLION_BTC : Z := 21000000 * 100000000.

(* Executable predicate evaluated on what the implementation returned (violation search):
   given the per-halving subsidies the implementation reported at heights k*interval (k<=64),
   recompute the total and compare with the cap. *)
Definition total_of_reported (interval : Z) (per_halving : list Z) : Z := interval * zsum per_halving.
Definition holds_total (interval : Z) (per_halving : list Z) : bool :=
  total_of_reported interval per_halving <? TWENTY_ONE_MILLION_BTC.
