(* Block index navigation and chain work.  Transcribed from
     src/chain.cpp   InvertLowestOne, GetSkipHeight, CBlockIndex::GetAncestor, CBlockIndex::BuildSkip,
                     LocatorEntries, CChain::SetTip, CChain::FindFork, LastCommonAncestor, GetBitsProof
     src/chain.h     CChain::Contains / Height / operator[]
     src/node/blockstorage.cpp  BlockManager::AddToBlockIndex (nChainWork accumulation)
   Executable definitions only (proofs are in proofs/ChainNavLemmas.v).

   A block tree is a list of nodes; a block's identity is its position in the list (the order in
   which blocks were added), pointers are positions.  pskip is STORED in the node and computed by
   build_skip with the GetAncestor algorithm, exactly as BuildSkip does. *)
From BV Require Import lib.Ints model.Pow.
Local Open Scope Z_scope.

Record node := { nd_parent : option nat; nd_height : Z; nd_skip : option nat; nd_bits : Z; nd_work : Z }.
Definition tree := list node.
Definition get_node (t : tree) (i : nat) : option node := nth_error t i.

(* int static inline InvertLowestOne(int n) { return n & (n - 1); } *)
Definition invert_lowest_one (n : Z) : Z := Z.land n (n - 1).

(* int static inline GetSkipHeight(int height) {
       if (height < 2) return 0;
       return (height & 1) ? InvertLowestOne(InvertLowestOne(height - 1)) + 1 : InvertLowestOne(height);
   } *)
Definition get_skip_height (height : Z) : Z :=
  if height <? 2 then 0
  else if negb (Z.land height 1 =? 0) then invert_lowest_one (invert_lowest_one (height - 1)) + 1
  else invert_lowest_one height.

(* const CBlockIndex* CBlockIndex::GetAncestor(int height) const
   {
       if (height > nHeight || height < 0) return nullptr;
       const CBlockIndex* pindexWalk = this;
       int heightWalk = nHeight;
       while (heightWalk > height) {
           int heightSkip = GetSkipHeight(heightWalk);
           int heightSkipPrev = GetSkipHeight(heightWalk - 1);
           if (pindexWalk->pskip != nullptr &&
               (heightSkip == height ||
                (heightSkip > height && !(heightSkipPrev < heightSkip - 2 &&
                                          heightSkipPrev >= height)))) {
               pindexWalk = pindexWalk->pskip;
               heightWalk = heightSkip;
           } else {
               assert(pindexWalk->pprev);
               pindexWalk = pindexWalk->pprev;
               heightWalk--;
           }
       }
       return pindexWalk;
   }
   PNull = nullptr returned; PBug = assert failure / dangling position / out of fuel. *)
Inductive ptr := PBlock (i : nat) | PNull | PBug.

Fixpoint get_ancestor_loop (t : tree) (fuel : nat) (walk : nat) (height_walk height : Z) : ptr :=
  match fuel with
  | O => PBug
  | S f =>
    if height_walk >? height then
      match get_node t walk with
      | None => PBug
      | Some nd =>
        let height_skip := get_skip_height height_walk in
        let height_skip_prev := get_skip_height (height_walk - 1) in
        (* a thunk, so that the extracted (strict) code evaluates only the branch taken *)
        let follow_prev := fun (_ : unit) =>
          match nd_parent nd with
          | Some p => get_ancestor_loop t f p (height_walk - 1) height
          | None => PBug
          end in
        match nd_skip nd with
        | Some sk =>
          if (height_skip =? height)
             || ((height_skip >? height)
                 && negb ((height_skip_prev <? height_skip - 2) && (height_skip_prev >=? height)))
          then get_ancestor_loop t f sk height_skip height
          else follow_prev tt
        | None => follow_prev tt
        end
      end
    else PBlock walk
  end.

Definition get_ancestor (t : tree) (b : nat) (height : Z) : ptr :=
  match get_node t b with
  | None => PBug
  | Some nd =>
    if (height >? nd_height nd) || (height <? 0) then PNull
    else get_ancestor_loop t (S (Z.to_nat (nd_height nd))) b (nd_height nd) height
  end.

(* arith_uint256 GetBitsProof(uint32_t bits)
   {
       bnTarget.SetCompact(bits, &fNegative, &fOverflow);
       if (fNegative || fOverflow || bnTarget == 0) return 0;
       return (~bnTarget / (bnTarget + 1)) + 1;
   }
   ~ is 256-bit complement; + wraps at 2^256; / by zero throws (None). *)
Definition not256 (x : Z) : Z := 2 ^ 256 - 1 - x.
Definition get_bits_proof (bits : Z) : option Z :=
  let d := set_compact bits in
  if cd_negative d || cd_overflow d || (cd_value d =? 0) then Some 0
  else
    let den := wrap256 (cd_value d + 1) in
    if den =? 0 then None else Some (wrap256 (not256 (cd_value d) / den + 1)).

(* Adding a block (what the node does when it creates a CBlockIndex: set pprev, nHeight, then
   BuildSkip, then nChainWork):
       void CBlockIndex::BuildSkip() { if (pprev) pskip = pprev->GetAncestor(GetSkipHeight(nHeight)); }
       pindexNew->nChainWork = (pindexNew->pprev ? pindexNew->pprev->nChainWork : 0) + GetBlockProof( *pindexNew);
   A parent position that does not exist leaves the tree unchanged. *)
Definition ptr_opt (p : ptr) : option nat := match p with PBlock i => Some i | _ => None end.

Definition add_block (t : tree) (parent : option nat) (bits : Z) : tree :=
  let proof := match get_bits_proof bits with Some p => p | None => 0 end in
  match parent with
  | None => t ++ [{| nd_parent := None; nd_height := 0; nd_skip := None; nd_bits := bits; nd_work := wrap256 (0 + proof) |}]
  | Some p =>
    match get_node t p with
    | None => t
    | Some pn =>
      let h := nd_height pn + 1 in
      t ++ [{| nd_parent := Some p; nd_height := h;
               nd_skip := ptr_opt (get_ancestor t p (get_skip_height h));
               nd_bits := bits; nd_work := wrap256 (nd_work pn + proof) |}]
    end
  end.

Definition build_tree (blocks : list (option nat * Z)) : tree :=
  fold_left (fun t pb => add_block t (fst pb) (snd pb)) blocks [].

(* ---- specification side: the naive parent walk ---- *)
Fixpoint walk_up (t : tree) (b : nat) (k : nat) : option nat :=
  match k with
  | O => Some b
  | S k' => match get_node t b with
            | Some nd => match nd_parent nd with Some p => walk_up t p k' | None => None end
            | None => None
            end
  end.

Definition height_of_block (t : tree) (b : nat) : option Z := option_map nd_height (get_node t b).

(* the block at height h on the path from b to the root *)
Definition ancestor_spec (t : tree) (b : nat) (h : Z) : option nat :=
  match get_node t b with
  | Some nd => if (0 <=? h) && (h <=? nd_height nd) then walk_up t b (Z.to_nat (nd_height nd - h)) else None
  | None => None
  end.

(* std::vector<uint256> LocatorEntries(const CBlockIndex* index)
   {
       int step = 1;
       std::vector<uint256> have;
       if (index == nullptr) return have;
       while (index) {
           have.emplace_back(index->GetBlockHash());
           if (index->nHeight == 0) break;
           int height = std::max(index->nHeight - step, 0);
           index = index->GetAncestor(height);
           if (have.size() > 10) step *= 2;
       }
       return have;
   }
   have is accumulated in reverse; None = a bug outcome (dangling pointer / out of fuel). *)
Fixpoint locator_loop (t : tree) (fuel : nat) (index : nat) (step : Z) (have_rev : list nat) : option (list nat) :=
  match fuel with
  | O => None
  | S f =>
    match get_node t index with
    | None => None
    | Some nd =>
      let have_rev := index :: have_rev in
      if nd_height nd =? 0 then Some (rev have_rev)
      else
        let height := Z.max (nd_height nd - step) 0 in
        let step' := if Z.of_nat (length have_rev) >? 10 then wrap32 (step * 2) else step in
        match get_ancestor t index height with
        | PBlock a => locator_loop t f a step' have_rev
        | PNull => Some (rev have_rev)          (* while (index) ends *)
        | PBug => None
        end
    end
  end.

Definition locator_entries (t : tree) (b : nat) : option (list nat) :=
  match get_node t b with
  | None => None
  | Some nd => locator_loop t (S (Z.to_nat (nd_height nd))) b 1 []
  end.

(* the heights a locator must contain, as plain arithmetic: start at h, go back by step, the step
   doubles once more than 10 entries have been produced, genesis is always last *)
Fixpoint locator_heights_from (fuel : nat) (h step : Z) (count : Z) : list Z :=
  match fuel with
  | O => []
  | S f =>
    if h =? 0 then [0]
    else h :: locator_heights_from f (Z.max (h - step) 0) (if count + 1 >? 10 then step * 2 else step) (count + 1)
  end.
Definition locator_heights (h : Z) : list Z := locator_heights_from (S (Z.to_nat h)) h 1 0.

(* CChain: vChain[h] = the block of the active chain at height h.
   void CChain::SetTip(CBlockIndex& block)
   {
       CBlockIndex* pindex = &block;
       vChain.resize(pindex->nHeight + 1);
       while (pindex && vChain[pindex->nHeight] != pindex) {
           vChain[pindex->nHeight] = pindex;
           pindex = pindex->pprev;
       }
   }
   Modelled from an empty vChain (every slot is written): the blocks from the tip down, reversed. *)
Fixpoint path_down (t : tree) (fuel : nat) (b : nat) : list nat :=
  match fuel with
  | O => []
  | S f => b :: match get_node t b with
                | Some nd => match nd_parent nd with Some p => path_down t f p | None => [] end
                | None => []
                end
  end.
Definition set_tip (t : tree) (tip : nat) : list nat :=
  match get_node t tip with
  | Some nd => rev (path_down t (S (Z.to_nat (nd_height nd))) tip)
  | None => []
  end.

(* bool Contains(const CBlockIndex& index) const { return ( *this)[index.nHeight] == &index; }
   CBlockIndex* operator[](int nHeight) const { if (nHeight < 0 || nHeight >= (int)vChain.size()) return nullptr; return vChain[nHeight]; }
   int Height() const { return int(vChain.size()) - 1; } *)
Definition chain_at (vchain : list nat) (h : Z) : option nat :=
  if (h <? 0) || (h >=? Z.of_nat (length vchain)) then None else nth_error vchain (Z.to_nat h).
Definition chain_contains (t : tree) (vchain : list nat) (b : nat) : bool :=
  match get_node t b with
  | Some nd => match chain_at vchain (nd_height nd) with Some x => Nat.eqb x b | None => false end
  | None => false
  end.
Definition chain_height (vchain : list nat) : Z := Z.of_nat (length vchain) - 1.

(* const CBlockIndex* CChain::FindFork(const CBlockIndex& index) const
   {
       const auto* pindex{&index};
       if (pindex->nHeight > Height()) pindex = pindex->GetAncestor(Height());
       while (pindex && !Contains( *pindex)) pindex = pindex->pprev;
       return pindex;
   } *)
Fixpoint find_fork_loop (t : tree) (vchain : list nat) (fuel : nat) (p : nat) : ptr :=
  match fuel with
  | O => PBug
  | S f =>
    if chain_contains t vchain p then PBlock p
    else match get_node t p with
         | Some nd => match nd_parent nd with Some q => find_fork_loop t vchain f q | None => PNull end
         | None => PBug
         end
  end.

Definition find_fork (t : tree) (vchain : list nat) (b : nat) : ptr :=
  match get_node t b with
  | None => PBug
  | Some nd =>
    let start := if nd_height nd >? chain_height vchain then get_ancestor t b (chain_height vchain) else PBlock b in
    match start with
    | PBlock p => find_fork_loop t vchain (S (Z.to_nat (nd_height nd))) p
    | other => other
    end
  end.

(* const CBlockIndex* LastCommonAncestor(const CBlockIndex* pa, const CBlockIndex* pb) {
       if (pa->nHeight > pb->nHeight) pa = pa->GetAncestor(pb->nHeight);
       else if (pb->nHeight > pa->nHeight) pb = pb->GetAncestor(pa->nHeight);
       while (pa != pb) {
           while (pa->pskip != pb->pskip) { pa = pa->pskip; pb = pb->pskip; }
           pa = pa->pprev; pb = pb->pprev;
       }
       return pa;
   }
   The two nested loops are one state machine on (pa, pb): equal -> return; pskip differ -> both
   jump; otherwise both step to pprev.  Pointers are options here (None = nullptr): comparing two
   nullptr pskip is "equal"; dereferencing nullptr is PBug. *)
Definition opt_nat_eqb (a b : option nat) : bool :=
  match a, b with
  | Some x, Some y => Nat.eqb x y
  | None, None => true
  | _, _ => false
  end.

Fixpoint lca_loop (t : tree) (fuel : nat) (pa pb : option nat) : ptr :=
  match fuel with
  | O => PBug
  | S f =>
    if opt_nat_eqb pa pb then (match pa with Some a => PBlock a | None => PNull end)
    else match pa, pb with
         | Some a, Some b =>
           match get_node t a, get_node t b with
           | Some na, Some nb =>
             if negb (opt_nat_eqb (nd_skip na) (nd_skip nb)) then
               (* inner loop body: pa->pskip / pb->pskip are dereferenced next, so both must be non-null *)
               match nd_skip na, nd_skip nb with
               | Some sa, Some sb => lca_loop t f (Some sa) (Some sb)
               | _, _ => PBug
               end
             else lca_loop t f (nd_parent na) (nd_parent nb)
           | _, _ => PBug
           end
         | _, _ => PBug   (* one side ran past its root: nullptr dereference *)
         end
  end.

Definition last_common_ancestor (t : tree) (a b : nat) : ptr :=
  match get_node t a, get_node t b with
  | Some na, Some nb =>
    let pa := if nd_height na >? nd_height nb then get_ancestor t a (nd_height nb) else PBlock a in
    let pb := if nd_height nb >? nd_height na then get_ancestor t b (nd_height na) else PBlock b in
    match pa, pb with
    | PBlock x, PBlock y => lca_loop t (S (2 * Z.to_nat (Z.min (nd_height na) (nd_height nb)))) (Some x) (Some y)
    | _, _ => PBug
    end
  | _, _ => PBug
  end.

(* specification: r is an ancestor of both, and no common ancestor is higher *)
Definition is_common_ancestor (t : tree) (a b r : nat) : Prop :=
  exists h, height_of_block t r = Some h /\ ancestor_spec t a h = Some r /\ ancestor_spec t b h = Some r.
