(* C49 — HMAC and HKDF.
   Specification: RFC 2104 section 2 (HMAC over any iterated hash H with block size B) and RFC 5869
   sections 2.2 / 2.3 (HKDF-Extract, HKDF-Expand for any output length L).
   Model: CHMAC_SHA256 / CHMAC_SHA512 (src/crypto/hmac_sha256.cpp, hmac_sha512.cpp; same text up to
   the sizes) on top of the streaming hasher objects, and CHKDF_HMAC_SHA256_L32.

     CHMAC_SHA256::CHMAC_SHA256(const unsigned char* key, size_t keylen)
     {
         unsigned char rkey[64];
         if (keylen <= 64) {
             memcpy(rkey, key, keylen);
             memset(rkey + keylen, 0, 64 - keylen);
         } else {
             CSHA256().Write(key, keylen).Finalize(rkey);
             memset(rkey + 32, 0, 32);
         }
         for (int n = 0; n < 64; n++) rkey[n] ^= 0x5c;
         outer.Write(rkey, 64);
         for (int n = 0; n < 64; n++) rkey[n] ^= 0x5c ^ 0x36;
         inner.Write(rkey, 64);
     }
     Write(data, len) { inner.Write(data, len); }
     void CHMAC_SHA256::Finalize(unsigned char hash[OUTPUT_SIZE])
     {
         unsigned char temp[32];
         inner.Finalize(temp);
         outer.Write(temp, 32).Finalize(hash);
     }
   Executable definitions only. *)
From Coq Require Import NArith.
From BV Require Import lib.Ints model.CryptoBase.
Local Open Scope Z_scope.

(* ---------------- RFC 2104 ---------------- *)
Section HMACSpec.
  Variable H : list N -> list N.     (* the hash function *)
  Variable B : nat.                  (* its block size in bytes *)

  (* "ipad = the byte 0x36 repeated B times, opad = the byte 0x5C repeated B times" *)
  Definition ipad : list N := repeat 54%N B.
  Definition opad : list N := repeat 92%N B.

  (* "Applications that use keys longer than B bytes will first hash the key using H";
     "(1) append zeros to the end of K to create a B byte string" *)
  Definition hmac_key (key : list N) : list N :=
    let k0 := if (B <? length key)%nat then H key else key in
    k0 ++ zeros (B - length k0).

  (* H(K XOR opad, H(K XOR ipad, text)) *)
  Definition hmac_spec (key text : list N) : list N :=
    let k := hmac_key key in
    H (xor_bytes k opad ++ H (xor_bytes k ipad ++ text)).

  (* ---------------- RFC 5869 ---------------- *)
  Variable HashLen : nat.

  (* 2.2  PRK = HMAC-Hash(salt, IKM) *)
  Definition hkdf_extract_spec (salt ikm : list N) : list N := hmac_spec salt ikm.

  (* 2.3  N = ceil(L/HashLen); T(0) = empty, T(i) = HMAC-Hash(PRK, T(i-1) | info | i);
          OKM = first L octets of T(1) | T(2) | ... | T(N) *)
  Fixpoint hkdf_T (prk info : list N) (i : nat) : list N :=
    match i with
    | O => []
    | S j => hmac_spec prk (hkdf_T prk info j ++ info ++ [N.of_nat i])
    end.
  Definition hkdf_expand_spec (prk info : list N) (L : nat) : list N :=
    let n := ((L + HashLen - 1) / HashLen)%nat in
    firstn L (concat (map (hkdf_T prk info) (seq 1 n))).

  Definition hkdf_spec (salt ikm info : list N) (L : nat) : list N :=
    hkdf_expand_spec (hkdf_extract_spec salt ikm) info L.
End HMACSpec.

(* ---------------- the C++ objects ---------------- *)
Section HMACModel.
  Variable Hs : Type.                          (* CSHA256 / CSHA512 object *)
  Variable hinit : Hs.                         (* freshly constructed *)
  Variable hwrite : Hs -> list N -> Hs.
  Variable hfinal : Hs -> list N.
  Variable B : nat.                            (* 64 / 128: sizeof(rkey) *)
  Variable OUT : nat.                          (* 32 / 64: the digest size, offset of the memset in the long-key branch *)

  Record chmac : Type := { hm_outer : Hs; hm_inner : Hs }.

  Definition chmac_init (key : list N) : chmac :=
    let keylen := length key in
    let rkey :=
      if (keylen <=? B)%nat then key ++ zeros (B - keylen)       (* memcpy; memset(rkey + keylen, 0, B - keylen) *)
      else hfinal (hwrite hinit key) ++ zeros (B - OUT) in       (* H().Write(key).Finalize(rkey); memset(rkey + OUT, 0, B - OUT) *)
    let rkey1 := map (fun b => N.lxor b 92%N) rkey in            (* rkey[n] ^= 0x5c *)
    let outer := hwrite hinit rkey1 in
    let rkey2 := map (fun b => N.lxor b (N.lxor 92 54)%N) rkey1 in   (* rkey[n] ^= 0x5c ^ 0x36 *)
    let inner := hwrite hinit rkey2 in
    {| hm_outer := outer; hm_inner := inner |}.

  Definition chmac_write (h : chmac) (data : list N) : chmac :=
    {| hm_outer := hm_outer h; hm_inner := hwrite (hm_inner h) data |}.

  Definition chmac_finalize (h : chmac) : list N :=
    let temp := hfinal (hm_inner h) in
    hfinal (hwrite (hm_outer h) temp).

  Definition chmac_stream (key : list N) (chunks : list (list N)) : list N :=
    chmac_finalize (fold_left chmac_write chunks (chmac_init key)).

  (* CHKDF_HMAC_SHA256_L32(ikm, ikmlen, salt) { CHMAC_SHA256(salt).Write(ikm, ikmlen).Finalize(m_prk); }
     Expand32(info, hash) { assert(info.size() <= 128); static const unsigned char one[1] = {1};
                            CHMAC_SHA256(m_prk, 32).Write(info).Write(one, 1).Finalize(hash); } *)
  Definition chkdf_init (ikm salt : list N) : list N := chmac_stream salt [ikm].
  Definition chkdf_expand32 (m_prk info : list N) : list N := chmac_stream m_prk [info; [1%N]].
  Definition chkdf (ikm salt info : list N) : list N := chkdf_expand32 (chkdf_init ikm salt) info.
End HMACModel.

Arguments hm_outer {Hs}.
Arguments hm_inner {Hs}.
