(* BIP158 Golomb-coded set: bit streams, Golomb-Rice coding, GCSFilter build / match.
   Transcribed from src/streams.h (BitStreamWriter, BitStreamReader), src/util/golombrice.h,
   src/util/fastrange.h, src/blockfilter.cpp.  Executable definitions only.
   The keyed SipHash of an element is a parameter `sip` of the functions. *)
From BV Require Import lib.Ints.
From Coq Require Import Sorting.Mergesort Orders.
Local Open Scope Z_scope.

(* ---------------------------------------------------------------------------------------------
   BitStreamWriter: m_ostream (bytes written so far), uint8_t m_buffer, int m_offset *)
Record bitwriter := { bw_out : list Z; bw_buffer : Z; bw_offset : Z }.
Definition bw_init : bitwriter := {| bw_out := []; bw_buffer := 0; bw_offset := 0 |}.

(* void Flush() { if (m_offset == 0) return; m_ostream << m_buffer; m_buffer = 0; m_offset = 0; } *)
Definition bw_flush (w : bitwriter) : bitwriter :=
  if bw_offset w =? 0 then w
  else {| bw_out := bw_out w ++ [bw_buffer w]; bw_buffer := 0; bw_offset := 0 |}.

(* void Write(uint64_t data, int nbits) {
       if (nbits < 0 || nbits > 64) throw std::out_of_range(...);
       while (nbits > 0) {
           int bits = std::min(8 - m_offset, nbits);
           m_buffer |= (data << (64 - nbits)) >> (64 - 8 + m_offset);
           m_offset += bits;
           nbits -= bits;
           if (m_offset == 8) Flush();
       }
   }
   fuel: every round consumes at least one bit (m_offset < 8), so nbits rounds are enough *)
Fixpoint bw_write_loop (fuel : nat) (w : bitwriter) (data nbits : Z) : option bitwriter :=
  if nbits <=? 0 then Some w else
  match fuel with
  | O => None
  | S f =>
    let bits := Z.min (8 - bw_offset w) nbits in
    let buffer := wrapu8 (Z.lor (bw_buffer w)
                                (Z.shiftr (wrapu64 (Z.shiftl data (64 - nbits))) (64 - 8 + bw_offset w))) in
    let w1 := {| bw_out := bw_out w; bw_buffer := buffer; bw_offset := bw_offset w + bits |} in
    let w2 := if bw_offset w1 =? 8 then bw_flush w1 else w1 in
    bw_write_loop f w2 data (nbits - bits)
  end.
Definition bw_write (w : bitwriter) (data nbits : Z) : option bitwriter :=
  if (nbits <? 0) || (nbits >? 64) then None    (* throws *)
  else bw_write_loop (Z.to_nat nbits) w data nbits.

(* BitStreamReader: m_istream (bytes not yet read), uint8_t m_buffer, int m_offset{8} *)
Record bitreader := { br_in : list Z; br_buffer : Z; br_offset : Z }.
Definition br_init (bytes : list Z) : bitreader := {| br_in := bytes; br_buffer := 0; br_offset := 8 |}.

(* uint64_t Read(int nbits) {
       if (nbits < 0 || nbits > 64) throw ...;
       uint64_t data = 0;
       while (nbits > 0) {
           if (m_offset == 8) { m_istream >> m_buffer; m_offset = 0; }      // throws at end of data
           int bits = std::min(8 - m_offset, nbits);
           data <<= bits;
           data |= static_cast<uint8_t>(m_buffer << m_offset) >> (8 - bits);
           m_offset += bits;
           nbits -= bits;
       }
       return data;
   } *)
Fixpoint br_read_loop (fuel : nat) (r : bitreader) (data nbits : Z) : option (Z * bitreader) :=
  if nbits <=? 0 then Some (data, r) else
  match fuel with
  | O => None
  | S f =>
    let refill := if br_offset r =? 8
                  then match br_in r with
                       | [] => None                                   (* end of data: exception *)
                       | b :: rest => Some {| br_in := rest; br_buffer := b; br_offset := 0 |}
                       end
                  else Some r in
    match refill with
    | None => None
    | Some r1 =>
      let bits := Z.min (8 - br_offset r1) nbits in
      let data1 := Z.lor (wrapu64 (Z.shiftl data bits))
                         (Z.shiftr (wrapu8 (Z.shiftl (br_buffer r1) (br_offset r1))) (8 - bits)) in
      br_read_loop f {| br_in := br_in r1; br_buffer := br_buffer r1; br_offset := br_offset r1 + bits |}
                   data1 (nbits - bits)
    end
  end.
Definition br_read (r : bitreader) (nbits : Z) : option (Z * bitreader) :=
  if (nbits <? 0) || (nbits >? 64) then None
  else br_read_loop (Z.to_nat nbits) r 0 nbits.

(* ---------------------------------------------------------------------------------------------
   void GolombRiceEncode(BitStreamWriter& bitwriter, uint8_t P, uint64_t x) {
       uint64_t q = x >> P;
       while (q > 0) { int nbits = q <= 64 ? static_cast<int>(q) : 64; bitwriter.Write(~0ULL, nbits); q -= nbits; }
       bitwriter.Write(0, 1);
       bitwriter.Write(x, P);
   }
   (x >> P with P >= 64 is undefined: None) *)
Fixpoint golomb_unary (fuel : nat) (w : bitwriter) (q : Z) : option bitwriter :=
  if q <=? 0 then Some w else
  match fuel with
  | O => None
  | S f =>
    let nbits := if q <=? 64 then q else 64 in
    match bw_write w UINT64_MAX nbits with
    | None => None
    | Some w1 => golomb_unary f w1 (q - nbits)
    end
  end.

Definition golomb_rice_encode (w : bitwriter) (P x : Z) : option bitwriter :=
  if (P <? 0) || (P >=? 64) then None else
  let q := Z.shiftr x P in
  match golomb_unary (Z.to_nat (q / 64 + 1)) w q with
  | None => None
  | Some w1 =>
    match bw_write w1 0 1 with
    | None => None
    | Some w2 => bw_write w2 x P
    end
  end.

(* uint64_t GolombRiceDecode(BitStreamReader& bitreader, uint8_t P) {
       uint64_t q = 0;
       while (bitreader.Read(1) == 1) ++q;
       uint64_t r = bitreader.Read(P);
       return (q << P) + r;
   }
   fuel for the unary part: the number of bits still in the stream plus one *)
Fixpoint golomb_unary_read (fuel : nat) (r : bitreader) (q : Z) : option (Z * bitreader) :=
  match fuel with
  | O => None
  | S f =>
    match br_read r 1 with
    | None => None
    | Some (b, r1) => if b =? 1 then golomb_unary_read f r1 (wrapu64 (q + 1)) else Some (q, r1)
    end
  end.

(* fuel = bound on the length of the unary part (any number >= bits left in the stream + 1) *)
Definition golomb_rice_decode_fuel (fuel : nat) (r : bitreader) (P : Z) : option (Z * bitreader) :=
  if (P <? 0) || (P >=? 64) then None else
  match golomb_unary_read fuel r 0 with
  | None => None
  | Some (q, r1) =>
    match br_read r1 P with
    | None => None
    | Some (rem, r2) => Some (wrapu64 (wrapu64 (Z.shiftl q P) + rem), r2)
    end
  end.
Definition stream_fuel (bytes : list Z) : nat := 8 * length bytes + 9.
Definition golomb_rice_decode (r : bitreader) (P : Z) : option (Z * bitreader) :=
  golomb_rice_decode_fuel (stream_fuel (br_in r)) r P.

(* ---------------------------------------------------------------------------------------------
   GCSFilter *)
Module ZOrder <: TotalLeBool.
  Definition t := Z.
  Definition leb := Z.leb.
  Theorem leb_total : forall a1 a2, leb a1 a2 = true \/ leb a2 a1 = true.
  Proof. intros a1 a2. unfold leb. destruct (Z.leb_spec a1 a2); [left; reflexivity | right; apply Z.leb_le; lia]. Qed.
End ZOrder.
Module ZSort := Sort ZOrder.

(* void WriteCompactSize(stream, uint64_t nSize) for nSize < 2^32 (m_N is uint32_t) *)
Definition le_bytes (n : nat) (x : Z) : list Z :=
  map (fun i => Z.land (Z.shiftr x (8 * Z.of_nat i)) 255) (seq 0 n).
Definition compact_size (n : Z) : list Z :=
  if n <? 253 then [n]
  else if n <=? 0xFFFF then 253 :: le_bytes 2 n
  else if n <=? 0xFFFFFFFF then 254 :: le_bytes 4 n
  else 255 :: le_bytes 8 n.

Section Gcs.
Variable K : Type.                 (* Element = std::vector<unsigned char> *)
Variable sip : K -> Z.             (* CSipHasher(k0, k1).Write(element).Finalize(), a uint64 *)
Variable P : Z.                    (* m_params.m_P (uint8_t) *)
Variable M : Z.                    (* m_params.m_M (uint32_t) *)

(* static inline uint64_t FastRange64(uint64_t x, uint64_t n) { return ((unsigned __int128)x * n) >> 64; } *)
Definition fast_range64 (x n : Z) : Z := Z.shiftr (wrapu64 x * wrapu64 n) 64.

(* uint64_t GCSFilter::HashToRange(const Element& element) const { return FastRange64(hash, m_F); } *)
Definition hash_to_range (F : Z) (e : K) : Z := fast_range64 (sip e) F.

(* std::vector<uint64_t> BuildHashedSet(elements): hash each, std::sort *)
Definition build_hashed_set (F : Z) (elements : list K) : list Z :=
  ZSort.sort (map (hash_to_range F) elements).

(* the loop of the constructor:
       uint64_t last_value = 0;
       for (uint64_t value : BuildHashedSet(elements)) {
           uint64_t delta = value - last_value;
           GolombRiceEncode(bitwriter, m_params.m_P, delta);
           last_value = value;
       } *)
Fixpoint encode_deltas (w : bitwriter) (last : Z) (values : list Z) : option bitwriter :=
  match values with
  | [] => Some w
  | v :: rest =>
    match golomb_rice_encode w P (wrapu64 (v - last)) with
    | None => None
    | Some w1 => encode_deltas w1 v rest
    end
  end.

Record gcs := { gcs_n : Z; gcs_f : Z; gcs_stream : list Z (* the bytes after the CompactSize(N) prefix *) }.
Definition gcs_encoded (g : gcs) : list Z := compact_size (gcs_n g) ++ gcs_stream g.

(* GCSFilter::GCSFilter(const Params& params, const ElementSet& elements)
   {
       size_t N = elements.size(); m_N = static_cast<uint32_t>(N);
       if (m_N != N) throw std::invalid_argument("N must be <2^32");
       m_F = static_cast<uint64_t>(m_N) * static_cast<uint64_t>(m_params.m_M);
       WriteCompactSize(stream, m_N);
       if (elements.empty()) return;
       BitStreamWriter bitwriter{stream};
       ...loop...
       bitwriter.Flush();
   }
   `elements` is the content of the unordered_set (distinct elements, any order). *)
Definition gcs_build (elements : list K) : option gcs :=
  let N := Z.of_nat (length elements) in
  if N >? UINT32_MAX then None else
  let F := wrapu64 (N * wrapu32 M) in
  match elements with
  | [] => Some {| gcs_n := N; gcs_f := F; gcs_stream := [] |}
  | _ =>
    match encode_deltas bw_init 0 (build_hashed_set F elements) with
    | None => None
    | Some w => Some {| gcs_n := N; gcs_f := F; gcs_stream := bw_out (bw_flush w) |}
    end
  end.

(* the inner `while (true)` of MatchInternal for one decoded value:
       if (hashes_index == size) return false;
       else if (element_hashes[hashes_index] == value) return true;
       else if (element_hashes[hashes_index] > value) break;
       hashes_index++;
   result: inl answer (return), inr remaining queries (break) *)
Fixpoint match_advance (queries : list Z) (value : Z) : bool + list Z :=
  match queries with
  | [] => inl false
  | q :: rest =>
    if q =? value then inl true
    else if q >? value then inr queries
    else match_advance rest value
  end.

(* bool GCSFilter::MatchInternal(const uint64_t* element_hashes, size_t size) const:
       for (uint32_t i = 0; i < m_N; ++i) { delta = GolombRiceDecode(...); value += delta; ...while... }
       return false;
   (fuel: the unary-part bound of golomb_rice_decode_fuel, computed once from the whole stream) *)
Fixpoint match_loop (fuel : nat) (n : nat) (r : bitreader) (value : Z) (queries : list Z) : option bool :=
  match n with
  | O => Some false
  | S n' =>
    match golomb_rice_decode_fuel fuel r P with
    | None => None                               (* std::ios_base::failure *)
    | Some (delta, r1) =>
      let value1 := wrapu64 (value + delta) in
      match match_advance queries value1 with
      | inl b => Some b
      | inr queries1 => match_loop fuel n' r1 value1 queries1
      end
    end
  end.

Definition gcs_match_internal (g : gcs) (queries : list Z) : option bool :=
  match_loop (stream_fuel (gcs_stream g)) (Z.to_nat (gcs_n g)) (br_init (gcs_stream g)) 0 queries.

(* bool GCSFilter::Match(const Element& element) const *)
Definition gcs_match (g : gcs) (e : K) : option bool :=
  gcs_match_internal g [hash_to_range (gcs_f g) e].

(* bool GCSFilter::MatchAny(const ElementSet& elements) const *)
Definition gcs_match_any (g : gcs) (elements : list K) : option bool :=
  gcs_match_internal g (build_hashed_set (gcs_f g) elements).

End Gcs.
