(* C20  UTXO snapshot activation.  Transcribed from
     src/node/utxo_snapshot.h      SnapshotMetadata::Unserialize (magic, version, network magic, base block hash, coins count)
     src/validation.cpp            ChainstateManager::ActivateSnapshot, PopulateAndValidateSnapshot, MaybeValidateSnapshot
     src/coins.cpp                 CCoinsViewCache::EmplaceCoinInternalDANGER (try_emplace: the first coin of an outpoint stays)
     src/kernel/coinstats.cpp      ComputeUTXOStats(HASH_SERIALIZED): TxOutSer of every coin in (txid, n) order into a HashWriter
   Executable definitions only (proofs are in proofs/Snapshot*.v).  The per-coin decoder (Coin::Unserialize:
   VARINT code, compressed amount, compressed script) is the one of model/Compress.v.
   The UTXO hash function is a Section variable (instantiated with SHA256d for the extracted model). *)
From Coq Require Import NArith.
From BV Require Import lib.Ints gen.Params_gen model.SerBase model.SerTx model.Compress model.CompressEC model.CryptoSHA256.
Local Open Scope Z_scope.

(* inline constexpr std::array<uint8_t, 5> SNAPSHOT_MAGIC_BYTES = {'u', 't', 'x', 'o', 0xff};   static constexpr uint16_t VERSION{2}; *)
Definition SNAPSHOT_MAGIC_BYTES : list N := [117; 116; 120; 111; 255]%N.
Definition SNAPSHOT_VERSION : Z := 2.

Record smeta : Type := mk_smeta { sm_base : list N (* m_base_blockhash, 32 bytes *); sm_count : Z (* m_coins_count, uint64 *) }.

Inductive meta_err : Set := MMagic | MVersion | MNetwork | MEof.
Inductive mres : Type := MOk (m : smeta) (rest : list N) | MErr (e : meta_err).

Fixpoint bytes_eq (a b : list N) : bool :=
  match a, b with
  | [], [] => true
  | x :: a', y :: b' => (x =? y)%N && bytes_eq a' b'
  | _, _ => false
  end.

(* template <typename Stream> inline void Unserialize(Stream& s) {
       std::array<uint8_t, SNAPSHOT_MAGIC_BYTES.size()> snapshot_magic;  s >> snapshot_magic;
       if (snapshot_magic != SNAPSHOT_MAGIC_BYTES) throw std::ios_base::failure("Invalid UTXO set snapshot magic bytes. ...");
       uint16_t version;  s >> version;
       if (!m_supported_versions.contains(version)) throw std::ios_base::failure("Version of snapshot ... does not match ...");
       MessageStartChars message;  s >> message;
       if (!std::equal(message.begin(), message.end(), m_network_magic.data())) throw std::ios_base::failure(...network...);
       s >> m_base_blockhash;  s >> m_coins_count;  }
   (a read past the end of the file is an std::ios_base::failure as well: MEof) *)
Definition read_meta (netmagic : list N) (s : list N) : mres :=
  match read_bytes 5 s with
  | Err _ => MErr MEof
  | Ok magic s1 =>
    if negb (bytes_eq magic SNAPSHOT_MAGIC_BYTES) then MErr MMagic else
    match read_le 2 s1 with
    | Err _ => MErr MEof
    | Ok version s2 =>
      if negb (version =? SNAPSHOT_VERSION) then MErr MVersion else
      match read_bytes 4 s2 with
      | Err _ => MErr MEof
      | Ok net s3 =>
        if negb (bytes_eq net netmagic) then MErr MNetwork else
        match read_bytes 32 s3 with
        | Err _ => MErr MEof
        | Ok base s4 =>
          match read_le 8 s4 with
          | Err _ => MErr MEof
          | Ok count s5 => MOk (mk_smeta base count) s5
          end
        end
      end
    end
  end.

(* one coin of the snapshot: outpoint and Coin *)
Record ucoin : Type := mk_ucoin { u_txid : list N; u_n : Z; u_coin : coin }.

Inductive perr : Set :=
| PNoHeader            (* "Did not find snapshot start blockheader" *)
| PHeight              (* "Assumeutxo height in snapshot metadata not recognized" *)
| PWork                (* "Work does not exceed active chainstate" *)
| PCount               (* "Mismatch in coins count in snapshot metadata and actual snapshot data" *)
| PCoin (k : Z)        (* "Bad snapshot data after deserializing %d coins"                      k = coins_count - coins_left *)
| PValue (k : Z)       (* "Bad snapshot data after deserializing %d coins - bad tx out value"   k = coins_count - coins_left *)
| PTrunc (k : Z)       (* "Bad snapshot format or truncated snapshot after deserializing %d coins"   k = coins_processed *)
| PLeftOver            (* "Bad snapshot - coins left over after deserializing %d coins" *)
| PHash.               (* "Bad snapshot content hash: expected %s, got %s" *)

Inductive cres : Type :=
| CDone (coins : list ucoin) (rest : list N)      (* the while loop ended: coins in file order (reversed accumulator undone) *)
| CErr (e : perr).

(* bool MoneyRange(const CAmount& nValue) { return (nValue >= 0 && nValue <= MAX_MONEY); } *)
Definition money_range (v : Z) : bool := (0 <=? v) && (v <=? MAX_MONEY).

(*  const uint64_t coins_count = metadata.m_coins_count;  uint64_t coins_left = metadata.m_coins_count;  int64_t coins_processed{0};
    while (coins_left > 0) {
        try {
            Txid txid;  coins_file >> txid;
            size_t coins_per_txid{0};  coins_per_txid = ReadCompactSize(coins_file);
            if (coins_per_txid > coins_left) return util::Error{"Mismatch in coins count in snapshot metadata and actual snapshot data"};
            for (size_t i = 0; i < coins_per_txid; i++) {
                COutPoint outpoint;  Coin coin;
                outpoint.n = static_cast<uint32_t>(ReadCompactSize(coins_file));  outpoint.hash = txid;
                coins_file >> coin;
                if (coin.nHeight > base_height || outpoint.n >= std::numeric_limits<decltype(outpoint.n)>::max())
                    return util::Error{"Bad snapshot data after deserializing %d coins", coins_count - coins_left};
                if (!MoneyRange(coin.out.nValue))
                    return util::Error{"Bad snapshot data after deserializing %d coins - bad tx out value", coins_count - coins_left};
                coins_cache.EmplaceCoinInternalDANGER(outpoint, std::move(coin));
                --coins_left;  ++coins_processed;   ... (progress log, periodic flush) ...
            }
        } catch (const std::ios_base::failure&) {
            return util::Error{"Bad snapshot format or truncated snapshot after deserializing %d coins", coins_processed};
        }
    }
   One step of the model = one group header (when no coin of the current group is outstanding) or one coin.
   `grp` = txid of the current group and how many of its coins are still to be read.  Every step that does not
   end the loop consumes at least one byte: fuel = length of the stream + 1 is enough (Snapshot lemmas, load_coins_fuel). *)
Section Coins.
  Variable ec_decompress : list N -> option (list N).

  Fixpoint load_coins (fuel : nat) (base_height count left processed : Z) (grp : option (list N * Z)) (s : list N)
                      (acc : list ucoin) : cres :=
    match fuel with
    | O => CErr (PTrunc processed)
    | S f =>
      let in_group := match grp with Some (_, remaining) => 0 <? remaining | None => false end in
      if in_group then
        match grp with
        | Some (txid, remaining) =>
          match read_compact_size true s with
          | Err _ => CErr (PTrunc processed)
          | Ok n s1 =>
            match unser_coin ec_decompress [] s1 with
            | Err _ => CErr (PTrunc processed)
            | Ok c s2 =>
              let n32 := wrapu32 n in
              if (c_height c >? base_height) || (n32 >=? UINT32_MAX) then CErr (PCoin (wrapu64 (count - left)))
              else if negb (money_range (c_value c)) then CErr (PValue (wrapu64 (count - left)))
              else load_coins f base_height count (left - 1) (processed + 1) (Some (txid, remaining - 1)) s2 (mk_ucoin txid n32 c :: acc)
            end
          end
        | None => CErr (PTrunc processed)      (* not reachable: in_group is false for None *)
        end
      else if left <=? 0 then CDone (rev acc) s
      else
        match read_bytes 32 s with
        | Err _ => CErr (PTrunc processed)
        | Ok txid s1 =>
          match read_compact_size true s1 with
          | Err _ => CErr (PTrunc processed)
          | Ok per s2 =>
            if per >? left then CErr PCount
            else load_coins f base_height count left processed (Some (txid, per)) s2 acc
          end
        end
    end.

  Definition load_all (base_height count : Z) (s : list N) : cres :=
    load_coins (S (length s)) base_height count count 0 None s [].
End Coins.

(* ---- the coin set that results, and its hash ---- *)
Fixpoint lex_lt (a b : list N) : bool :=
  match a, b with
  | _, [] => false
  | [], _ :: _ => true
  | x :: a', y :: b' => if (x <? y)%N then true else if (y <? x)%N then false else lex_lt a' b'
  end.
(* order of the coins database cursor regrouped per txid by ComputeUTXOStats: txid bytes, then vout index *)
Definition op_lt (a b : ucoin) : bool :=
  if lex_lt (u_txid a) (u_txid b) then true
  else if lex_lt (u_txid b) (u_txid a) then false
  else u_n a <? u_n b.
Definition op_eq (a b : ucoin) : bool := bytes_eq (u_txid a) (u_txid b) && (u_n a =? u_n b).

(* cacheCoins.try_emplace(outpoint, coin): an outpoint that is already present keeps its first coin *)
Fixpoint set_add (c : ucoin) (l : list ucoin) : list ucoin :=
  match l with
  | [] => [c]
  | x :: r => if op_eq c x then l else if op_lt c x then c :: l else x :: set_add c r
  end.
Definition coin_set (coins : list ucoin) : list ucoin := fold_left (fun s c => set_add c s) coins [].

(* template <typename T> static void TxOutSer(T& ss, const COutPoint& outpoint, const Coin& coin)
   {   ss << outpoint;                                                     // txid (32 bytes), n (uint32 LE)
       ss << ((uint32_t{coin.nHeight} << 1) | uint32_t{coin.fCoinBase});   // uint32 LE
       ss << coin.out;  }                                                  // nValue (int64 LE), scriptPubKey (CompactSize + bytes) *)
Definition txout_ser (c : ucoin) : list N :=
  u_txid c ++ write_le 4 (u_n c) ++ write_le 4 (coin_code (u_coin c)) ++ write_le 8 (c_value (u_coin c)) ++ ser_bytes (c_script (u_coin c)).
Definition set_ser (s : list ucoin) : list N := concat (map txout_ser s).

(* ---- the activation decision ---- *)
Record au_entry : Type := mk_au { au_height : Z; au_blockhash : list N; au_hash : list N (* hash_serialized *) }.
(* what the block index says about a block hash *)
Record binfo : Type := mk_binfo {
  b_height : Z;
  b_failed : bool;        (* nStatus & BLOCK_FAILED_VALID *)
  b_on_best : bool;       (* m_best_header && m_best_header->GetAncestor(nHeight) == this block *)
  b_more_work : bool      (* CBlockIndexWorkComparator()(ActiveTip(), this block) *)
}.
Record env : Type := mk_env {
  e_has_snapshot : bool;                   (* CurrentChainstate().m_from_snapshot_blockhash is set *)
  e_mempool_size : Z;
  e_table : list au_entry;                 (* CChainParams::m_assumeutxo_data *)
  e_lookup : list N -> option binfo        (* m_blockman.LookupBlockIndex *)
}.

Inductive aerr : Set :=
| ATwice | AUnknownBase | ANoHeader | AInvalidChain | AForked | AMempool
| APopulate (e : perr)
| AWork.
Inductive ares : Type :=
| AOk (base : list N) (utxo : list ucoin)      (* the snapshot chainstate: tip = base block, coins = utxo *)
| AErr (e : aerr).

(* FindFirst(m_assumeutxo_data, pred) *)
Definition au_for_blockhash (t : list au_entry) (h : list N) : option au_entry := find (fun d => bytes_eq (au_blockhash d) h) t.
Definition au_for_height (t : list au_entry) (h : Z) : option au_entry := find (fun d => au_height d =? h) t.

Section Activate.
  Variable ec_decompress : list N -> option (list N).
  Variable hashf : list N -> list N.       (* HashWriter::GetHash over the serialized coins *)

  Definition utxo_hash (s : list ucoin) : list N := hashf (set_ser s).

  (* PopulateAndValidateSnapshot (the part that decides) *)
  Definition populate (e : env) (m : smeta) (coins_stream : list N) : perr + list ucoin :=
    match e_lookup e (sm_base m) with
    | None => inl PNoHeader
    | Some b =>
      match au_for_height (e_table e) (b_height b) with
      | None => inl PHeight
      | Some au =>
        if negb (b_more_work b) then inl PWork
        else
          match load_all ec_decompress (b_height b) (sm_count m) coins_stream with
          | CErr pe => inl pe
          | CDone coins rest =>
            (* std::byte left_over_byte; coins_file >> left_over_byte;  must fail *)
            match rest with
            | _ :: _ => inl PLeftOver
            | [] =>
              let s := coin_set coins in
              if negb (bytes_eq (utxo_hash s) (au_hash au)) then inl PHash else inr s
            end
          end
      end
    end.

  (* ActivateSnapshot *)
  Definition activate (e : env) (m : smeta) (coins_stream : list N) : ares :=
    if e_has_snapshot e then AErr ATwice
    else match au_for_blockhash (e_table e) (sm_base m) with
    | None => AErr AUnknownBase
    | Some _ =>
      match e_lookup e (sm_base m) with
      | None => AErr ANoHeader
      | Some b =>
        if b_failed b then AErr AInvalidChain
        else if negb (b_on_best b) then AErr AForked
        else if e_mempool_size e >? 0 then AErr AMempool
        else match populate e m coins_stream with
             | inl pe => AErr (APopulate pe)
             | inr s =>
               (* if (!CBlockIndexWorkComparator()(ActiveTip(), snapshot_chainstate->m_chain.Tip())) cleanup_bad_snapshot("work does not exceed active chainstate") *)
               if negb (b_more_work b) then AErr AWork else AOk (sm_base m) s
             end
      end
    end.

  (* the node's chainstates as far as the property is concerned *)
  Record node_state : Type := mk_ns {
    ns_ibd_tip : list N; ns_ibd_utxo : list ucoin;                   (* the existing, fully validated chainstate *)
    ns_snapshot : option (list N * list ucoin)                       (* the snapshot chainstate, if one was activated *)
  }.
  (* on every error path cleanup_bad_snapshot destroys the half-built chainstate and nothing else was touched *)
  Definition activate_state (st : node_state) (e : env) (m : smeta) (coins_stream : list N) : node_state * ares :=
    match activate e m coins_stream with
    | AOk base s => (mk_ns (ns_ibd_tip st) (ns_ibd_utxo st) (Some (base, s)), AOk base s)
    | AErr x => (st, AErr x)
    end.

  (* ---- MaybeValidateSnapshot: the background chainstate has reached the base block ---- *)
  Inductive completion : Set := CSkipped | CMissingParams | CHashMismatch | CSuccess.
  Record bg_env : Type := mk_bg {
    bg_ready : bool;              (* all the SKIPPED conditions are false: unvalidated snapshot, validated chainstate at its target = snapshot base *)
    bg_height : Z;                (* validated_cs.m_chain.Height() *)
    bg_utxo : list ucoin          (* the fully validated coin set at that block *)
  }.
  Definition maybe_validate (table : list au_entry) (b : bg_env) : completion :=
    if negb (bg_ready b) then CSkipped
    else match au_for_height table (bg_height b) with
         | None => CMissingParams
         | Some au => if negb (bytes_eq (utxo_hash (bg_utxo b)) (au_hash au)) then CHashMismatch else CSuccess
         end.
End Activate.

(* ---- the instance that is extracted ---- *)
Definition run_activate (e : env) (m : smeta) (coins_stream : list N) : ares := activate secp_decompress sha256d e m coins_stream.
Definition run_utxo_hash (s : list ucoin) : list N := utxo_hash sha256d s.
Definition run_maybe_validate (table : list au_entry) (ready : bool) (height : Z) (coins : list ucoin) : completion :=
  maybe_validate sha256d table (mk_bg ready height (coin_set coins)).
