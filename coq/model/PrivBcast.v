(* C39 (private broadcast part): executable model of class PrivateBroadcast (src/private_broadcast.{h,cpp}).

   m_transactions is an unordered_map; the model keeps the entries in a list.  With the invariant proved in
   proofs/PrivBcastLemmas.v (a node id occurs in at most one send status) the only place where the C++ result depends on
   the iteration order is the tie-break of std::ranges::max_element in PickTxForSend; there the model takes the
   implementation's choice as an argument and accepts it only if it is one of the maxima. *)
From BV Require Import lib.Ints.
Local Open Scope Z_scope.

(* struct SendStatus { nodeid; address; picked; std::optional<time_point> confirmed; } *)
Record sstat := mkSstat { ss_node : Z; ss_addr : Z; ss_picked : Z; ss_confirmed : option Z }.
(* one entry of m_transactions: the transaction (identified by wtxid) and its TxSendStatus { time_added; send_statuses } *)
Record txst := mkTxst { t_tx : Z; t_added : Z; t_stats : list sstat }.
Definition pbst := list txst.

(* struct Priority { num_picked; last_picked; num_confirmed; last_confirmed; }  (time_point{} is 0) *)
Record prio := mkPrio { p_np : Z; p_lp : Z; p_nc : Z; p_lc : Z }.

(* Priority DerivePriority(const std::vector<SendStatus>& sent_to)
     p.num_picked = sent_to.size();
     for (send_status : sent_to) { p.last_picked = max(p.last_picked, send_status.picked);
        if (send_status.confirmed) { ++p.num_confirmed; p.last_confirmed = max(p.last_confirmed, *send_status.confirmed); } } *)
Definition derive_priority (l : list sstat) : prio :=
  fold_left (fun p s => mkPrio (p_np p) (Z.max (p_lp p) (ss_picked s))
                               (match ss_confirmed s with Some _ => p_nc p + 1 | None => p_nc p end)
                               (match ss_confirmed s with Some t => Z.max (p_lc p) t | None => p_lc p end))
            l (mkPrio (Z.of_nat (length l)) 0 0 0).

(* auto operator<=>(const Priority& other) const
     { return std::tie(other.num_picked, other.num_confirmed, other.last_picked, other.last_confirmed) <=>
              std::tie(num_picked, num_confirmed, last_picked, last_confirmed); }
   a < b  iff  (b.np, b.nc, b.lp, b.lc) is lexicographically smaller than (a.np, a.nc, a.lp, a.lc) *)
Definition prio_lt (a b : prio) : bool :=
  if p_np b <? p_np a then true else if p_np a <? p_np b then false else
  if p_nc b <? p_nc a then true else if p_nc a <? p_nc b then false else
  if p_lp b <? p_lp a then true else if p_lp a <? p_lp b then false else
  p_lc b <? p_lc a.

Section PB.
  Variable max_tx : Z.      (* m_max_transactions *)
  Variable max_send : Z.    (* m_max_send_attempts *)

  (* bool IsPending(const TxSendStatus& status) const { return status.send_statuses.size() < m_max_send_attempts; } *)
  Definition is_pending (e : txst) : bool := Z.of_nat (length (t_stats e)) <? max_send.

  Fixpoint find_tx (tx : Z) (pb : pbst) : option txst :=
    match pb with [] => None | e :: r => if t_tx e =? tx then Some e else find_tx tx r end.
  Fixpoint upd_tx (tx : Z) (f : txst -> txst) (pb : pbst) : pbst :=
    match pb with [] => [] | e :: r => if t_tx e =? tx then f e :: r else e :: upd_tx tx f r end.
  Fixpoint del_tx (tx : Z) (pb : pbst) : pbst :=
    match pb with [] => [] | e :: r => if t_tx e =? tx then r else e :: del_tx tx r end.

  (* AddResult Add(const CTransactionRef& tx):  0 = Added, 1 = AlreadyPresent, 2 = QueueFull
       if (it = m_transactions.find(tx); it != end) { if (IsPending(it->second)) return AlreadyPresent;
           it->second.time_added = NodeClock::now(); it->second.send_statuses.clear(); return Added; }
       if (m_transactions.size() >= m_max_transactions) return QueueFull;
       m_transactions.try_emplace(tx); return Added; *)
  Definition pb_add (pb : pbst) (tx now : Z) : pbst * Z :=
    match find_tx tx pb with
    | Some e => if is_pending e then (pb, 1) else (upd_tx tx (fun e => mkTxst (t_tx e) now []) pb, 0)
    | None => if Z.of_nat (length pb) >=? max_tx then (pb, 2) else (pb ++ [mkTxst tx now []], 0)
    end.

  (* std::optional<size_t> Remove(tx): extract; return DerivePriority(send_statuses).num_confirmed *)
  Definition pb_remove (pb : pbst) (tx : Z) : pbst * option Z :=
    match find_tx tx pb with
    | Some e => (del_tx tx pb, Some (p_nc (derive_priority (t_stats e))))
    | None => (pb, None)
    end.

  (* GetSendStatusByNode(nodeid): first send status with that node id, together with its transaction *)
  Fixpoint find_node (node : Z) (pb : pbst) : option (Z * sstat) :=
    match pb with
    | [] => None
    | e :: r => match find (fun s => ss_node s =? node) (t_stats e) with
                | Some s => Some (t_tx e, s)
                | None => find_node node r
                end
    end.

  (* the pending transactions no other pending transaction has a strictly greater priority than: what max_element may return *)
  Definition pick_candidates (pb : pbst) : list Z :=
    let pend := filter is_pending pb in
    map t_tx (filter (fun e => negb (existsb (fun x => prio_lt (derive_priority (t_stats e)) (derive_priority (t_stats x))) pend)) pend).

  (* std::optional<CTransactionRef> PickTxForSend(will_send_to_nodeid, will_send_to_address)
       if (GetSendStatusByNode(will_send_to_nodeid).has_value()) { Assume(false); return std::nullopt; }
       it = max_element(pending transactions, by DerivePriority);
       if (it != end) { state.send_statuses.emplace_back(nodeid, address, NodeClock::now()); return tx; }
       return std::nullopt;
     [choice]: the element the implementation's max_element returned (used only to break ties). *)
  Definition pb_pick (pb : pbst) (node addr now choice : Z) : pbst * option Z :=
    match find_node node pb with
    | Some _ => (pb, None)
    | None =>
      match pick_candidates pb with
      | [] => (pb, None)
      | c0 :: cr =>
        let tx := if existsb (Z.eqb choice) (c0 :: cr) then choice else c0 in
        (upd_tx tx (fun e => mkTxst (t_tx e) (t_added e) (t_stats e ++ [mkSstat node addr now None])) pb, Some tx)
      end
    end.

  (* std::optional<CTransactionRef> GetTxForNode(nodeid) *)
  Definition pb_tx_for_node (pb : pbst) (node : Z) : option Z :=
    match find_node node pb with Some (tx, _) => Some tx | None => None end.

  (* void NodeConfirmedReception(nodeid): the first matching send status gets confirmed = NodeClock::now() *)
  Fixpoint confirm_first (node now : Z) (l : list sstat) : list sstat :=
    match l with
    | [] => []
    | s :: r => if ss_node s =? node then mkSstat (ss_node s) (ss_addr s) (ss_picked s) (Some now) :: r else s :: confirm_first node now r
    end.
  Definition pb_confirm (pb : pbst) (node now : Z) : pbst :=
    match find_node node pb with
    | Some (tx, _) => upd_tx tx (fun e => mkTxst (t_tx e) (t_added e) (confirm_first node now (t_stats e))) pb
    | None => pb
    end.

  (* bool DidNodeConfirmReception(nodeid) *)
  Definition pb_did_confirm (pb : pbst) (node : Z) : bool :=
    match find_node node pb with Some (_, s) => match ss_confirmed s with Some _ => true | None => false end | None => false end.

  (* bool HavePendingTransactions() *)
  Definition pb_have_pending (pb : pbst) : bool := existsb is_pending pb.

  (* std::vector<CTransactionRef> GetStale() const   (INITIAL_STALE_DURATION = 5min, STALE_DURATION = 1min)
       if (!IsPending(state)) continue; p = DerivePriority(..);
       if (p.num_confirmed == 0) { if (state.time_added < now - INITIAL_STALE_DURATION) stale } else { if (p.last_confirmed < now - STALE_DURATION) stale } *)
  Definition pb_stale (pb : pbst) (now initial_stale stale : Z) : list Z :=
    map t_tx (filter (fun e => is_pending e &&
                               (let p := derive_priority (t_stats e) in
                                if p_nc p =? 0 then t_added e <? now - initial_stale else p_lc p <? now - stale)) pb).

  (* GetBroadcastInfo(): attempts_remaining = m_max_send_attempts - min(send_statuses.size(), m_max_send_attempts) *)
  Definition attempts_remaining (e : txst) : Z := max_send - Z.min (Z.of_nat (length (t_stats e))) max_send.
End PB.
