(* The orphan transaction pool.  Transcribed from
     src/node/txorphanage.cpp   TxOrphanageImpl
     src/util/feefrac.h         FeeFrac, ByRatio, ByRatioNegSize (as used by GetDosScore / LimitOrphans)
   Executable definitions only (proofs are in proofs/Orphan*.v).

   Representation choices (abstractions of library containers, not of bitcoin code):
   - m_orphans (boost multi_index, ByWtxid = (wtxid, peer) unique, ByPeer = (peer, reconsider, sequence) unique) is a
     list of announcements in insertion order; iteration in an index is the corresponding sorted selection;
   - a transaction is the data the orphanage looks at: wtxid, txid, weight, the prevouts of its inputs (in order, with
     repetitions) and the number of outputs; transactions are identified by wtxid (a hash of the content): the runs
     quantify over a fixed function from wtxid to transaction;
   - m_outpoint_to_orphan_wtxids is a function outpoint -> duplicate-free list of wtxids ([] = key absent);
     m_reconsiderable_wtxids a duplicate-free list; m_peer_orphanage_info an association list NodeId -> PeerDoSInfo;
   - Assume(...) that fails / UB sets o_bad (theorems show it stays false);
   - the random choice in AddChildrenToWorkSet is an explicit argument.
   Integers: Count = unsigned int (wrapu32), Usage = int64 (wrap64), SequenceNumber = uint64 (wrapu64). *)
From BV Require Import lib.Ints gen.Params_gen.
Local Open Scope Z_scope.

Definition outpoint := (Z * Z)%type.     (* (txid, n) *)
Definition op_eqb (a b : outpoint) : bool := (fst a =? fst b) && (snd a =? snd b).

Record otx := mkTx {
  x_wtxid : Z;
  x_txid : Z;
  x_weight : Z;                 (* GetTransactionWeight(tx) *)
  x_inputs : list outpoint;     (* vin[i].prevout *)
  x_nout : Z }.                 (* vout.size() *)

(* struct Announcement { const CTransactionRef m_tx; const NodeId m_announcer; const SequenceNumber m_entry_sequence;
                          bool m_reconsider{false}; } *)
Record oann := mkOA { o_tx : otx; o_peer : Z; o_seq : Z; o_reconsider : bool }.

Definition o_wtxid (a : oann) : Z := x_wtxid (o_tx a).
(* Usage GetMemUsage() const { return GetTransactionWeight( *m_tx); } *)
Definition mem_usage (a : oann) : Z := x_weight (o_tx a).
(* Count GetLatencyScore() const { return 1 + (m_tx->vin.size() / 10); } *)
Definition latency_score (a : oann) : Z := wrapu32 (1 + Z.of_nat (length (x_inputs (o_tx a))) / 10).

(* struct PeerDoSInfo { Usage m_total_usage{0}; Count m_count_announcements{0}; Count m_total_latency_score{0}; } *)
Record pdos := mkPD { pd_usage : Z; pd_count : Z; pd_latency : Z }.

(* ---------- FeeFrac comparisons ---------- *)
Record feefrac := mkFF { ff_fee : Z; ff_size : Z }.   (* int64_t fee; int32_t size *)
(* ByRatio: cross products (exact 96-bit arithmetic in the code) *)
Definition ratio_cmp (a b : feefrac) : comparison := Z.compare (ff_fee a * ff_size b) (ff_fee b * ff_size a).
Definition ratio_gt (a b : feefrac) : bool := match ratio_cmp a b with Gt => true | _ => false end.
(* ByRatioNegSize::operator<=>: by ratio, then by reversed size *)
Definition rns_cmp (a b : feefrac) : comparison :=
  match ratio_cmp a b with Eq => Z.compare (ff_size b) (ff_size a) | c => c end.
Definition rns_lt (a b : feefrac) : bool := match rns_cmp a b with Lt => true | _ => false end.
Definition rns_le (a b : feefrac) : bool := match rns_cmp a b with Gt => false | _ => true end.
Definition ff_eqb (a b : feefrac) : bool := (ff_fee a =? ff_fee b) && (ff_size a =? ff_size b).
Definition FF_ONE : feefrac := mkFF 1 1.

(* ---------- the orphanage ---------- *)
Record orph := mkO {
  g_seq : Z;                               (* m_current_sequence *)
  g_anns : list oann;                      (* m_orphans *)
  g_unique : Z;                            (* m_unique_orphans *)
  g_usage : Z;                             (* m_unique_orphan_usage *)
  g_inscores : Z;                          (* m_unique_rounded_input_scores *)
  g_outmap : outpoint -> list Z;           (* m_outpoint_to_orphan_wtxids *)
  g_recon : list Z;                        (* m_reconsiderable_wtxids *)
  g_peers : list (Z * pdos);               (* m_peer_orphanage_info *)
  g_bad : bool;
  g_maxlat : Z;                            (* m_max_global_latency_score (const) *)
  g_reserved : Z }.                        (* m_reserved_usage_per_peer (const) *)

Definition o_empty (maxlat reserved : Z) : orph := mkO 0 [] 0 0 0 (fun _ => []) [] [] false maxlat reserved.

Definition set_anns (g : orph) (l : list oann) : orph :=
  mkO (g_seq g) l (g_unique g) (g_usage g) (g_inscores g) (g_outmap g) (g_recon g) (g_peers g) (g_bad g) (g_maxlat g) (g_reserved g).
Definition set_obad (g : orph) : orph :=
  mkO (g_seq g) (g_anns g) (g_unique g) (g_usage g) (g_inscores g) (g_outmap g) (g_recon g) (g_peers g) true (g_maxlat g) (g_reserved g).

(* association list helpers for m_peer_orphanage_info *)
Fixpoint peer_find (p : Z) (l : list (Z * pdos)) : option pdos :=
  match l with [] => None | (q, d) :: r => if q =? p then Some d else peer_find p r end.
Fixpoint peer_set (p : Z) (d : pdos) (l : list (Z * pdos)) : list (Z * pdos) :=
  match l with [] => [(p, d)] | (q, e) :: r => if q =? p then (q, d) :: r else (q, e) :: peer_set p d r end.
Fixpoint peer_del (p : Z) (l : list (Z * pdos)) : list (Z * pdos) :=
  match l with [] => [] | (q, e) :: r => if q =? p then r else (q, e) :: peer_del p r end.

(* duplicate-free lists as sets of wtxids *)
Definition set_mem (w : Z) (s : list Z) : bool := existsb (Z.eqb w) s.
Definition set_add (w : Z) (s : list Z) : list Z := if set_mem w s then s else s ++ [w].
Definition set_del (w : Z) (s : list Z) : list Z := filter (fun v => negb (v =? w)) s.
Definition om_set (m : outpoint -> list Z) (k : outpoint) (v : list Z) : outpoint -> list Z :=
  fun k' => if op_eqb k' k then v else m k'.

Definition is_oann (w p : Z) (a : oann) : bool := (o_wtxid a =? w) && (o_peer a =? p).
Definition has_wtxid (w : Z) (a : oann) : bool := o_wtxid a =? w.
Definition from_peer (p : Z) (a : oann) : bool := o_peer a =? p.

(* bool IsUnique(Iter<ByWtxid> it): no neighbour in the (wtxid, peer) order has the same wtxid *)
Definition is_unique (l : list oann) (a : oann) : bool :=
  negb (existsb (fun b => has_wtxid (o_wtxid a) b && negb (o_peer b =? o_peer a)) l).

(* template<typename Tag> void Erase(Iter<Tag> it) *)
Definition erase_ann (g : orph) (a : oann) : orph :=
  (* auto peer_it = m_peer_orphanage_info.find(it->m_announcer); Assume(peer_it != end);
     if (peer_it->second.Subtract( *it)) m_peer_orphanage_info.erase(peer_it); *)
  match peer_find (o_peer a) (g_peers g) with
  | None => set_obad g
  | Some d =>
    (* Subtract: Assume(m_total_usage >= GetMemUsage()); Assume(m_total_latency_score >= GetLatencyScore());
                 Assume(m_count_announcements >= 1); ... return m_count_announcements == 0; *)
    let bad1 := negb ((mem_usage a <=? pd_usage d) && (latency_score a <=? pd_latency d) && (1 <=? pd_count d)) in
    let d' := mkPD (wrap64 (pd_usage d - mem_usage a)) (wrapu32 (pd_count d - 1)) (wrapu32 (pd_latency d - latency_score a)) in
    let peers' := if pd_count d' =? 0 then peer_del (o_peer a) (g_peers g) else peer_set (o_peer a) d' (g_peers g) in
    let uniq := is_unique (g_anns g) a in
    (* if (IsUnique(...)) { m_unique_orphans -= 1; m_unique_rounded_input_scores -= GetLatencyScore() - 1;
                            m_unique_orphan_usage -= GetMemUsage();
                            for (input : vin) { erase wtxid from m_outpoint_to_orphan_wtxids[prevout]; drop empty keys } } *)
    let outmap' := if uniq then
                     fold_left (fun m k => om_set m k (set_del (o_wtxid a) (m k))) (x_inputs (o_tx a)) (g_outmap g)
                   else g_outmap g in
    (* if (it->m_reconsider) m_reconsiderable_wtxids.erase(wtxid); *)
    let recon' := if o_reconsider a then set_del (o_wtxid a) (g_recon g) else g_recon g in
    mkO (g_seq g)
        (filter (fun b => negb (is_oann (o_wtxid a) (o_peer a) b)) (g_anns g))
        (if uniq then wrapu32 (g_unique g - 1) else g_unique g)
        (if uniq then wrap64 (g_usage g - mem_usage a) else g_usage g)
        (if uniq then wrapu32 (g_inscores g - wrapu32 (latency_score a - 1)) else g_inscores g)
        outmap' recon' peers' (g_bad g || bad1) (g_maxlat g) (g_reserved g)
  end.

(* Count MaxPeerLatencyScore() const { return m_max_global_latency_score / std::max<unsigned int>(m_peer_orphanage_info.size(), 1); }
   Usage MaxGlobalUsage() const { return m_reserved_usage_per_peer * std::max<int64_t>(m_peer_orphanage_info.size(), 1); }
   Count TotalLatencyScore() const { return m_unique_rounded_input_scores + m_orphans.size(); } *)
Definition n_peers (g : orph) : Z := Z.of_nat (length (g_peers g)).
Definition max_peer_latency (g : orph) : Z := g_maxlat g / Z.max (wrapu32 (n_peers g)) 1.
Definition max_global_usage (g : orph) : Z := wrap64 (g_reserved g * Z.max (n_peers g) 1).
Definition total_latency (g : orph) : Z := wrapu32 (g_inscores g + wrapu32 (Z.of_nat (length (g_anns g)))).
(* bool NeedsTrim() const { return TotalLatencyScore() > MaxGlobalLatencyScore() || TotalOrphanUsage() > MaxGlobalUsage(); } *)
Definition needs_trim (g : orph) : bool := (g_maxlat g <? total_latency g) || (max_global_usage g <? g_usage g).

(* FeeFrac GetDosScore(Count max_peer_latency_score, Usage max_peer_memory) const
   { assert(max_peer_latency_score > 0); assert(max_peer_memory > 0);
     const FeeFrac latency_score(m_total_latency_score, max_peer_latency_score);   // int32_t size: narrowing
     const FeeFrac mem_score(m_total_usage, max_peer_memory);
     return std::max<ByRatioNegSize<FeeFrac>>(latency_score, mem_score); }      // (a < b) ? b : a *)
Definition dos_score (d : pdos) (max_lat max_mem : Z) : feefrac :=
  let l := mkFF (pd_latency d) (wrap32 max_lat) in
  let m := mkFF (pd_usage d) (wrap32 max_mem) in
  if rns_lt l m then m else l.

(* compare_score(left, right): if (left.second != right.second) ByRatioNegSize{left.second} < ByRatioNegSize{right.second}
                               else left.first < right.first *)
Definition score_lt (x y : Z * feefrac) : bool :=
  if negb (ff_eqb (snd x) (snd y)) then rns_lt (snd x) (snd y) else fst x <? fst y.
(* the front of a max-heap under compare_score *)
Fixpoint heap_top (h : list (Z * feefrac)) : option (Z * feefrac) :=
  match h with
  | [] => None
  | x :: r => match heap_top r with Some y => if score_lt x y then Some y else Some x | None => Some x end
  end.
Definition heap_remove (p : Z) (h : list (Z * feefrac)) : list (Z * feefrac) := filter (fun x => negb (fst x =? p)) h.

(* the ByPeer index is sorted by (peer, reconsider, sequence): the first announcement of a peer at or after a
   position is the one with the least (reconsider, sequence) *)
Definition peer_order_lt (a b : oann) : bool :=
  match o_reconsider a, o_reconsider b with
  | false, true => true
  | true, false => false
  | _, _ => o_seq a <? o_seq b
  end.
Fixpoint first_of (lt : oann -> oann -> bool) (l : list oann) : option oann :=
  match l with
  | [] => None
  | a :: r => match first_of lt r with Some b => if lt b a then Some b else Some a | None => Some a end
  end.
Definition first_of_peer (p : Z) (l : list oann) : option oann := first_of peer_order_lt (filter (from_peer p) l).

(* the inner loop of LimitOrphans:
     while (NeedsTrim()) {
         if (!Assume(it_ann != end)) break;  if (!Assume(it_ann->m_announcer == worst_peer)) break;
         Erase<ByPeer>(it_ann++);
         it_worst_peer = m_peer_orphanage_info.find(worst_peer);
         if (it_worst_peer == end || ByRatioNegSize{it_worst_peer->second.GetDosScore(max_lat, max_mem)} <= ByRatioNegSize{dos_threshold}) break; } *)
Fixpoint limit_inner (fuel : nat) (g : orph) (worst : Z) (max_lat max_mem : Z) (thr : feefrac) : orph :=
  if negb (needs_trim g) then g else
  match fuel with
  | O => set_obad g
  | S f =>
    match first_of_peer worst (g_anns g) with
    | None => set_obad g
    | Some a =>
      let g1 := erase_ann g a in
      match peer_find worst (g_peers g1) with
      | None => g1
      | Some d => if rns_le (dos_score d max_lat max_mem) thr then g1 else limit_inner f g1 worst max_lat max_mem thr
      end
    end
  end.

(* the outer do-while of LimitOrphans *)
Fixpoint limit_outer (fuel : nat) (g : orph) (heap : list (Z * feefrac)) (max_lat max_mem : Z) : orph :=
  match fuel with
  | O => set_obad g
  | S f =>
    (* Assume(!heap_peer_dos.empty()); pop_heap; worst = back(); pop_back *)
    match heap_top heap with
    | None => set_obad g
    | Some (worst, score) =>
      let heap1 := heap_remove worst heap in
      (* Assume(ByRatio{dos_score} > ByRatio{FeeFrac(1, 1)}) *)
      let g0 := if ratio_gt score FF_ONE then g else set_obad g in
      let thr := match heap_top heap1 with Some (_, s) => s | None => FF_ONE end in
      let g1 := limit_inner (length (g_anns g0)) g0 worst max_lat max_mem thr in
      if negb (needs_trim g1) then g1 else
      (* if (it_worst_peer != end && count > 0) { heap.emplace_back(worst, score'); push_heap } *)
      let heap2 := match peer_find worst (g_peers g1) with
                   | Some d => if 0 <? pd_count d then (worst, dos_score d max_lat max_mem) :: heap1 else heap1
                   | None => heap1
                   end in
      limit_outer f g1 heap2 max_lat max_mem
    end
  end.

(* void LimitOrphans() *)
Definition limit_orphans (g : orph) : orph :=
  if negb (needs_trim g) then g else
  let max_lat := max_peer_latency g in
  let max_mem := g_reserved g in
  (* GetDosScore asserts on its arguments *)
  let g0 := if (0 <? max_lat) && (0 <? max_mem) then g else set_obad g in
  let heap := filter (fun x => ratio_gt (snd x) FF_ONE)
                     (map (fun e => (fst e, dos_score (snd e) max_lat max_mem)) (g_peers g0)) in
  limit_outer (S (length (g_anns g0))) g0 heap max_lat max_mem.

(* bool HaveTx(const Wtxid& wtxid) const *)
Definition have_tx (g : orph) (w : Z) : bool := existsb (has_wtxid w) (g_anns g).
Definition have_tx_from_peer (g : orph) (w p : Z) : bool := existsb (is_oann w p) (g_anns g).

(* the part of AddTx / AddAnnouncer after a successful emplace *)
Definition add_ann (g : orph) (tx : otx) (peer : Z) (brand_new : bool) : orph :=
  let a := mkOA tx peer (g_seq g) false in
  (* auto& peer_info = m_peer_orphanage_info.try_emplace(peer).first->second; peer_info.Add( *iter); *)
  let d := match peer_find peer (g_peers g) with Some d => d | None => mkPD 0 0 0 end in
  let d' := mkPD (wrap64 (pd_usage d + mem_usage a)) (wrapu32 (pd_count d + 1)) (wrapu32 (pd_latency d + latency_score a)) in
  let outmap' := if brand_new then
                   fold_left (fun m k => om_set m k (set_add (x_wtxid tx) (m k))) (x_inputs tx) (g_outmap g)
                 else g_outmap g in
  mkO (wrapu64 (g_seq g + 1)) (g_anns g ++ [a])
      (if brand_new then wrapu32 (g_unique g + 1) else g_unique g)
      (if brand_new then wrap64 (g_usage g + mem_usage a) else g_usage g)
      (if brand_new then wrapu32 (g_inscores g + wrapu32 (latency_score a - 1)) else g_inscores g)
      outmap' (g_recon g) (peer_set peer d' (g_peers g)) (g_bad g) (g_maxlat g) (g_reserved g).

(* bool AddTx(const CTransactionRef& tx, NodeId peer) *)
Definition add_tx (g : orph) (tx : otx) (peer : Z) : orph * bool :=
  if ORPHAN_MAX_TX_WEIGHT <? x_weight tx then (g, false) else
  let brand_new := negb (have_tx g (x_wtxid tx)) in
  if have_tx_from_peer g (x_wtxid tx) peer then (g, false) else
  (limit_orphans (add_ann g tx peer brand_new), brand_new).

(* bool AddAnnouncer(const Wtxid& wtxid, NodeId peer) *)
Definition add_announcer (g : orph) (w peer : Z) : orph * bool :=
  match find (has_wtxid w) (g_anns g) with
  | None => (g, false)
  | Some a0 =>
    if have_tx_from_peer g w peer then (g, false) else
    (limit_orphans (add_ann g (o_tx a0) peer false), true)
  end.

(* bool EraseTxInternal(const Wtxid& wtxid): Erase every announcement of the wtxid *)
Definition erase_tx_internal (g : orph) (w : Z) : orph * bool :=
  let l := filter (has_wtxid w) (g_anns g) in
  (fold_left erase_ann l g, match l with [] => false | _ => true end).

Definition erase_tx (g : orph) (w : Z) : orph * bool :=
  let '(g1, r) := erase_tx_internal g w in (limit_orphans g1, r).

(* void EraseForPeer(NodeId peer) *)
Definition erase_for_peer (g : orph) (peer : Z) : orph :=
  match filter (from_peer peer) (g_anns g) with
  | [] => g
  | l => limit_orphans (fold_left erase_ann l g)
  end.

(* void EraseForBlock(const CBlock& block): `spent` are the prevouts of all inputs of the block's transactions *)
Definition erase_for_block (g : orph) (spent : list outpoint) : orph :=
  match g_anns g with
  | [] => g
  | _ =>
    let ws := fold_left (fun acc k => fold_left (fun acc' w => set_add w acc') (g_outmap g k) acc) spent [] in
    limit_orphans (fold_left (fun g' w => fst (erase_tx_internal g' w)) ws g)
  end.

(* insertion sort of announcements by announcer (the (wtxid, peer) index restricted to one wtxid) *)
Fixpoint insert_by_peer (a : oann) (l : list oann) : list oann :=
  match l with [] => [a] | b :: r => if o_peer a <? o_peer b then a :: l else b :: insert_by_peer a r end.
Fixpoint sort_by_peer (l : list oann) : list oann :=
  match l with [] => [] | a :: r => insert_by_peer a (sort_by_peer r) end.

Definition set_reconsider (w p : Z) (v : bool) (l : list oann) : list oann :=
  map (fun a => if is_oann w p a then mkOA (o_tx a) (o_peer a) (o_seq a) v else a) l.

Definition set_recon_state (g : orph) (l : list oann) (rc : list Z) : orph :=
  mkO (g_seq g) l (g_unique g) (g_usage g) (g_inscores g) (g_outmap g) rc (g_peers g) (g_bad g) (g_maxlat g) (g_reserved g).

(* std::vector<std::pair<Wtxid, NodeId>> AddChildrenToWorkSet(const CTransaction& tx, FastRandomContext& rng)
   `choice w n` stands for rng.randrange(n) when the announcers of w are considered *)
Definition work_one (choice : Z -> Z -> Z) (acc : orph * list (Z * Z)) (w : Z) : orph * list (Z * Z) :=
  let '(g, ret) := acc in
  if set_mem w (g_recon g) then acc else
  let anns := sort_by_peer (filter (has_wtxid w) (g_anns g)) in
  match anns with
  | [] => (set_obad g, ret)
  | _ =>
    let n := Z.of_nat (length anns) in
    match nth_error anns (Z.to_nat (choice w n)) with
    | None => (set_obad g, ret)
    | Some a =>
      (* Assume(!it->m_reconsider); modify(it, m_reconsider = true); ret.emplace_back(wtxid, announcer); insert *)
      let g' := if o_reconsider a then set_obad g else g in
      (set_recon_state g' (set_reconsider w (o_peer a) true (g_anns g')) (set_add w (g_recon g')), ret ++ [(w, o_peer a)])
    end
  end.

Definition add_children_to_work_set (g : orph) (txid nout : Z) (choice : Z -> Z -> Z) : orph * list (Z * Z) :=
  match g_anns g with
  | [] => (g, [])
  | _ =>
    fold_left (fun acc i => fold_left (work_one choice) (g_outmap (fst acc) (txid, Z.of_nat i)) acc)
              (seq 0 (Z.to_nat nout)) (g, [])
  end.

(* CTransactionRef GetTxToReconsider(NodeId peer): lower_bound(ByPeerView{peer, true, 0}) *)
Definition first_recon_of_peer (p : Z) (l : list oann) : option oann :=
  first_of (fun a b => o_seq a <? o_seq b) (filter (fun a => from_peer p a && o_reconsider a) l).
Definition get_tx_to_reconsider (g : orph) (peer : Z) : orph * option Z :=
  match first_recon_of_peer peer (g_anns g) with
  | Some a => (set_recon_state g (set_reconsider (o_wtxid a) peer false (g_anns g)) (set_del (o_wtxid a) (g_recon g)),
               Some (o_wtxid a))
  | None => (g, None)
  end.
Definition have_tx_to_reconsider (g : orph) (peer : Z) : bool :=
  match first_recon_of_peer peer (g_anns g) with Some _ => true | None => false end.

(* std::vector<CTransactionRef> GetChildrenFromSamePeer(const CTransactionRef& parent, NodeId peer) const:
   the peer's announcements from the last to the first in (reconsider, sequence) order whose transaction has an
   input spending an output of parent *)
Fixpoint insert_desc (a : oann) (l : list oann) : list oann :=
  match l with [] => [a] | b :: r => if peer_order_lt b a then a :: l else b :: insert_desc a r end.
Fixpoint sort_desc (l : list oann) : list oann :=
  match l with [] => [] | a :: r => insert_desc a (sort_desc r) end.
Definition get_children_from_same_peer (g : orph) (parent_txid peer : Z) : list Z :=
  map o_wtxid (filter (fun a => existsb (fun k => fst k =? parent_txid) (x_inputs (o_tx a)))
                      (sort_desc (filter (from_peer peer) (g_anns g)))).

(* const accessors *)
Definition usage_by_peer (g : orph) (p : Z) : Z := match peer_find p (g_peers g) with Some d => pd_usage d | None => 0 end.
Definition anns_from_peer (g : orph) (p : Z) : Z := match peer_find p (g_peers g) with Some d => pd_count d | None => 0 end.
Definition latency_from_peer (g : orph) (p : Z) : Z := match peer_find p (g_peers g) with Some d => pd_latency d | None => 0 end.
Definition count_announcements (g : orph) : Z := wrapu32 (Z.of_nat (length (g_anns g))).
Definition announcers_of (g : orph) (w : Z) : list Z := map o_peer (filter (has_wtxid w) (g_anns g)).

(* ---------- operations and runs ---------- *)
Inductive oop :=
| OAddTx (w peer : Z)
| OAddAnnouncer (w peer : Z)
| OEraseTx (w : Z)
| OEraseForPeer (peer : Z)
| OEraseForBlock (spent : list outpoint)
| OWork (w : Z) (salt : Z)            (* AddChildrenToWorkSet(tx_of w, rng): the salt determines the random choices *)
| OReconsider (peer : Z).             (* GetTxToReconsider(peer) *)

Inductive oout := ONone | OBool (b : bool) | OPairs (l : list (Z * Z)) | OTx (w : option Z).

Section WithTxs.
(* the universe of transactions, indexed by wtxid *)
Variable tx_of : Z -> otx.

(* the driver's rule for the random choice: the ((salt + wtxid) mod n)-th announcer *)
Definition salted_choice (salt : Z) : Z -> Z -> Z := fun w n => (salt + w) mod n.

Definition ostep (g : orph) (o : oop) : orph * oout :=
  match o with
  | OAddTx w p => let '(g1, b) := add_tx g (tx_of w) p in (g1, OBool b)
  | OAddAnnouncer w p => let '(g1, b) := add_announcer g w p in (g1, OBool b)
  | OEraseTx w => let '(g1, b) := erase_tx g w in (g1, OBool b)
  | OEraseForPeer p => (erase_for_peer g p, ONone)
  | OEraseForBlock spent => (erase_for_block g spent, ONone)
  | OWork w salt => let '(g1, l) := add_children_to_work_set g (x_txid (tx_of w)) (x_nout (tx_of w)) (salted_choice salt) in (g1, OPairs l)
  | OReconsider p => let '(g1, r) := get_tx_to_reconsider g p in (g1, OTx r)
  end.

Fixpoint orun (g : orph) (ops : list oop) : orph * list oout :=
  match ops with
  | [] => (g, [])
  | o :: r => let '(g1, out) := ostep g o in let '(g2, outs) := orun g1 r in (g2, out :: outs)
  end.
End WithTxs.

(* ---------- recomputation from the announcements (SanityCheck), also used to judge observations ---------- *)
Fixpoint zsum_map {A} (f : A -> Z) (l : list A) : Z := match l with [] => 0 | a :: r => f a + zsum_map f r end.
Fixpoint dedup (l : list Z) : list Z :=
  match l with [] => [] | x :: r => if set_mem x r then dedup r else x :: dedup r end.

Definition peers_of (l : list oann) : list Z := dedup (map o_peer l).
Definition wtxids_of (l : list oann) : list Z := dedup (map o_wtxid l).
(* the data of an orphan, read from (the first of) its announcements *)
Definition weight_in (l : list oann) (w : Z) : Z :=
  match find (has_wtxid w) l with Some a => mem_usage a | None => 0 end.
Definition inscore_in (l : list oann) (w : Z) : Z :=
  match find (has_wtxid w) l with Some a => latency_score a - 1 | None => 0 end.
Definition spends_in (l : list oann) (k : outpoint) (w : Z) : bool :=
  match find (has_wtxid w) l with Some a => existsb (op_eqb k) (x_inputs (o_tx a)) | None => false end.

Definition recompute_peer (l : list oann) (p : Z) : pdos :=
  let lp := filter (from_peer p) l in
  mkPD (zsum_map mem_usage lp) (Z.of_nat (length lp)) (zsum_map latency_score lp).
Definition spec_unique_count (l : list oann) : Z := Z.of_nat (length (wtxids_of l)).
Definition spec_total_usage (l : list oann) : Z := zsum_map (weight_in l) (wtxids_of l).
Definition spec_input_scores (l : list oann) : Z := zsum_map (inscore_in l) (wtxids_of l).
Definition spec_total_latency (l : list oann) : Z := spec_input_scores l + Z.of_nat (length l).
Definition spec_npeers (l : list oann) : Z := Z.of_nat (length (peers_of l)).
Definition spec_max_global_usage (reserved : Z) (l : list oann) : Z := reserved * Z.max (spec_npeers l) 1.
Definition spec_max_peer_latency (maxlat : Z) (l : list oann) : Z := maxlat / Z.max (spec_npeers l) 1.
Definition spec_needs_trim (maxlat reserved : Z) (l : list oann) : bool :=
  (maxlat <? spec_total_latency l) || (spec_max_global_usage reserved l <? spec_total_usage l).
(* a peer's DoS score exceeds 1 (with the limits in force when LimitOrphans starts on l) *)
Definition spec_dosy (maxlat reserved : Z) (l : list oann) (p : Z) : bool :=
  ratio_gt (dos_score (recompute_peer l p) (spec_max_peer_latency maxlat l) reserved) FF_ONE.
(* the wtxids an outpoint maps to *)
Definition spec_outmap (l : list oann) (k : outpoint) : list Z := filter (spends_in l k) (wtxids_of l).
Definition spends_any (spent : list outpoint) (a : oann) : bool :=
  existsb (fun k => existsb (op_eqb k) spent) (x_inputs (o_tx a)).
