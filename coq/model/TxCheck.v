(* Context-free transaction check.  Transcribed from
     src/consensus/tx_check.cpp          CheckTransaction
     src/primitives/transaction.h        COutPoint::IsNull, CTransaction::IsCoinBase, no-witness serialization
     src/serialize.h                     GetSizeOfCompactSize
   Executable definitions only. *)
From BV Require Import lib.Ints gen.Params_gen model.Amount.
Local Open Scope Z_scope.

Record txin := { prev_hash : Z;      (* uint256 as a number *)
                 prev_n : Z;         (* uint32 *)
                 script_sig_len : Z  (* bytes *) }.
Record txout := { value : Z;         (* CAmount, int64 *)
                  spk_len : Z }.
Record tx := { vin : list txin; vout : list txout }.

Inductive reason :=
| bad_txns_vin_empty | bad_txns_vout_empty | bad_txns_oversize
| bad_txns_vout_negative | bad_txns_vout_toolarge | bad_txns_txouttotal_toolarge
| bad_txns_inputs_duplicate | bad_cb_length | bad_txns_prevout_null.

(* inline unsigned int GetSizeOfCompactSize(uint64_t nSize)
   { if (nSize < 253) return 1; else if (nSize <= 0xFFFF) return 3; else if (nSize <= 0xFFFFFFFF) return 5; else return 9; } *)
Definition compact_size_len (n : Z) : Z :=
  if n <? 253 then 1 else if n <=? 65535 then 3 else if n <=? 4294967295 then 5 else 9.

(* CTxIn: prevout (32+4) + scriptSig (compactsize + bytes) + nSequence (4);  CTxOut: nValue (8) + script *)
Definition txin_size (i : txin) : Z := 36 + compact_size_len (script_sig_len i) + script_sig_len i + 4.
Definition txout_size (o : txout) : Z := 8 + compact_size_len (spk_len o) + spk_len o.
(* SerializeTransaction without witness: version(4) vin vout locktime(4) *)
Definition nowit_size (t : tx) : Z :=
  4 + compact_size_len (Z.of_nat (length (vin t))) + zsum (map txin_size (vin t))
    + compact_size_len (Z.of_nat (length (vout t))) + zsum (map txout_size (vout t)) + 4.

Definition NULL_INDEX : Z := 4294967295.
(* bool IsNull() const { return (hash.IsNull() && n == NULL_INDEX); } *)
Definition prevout_is_null (i : txin) : bool := (prev_hash i =? 0) && (prev_n i =? NULL_INDEX).
(* bool IsCoinBase() const { return (vin.size() == 1 && vin[0].prevout.IsNull()); } *)
Definition is_coinbase (t : tx) : bool :=
  match vin t with [i] => prevout_is_null i | _ => false end.

Definition outpoint_eqb (a b : txin) : bool := (prev_hash a =? prev_hash b) && (prev_n a =? prev_n b).

(* for (const auto& txout : tx.vout) {
       if (txout.nValue < 0) return ... "bad-txns-vout-negative";
       if (txout.nValue > MAX_MONEY) return ... "bad-txns-vout-toolarge";
       nValueOut += txout.nValue;                       // int64 addition
       if (!MoneyRange(nValueOut)) return ... "bad-txns-txouttotal-toolarge"; } *)
Fixpoint check_outputs (acc : Z) (l : list txout) : option reason :=
  match l with
  | [] => None
  | o :: r =>
    if value o <? 0 then Some bad_txns_vout_negative
    else if value o >? MAX_MONEY then Some bad_txns_vout_toolarge
    else let acc' := wrap64 (acc + value o) in
         if negb (money_range acc') then Some bad_txns_txouttotal_toolarge
         else check_outputs acc' r
  end.

(* std::set<COutPoint> vInOutPoints; for (txin : vin) if (!vInOutPoints.insert(txin.prevout).second) return dup; *)
Fixpoint has_dup_from (seen : list txin) (l : list txin) : bool :=
  match l with
  | [] => false
  | i :: r => if existsb (outpoint_eqb i) seen then true else has_dup_from (i :: seen) r
  end.

Definition check_transaction (t : tx) : option reason :=
  match vin t with [] => Some bad_txns_vin_empty | _ =>
  match vout t with [] => Some bad_txns_vout_empty | _ =>
  (* ::GetSerializeSize(TX_NO_WITNESS(tx)) * WITNESS_SCALE_FACTOR > MAX_BLOCK_WEIGHT   (size_t arithmetic) *)
  if wrapu64 (nowit_size t * WITNESS_SCALE_FACTOR) >? MAX_BLOCK_WEIGHT then Some bad_txns_oversize else
  match check_outputs 0 (vout t) with Some r => Some r | None =>
  if has_dup_from [] (vin t) then Some bad_txns_inputs_duplicate else
  if is_coinbase t then
    match vin t with
    | i :: _ => if (script_sig_len i <? 2) || (script_sig_len i >? 100) then Some bad_cb_length else None
    | [] => None
    end
  else if existsb prevout_is_null (vin t) then Some bad_txns_prevout_null else None
  end end end.

(* ------------------------------------------------------------------------------------------ *)
(* The specification, as the property states it (amount bounds written out in satoshi). *)
Definition MAX_21M : Z := 21000000 * 100000000.
Definition outpoint (i : txin) : Z * Z := (prev_hash i, prev_n i).
Definition null_prevout (i : txin) : Prop := prev_hash i = 0 /\ prev_n i = 4294967295.
Definition coinbase_shape (t : tx) : Prop := exists i, vin t = [i] /\ null_prevout i.

Definition spec_valid (t : tx) : Prop :=
  vin t <> [] /\ vout t <> [] /\
  nowit_size t * 4 <= 4000000 /\
  (forall o, In o (vout t) -> 0 <= value o <= MAX_21M) /\
  0 <= zsum (map value (vout t)) <= MAX_21M /\
  NoDup (map outpoint (vin t)) /\
  ((exists i, vin t = [i] /\ null_prevout i /\ 2 <= script_sig_len i <= 100)
   \/ (forall i, In i (vin t) -> ~ null_prevout i)).

(* First violated rule, in the stated order; within the output rules the outputs are scanned in
   order and an output is bad if it is negative, too large, or makes the running total too large. *)
Definition output_violation (prefix_sum : Z) (o : txout) : option reason :=
  if value o <? 0 then Some bad_txns_vout_negative
  else if MAX_21M <? value o then Some bad_txns_vout_toolarge
  else if MAX_21M <? prefix_sum + value o then Some bad_txns_txouttotal_toolarge
  else None.
Fixpoint first_output_violation (prefix_sum : Z) (l : list txout) : option reason :=
  match l with
  | [] => None
  | o :: r => match output_violation prefix_sum o with
              | Some x => Some x
              | None => first_output_violation (prefix_sum + value o) r
              end
  end.
Fixpoint nodup_b (l : list (Z * Z)) : bool :=
  match l with
  | [] => true
  | x :: r => negb (existsb (fun y => (fst x =? fst y) && (snd x =? snd y)) r) && nodup_b r
  end.
Definition first_violation (t : tx) : option reason :=
  if (length (vin t) =? 0)%nat then Some bad_txns_vin_empty
  else if (length (vout t) =? 0)%nat then Some bad_txns_vout_empty
  else if 4000000 <? nowit_size t * 4 then Some bad_txns_oversize
  else match first_output_violation 0 (vout t) with
  | Some r => Some r
  | None =>
    if negb (nodup_b (map outpoint (vin t))) then Some bad_txns_inputs_duplicate
    else if is_coinbase t then
      (if forallb (fun i => (2 <=? script_sig_len i) && (script_sig_len i <=? 100)) (vin t) then None else Some bad_cb_length)
    else if existsb prevout_is_null (vin t) then Some bad_txns_prevout_null else None
  end.

(* inputs that can be CTransaction values: lengths are sizes, values are int64, indices uint32 *)
Definition wf_tx (t : tx) : Prop :=
  (forall i, In i (vin t) -> 0 <= script_sig_len i /\ 0 <= prev_n i <= 4294967295 /\ 0 <= prev_hash i) /\
  (forall o, In o (vout t) -> 0 <= spk_len o /\ INT64_MIN <= value o <= INT64_MAX) /\
  nowit_size t * 4 <= UINT64_MAX.
