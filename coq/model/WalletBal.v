(* Wallet balances (C44).  Transcribed from
     src/wallet/receive.cpp    GetBalance, CachedTxIsTrusted, CachedTxIsFromMe
     src/wallet/wallet.cpp     HowSpent, IsSpent, IsFromMe / GetTXO, GetTxDepthInMainChain,
                               GetTxBlocksToMaturity, IsTxImmatureCoinBase
     src/wallet/spend.cpp      AvailableCoins (the filters that apply with a default CCoinControl, min_depth 0)
     src/wallet/transaction.h  TxState, isConfirmed / InMempool / isBlockConflicted / isAbandoned / isMempoolConflicted
   and the specification: the same three balances and the spendable coins computed directly from the active
   chain and the mempool.  Executable definitions only (proofs are in proofs/WalletBalLemmas.v). *)
From BV Require Import lib.Ints gen.Params_gen.
Local Open Scope Z_scope.

(* one transaction as the wallet sees it: outputs with their value and whether the script is the wallet's *)
Record wout := mkOut { o_value : Z; o_mine : bool }.
Record wtx := mkTx { t_id : nat; t_coinbase : bool; t_ins : list (nat * nat); t_outs : list wout }.

(* TxStateConfirmed{height} | TxStateInMempool | TxStateBlockConflicted{height} | TxStateInactive{abandoned} *)
Inductive wstate := SConfirmed (h : Z) | SMempool | SConflicted (h : Z) | SInactive (abandoned : bool).
(* a mapWallet entry; e_mconf: !mempool_conflicts.empty() *)
Record wentry := mkEntry { e_tx : wtx; e_state : wstate; e_mconf : bool }.

Definition outpoint_eqb (a b : nat * nat) : bool := Nat.eqb (fst a) (fst b) && Nat.eqb (snd a) (snd b).
Definition spends (op : nat * nat) (t : wtx) : bool := existsb (outpoint_eqb op) (t_ins t).

Definition is_confirmed (e : wentry) : bool := match e_state e with SConfirmed _ => true | _ => false end.
Definition in_mempool (e : wentry) : bool := match e_state e with SMempool => true | _ => false end.
Definition is_block_conflicted (e : wentry) : bool := match e_state e with SConflicted _ => true | _ => false end.
Definition is_abandoned (e : wentry) : bool := match e_state e with SInactive true => true | _ => false end.

Inductive spend_type := Unspent | SpentConfirmed | SpentMempool | SpentNonMempool.

Record balance := mkBal { b_trusted : Z; b_pending : Z; b_immature : Z }.
Definition bal_zero : balance := mkBal 0 0 0.
Definition bal_add (a b : balance) : balance :=
  mkBal (b_trusted a + b_trusted b) (b_pending a + b_pending b) (b_immature a + b_immature b).
Inductive bucket := BNone | BTrusted | BPending | BImmature.
Definition bal_of (b : bucket) (v : Z) : balance :=
  match b with BNone => bal_zero | BTrusted => mkBal v 0 0 | BPending => mkBal 0 v 0 | BImmature => mkBal 0 0 v end.

Section Wallet.
Variable W : list wentry.      (* mapWallet *)
Variable tip : Z.              (* GetLastBlockHeight() *)
Variable fuel : nat.           (* bound on the recursion depth of CachedTxIsTrusted (see is_trusted_fuel_irrelevant) *)

Definition find_entry (id : nat) : option wentry := find (fun e => Nat.eqb (t_id (e_tx e)) id) W.

(* int CWallet::GetTxDepthInMainChain(const CWalletTx& wtx) const
   {   if (auto* conf = wtx.state<TxStateConfirmed>()) return GetLastBlockHeight() - conf->confirmed_block_height + 1;
       else if (auto* conf = wtx.state<TxStateBlockConflicted>()) return -1 * (GetLastBlockHeight() - conf->conflicting_block_height + 1);
       else return 0; } *)
Definition depth (e : wentry) : Z :=
  match e_state e with
  | SConfirmed h => tip - h + 1
  | SConflicted h => -1 * (tip - h + 1)
  | _ => 0
  end.

(* int CWallet::GetTxBlocksToMaturity(wtx): if (!wtx.IsCoinBase()) return 0;
       return std::max(0, (COINBASE_MATURITY+1) - GetTxDepthInMainChain(wtx));
   bool IsTxImmatureCoinBase(wtx) { return GetTxBlocksToMaturity(wtx) > 0; } *)
Definition blocks_to_maturity (e : wentry) : Z :=
  if t_coinbase (e_tx e) then Z.max 0 ((COINBASE_MATURITY + 1) - depth e) else 0.
Definition is_immature_coinbase (e : wentry) : bool := 0 <? blocks_to_maturity e.

(* GetTXO(outpoint): the output, when its transaction is in the wallet and the output is the wallet's *)
Definition txo_of (op : nat * nat) : option wout :=
  match find_entry (fst op) with
  | None => None
  | Some e => match nth_error (t_outs (e_tx e)) (snd op) with
              | Some o => if o_mine o then Some o else None
              | None => None
              end
  end.

(* bool CWallet::IsFromMe(const CTransaction& tx) const { for (txin : tx.vin) if (GetTXO(txin.prevout)) return true; return false; } *)
Definition is_from_me (t : wtx) : bool :=
  existsb (fun op => match txo_of op with Some _ => true | None => false end) (t_ins t).

(* CWallet::SpendType CWallet::HowSpent(const COutPoint& outpoint) const
   {   SpendType st{SpendType::UNSPENT};
       for (each txid spending outpoint in mapTxSpends, present in mapWallet as wtx) {
           if (wtx.isConfirmed()) return SpendType::CONFIRMED;
           if (wtx.InMempool()) { st = SpendType::MEMPOOL; }
           else if (!wtx.isAbandoned() && !wtx.isBlockConflicted() && !wtx.isMempoolConflicted()) {
               if (st == SpendType::UNSPENT) st = SpendType::NONMEMPOOL; } }
       return st; } *)
Definition live_nonmempool (e : wentry) : bool :=
  negb (is_confirmed e) && negb (in_mempool e) && negb (is_abandoned e) && negb (is_block_conflicted e) && negb (e_mconf e).
Definition how_spent (op : nat * nat) : spend_type :=
  let sp := filter (fun e => spends op (e_tx e)) W in
  if existsb is_confirmed sp then SpentConfirmed
  else if existsb in_mempool sp then SpentMempool
  else if existsb live_nonmempool sp then SpentNonMempool
  else Unspent.

(* bool CWallet::IsSpent(outpoint): some spender in mapWallet is !isAbandoned() && !isBlockConflicted() && !isMempoolConflicted() *)
Definition is_spent (op : nat * nat) : bool :=
  existsb (fun e => spends op (e_tx e) && negb (is_abandoned e) && negb (is_block_conflicted e) && negb (e_mconf e)) W.

(* bool CachedTxIsTrusted(wallet, wtx, trusted_parents)   (m_spend_zero_conf_change = true; the set only memoises)
   {   if (wtx.isConfirmed()) return true;
       if (wtx.isBlockConflicted()) return false;
       if (!wallet.m_spend_zero_conf_change || !CachedTxIsFromMe(wallet, wtx)) return false;
       if (!wtx.InMempool()) return false;
       for (const CTxIn& txin : wtx.GetTx()->vin) {
           const CWalletTx* parent = wallet.GetWalletTx(txin.prevout.hash);
           if (parent == nullptr) return false;
           const CTxOut& parentOut = parent->GetTx()->vout[txin.prevout.n];
           if (!wallet.IsMine(parentOut)) return false;
           if (!CachedTxIsTrusted(wallet, *parent, trusted_parents)) return false; }
       return true; }
   fuel: the recursion follows inputs to parents; the number of wallet transactions bounds its depth *)
Fixpoint is_trusted (fuel : nat) (e : wentry) : bool :=
  match fuel with
  | O => false
  | S f =>
    if is_confirmed e then true
    else if is_block_conflicted e then false
    else if negb (is_from_me (e_tx e)) then false
    else if negb (in_mempool e) then false
    else forallb (fun op =>
           match find_entry (fst op) with
           | None => false
           | Some p => match nth_error (t_outs (e_tx p)) (snd op) with
                       | None => false
                       | Some o => o_mine o && is_trusted f p
                       end
           end) (t_ins (e_tx e))
  end.
Definition trusted (e : wentry) : bool := is_trusted fuel e.

(* the bucket GetBalance(min_depth = 0, avoid_reuse = false, include_nonmempool = false) puts an unspent TXO of e in:
       if (wallet.IsTxImmatureCoinBase(wtx) && wtx.isConfirmed()) bucket = &ret.m_mine_immature;
       else if (is_trusted && tx_depth >= min_depth) bucket = &ret.m_mine_trusted;
       else if (!is_trusted && wtx.InMempool()) bucket = &ret.m_mine_untrusted_pending; *)
Definition bucket_of (e : wentry) : bucket :=
  if is_immature_coinbase e && is_confirmed e then BImmature
  else if trusted e && (0 <=? depth e) then BTrusted
  else if negb (trusted e) && in_mempool e then BPending
  else BNone.

(* for (const auto& [outpoint, txo] : wallet.GetTXOs()) { ... switch (wallet.HowSpent(outpoint)) {
       case CONFIRMED: case MEMPOOL: break;  case NONMEMPOOL: if (!include_nonmempool) break; ...
       case UNSPENT: <bucket> += txo.GetTxOut().nValue } }
   GetTXOs(): the wallet's own outputs of every mapWallet transaction *)
Fixpoint entry_balance (e : wentry) (n : nat) (outs : list wout) : balance :=
  match outs with
  | [] => bal_zero
  | o :: r =>
    bal_add (if o_mine o then
               match how_spent (t_id (e_tx e), n) with
               | Unspent => bal_of (bucket_of e) (o_value o)
               | _ => bal_zero
               end
             else bal_zero)
            (entry_balance e (S n) r)
  end.
Fixpoint sum_bal (l : list balance) : balance :=
  match l with [] => bal_zero | b :: r => bal_add b (sum_bal r) end.
Definition get_balance : balance := sum_bal (map (fun e => entry_balance e 0 (t_outs (e_tx e))) W).

(* AvailableCoins with a default CCoinControl (min_depth 0, max_depth 9999999, only safe), default CoinFilterParams:
   per transaction: not an immature coinbase; depth >= 0; depth 0 only when in the mempool; CachedTxIsTrusted;
   per output: value >= 1, not IsSpent *)
Definition tx_available (e : wentry) : bool :=
  negb (is_immature_coinbase e) && (0 <=? depth e) && (negb (depth e =? 0) || in_mempool e) && trusted e.
Fixpoint entry_coins (e : wentry) (n : nat) (outs : list wout) : list (nat * nat) :=
  match outs with
  | [] => []
  | o :: r =>
    (if o_mine o && tx_available e && (1 <=? o_value o) && negb (is_spent (t_id (e_tx e), n))
     then [(t_id (e_tx e), n)] else []) ++ entry_coins e (S n) r
  end.
Definition available_coins : list (nat * nat) := flat_map (fun e => entry_coins e 0 (t_outs (e_tx e))) W.
End Wallet.

(* ------------------------------------------------------------------------------------------- *)
(* Specification: computed directly from the active chain and the mempool *)
Inductive status := StConfirmed (h : Z) | StMempool | StAbsent.

Section Spec.
Variable table : list wtx.                (* every transaction of the scenario *)
Variable chain : list (Z * list nat).     (* active chain: height, ids of the transactions in that block *)
Variable pool : list nat.                 (* mempool *)
Variable tip : Z.
Variable fuel : nat.
Variable own_pending : list nat.          (* wallet transactions that are neither in the chain nor in the mempool nor
                                             conflicted nor abandoned: the wallet still counts their spends *)

Definition mem_nat (x : nat) (l : list nat) : bool := existsb (Nat.eqb x) l.
Definition status_of (id : nat) : status :=
  match find (fun b => mem_nat id (snd b)) chain with
  | Some b => StConfirmed (fst b)
  | None => if mem_nat id pool then StMempool else StAbsent
  end.
Definition find_tx (id : nat) : option wtx := find (fun t => Nat.eqb (t_id t) id) table.

Definition out_mine (op : nat * nat) : bool :=
  match find_tx (fst op) with
  | None => false
  | Some t => match nth_error (t_outs t) (snd op) with Some o => o_mine o | None => false end
  end.

(* spent by a transaction in the chain or the mempool (or still pending in the wallet) *)
Definition spent_spec (op : nat * nat) : bool :=
  existsb (fun t => spends op t &&
                    (match status_of (t_id t) with StAbsent => mem_nat (t_id t) own_pending | _ => true end)) table.

(* an unconfirmed transaction is trusted when it is in the mempool, all its inputs are the wallet's outputs and
   their transactions are confirmed or themselves trusted *)
Fixpoint trusted_spec (fuel : nat) (t : wtx) : bool :=
  match fuel with
  | O => false
  | S f =>
    match status_of (t_id t) with
    | StConfirmed _ => true
    | StAbsent => false
    | StMempool =>
      existsb out_mine (t_ins t) &&
      forallb (fun op => out_mine op &&
                         match find_tx (fst op) with Some p => trusted_spec f p | None => false end) (t_ins t)
    end
  end.

Definition bucket_spec (t : wtx) : bucket :=
  match status_of (t_id t) with
  | StConfirmed h => if t_coinbase t && (0 <? (COINBASE_MATURITY + 1) - (tip - h + 1)) then BImmature else BTrusted
  | StMempool => if trusted_spec fuel t then BTrusted else BPending
  | StAbsent => BNone
  end.

Fixpoint tx_balance_spec (t : wtx) (n : nat) (outs : list wout) : balance :=
  match outs with
  | [] => bal_zero
  | o :: r =>
    bal_add (if o_mine o && negb (spent_spec (t_id t, n)) then bal_of (bucket_spec t) (o_value o) else bal_zero)
            (tx_balance_spec t (S n) r)
  end.
Definition balance_spec : balance := sum_bal (map (fun t => tx_balance_spec t 0 (t_outs t)) table).

(* spendable coins: the wallet's unspent outputs of confirmed (mature) or trusted mempool transactions *)
Fixpoint tx_coins_spec (t : wtx) (n : nat) (outs : list wout) : list (nat * nat) :=
  match outs with
  | [] => []
  | o :: r =>
    (if o_mine o && (match bucket_spec t with BTrusted => true | _ => false end) && (1 <=? o_value o) &&
        negb (spent_spec (t_id t, n))
     then [(t_id t, n)] else []) ++ tx_coins_spec t (S n) r
  end.
Definition coins_spec : list (nat * nat) := flat_map (fun t => tx_coins_spec t 0 (t_outs t)) table.

(* the wallet tracks the chain: executable, evaluated on what the implementation reports after every step.
   Every wallet transaction is a transaction of the table listed in table order, its state is its true status
   (confirmed at that height / in the mempool / otherwise conflicted or inactive), and every transaction in the
   chain or mempool that pays the wallet or spends one of its outputs is in the wallet. *)
Definition relevant (t : wtx) : bool := existsb o_mine (t_outs t) || existsb out_mine (t_ins t).
(* conflicted by the chain: an input (of the transaction or of an absent ancestor) is spent by another transaction
   that is confirmed in the active chain *)
Fixpoint chain_conflicted (f : nat) (t : wtx) : bool :=
  match f with
  | O => false
  | S f' =>
    existsb (fun op =>
      existsb (fun t' => negb (Nat.eqb (t_id t') (t_id t)) && spends op t' &&
                         match status_of (t_id t') with StConfirmed _ => true | _ => false end) table ||
      match find_tx (fst op) with
      | Some p => match status_of (t_id p) with StAbsent => chain_conflicted f' p | _ => false end
      | None => false
      end) (t_ins t)
  end.
(* the wallet's state is the true status; a transaction that is neither in the chain nor in the mempool must be
   marked conflicted when the chain conflicts with it (it may be inactive or abandoned otherwise) *)
Definition state_matches (e : wentry) : bool :=
  match status_of (t_id (e_tx e)), e_state e with
  | StConfirmed h, SConfirmed h' => h =? h'
  | StMempool, SMempool => true
  | StAbsent, SConflicted _ => true
  | StAbsent, SInactive a => a || negb (chain_conflicted (S (length table)) (e_tx e))
  | _, _ => false
  end.
Definition in_wallet (W : list wentry) (t : wtx) : bool := existsb (fun e => Nat.eqb (t_id (e_tx e)) (t_id t)) W.
Definition wtx_eqb (a b : wtx) : bool :=
  Nat.eqb (t_id a) (t_id b) && Bool.eqb (t_coinbase a) (t_coinbase b) &&
  (length (t_ins a) =? length (t_ins b))%nat && forallb (fun p => outpoint_eqb (fst p) (snd p)) (combine (t_ins a) (t_ins b)) &&
  (length (t_outs a) =? length (t_outs b))%nat &&
  forallb (fun p => (o_value (fst p) =? o_value (snd p)) && Bool.eqb (o_mine (fst p)) (o_mine (snd p))) (combine (t_outs a) (t_outs b)).
Fixpoint listed_in_order (W : list wentry) (tb : list wtx) : bool :=
  match W with
  | [] => true
  | e :: W' =>
    match tb with
    | [] => false
    | t :: tb' => if wtx_eqb (e_tx e) t then listed_in_order W' tb' else listed_in_order W tb'
    end
  end.
Fixpoint nodup_nat (l : list nat) : bool :=
  match l with [] => true | x :: r => negb (mem_nat x r) && nodup_nat r end.
Definition present (id : nat) : bool := match status_of id with StAbsent => false | _ => true end.
Definition tracks (W : list wentry) : bool :=
  listed_in_order W table &&
  nodup_nat (map t_id table) &&
  forallb state_matches W &&
  (* nothing relevant is missing from the wallet *)
  forallb (fun t => negb (present (t_id t)) || negb (relevant t) || in_wallet W t) table &&
  (* the chain and mempool are closed under parents, and no block is above the tip *)
  forallb (fun t => negb (present (t_id t)) ||
                    forallb (fun op => match find_tx (fst op) with Some p => present (t_id p) | None => true end) (t_ins t)) table &&
  forallb (fun b => fst b <=? tip) chain.

(* ids follow creation order: every input refers to an earlier transaction (used for the sufficient-fuel lemma) *)
Definition topo_table : bool :=
  forallb (fun t => forallb (fun op => Nat.ltb (fst op) (t_id t)) (t_ins t)) table.
End Spec.

(* own_pending as the wallet defines it *)
Definition own_pending_of (W : list wentry) : list nat :=
  map (fun e => t_id (e_tx e)) (filter live_nonmempool W).
