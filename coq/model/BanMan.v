(* BanMan  (src/banman.h, src/banman.cpp): the ban list  std::map<CSubNet, CBanEntry> m_banned  with expiry.
   The map is an association list with unique keys (key equivalence as induced by CSubNet's operator<, see
   subnet_key_eqb); its ordering is irrelevant to every answer modelled here.  Time is an explicit argument (GetTime(), mockable).
   The discouragement filter (CRollingBloomFilter) is probabilistic and is not modelled.
   Executable definitions only; proofs are in proofs/BanManLemmas.v. *)
From Coq Require Import List Arith Bool ZArith.
From BV Require Import model.NetAddr.
Import ListNotations.
Local Open Scope Z_scope.

(* class CBanEntry { int nVersion; int64_t nCreateTime{0}; int64_t nBanUntil{0}; } *)
Record ban_entry := mkban { b_create : Z; b_until : Z }.
Definition banmap := list (subnet * ban_entry).

(* key equivalence of the std::map: neither a < b nor b < a with
   bool operator<(const CSubNet& a, const CSubNet& b) { return (a.network < b.network || (a.network == b.network && memcmp(a.netmask, b.netmask, 16) < 0)); }
   i.e. same network address and same netmask; the `valid` flag is NOT part of the key (it is part of operator==) *)
Definition subnet_key_eqb (a b : subnet) : bool :=
  addr_eqb (s_network a) (s_network b) && bytes_eqb (s_mask a) (s_mask b).

Fixpoint ban_find (m : banmap) (s : subnet) : option ban_entry :=
  match m with
  | [] => None
  | (k, e) :: r => if subnet_key_eqb k s then Some e else ban_find r s
  end.
Fixpoint ban_remove (m : banmap) (s : subnet) : banmap :=
  match m with
  | [] => []
  | (k, e) :: r => if subnet_key_eqb k s then r else (k, e) :: ban_remove r s
  end.
Fixpoint ban_set (m : banmap) (s : subnet) (e : ban_entry) : banmap :=
  match m with
  | [] => [(s, e)]
  | (k, e0) :: r => if subnet_key_eqb k s then (k, e) :: r else (k, e0) :: ban_set r s e
  end.

(* void BanMan::SweepBanned() {
       int64_t now = GetTime();
       while (it != m_banned.end()) {
           if (!sub_net.IsValid() || now > ban_entry.nBanUntil) { m_banned.erase(it++); ... } else ++it; } } *)
Definition sweep_banned (now : Z) (m : banmap) : banmap :=
  filter (fun p => negb (negb (s_valid (fst p)) || (b_until (snd p) <? now))) m.

(* bool BanMan::IsBanned(const CNetAddr& net_addr) {
       auto current_time = GetTime();
       for (const auto& it : m_banned) { if (current_time < ban_entry.nBanUntil && sub_net.Match(net_addr)) return true; }
       return false; } *)
Definition is_banned_addr (now : Z) (m : banmap) (a : netaddr) : bool :=
  existsb (fun p => (now <? b_until (snd p)) && subnet_match (fst p) a) m.

(* bool BanMan::IsBanned(const CSubNet& sub_net) {
       banmap_t::iterator i = m_banned.find(sub_net);
       if (i != m_banned.end()) { if (current_time < ban_entry.nBanUntil) return true; }
       return false; } *)
Definition is_banned_subnet (now : Z) (m : banmap) (s : subnet) : bool :=
  match ban_find m s with Some e => now <? b_until e | None => false end.

(* void BanMan::Ban(const CSubNet& sub_net, int64_t ban_time_offset, bool since_unix_epoch) {
       CBanEntry ban_entry(GetTime());
       int64_t normalized_ban_time_offset = ban_time_offset; bool normalized_since_unix_epoch = since_unix_epoch;
       if (ban_time_offset <= 0) { normalized_ban_time_offset = m_default_ban_time; normalized_since_unix_epoch = false; }
       ban_entry.nBanUntil = (normalized_since_unix_epoch ? 0 : GetTime()) + normalized_ban_time_offset;
       { if (m_banned[sub_net].nBanUntil < ban_entry.nBanUntil) { m_banned[sub_net] = ban_entry; m_is_dirty = true; } else return; }
       DumpBanlist(); }                      // DumpBanlist() begins with SweepBanned()
   m_banned[sub_net] default-constructs an entry (nBanUntil = 0) when the key is absent. *)
Definition ban_until (now default_ban_time offset : Z) (since_unix_epoch : bool) : Z :=
  let '(off, epoch) := if offset <=? 0 then (default_ban_time, false) else (offset, since_unix_epoch) in
  (if epoch then 0 else now) + off.
Definition ban (now default_ban_time : Z) (m : banmap) (s : subnet) (offset : Z) (since_unix_epoch : bool) : banmap :=
  let until := ban_until now default_ban_time offset since_unix_epoch in
  let m1 := match ban_find m s with Some _ => m | None => ban_set m s (mkban 0 0) end in
  let cur := match ban_find m s with Some e => b_until e | None => 0 end in
  if cur <? until then sweep_banned now (ban_set m1 s (mkban now until)) else m1.

(* void BanMan::Ban(const CNetAddr& net_addr, ...) { CSubNet sub_net(net_addr); Ban(sub_net, ...); } *)
Definition ban_addr (now default_ban_time : Z) (m : banmap) (a : netaddr) (offset : Z) (since_unix_epoch : bool) : banmap :=
  ban now default_ban_time m (subnet_single a) offset since_unix_epoch.

(* bool BanMan::Unban(const CSubNet& sub_net) { if (m_banned.erase(sub_net) == 0) return false; ... DumpBanlist(); return true; } *)
Definition unban (now : Z) (m : banmap) (s : subnet) : bool * banmap :=
  match ban_find m s with
  | Some _ => (true, sweep_banned now (ban_remove m s))
  | None => (false, m)
  end.

(* void BanMan::ClearBanned() { m_banned.clear(); ... }      void BanMan::GetBanned(banmap_t& banmap) { SweepBanned(); banmap = m_banned; } *)
Definition clear_banned : banmap := [].
Definition get_banned (now : Z) (m : banmap) : banmap := sweep_banned now m.

(* unique keys *)
Fixpoint keys_unique (m : banmap) : bool :=
  match m with
  | [] => true
  | (k, _) :: r => negb (existsb (fun p => subnet_key_eqb (fst p) k) r) && keys_unique r
  end.

(* ------------------------------------------------------------------------------------------------
   Scripts: the BanMan next to the reference ban list of the statement (pairs (subnet, expiry), nothing is
   ever swept; a ban sets the expiry only when it extends it; an address is banned while a pair covers it and
   now < expiry).  Time only moves forward. *)
Inductive bop := BTime (t : Z) | BBan (s : subnet) (offset : Z) (since_epoch : bool) | BUnban (s : subnet) | BClear | BList.

Definition bm_step (d : Z) (st : Z * banmap) (o : bop) : Z * banmap :=
  let '(now, m) := st in
  match o with
  | BTime t => (Z.max now t, m)
  | BBan s offset ep => (now, ban now d m s offset ep)
  | BUnban s => (now, snd (unban now m s))
  | BClear => (now, clear_banned)
  | BList => (now, get_banned now m)
  end.
Definition ref_ban (now d : Z) (r : banmap) (s : subnet) (offset : Z) (ep : bool) : banmap :=
  let u := ban_until now d offset ep in
  let cur := match ban_find r s with Some e => b_until e | None => 0 end in
  if cur <? u then ban_set r s (mkban now u) else r.
Definition ref_step (d : Z) (st : Z * banmap) (o : bop) : Z * banmap :=
  let '(now, r) := st in
  match o with
  | BTime t => (Z.max now t, r)
  | BBan s offset ep => (now, ref_ban now d r s offset ep)
  | BUnban s => (now, ban_remove r s)
  | BClear => (now, [])
  | BList => (now, r)
  end.
Definition bm_run (d : Z) (st : Z * banmap) (ops : list bop) : Z * banmap := fold_left (bm_step d) ops st.
Definition ref_run (d : Z) (st : Z * banmap) (ops : list bop) : Z * banmap := fold_left (ref_step d) ops st.
(* the scripts considered: only valid subnets are banned, and every computed expiry is positive (true for any
   positive clock and positive default ban time) *)
Fixpoint script_wf (d : Z) (now : Z) (ops : list bop) : Prop :=
  match ops with
  | [] => True
  | BTime t :: r => script_wf d (Z.max now t) r
  | BBan s offset ep :: r => s_valid s = true /\ 0 < ban_until now d offset ep /\ script_wf d now r
  | _ :: r => script_wf d now r
  end.
