(* Block template assembly (C23).  Transcribed from src/node/miner.cpp
     BlockAssembler::resetBlock, CreateNewBlock (the counters and the coinbase value), addChunks,
     TestChunkBlockLimits, TestChunkTransactions, AddToBlock
   and src/node/mining_args.cpp CheckMiningOptions.
   Executable definitions only (proofs are in proofs/MinerLemmas.v).

   The chunks are what CTxMemPool::GetBlockBuilderChunk hands out (TxGraph's BlockBuilder, C25): a list taken from the
   operation.  What the theorems need from the builder is stated as the executable premise `offered_ok`: a chunk is only
   offered when every in-pool parent of each of its transactions is earlier in the chunk or in a chunk that was included. *)
From BV Require Import lib.Ints gen.Params_gen model.Locks model.Amount.
Local Open Scope Z_scope.

(* a mempool entry as the assembler reads it: GetTxWeight, GetSigOpCost, GetFee, the lock fields of its transaction, and
   the txids of its in-pool parents *)
Record ctx := { c_id : Z; c_weight : Z; c_sigops : Z; c_fee : Z; c_ltx : ltx; c_parents : list Z }.
(* chunk_feerate (FeePerWeight: fee, size = sum of the sigop-adjusted weights) and selected_transactions *)
Record chunk := { k_fee : Z; k_size : Z; k_txs : list ctx }.
(* BlockCreateOptions after FlattenMiningOptions: block_max_weight, block_reserved_weight, block_min_fee_rate (sat/kvB),
   coinbase_output_max_additional_sigops *)
Record opts := { o_max_weight : Z; o_reserved : Z; o_min_fee_kvb : Z; o_cb_sigops : Z }.

(* CheckMiningOptions: reserved >= MINIMUM_BLOCK_RESERVED_WEIGHT, reserved <= MAX_BLOCK_WEIGHT, max <= MAX_BLOCK_WEIGHT,
   reserved <= max, coinbase_output_max_additional_sigops <= MAX_BLOCK_SIGOPS_COST *)
Definition check_options (o : opts) : bool :=
  negb (o_reserved o <? MINER_MINIMUM_BLOCK_RESERVED_WEIGHT) && negb (o_reserved o >? MAX_BLOCK_WEIGHT) &&
  negb (o_max_weight o >? MAX_BLOCK_WEIGHT) && negb (o_reserved o >? o_max_weight o) &&
  negb (o_cb_sigops o >? MAX_BLOCK_SIGOPS_COST).

(* nBlockWeight, nBlockSigOpsCost (uint64_t), nFees (CAmount), block.vtx, nConsecutiveFailed *)
Record astate := { a_weight : Z; a_sigops : Z; a_fees : Z; a_sel : list ctx; a_failed : Z }.

(* bool TestChunkBlockLimits(FeePerWeight chunk_feerate, int64_t chunk_sigops_cost) const {
       if (nBlockWeight + chunk_feerate.size >= *m_options.block_max_weight) return false;
       if (nBlockSigOpsCost + chunk_sigops_cost >= MAX_BLOCK_SIGOPS_COST) return false;
       return true; }                                (both sums in uint64_t) *)
Definition test_chunk_block_limits (o : opts) (a : astate) (size sig : Z) : bool :=
  if wrapu64 (a_weight a + size) >=? o_max_weight o then false
  else if wrapu64 (a_sigops a + sig) >=? MAX_BLOCK_SIGOPS_COST then false
  else true.

(* bool TestChunkTransactions(txs): every tx IsFinalTx(tx, nHeight, m_lock_time_cutoff) *)
Definition test_chunk_transactions (height cutoff : Z) (txs : list ctx) : bool :=
  forallb (fun t => is_final_tx (c_ltx t) height cutoff) txs.

(* AddToBlock, for every transaction of the chunk: nBlockWeight += GetTxWeight(); nBlockSigOpsCost += GetSigOpCost(); nFees += GetFee() *)
Definition add_to_block (a : astate) (t : ctx) : astate :=
  {| a_weight := wrapu64 (a_weight a + c_weight t); a_sigops := wrapu64 (a_sigops a + c_sigops t);
     a_fees := wrap64 (a_fees a + c_fee t); a_sel := a_sel a ++ [t]; a_failed := a_failed a |}.

Definition MAX_CONSECUTIVE_FAILURES : Z := 1000.
Definition BLOCK_FULL_ENOUGH_WEIGHT_DELTA : Z := 4000.

(* addChunks:
     while (selected_transactions.size() > 0) {
       if (ByRatio{ToFeePerVSize(chunk_feerate)} < ByRatio{m_options.block_min_fee_rate->GetFeePerVSize()}) return;
            -- fee * 1000 < min_fee_kvb * ((size + 3) / 4), 128-bit products
       chunk_sig_ops = sum GetSigOpCost();
       if (!TestChunkBlockLimits(chunk_feerate, chunk_sig_ops) || !TestChunkTransactions(selected_transactions)) {
           SkipBuilderChunk(); ++nConsecutiveFailed;
           if (nConsecutiveFailed > MAX_CONSECUTIVE_FAILURES && nBlockWeight + BLOCK_FULL_ENOUGH_WEIGHT_DELTA > *block_max_weight) return;
       } else { IncludeBuilderChunk(); nConsecutiveFailed = 0; for (tx : selected_transactions) AddToBlock(tx); }
       next chunk } *)
Fixpoint add_chunks (o : opts) (height cutoff : Z) (a : astate) (ks : list chunk) : astate :=
  match ks with
  | [] => a
  | k :: r =>
    if k_fee k * 1000 <? o_min_fee_kvb o * cdiv (wrap32 (k_size k + WITNESS_SCALE_FACTOR - 1)) WITNESS_SCALE_FACTOR then a
    else
      let sig := wrap64 (zsum (map c_sigops (k_txs k))) in
      if negb (test_chunk_block_limits o a (k_size k) sig) || negb (test_chunk_transactions height cutoff (k_txs k)) then
        let a' := {| a_weight := a_weight a; a_sigops := a_sigops a; a_fees := a_fees a; a_sel := a_sel a; a_failed := a_failed a + 1 |} in
        if (a_failed a' >? MAX_CONSECUTIVE_FAILURES) && (wrapu64 (a_weight a + BLOCK_FULL_ENOUGH_WEIGHT_DELTA) >? o_max_weight o) then a'
        else add_chunks o height cutoff a' r
      else
        let a0 := {| a_weight := a_weight a; a_sigops := a_sigops a; a_fees := a_fees a; a_sel := a_sel a; a_failed := 0 |} in
        add_chunks o height cutoff (fold_left add_to_block (k_txs k) a0) r
  end.

(* the template: block.vtx (without the coinbase), the final counters, and coinbaseTx.vout[0].nValue *)
Record template := { tp_txs : list ctx; tp_weight : Z; tp_sigops : Z; tp_fees : Z; tp_coinbase_value : Z }.

(* CreateNewBlock: resetBlock() { nBlockWeight = block_reserved_weight; nBlockSigOpsCost = coinbase_output_max_additional_sigops;
   nFees = 0 }; nHeight = tip height + 1; m_lock_time_cutoff = tip->GetMedianTimePast(); addChunks();
   coinbaseTx.vout[0].nValue = nFees + GetBlockSubsidy(nHeight, consensus).  None: the options are refused (the constructor throws). *)
Definition assemble (o : opts) (interval height cutoff : Z) (ks : list chunk) : option template :=
  if negb (check_options o) then None
  else
    let a := add_chunks o height cutoff
               {| a_weight := o_reserved o; a_sigops := o_cb_sigops o; a_fees := 0; a_sel := []; a_failed := 0 |} ks in
    Some {| tp_txs := a_sel a; tp_weight := a_weight a; tp_sigops := a_sigops a; tp_fees := a_fees a;
            tp_coinbase_value := wrap64 (a_fees a + get_block_subsidy interval height) |}.

(* ------------------------------------------------------------------------------------------ *)
(* what the theorems need from the block builder: replay the loop and test, for every chunk it is handed, that each in-pool
   parent (pool = the txids in `pool`) of each transaction is earlier in the chunk or already selected *)
Definition mem_id (x : Z) (l : list Z) : bool := existsb (Z.eqb x) l.
Fixpoint chunk_parents_ok (pool : list Z) (have : list Z) (txs : list ctx) : bool :=
  match txs with
  | [] => true
  | t :: r => forallb (fun p => negb (mem_id p pool) || mem_id p have) (c_parents t) && chunk_parents_ok pool (c_id t :: have) r
  end.
Fixpoint offered_ok (pool : list Z) (o : opts) (height cutoff : Z) (a : astate) (ks : list chunk) : bool :=
  match ks with
  | [] => true
  | k :: r =>
    if k_fee k * 1000 <? o_min_fee_kvb o * cdiv (wrap32 (k_size k + WITNESS_SCALE_FACTOR - 1)) WITNESS_SCALE_FACTOR then true
    else
      chunk_parents_ok pool (map c_id (a_sel a)) (k_txs k) &&
      let sig := wrap64 (zsum (map c_sigops (k_txs k))) in
      if negb (test_chunk_block_limits o a (k_size k) sig) || negb (test_chunk_transactions height cutoff (k_txs k)) then
        let a' := {| a_weight := a_weight a; a_sigops := a_sigops a; a_fees := a_fees a; a_sel := a_sel a; a_failed := a_failed a + 1 |} in
        if (a_failed a' >? MAX_CONSECUTIVE_FAILURES) && (wrapu64 (a_weight a + BLOCK_FULL_ENOUGH_WEIGHT_DELTA) >? o_max_weight o) then true
        else offered_ok pool o height cutoff a' r
      else
        let a0 := {| a_weight := a_weight a; a_sigops := a_sigops a; a_fees := a_fees a; a_sel := a_sel a; a_failed := 0 |} in
        offered_ok pool o height cutoff (fold_left add_to_block (k_txs k) a0) r
  end.
(* every chunk's size (an int32) covers the weights of its transactions (GetAdjustedWeight >= GetTxWeight), the numbers are
   non-negative, the sigop costs of a chunk fit an int32 *)
Definition chunk_wf (k : chunk) : bool :=
  (zsum (map c_weight (k_txs k)) <=? k_size k) && (k_size k <=? INT32_MAX) && (zsum (map c_sigops (k_txs k)) <=? INT32_MAX) &&
  forallb (fun t => (0 <=? c_weight t) && (0 <=? c_sigops t) && (0 <=? c_fee t)) (k_txs k).

(* ------------------------------------------------------------------------------------------ *)
(* The property's predicate on a template as the implementation produced it: transactions in block order, the block weight
   it reports (GetBlockWeight of the whole block), the coinbase value, the options, the pool it was built from. *)
Inductive tviolation := TV_order | TV_weight | TV_sigops | TV_nonfinal | TV_coinbase | TV_duplicate.
Fixpoint topo_ok (pool : list Z) (have : list Z) (txs : list ctx) : bool :=
  match txs with
  | [] => true
  | t :: r => forallb (fun p => negb (mem_id p pool) || mem_id p have) (c_parents t) && topo_ok pool (c_id t :: have) r
  end.
Fixpoint nodup_ids (l : list Z) : bool := match l with [] => true | x :: r => negb (mem_id x r) && nodup_ids r end.
Definition check_template (pool : list Z) (o : opts) (interval height cutoff : Z) (txs : list ctx)
                          (block_weight coinbase_value : Z) : option tviolation :=
  if negb (nodup_ids (map c_id txs)) then Some TV_duplicate
  else if negb (topo_ok pool [] txs) then Some TV_order
  else if negb ((o_reserved o + zsum (map c_weight txs) <=? o_max_weight o) && (block_weight <=? o_max_weight o) &&
                (o_max_weight o <=? MAX_BLOCK_WEIGHT)) then Some TV_weight
  else if negb (o_cb_sigops o + zsum (map c_sigops txs) <=? MAX_BLOCK_SIGOPS_COST) then Some TV_sigops
  else if negb (forallb (fun t => is_final_tx (c_ltx t) height cutoff) txs) then Some TV_nonfinal
  else if negb (coinbase_value =? get_block_subsidy interval height + zsum (map c_fee txs)) then Some TV_coinbase
  else None.
