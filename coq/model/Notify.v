(* C63 -- validation notifications (src/validationinterface.cpp, the emission points in
   src/validation.cpp and src/txmempool.cpp).

   What is modelled, function by function:
     - the node side: the active chain (m_chain), the mempool's set of txids (mapTx) and the latched
       IBD flag, mutated by DisconnectTip / ConnectTip / ActivateBestChainStep / ActivateBestChain /
       InvalidateBlock / AcceptSingleTransaction / MaybeUpdateMempoolForReorg, each emitting the
       notifications the C++ emits, at the place the C++ emits them;
     - the SerialTaskRunner queue that carries them to the subscriber (qstep);
     - a subscriber that rebuilds chain and mempool from the notifications alone (sub_step), which is
       also the executable predicate of the property (`holds`);
     - a small chain selector (model/NotifySim.v) used only to predict the block notifications of the driver's op
       scripts; no theorem depends on it (the theorems quantify over ALL step sequences, of which the
       selector's choices are instances).

   The decisions that are NOT the notification layer's (which blocks a step disconnects and connects,
   which transactions the mempool evicts, replaces, expires, re-accepts after a reorg) are INPUTS of
   the node-side functions (the `op` script), checked only for the consistency the C++ asserts or
   guarantees by construction.  The theorems hold for every such script. *)
From BV Require Import lib.Ints.
Local Open Scope Z_scope.

Definition block := Z.
Definition txid := Z.

(* kernel/mempool_removal_reason.h *)
Inductive reason := RExpiry | RSizeLimit | RReorg | RBlock | RConflict | RReplaced.

Definition is_block_reason (r : reason) : bool := match r with RBlock => true | _ => false end.
Definition is_limit_reason (r : reason) : bool := match r with RExpiry | RSizeLimit => true | _ => false end.

(* what the block index / block files know about a block: CBlockIndex::pprev (== CBlock::hashPrevBlock)
   and the non-coinbase transactions of the block, in block order *)
Record binfo := { bi_prev : block; bi_txs : list txid }.
Definition tree := block -> option binfo.

(* The notifications that go through the queue (ENQUEUE_AND_LOG_EVENT):
     BlockDisconnected(pblock, pindex)            EvDisc  hash, hashPrevBlock, vtx
     BlockConnected(role, pblock, pindex)         EvConn  hash, hashPrevBlock, vtx
     UpdatedBlockTip(pindexNew, pindexFork, ibd)  EvTip
     TransactionAddedToMempool(tx, seq)           EvAdd
     TransactionRemovedFromMempool(tx, reason, seq) EvRem
     MempoolTransactionsRemovedForBlock(block, txs_removed_for_block, height)  EvRemBlock
   (ChainStateFlushed is not modelled; BlockChecked / NewPoWValidBlock / ActiveTipChange are synchronous
   and do not go through the queue.) *)
Inductive event :=
| EvDisc (b prev : block) (txs : list txid)
| EvConn (b prev : block) (txs : list txid)
| EvTip (nw fork : block)
| EvAdd (t : txid)
| EvRem (t : txid) (r : reason)
| EvRemBlock (b : block) (txs : list txid).

(* ---------------------------------------------------------------------------------------------- *)
(* mempool as a list of txids (mapTx keys)                                                          *)

Definition memb (t : Z) (p : list Z) : bool := existsb (Z.eqb t) p.
Definition rem1 (t : Z) (p : list Z) : list Z := filter (fun x => negb (x =? t)) p.
Fixpoint rem_all (l : list Z) (p : list Z) : list Z :=
  match l with [] => p | t :: l' => rem_all l' (rem1 t p) end.

(* the node side ---------------------------------------------------------------------------------- *)

Record nstate := { ns_chain : list block;   (* m_chain, tip first; never empty *)
                   ns_pool : list txid;     (* mapTx *)
                   ns_ibd : bool }.         (* m_cached_is_ibd (latches to false) *)

Definition txs_of (T : tree) (b : block) : list txid := match T b with Some bi => bi_txs bi | None => [] end.
Definition confirmed (T : tree) (chain : list block) (t : txid) : bool := existsb (fun b => memb t (txs_of T b)) chain.

(* CTxMemPool::removeUnchecked(it, reason), called for each element of l in order:
     if (reason != MemPoolRemovalReason::BLOCK && m_opts.signals)
         m_opts.signals->TransactionRemovedFromMempool(it->GetSharedTx(), reason, mempool_sequence);
   `it` is an iterator into mapTx: the transaction is in the pool (None otherwise: not a run of the code). *)
Fixpoint apply_rems (p : list txid) (l : list (txid * reason)) : option (list txid * list event) :=
  match l with
  | [] => Some (p, [])
  | (t, r) :: l' =>
      if memb t p then
        match apply_rems (rem1 t p) l' with
        | Some (p', ev) => Some (p', (if is_block_reason r then [] else [EvRem t r]) ++ ev)
        | None => None
        end
      else None
  end.

(* One mempool operation outside block connection.
   PAtmp t repl limit = MemPoolAccept::AcceptSingleTransactionInternal on a transaction that passes the checks:
       FinalizeSubpackage(args);        -> CTxMemPool::Apply: RemoveStaged(m_to_remove, REPLACED) [repl], then the
                                           new entry is inserted into mapTx (no notification here)
       if (!args.m_package_submission && !args.m_bypass_limits) {
           LimitMempoolSize(m_pool, ...);      -> Expire (EXPIRY) and TrimToSize (SIZELIMIT) removals [limit]
           if (!m_pool.exists(ws.m_hash)) return FeeFailure("mempool full");     <- returns BEFORE the notification
       }
       if (m_pool.m_opts.signals) ... signals->TransactionAddedToMempool(tx_info, seq);
     (with bypass_limits -- the re-acceptance of disconnected transactions -- limit = []).
   PRem l = any other run of removeUnchecked calls with a reason other than BLOCK: removeRecursive (REORG),
     removeForReorg (REORG), Expire (EXPIRY), TrimToSize (SIZELIMIT). *)
Inductive mpop :=
| PAtmp (t : txid) (repl : list txid) (limit : list (txid * reason))
| PRem (l : list (txid * reason)).

Definition exec_mpop (T : tree) (chain : list block) (p : list txid) (o : mpop) : option (list txid * list event) :=
  match o with
  | PRem l => if forallb (fun x => negb (is_block_reason (snd x))) l then apply_rems p l else None
  | PAtmp t repl limit =>
      (* PreChecks: "txn-already-in-mempool" / "txn-already-known" (its outputs are in the chain's UTXO set or it
         spends coins that the chain has spent: a confirmed transaction is never accepted) *)
      if memb t p || confirmed T chain t then None else
      if negb (forallb (fun x => is_limit_reason (snd x)) limit) then None else
      match apply_rems p (map (fun x => (x, RReplaced)) repl) with
      | None => None
      | Some (p1, e1) =>
          match apply_rems (t :: p1) limit with
          | None => None
          | Some (p2, e2) => Some (p2, e1 ++ e2 ++ (if memb t p2 then [EvAdd t] else []))
          end
      end
  end.

Fixpoint exec_mpops (T : tree) (chain : list block) (p : list txid) (l : list mpop) : option (list txid * list event) :=
  match l with
  | [] => Some (p, [])
  | o :: l' =>
      match exec_mpop T chain p o with
      | None => None
      | Some (p1, e1) =>
          match exec_mpops T chain p1 l' with
          | None => None
          | Some (p2, e2) => Some (p2, e1 ++ e2)
          end
      end
  end.

(* Chainstate::DisconnectTip(state, disconnectpool):
       CBlockIndex *pindexDelete = m_chain.Tip();  assert(pindexDelete->pprev);   ReadBlock(block, *pindexDelete)
       ... DisconnectBlock, flush ...
       for (auto&& evicted_tx : disconnectpool->AddTransactionsFromBlock(block.vtx))
           m_mempool->removeRecursive( *evicted_tx, MemPoolRemovalReason::REORG);      [evict: the pool members removed]
       m_chain.SetTip( *pindexDelete->pprev);
       m_chainman.UpdateIBDStatus();                                                  [recent: IsTipRecent oracle]
       signals->BlockDisconnected(std::move(pblock), pindexDelete);
   The new tip is the next element of the chain; the event reports what the block file says (T). *)
Definition disconnect_tip (T : tree) (s : nstate) (evict : list txid) (recent : bool) : option (nstate * list event) :=
  match ns_chain s with
  | b :: ((_ :: _) as rest) =>
      match T b with
      | None => None                       (* ReadBlock failed: fatal error, not modelled *)
      | Some bi =>
          match apply_rems (ns_pool s) (map (fun t => (t, RReorg)) evict) with
          | None => None
          | Some (p', ev) =>
              Some ({| ns_chain := rest; ns_pool := p'; ns_ibd := ns_ibd s && negb recent |},
                    ev ++ [EvDisc b (bi_prev bi) (bi_txs bi)])
          end
      end
  | _ => None                              (* assert(pindexDelete->pprev): the genesis block is never disconnected *)
  end.

(* Chainstate::ConnectTip(state, pindexNew, block_to_connect, connected_blocks, disconnectpool), successful case:
       assert(pindexNew->pprev == m_chain.Tip());
       ... ConnectBlock ok, flush ...
       txs_removed_for_block = m_mempool->removeForBlock(block_to_connect->vtx);
             for (const auto& tx : vtx) { if (it != mapTx.end()) { txs_removed_for_block.emplace_back( *it);
                                                                   removeUnchecked(it, BLOCK); }
                                          removeConflicts( *tx);  /* removeRecursive(.., CONFLICT) */ }
       m_chain.SetTip( *pindexNew);  m_chainman.UpdateIBDStatus();
       if (m_mempool && signals && !m_chainman.IsInitialBlockDownload())
           signals->MempoolTransactionsRemovedForBlock(block_to_connect, std::move(txs_removed_for_block), height);
       connected_blocks.emplace_back(pindexNew, std::move(block_to_connect));
   c_rem is the sequence of removeUnchecked calls (BLOCK for members of the block, CONFLICT otherwise);
   afterwards no transaction of the block is left in the pool. *)
Record conn := { c_blk : block; c_rem : list (txid * reason); c_recent : bool }.

Definition conn_rem_ok (txs : list txid) (x : txid * reason) : bool :=
  match snd x with RBlock => memb (fst x) txs | RConflict => true | _ => false end.

Definition block_removed (l : list (txid * reason)) : list txid :=
  map fst (filter (fun x => is_block_reason (snd x)) l).

Definition connect_tip (T : tree) (s : nstate) (c : conn) : option (nstate * list event) :=
  match T (c_blk c), ns_chain s with
  | Some bi, tip :: _ =>
      if negb (bi_prev bi =? tip) then None else
      if memb (c_blk c) (ns_chain s) then None else     (* the block index is a tree: a block is not its own ancestor *)
      if negb (forallb (conn_rem_ok (bi_txs bi)) (c_rem c)) then None else
      match apply_rems (ns_pool s) (c_rem c) with
      | None => None
      | Some (p', ev) =>
          if existsb (fun t => memb t p') (bi_txs bi) then None else
          let ibd' := ns_ibd s && negb (c_recent c) in
          Some ({| ns_chain := c_blk c :: ns_chain s; ns_pool := p'; ns_ibd := ibd' |},
                ev ++ (if ibd' then [] else [EvRemBlock (c_blk c) (block_removed (c_rem c))]))
      end
  | _, _ => None
  end.

Fixpoint disconnect_tips (T : tree) (s : nstate) (l : list (list txid * bool)) : option (nstate * list event) :=
  match l with
  | [] => Some (s, [])
  | (ev, rc) :: l' =>
      match disconnect_tip T s ev rc with
      | None => None
      | Some (s1, e1) =>
          match disconnect_tips T s1 l' with
          | None => None
          | Some (s2, e2) => Some (s2, e1 ++ e2)
          end
      end
  end.

Fixpoint connect_tips (T : tree) (s : nstate) (l : list conn) : option (nstate * list event) :=
  match l with
  | [] => Some (s, [])
  | c :: l' =>
      match connect_tip T s c with
      | None => None
      | Some (s1, e1) =>
          match connect_tips T s1 l' with
          | None => None
          | Some (s2, e2) => Some (s2, e1 ++ e2)
          end
      end
  end.

Definition conn_event (T : tree) (c : conn) : event :=
  match T (c_blk c) with
  | Some bi => EvConn (c_blk c) (bi_prev bi) (bi_txs bi)
  | None => EvConn (c_blk c) 0 []          (* never emitted: connect_tip fails first *)
  end.

(* Chainstate::ActivateBestChainStep + the loop body of ActivateBestChain that consumes connected_blocks:
       while (m_chain.Tip() && m_chain.Tip() != pindexFork) { DisconnectTip(state, &disconnectpool); fBlocksDisconnected = true; }
       for (pindexConnect ...) { ConnectTip(...) ... }                 [st_conn: the blocks that did connect]
       if (fBlocksDisconnected) MaybeUpdateMempoolForReorg(disconnectpool, true);        [st_fix]
     and back in ActivateBestChain:
       for (auto& [index, block] : std::move(connected_blocks)) signals->BlockConnected(chainstate_role, block, index);
   MaybeUpdateMempoolForReorg = for each disconnected transaction either AcceptToMemoryPool(bypass_limits) (PAtmp t repl [])
   or removeRecursive(REORG) (PRem), then removeForReorg (PRem, REORG), then LimitMempoolSize (PRem, EXPIRY/SIZELIMIT). *)
Record step := { st_disc : list (list txid * bool); st_conn : list conn; st_fix : list mpop }.

Definition exec_step (T : tree) (s : nstate) (st : step) : option (nstate * list event) :=
  match st_disc st, st_fix st with
  | [], _ :: _ => None                     (* MaybeUpdateMempoolForReorg runs only if blocks were disconnected *)
  | _, _ =>
  match disconnect_tips T s (st_disc st) with
  | None => None
  | Some (s1, e1) =>
      match connect_tips T s1 (st_conn st) with
      | None => None
      | Some (s2, e2) =>
          match exec_mpops T (ns_chain s2) (ns_pool s2) (st_fix st) with
          | None => None
          | Some (p3, e3) =>
              Some ({| ns_chain := ns_chain s2; ns_pool := p3; ns_ibd := ns_ibd s2 |},
                    e1 ++ e2 ++ e3 ++ map (conn_event T) (st_conn st))
          end
      end
  end
  end.

Fixpoint exec_steps (T : tree) (s : nstate) (l : list step) : option (nstate * list event) :=
  match l with
  | [] => Some (s, [])
  | st :: l' =>
      match exec_step T s st with
      | None => None
      | Some (s1, e1) =>
          match exec_steps T s1 l' with
          | None => None
          | Some (s2, e2) => Some (s2, e1 ++ e2)
          end
      end
  end.

(* CChain::FindFork( *starting_tip) on the new active chain: the first block of the old chain (walking back from
   its tip) that the new chain contains. *)
Definition find_fork (new_chain start_chain : list block) : option block := find (fun b => memb b new_chain) start_chain.

(* One pass of the outer do-while of ActivateBestChain (one cs_main critical section):
       CBlockIndex* starting_tip = m_chain.Tip();  bool blocks_connected = false;
       do { ... ActivateBestChainStep ...; blocks_connected = true; ... BlockConnected signals ... }
       while (!m_chain.Tip() || (starting_tip && CBlockIndexWorkComparator()(m_chain.Tip(), starting_tip)));
       if (!blocks_connected) return true;
       const CBlockIndex* pindexFork = starting_tip ? m_chain.FindFork( *starting_tip) : nullptr;
       if (this == &m_chainman.ActiveChainstate() && pindexFork != pindexNewTip)
           signals->UpdatedBlockTip(pindexNewTip, pindexFork, still_in_ibd); *)
Definition exec_iter (T : tree) (s : nstate) (steps : list step) : option (nstate * list event) :=
  match steps with
  | [] => Some (s, [])
  | _ =>
      match exec_steps T s steps with
      | None => None
      | Some (s', ev) =>
          match ns_chain s', find_fork (ns_chain s') (ns_chain s) with
          | nw :: _, Some f => Some (s', ev ++ (if f =? nw then [] else [EvTip nw f]))
          | _, _ => None                   (* both chains contain the genesis block *)
          end
      end
  end.

Fixpoint exec_iters (T : tree) (s : nstate) (l : list (list step)) : option (nstate * list event) :=
  match l with
  | [] => Some (s, [])
  | it :: l' =>
      match exec_iter T s it with
      | None => None
      | Some (s1, e1) =>
          match exec_iters T s1 l' with
          | None => None
          | Some (s2, e2) => Some (s2, e1 ++ e2)
          end
      end
  end.

(* Chainstate::InvalidateBlock, per pass of its loop:
       DisconnectedBlockTransactions disconnectpool{...};
       bool ret = DisconnectTip(state, &disconnectpool);
       MaybeUpdateMempoolForReorg(disconnectpool, /* fAddToMempool = */ (++disconnected <= 10) && ret);
   No UpdatedBlockTip is sent by InvalidateBlock. *)
Fixpoint exec_invalidate (T : tree) (s : nstate) (l : list (list txid * bool * list mpop)) : option (nstate * list event) :=
  match l with
  | [] => Some (s, [])
  | (ev, rc, fx) :: l' =>
      match disconnect_tip T s ev rc with
      | None => None
      | Some (s1, e1) =>
          match exec_mpops T (ns_chain s1) (ns_pool s1) fx with
          | None => None
          | Some (p2, e2) =>
              match exec_invalidate T {| ns_chain := ns_chain s1; ns_pool := p2; ns_ibd := ns_ibd s1 |} l' with
              | None => None
              | Some (s3, e3) => Some (s3, e1 ++ e2 ++ e3)
              end
          end
      end
  end.

Inductive op :=
| OActivate (iters : list (list step))
| OInvalidate (l : list (list txid * bool * list mpop))
| OMempool (m : mpop).

Definition exec_op (T : tree) (s : nstate) (o : op) : option (nstate * list event) :=
  match o with
  | OActivate iters => exec_iters T s iters
  | OInvalidate l => exec_invalidate T s l
  | OMempool m =>
      match exec_mpop T (ns_chain s) (ns_pool s) m with
      | None => None
      | Some (p, ev) => Some ({| ns_chain := ns_chain s; ns_pool := p; ns_ibd := ns_ibd s |}, ev)
      end
  end.

Fixpoint exec_ops (T : tree) (s : nstate) (l : list op) : option (nstate * list event) :=
  match l with
  | [] => Some (s, [])
  | o :: l' =>
      match exec_op T s o with
      | None => None
      | Some (s1, e1) =>
          match exec_ops T s1 l' with
          | None => None
          | Some (s2, e2) => Some (s2, e1 ++ e2)
          end
      end
  end.

(* ---------------------------------------------------------------------------------------------- *)
(* The subscriber: rebuilds chain and mempool from the notifications alone, checking each one      *)
(* against what it has rebuilt so far.  None = the notification does not describe a possible      *)
(* change of the state rebuilt so far.  This is the property's executable predicate.              *)

Record sstate := { ss_chain : list (block * list txid);   (* tip first, with the reported transactions *)
                   ss_pool : list txid;
                   ss_pend : list (block * list txid);    (* MempoolTransactionsRemovedForBlock seen, BlockConnected not yet *)
                   ss_low : nat }.                        (* shortest chain length since the last UpdatedBlockTip *)

Definition sub_confirmed (c : list (block * list txid)) (t : txid) : bool := existsb (fun x => memb t (snd x)) c.
Definition list_eqb (a b : list Z) : bool := if list_eq_dec Z.eq_dec a b then true else false.
Fixpoint nodupb (l : list Z) : bool := match l with [] => true | x :: r => negb (memb x r) && nodupb r end.

(* position of the fork block in the chain: number of blocks from it down to the base, i.e. its height + 1
   relative to the base of the rebuilt chain *)
Fixpoint suffix_len_at (c : list (block * list txid)) (f : block) : option nat :=
  match c with
  | [] => None
  | x :: r => if fst x =? f then Some (length c) else suffix_len_at r f
  end.

(* tol = true: a TransactionRemovedFromMempool(EXPIRY | SIZELIMIT) for a transaction that was never reported
   added is ignored instead of rejected (see the _refuted theorem: the code does send those). *)
Definition sub_step (tol : bool) (s : sstate) (e : event) : option sstate :=
  match e with
  | EvDisc b prev txs =>
      match ss_pend s, ss_chain s with
      | [], (b', txs') :: (((p, _) :: _) as rest) =>
          if (b' =? b) && list_eqb txs' txs && (p =? prev) then
            Some {| ss_chain := rest; ss_pool := ss_pool s; ss_pend := []; ss_low := Nat.min (ss_low s) (length rest) |}
          else None
      | _, _ => None
      end
  | EvConn b prev txs =>
      match ss_chain s with
      | (p, _) :: _ =>
          if negb (p =? prev) then None else
          let chain' := (b, txs) :: ss_chain s in
          let pool' := rem_all txs (ss_pool s) in
          match ss_pend s with
          | (b', rtxs) :: pend' =>
              if b' =? b then
                if forallb (fun t => memb t txs) rtxs
                then Some {| ss_chain := chain'; ss_pool := pool'; ss_pend := pend'; ss_low := ss_low s |}
                else None
              else Some {| ss_chain := chain'; ss_pool := pool'; ss_pend := ss_pend s; ss_low := ss_low s |}
          | [] => Some {| ss_chain := chain'; ss_pool := pool'; ss_pend := []; ss_low := ss_low s |}
          end
      | [] => None
      end
  | EvTip nw fork =>
      match ss_pend s, ss_chain s with
      | [], (b, _) :: _ =>
          if negb (b =? nw) || (fork =? nw) then None else
          match suffix_len_at (ss_chain s) fork with
          | Some k => if Nat.leb (ss_low s) k
                      then Some {| ss_chain := ss_chain s; ss_pool := ss_pool s; ss_pend := []; ss_low := length (ss_chain s) |}
                      else None
          | None => None
          end
      | _, _ => None
      end
  | EvAdd t =>
      if memb t (ss_pool s) || sub_confirmed (ss_chain s) t then None
      else Some {| ss_chain := ss_chain s; ss_pool := t :: ss_pool s; ss_pend := ss_pend s; ss_low := ss_low s |}
  | EvRem t r =>
      if is_block_reason r then None else
      if memb t (ss_pool s)
      then Some {| ss_chain := ss_chain s; ss_pool := rem1 t (ss_pool s); ss_pend := ss_pend s; ss_low := ss_low s |}
      else if tol && is_limit_reason r then Some s else None
  | EvRemBlock b txs =>
      if nodupb txs && forallb (fun t => memb t (ss_pool s)) txs
      then Some {| ss_chain := ss_chain s; ss_pool := rem_all txs (ss_pool s); ss_pend := ss_pend s ++ [(b, txs)]; ss_low := ss_low s |}
      else None
  end.

Fixpoint sub_run (tol : bool) (s : sstate) (l : list event) : option sstate :=
  match l with
  | [] => Some s
  | e :: l' => match sub_step tol s e with Some s' => sub_run tol s' l' | None => None end
  end.

(* like sub_run, but reports where it stopped: inr (index of the offending event) *)
Fixpoint sub_run_ix (tol : bool) (s : sstate) (l : list event) (i : Z) : sstate + Z :=
  match l with
  | [] => inl s
  | e :: l' => match sub_step tol s e with Some s' => sub_run_ix tol s' l' (i + 1) | None => inr i end
  end.

(* the subscriber's view of a node state *)
Definition annotate (T : tree) (chain : list block) : list (block * list txid) := map (fun b => (b, txs_of T b)) chain.
Definition sub_of (T : tree) (s : nstate) : sstate :=
  {| ss_chain := annotate T (ns_chain s); ss_pool := ns_pool s; ss_pend := []; ss_low := length (ns_chain s) |}.

(* ---------------------------------------------------------------------------------------------- *)
(* SerialTaskRunner (src/scheduler.cpp): the queue between the validation thread(s) and the        *)
(* scheduler's service thread(s).  Every access to m_callbacks_pending / m_are_callbacks_running   *)
(* is under m_callbacks_mutex, so the critical sections are the atomic steps:                      *)
(*   QInsert e : insert(): m_callbacks_pending.emplace_back(func)  [then the thread owes a MaybeSchedule]   *)
(*   QCheck    : MaybeScheduleProcessQueue(): if (running) return; if (pending.empty()) return;    *)
(*               [then the thread will call m_scheduler.schedule]                                   *)
(*   QSched    : m_scheduler.schedule([this]{ ProcessQueue(); }, now)                               *)
(*   QBegin    : a service thread runs a scheduled ProcessQueue(): if (running) return; if (empty) return;  *)
(*               running = true; callback = pending.front(); pop_front()                            *)
(*   QEnd      : callback() has run to completion [delivered]; ~RAIICallbacksRunning: running = false;      *)
(*               [then the thread owes a MaybeSchedule]                                              *)
Record qstate := { q_pending : list event; q_running : option event; q_delivered : list event;
                   q_owed : nat; q_tosched : nat; q_sched : nat }.
Inductive qact := QInsert (e : event) | QCheck | QSched | QBegin | QEnd.

Definition q_init : qstate := {| q_pending := []; q_running := None; q_delivered := []; q_owed := 0; q_tosched := 0; q_sched := 0 |}.

Definition qstep (q : qstate) (a : qact) : qstate :=
  match a with
  | QInsert e => {| q_pending := q_pending q ++ [e]; q_running := q_running q; q_delivered := q_delivered q;
                    q_owed := S (q_owed q); q_tosched := q_tosched q; q_sched := q_sched q |}
  | QCheck =>
      match q_owed q with
      | O => q
      | S k =>
          let fire := match q_running q, q_pending q with None, _ :: _ => true | _, _ => false end in
          {| q_pending := q_pending q; q_running := q_running q; q_delivered := q_delivered q;
             q_owed := k; q_tosched := if fire then S (q_tosched q) else q_tosched q; q_sched := q_sched q |}
      end
  | QSched =>
      match q_tosched q with
      | O => q
      | S k => {| q_pending := q_pending q; q_running := q_running q; q_delivered := q_delivered q;
                  q_owed := q_owed q; q_tosched := k; q_sched := S (q_sched q) |}
      end
  | QBegin =>
      match q_sched q with
      | O => q
      | S k =>
          match q_running q, q_pending q with
          | None, e :: r => {| q_pending := r; q_running := Some e; q_delivered := q_delivered q;
                               q_owed := q_owed q; q_tosched := q_tosched q; q_sched := k |}
          | _, _ => {| q_pending := q_pending q; q_running := q_running q; q_delivered := q_delivered q;
                       q_owed := q_owed q; q_tosched := q_tosched q; q_sched := k |}
          end
      end
  | QEnd =>
      match q_running q with
      | Some e => {| q_pending := q_pending q; q_running := None; q_delivered := q_delivered q ++ [e];
                     q_owed := S (q_owed q); q_tosched := q_tosched q; q_sched := q_sched q |}
      | None => q
      end
  end.

Definition qrun (q : qstate) (l : list qact) : qstate := fold_left qstep l q.

Fixpoint inserted (l : list qact) : list event :=
  match l with [] => [] | QInsert e :: r => e :: inserted r | _ :: r => inserted r end.

Definition q_inflight (q : qstate) : list event := match q_running q with Some e => [e] | None => [] end.
