(* Byte-level serialization primitives.  Transcribed from src/serialize.h and src/streams.h:
     ser_writedata8/16/32/64, ser_readdata8/16/32/64     (little endian fixed width)
     WriteCompactSize / ReadCompactSize                  (canonical check, MAX_SIZE range check)
     WriteVarInt / ReadVarInt (mode DEFAULT)             (MSB base-128 with the "minus one" trick)
     DataStream::read / ignore                           ("end of data" failure)
   Executable definitions only (proofs are in proofs/SerBaseLemmas.v).

   Conventions: a byte is an N below 256; a stream is a `list N`; a reader takes the unread part of
   the stream and returns either the value together with the still unread rest, or the kind of
   std::ios_base::failure the C++ throws.  Integers are unbounded Z; every place where the C++
   type could wrap is an explicit wrapu. *)
From Coq Require Import NArith.
From BV Require Import lib.Ints gen.Params_gen.
Local Open Scope Z_scope.

Definition bytes_ok (l : list N) : Prop := Forall (fun b => (b < 256)%N) l.
Definition bytes_okb (l : list N) : bool := forallb (fun b => (b <? 256)%N) l.

(* the failures a deserialiser can report (the what() texts of the C++ exceptions, as classes) *)
Inductive err : Set :=
| EEof            (* "...: end of data" *)
| ETooLarge       (* "ReadVarInt(): size too large" / "ReadCompactSize(): size too large" *)
| ENonCanonical   (* "non-canonical ReadCompactSize()" *)
| ESuperfluous    (* "Superfluous witness record" *)
| EUnknownOptional(* "Unknown transaction optional data" *)
| EOther.

Inductive res (A : Type) : Type :=
| Ok (a : A) (rest : list N)
| Err (e : err).
Arguments Ok {A} a rest.
Arguments Err {A} e.

Definition bind {A B} (r : res A) (f : A -> list N -> res B) : res B :=
  match r with Ok a rest => f a rest | Err e => Err e end.

(* ---- DataStream::read(span) / ignore(n): n bytes or "end of data" ---- *)
(* void read(std::span<value_type> dst) {
       if (dst.size() == 0) return;
       auto next_read_pos{CheckedAdd(m_read_pos, dst.size())};
       if (!next_read_pos.has_value() || next_read_pos.value() > vch.size()) throw failure("DataStream::read(): end of data");
       memcpy(...); ... } *)
Definition read_bytes (n : nat) (s : list N) : res (list N) :=
  if (n <=? length s)%nat then Ok (firstn n s) (skipn n s) else Err EEof.

(* the same with the count as a Z (never builds a huge unary number when the count exceeds the data) *)
Definition read_bytes_z (n : Z) (s : list N) : res (list N) :=
  if n <=? Z.of_nat (length s) then read_bytes (Z.to_nat n) s else Err EEof.

(* ---- fixed width little endian ---- *)
(* ser_writedataN: htoleN_internal(obj) then the N/8 bytes in memory order, i.e. least significant first *)
Fixpoint le_bytes (k : nat) (v : Z) : list N :=
  match k with O => [] | S j => Z.to_N (v mod 256) :: le_bytes j (v / 256) end.
Fixpoint le_value (l : list N) : Z :=
  match l with [] => 0 | b :: r => Z.of_N b + 256 * le_value r end.

Definition write_le (k : nat) (v : Z) : list N := le_bytes k (wrapu (8 * Z.of_nat k) v).
Definition read_le (k : nat) (s : list N) : res Z :=
  bind (read_bytes k s) (fun b rest => Ok (le_value b) rest).

(* ---- CompactSize ----
   void WriteCompactSize(Stream& os, uint64_t nSize)
   {
       if (nSize < 253)                         { ser_writedata8(os, nSize); }
       else if (nSize <= uint16 max)            { ser_writedata8(os, 253); ser_writedata16(os, nSize); }
       else if (nSize <= unsigned int max)      { ser_writedata8(os, 254); ser_writedata32(os, nSize); }
       else                                     { ser_writedata8(os, 255); ser_writedata64(os, nSize); }
   } *)
Definition write_compact_size (n : Z) : list N :=
  if n <? 253 then write_le 1 n
  else if n <=? 65535 then 253%N :: write_le 2 n
  else if n <=? UINT32_MAX then 254%N :: write_le 4 n
  else 255%N :: write_le 8 n.

(* uint64_t ReadCompactSize(Stream& is, bool range_check = true)
   {
       uint8_t chSize = ser_readdata8(is);
       uint64_t nSizeRet = 0;
       if (chSize < 253) { nSizeRet = chSize; }
       else if (chSize == 253) { nSizeRet = ser_readdata16(is); if (nSizeRet < 253) throw failure("non-canonical ReadCompactSize()"); }
       else if (chSize == 254) { nSizeRet = ser_readdata32(is); if (nSizeRet < 0x10000u) throw failure("non-canonical ReadCompactSize()"); }
       else { nSizeRet = ser_readdata64(is); if (nSizeRet < 0x100000000ULL) throw failure("non-canonical ReadCompactSize()"); }
       if (range_check && nSizeRet > MAX_SIZE) throw failure("ReadCompactSize(): size too large");
       return nSizeRet;
   } *)
Definition read_compact_size (range_check : bool) (s : list N) : res Z :=
  bind (read_le 1 s) (fun ch s1 =>
    bind (if ch <? 253 then Ok ch s1
          else if ch =? 253 then
            bind (read_le 2 s1) (fun v s2 => if v <? 253 then Err ENonCanonical else Ok v s2)
          else if ch =? 254 then
            bind (read_le 4 s1) (fun v s2 => if v <? 65536 then Err ENonCanonical else Ok v s2)
          else
            bind (read_le 8 s1) (fun v s2 => if v <? 4294967296 then Err ENonCanonical else Ok v s2))
      (fun v s2 => if range_check && (v >? MAX_SIZE) then Err ETooLarge else Ok v s2)).

(* ---- VarInt (VarIntMode::DEFAULT; I an unsigned type of w bits) ----
   template<typename Stream, VarIntMode Mode, typename I>
   void WriteVarInt(Stream& os, I n)
   {
       unsigned char tmp[CeilDiv(sizeof(n) * 8, 7u)];        // 10 entries for 64 bits, 5 for 32 bits
       int len=0;
       while(true) {
           tmp[len] = (n & 0x7F) | (len ? 0x80 : 0x00);
           if (n <= 0x7F) break;
           n = (n >> 7) - 1;
           len++;
       }
       do { ser_writedata8(os, tmp[len]); } while(len--);      // written in reverse order
   }
   The model conses tmp[len] onto what will be written after it, which is the reversed output
   order.  `fuel` is the number of entries of tmp still free: running out of fuel is writing past
   the end of tmp (varint_fuel_sufficient proves it cannot happen for a value of the type). *)
Fixpoint write_varint_loop (fuel : nat) (n : Z) (first : bool) (acc : list N) : option (list N) :=
  match fuel with
  | O => None
  | S f =>
    let b := Z.lor (Z.land n 127) (if first then 0 else 128) in
    let acc' := Z.to_N b :: acc in
    if n <=? 127 then Some acc'
    else write_varint_loop f (Z.shiftr n 7 - 1) false acc'
  end.

(* CeilDiv(w, 7) *)
Definition varint_tmp_size (w : Z) : nat := Z.to_nat ((w + 6) / 7).
Definition write_varint (w : Z) (n : Z) : option (list N) :=
  write_varint_loop (varint_tmp_size w) (wrapu w n) true [].

(* template<typename Stream, VarIntMode Mode, typename I>
   I ReadVarInt(Stream& is)
   {
       I n = 0;
       while(true) {
           unsigned char chData = ser_readdata8(is);
           if (n > (std::numeric_limits<I>::max() >> 7)) throw failure("ReadVarInt(): size too large");
           n = (n << 7) | (chData & 0x7F);
           if (chData & 0x80) {
               if (n == std::numeric_limits<I>::max()) throw failure("ReadVarInt(): size too large");
               n++;
           } else {
               return n;
           }
       }
   } *)
Fixpoint read_varint_loop (w : Z) (n : Z) (s : list N) : res Z :=
  match s with
  | [] => Err EEof
  | c :: r =>
    let ch := Z.of_N c in
    let imax := 2 ^ w - 1 in
    if n >? Z.shiftr imax 7 then Err ETooLarge
    else
      let n1 := Z.lor (wrapu w (Z.shiftl n 7)) (Z.land ch 127) in
      if negb (Z.land ch 128 =? 0) then
        if n1 =? imax then Err ETooLarge
        else read_varint_loop w (wrapu w (n1 + 1)) r
      else Ok n1 r
  end.
Definition read_varint (w : Z) (s : list N) : res Z := read_varint_loop w 0 s.

(* The value formula in the comment above WriteVarInt in serialize.h:
     (a[len-1] & 0x7F) + sum(i=1..len-1, 128^i*((a[len-i-1] & 0x7F)+1))
   as a left-to-right Horner evaluation over the bytes before the last one. *)
Fixpoint varint_value_acc (acc : Z) (l : list N) : Z :=
  match l with
  | [] => acc
  | [c] => acc * 128 + Z.land (Z.of_N c) 127
  | c :: r => varint_value_acc (acc * 128 + Z.land (Z.of_N c) 127 + 1) r
  end.
Definition varint_value (l : list N) : Z := varint_value_acc 0 l.
