(* C45 — BIP32 as src/key.cpp / src/pubkey.cpp / src/hash.cpp compute it:
     BIP32Hash(cc, nChild, header, data32, out64) = HMAC-SHA512(key = cc, header || data32 || BE32(nChild))
     CKey::Derive:    (nChild >> 31) == 0 ? BIP32Hash(cc, nChild, pubkey[0], pubkey+1) : BIP32Hash(cc, nChild, 0, key)
                      ccChild = out[32..64);  keyChild = key;  secp256k1_ec_seckey_tweak_add(keyChild, out[0..32))
     CPubKey::Derive: assert((nChild >> 31) == 0); BIP32Hash(cc, nChild, pubkey[0], pubkey+1);
                      ccChild = out[32..64);  parse; secp256k1_ec_pubkey_tweak_add(out[0..32)); serialize compressed
     CExtKey / CExtPubKey ::Derive, ::Encode, ::Decode (74 bytes).
   The group (points, addition, k -> k*G, order n, 33-byte serialisation), the 64-byte MAC and Hash160 are
   Section variables: proofs/Bip32Lemmas.v reasons with group-law premises; model/Bip32Inst.v instantiates
   them with model/EC.v and the executable HMAC-SHA512 / SHA-256 / RIPEMD-160 models.
   A private key is a scalar in [1, n-1]; tweaks are compared with n as integers (the limb-wise comparison
   of the library is modelled and proved equivalent in model/EC.v / proofs/ECLemmas.v).
   Executable definitions only. *)
From Coq Require Import NArith ZArith.
From BV Require Import lib.Ints model.EC.
Local Open Scope Z_scope.

(* be_val / be_bytes_z (ReadBE32 / WriteBE32 / 32-byte big-endian scalars) are those of model/EC.v *)
Definition HARDENED : Z := 2147483648.   (* nChild >> 31 != 0  <=>  nChild >= 2^31 *)

Section Bip32.
  Variable pt : Type.
  Variable pt_add : pt -> pt -> pt.
  Variable pt_is_inf : pt -> bool.
  Variable mulG : Z -> pt.
  Variable order : Z.
  Variable ser33 : pt -> list N.              (* secp256k1_ec_pubkey_serialize, compressed; only used on finite points *)
  Variable hmac512 : list N -> list N -> list N.   (* key -> message -> 64 bytes *)
  Variable hash160 : list N -> list N.             (* RIPEMD160(SHA256(.)) : CPubKey::GetID *)

  (* secp256k1_ec_seckey_tweak_add on a valid key k: fails if tweak >= n or k + tweak = 0 (mod n) *)
  Definition priv_tweak_add (k t : Z) : option Z :=
    if order <=? t then None
    else let s := (k + t) mod order in if s =? 0 then None else Some s.
  (* secp256k1_ec_pubkey_tweak_add: fails if tweak >= n or K + tweak*G is the point at infinity *)
  Definition pub_tweak_add (K : pt) (t : Z) : option pt :=
    if order <=? t then None
    else let R := pt_add K (mulG t) in if pt_is_inf R then None else Some R.

  Definition bip32_hash (cc : list N) (nChild : Z) (header : N) (data32 : list N) : list N :=
    hmac512 cc (header :: data32 ++ be_bytes_z 4 nChild).

  (* CKey::Derive(keyChild, ccChild, nChild, cc): (child key, child chain code) *)
  Definition ckey_derive (k : Z) (cc : list N) (nChild : Z) : option (Z * list N) :=
    let out :=
      if nChild <? HARDENED
      then match ser33 (mulG k) with
           | h :: x => bip32_hash cc nChild h x
           | [] => []
           end
      else bip32_hash cc nChild 0%N (be_bytes_z 32 k) in
    match priv_tweak_add k (be_val (firstn 32 out)) with
    | Some k' => Some (k', skipn 32 out)
    | None => None
    end.

  (* CPubKey::Derive: only called with (nChild >> 31) == 0 (assert) *)
  Definition cpubkey_derive (K : pt) (cc : list N) (nChild : Z) : option (pt * list N) :=
    let out := match ser33 K with h :: x => bip32_hash cc nChild h x | [] => [] end in
    match pub_tweak_add K (be_val (firstn 32 out)) with
    | Some K' => Some (K', skipn 32 out)
    | None => None
    end.

  (* CExtKey / CExtPubKey: nDepth, fingerprint[4], nChild, chaincode[32], key *)
  Record ext (key : Type) := { x_depth : Z; x_fpr : list N; x_child : Z; x_cc : list N; x_key : key }.
  Arguments x_depth {key}. Arguments x_fpr {key}. Arguments x_child {key}. Arguments x_cc {key}. Arguments x_key {key}.

  (* KeyFingerprint: first 4 bytes of Hash160(compressed pubkey) *)
  Definition fingerprint (K : pt) : list N := firstn 4 (hash160 (ser33 K)).

  (* bool CExtKey::Derive(CExtKey& out, unsigned int _nChild):
       if (nDepth == 255) return false; out.nDepth = nDepth + 1; out.fingerprint = id_key_fingerprint();
       out.nChild = _nChild; return key.Derive(out.key, out.chaincode, _nChild, chaincode); *)
  Definition extkey_derive (x : ext Z) (nChild : Z) : option (ext Z) :=
    if x_depth x =? 255 then None
    else match ckey_derive (x_key x) (x_cc x) nChild with
         | Some (k', cc') => Some {| x_depth := x_depth x + 1; x_fpr := fingerprint (mulG (x_key x));
                                     x_child := nChild; x_cc := cc'; x_key := k' |}
         | None => None
         end.
  Definition extpub_derive (x : ext pt) (nChild : Z) : option (ext pt) :=
    if x_depth x =? 255 then None
    else match cpubkey_derive (x_key x) (x_cc x) nChild with
         | Some (K', cc') => Some {| x_depth := x_depth x + 1; x_fpr := fingerprint (x_key x);
                                     x_child := nChild; x_cc := cc'; x_key := K' |}
         | None => None
         end.
  (* CExtKey::Neuter *)
  Definition neuter (x : ext Z) : ext pt :=
    {| x_depth := x_depth x; x_fpr := x_fpr x; x_child := x_child x; x_cc := x_cc x; x_key := mulG (x_key x) |}.

  (* void CExtKey::Encode(unsigned char code[74]):
       code[0] = nDepth; code[1..5) = fingerprint; WriteBE32(code+5, nChild); code[9..41) = chaincode;
       code[41] = 0; code[42..74) = key *)
  Definition extkey_encode (x : ext Z) : list N :=
    Z.to_N (x_depth x) :: x_fpr x ++ be_bytes_z 4 (x_child x) ++ x_cc x ++ 0%N :: be_bytes_z 32 (x_key x).
  (* void CExtPubKey::Encode: ... code[41..74) = compressed pubkey *)
  Definition extpub_encode (x : ext pt) : list N :=
    Z.to_N (x_depth x) :: x_fpr x ++ be_bytes_z 4 (x_child x) ++ x_cc x ++ ser33 (x_key x).

  (* ReadLE32(fingerprint.data()) != 0  <=>  some fingerprint byte is non-zero *)
  Definition fpr_nonzero (f : list N) : bool := existsb (fun b => negb (b =? 0)%N) f.

  (* void CExtKey::Decode(const unsigned char code[74]):
       nDepth = code[0]; fingerprint = code[1..5); nChild = ReadBE32(code+5); chaincode = code[9..41);
       key.Set(code+42, code+74, true)                    -- valid iff 0 < key < n  (CKey::Check)
       if ((nDepth == 0 && (nChild != 0 || ReadLE32(fingerprint) != 0)) || code[41] != 0) key = CKey();
     None = the resulting key is invalid *)
  Definition extkey_decode (code : list N) : option (ext Z) :=
    match code with
    | d :: rest =>
      let fpr := firstn 4 rest in
      let child := be_val (firstn 4 (skipn 4 rest)) in
      let cc := firstn 32 (skipn 8 rest) in
      let pad := nth_error rest 40 in
      let k := be_val (skipn 41 rest) in
      if negb (length code =? 74)%nat then None
      else if negb ((0 <? k) && (k <? order)) then None
      else if ((d =? 0)%N && (negb (child =? 0) || fpr_nonzero fpr)) then None
      else match pad with
           | Some 0%N => Some {| x_depth := Z.of_N d; x_fpr := fpr; x_child := child; x_cc := cc; x_key := k |}
           | _ => None
           end
    | [] => None
    end.

  (* void CExtPubKey::Decode: pubkey.Set(code+41, code+74); ... || !pubkey.IsFullyValid()) pubkey = CPubKey();
     parse33 = secp256k1_ec_pubkey_parse on 33 bytes with header 2 / 3 (CPubKey::Set needs GetLen(header) == 33) *)
  Variable parse33 : list N -> option pt.
  Definition extpub_decode (code : list N) : option (ext pt) :=
    match code with
    | d :: rest =>
      let fpr := firstn 4 rest in
      let child := be_val (firstn 4 (skipn 4 rest)) in
      let cc := firstn 32 (skipn 8 rest) in
      if negb (length code =? 74)%nat then None
      else match parse33 (skipn 40 rest) with
           | None => None
           | Some K =>
             if ((d =? 0)%N && (negb (child =? 0) || fpr_nonzero fpr)) then None
             else Some {| x_depth := Z.of_N d; x_fpr := fpr; x_child := child; x_cc := cc; x_key := K |}
           end
    | [] => None
    end.
End Bip32.

Arguments x_depth {key}. Arguments x_fpr {key}. Arguments x_child {key}. Arguments x_cc {key}. Arguments x_key {key}.
