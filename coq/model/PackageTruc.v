(* The scenario evaluator of the acceptance correspondences with the TRUC rules plugged in (C27 end-to-end tie,
   also used by the C29 acceptance tie; for version-2-only scenarios it coincides with toy_single / toy_multi).
   Order of the checks as in validation.cpp: PreChecks = inputs (TX_MISSING_INPUTS), fee rate when evaluated alone
   (TX_RECONSIDERABLE), SingleTRUCChecks on the mempool parents (TX_MEMPOOL_POLICY "TRUC-violation");
   AcceptMultipleTransactionsInternal = IsWellFormedPackage, PreChecks of every member (no fee check), then
   PackageTRUCChecks of every member (PCKG_POLICY "TRUC-violation", no per-transaction result), then the package
   fee rate.  Scenarios never offer a sibling-eviction candidate or a mempool conflict (no RBF).
   Executable definitions only. *)
From BV Require Import lib.Ints gen.Params_gen model.Package model.PackageAccept model.Truc.
Local Open Scope Z_scope.

Definition WHY_TRUC : Z := 3.
Definition PS_CODE_TRUC : Z := 1.          (* PCKG_POLICY "TRUC-violation" *)

Section Toy3.
  Variable utxo : outpoint -> bool.

  Definition toy3_single (P : pool) (t : ptx) : tx_result * pool :=
    if negb (inputs_avail utxo P t) then (R_invalid true WHY_MISSING_INPUTS, P)
    else if p_fee t <? fee_for (vsize_of t) then (R_invalid true WHY_MIN_RELAY_FEE, P)
    else match single_truc_checks P t (parents_of P t) [] (vsize_of t) with
         | Some _ => (R_invalid false WHY_TRUC, P)
         | None => (R_valid, P ++ [t])
         end.

  (* PreChecks of each member in order; the view gains the outputs of the earlier members, the TRUC check looks at
     the mempool only (ws.m_parents = m_pool.GetParents) *)
  Fixpoint toy3_prechecks (P Q : pool) (txns : list ptx) : option (ptx * tx_result) :=
    match txns with
    | [] => None
    | t :: r =>
        if negb (inputs_avail utxo Q t) then Some (t, R_invalid true WHY_MISSING_INPUTS)
        else match single_truc_checks P t (parents_of P t) [] (vsize_of t) with
             | Some _ => Some (t, R_invalid false WHY_TRUC)
             | None => toy3_prechecks P (Q ++ [t]) r
             end
    end.

  Fixpoint toy3_package_truc (P : pool) (pkg : list ptx) (i : nat) (rest : list ptx) : bool :=
    match rest with
    | [] => true
    | t :: r => match package_truc_checks P pkg i t (vsize_of t) (parents_of P t) with
                | Some _ => false
                | None => toy3_package_truc P pkg (S i) r
                end
    end.

  Definition toy3_multi (P : pool) (txns : list ptx) : (pkg_state * rmap) * pool :=
    match is_well_formed txns with
    | Some r => ((PS_policy r, []), P)
    | None =>
      match toy3_prechecks P P txns with
      | Some (t, res) => ((PS_tx_failed, [(p_wtxid t, res)]), P)
      | None =>
        if negb (toy3_package_truc P txns 0 txns) then ((PS_other PS_CODE_TRUC, []), P) else
        if zsum (map p_fee txns) <? fee_for (zsum (map vsize_of txns)) then
          match last_opt txns with
          | Some l => ((PS_tx_failed, [(p_wtxid l, R_invalid true WHY_MIN_RELAY_FEE)]), P)
          | None => ((PS_tx_failed, []), P)
          end
        else ((PS_valid, map (fun t => (p_wtxid t, R_valid)) txns), P ++ txns)
      end
    end.

  Definition toy3_prestate (pre : list ptx) : pool :=
    fold_left (fun P t => if has_txid P (p_txid t) then P else snd (toy3_single P t)) pre [].
  Definition toy3_accept (pre package : list ptx) : (pkg_state * rmap) * list (list ptx) * pool :=
    accept_package toy3_single toy3_multi toy_trim (toy3_prestate pre) package.
End Toy3.
