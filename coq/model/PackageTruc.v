(* The scenario evaluator of the acceptance correspondences with the TRUC rules plugged in (C27 end-to-end tie,
   also used by the C29 acceptance tie; for version-2-only scenarios it coincides with toy_single / toy_multi).
   Order of the checks as in validation.cpp: PreChecks = inputs (TX_MISSING_INPUTS), fee rate when evaluated alone
   (TX_RECONSIDERABLE), SingleTRUCChecks on the mempool parents (TX_MEMPOOL_POLICY "TRUC-violation");
   AcceptMultipleTransactionsInternal = IsWellFormedPackage, PreChecks of every member (no fee check), then
   PackageTRUCChecks of every member (PCKG_POLICY "TRUC-violation", no per-transaction result), then the package
   fee rate.  Scenarios never offer a sibling-eviction candidate; a mempool conflict is only met by a transaction evaluated
   alone (single-transaction replacement), never by a sub-package (no package RBF).
   Executable definitions only. *)
From BV Require Import lib.Ints gen.Params_gen model.Package model.PackageAccept model.Truc.
Local Open Scope Z_scope.

Definition WHY_TRUC : Z := 3.
Definition WHY_INSUFFICIENT_FEE : Z := 4.   (* TX_RECONSIDERABLE "insufficient fee" *)
Definition WHY_SPENDS_CONFLICT : Z := 5.    (* TX_CONSENSUS "bad-txns-spends-conflicting-tx" *)
Definition PS_CODE_TRUC : Z := 1.          (* PCKG_POLICY "TRUC-violation" *)

Section Toy3.
  Variable utxo : outpoint -> bool.

  (* executable form of desc_closed: nothing left in the mempool spends an output of an evicted transaction *)
  Definition desc_closed_b (P : pool) (R : list Z) : bool :=
    forallb (fun t => negb (existsb (fun x => spends t x) R) || zmem (p_txid t) R) P.
  (* CFeeRate(incremental relay fee per 1000 vB).GetFee(vsize): rounded up *)
  Definition incr_fee (vsize : Z) : Z := (MPP_DEFAULT_INCREMENTAL_RELAY_FEE * vsize + 999) / 1000.

  (* a transaction evaluated alone (replacement allowed): inputs, fee rate, TRUC rules with the direct conflicts; then,
     when it conflicts with mempool transactions, ReplacementChecks: the conflicts and all their descendants are to be
     evicted, PaysForRBF (fee >= evicted fees, and the difference pays incremental relay fee for its own size:
     TX_RECONSIDERABLE "insufficient fee"); then EntriesAndTxidsDisjoint (TX_CONSENSUS
     "bad-txns-spends-conflicting-tx": an input is an output of something it evicts).  The feerate-diagram rule is
     not modelled: scenarios replace with a fee far above everything evicted. *)
  Definition toy3_single (P : pool) (t : ptx) : tx_result * pool :=
    if negb (inputs_avail utxo P t) then (R_invalid true WHY_MISSING_INPUTS, P)
    else if p_fee t <? fee_for (vsize_of t) then (R_invalid true WHY_MIN_RELAY_FEE, P)
    else
      let conf := direct_conflicts P t in
      match single_truc_checks P t (parents_of P t) conf (vsize_of t) with
      | Some _ => (R_invalid false WHY_TRUC, P)
      | None =>
        match conf with
        | [] => (R_valid, P ++ [t])
        | _ =>
          let R := desc_txids P conf in
          let old_fees := zsum (map p_fee (filter (fun e => zmem (p_txid e) R) P)) in
          if (p_fee t <? old_fees) || (p_fee t - old_fees <? incr_fee (vsize_of t)) then (R_invalid true WHY_INSUFFICIENT_FEE, P)
          else if negb (inputs_avail utxo (remove_set R P) t) then (R_invalid false WHY_SPENDS_CONFLICT, P)
          else if negb (desc_closed_b P R) then (R_invalid false WHY_SPENDS_CONFLICT, P)   (* never: the closure is complete *)
          else (R_valid, remove_set R P ++ [t])
        end
      end.

  (* PreChecks of each member in order; the view gains the outputs of the earlier members, the TRUC check looks at
     the mempool only (ws.m_parents = m_pool.GetParents) *)
  Fixpoint toy3_prechecks (P Q : pool) (txns : list ptx) : option (ptx * tx_result) :=
    match txns with
    | [] => None
    | t :: r =>
        if negb (inputs_avail utxo Q t) then Some (t, R_invalid true WHY_MISSING_INPUTS)
        else match single_truc_checks P t (parents_of P t) [] (vsize_of t) with
             | Some _ => Some (t, R_invalid false WHY_TRUC)
             | None => toy3_prechecks P (Q ++ [t]) r
             end
    end.

  Fixpoint toy3_package_truc (P : pool) (pkg : list ptx) (i : nat) (rest : list ptx) : bool :=
    match rest with
    | [] => true
    | t :: r => match package_truc_checks P pkg i t (vsize_of t) (parents_of P t) with
                | Some _ => false
                | None => toy3_package_truc P pkg (S i) r
                end
    end.

  Definition toy3_multi (P : pool) (txns : list ptx) : (pkg_state * rmap) * pool :=
    match is_well_formed txns with
    | Some r => ((PS_policy r, []), P)
    | None =>
      match toy3_prechecks P P txns with
      | Some (t, res) => ((PS_tx_failed, [(p_wtxid t, res)]), P)
      | None =>
        if negb (toy3_package_truc P txns 0 txns) then ((PS_other PS_CODE_TRUC, []), P) else
        if zsum (map p_fee txns) <? fee_for (zsum (map vsize_of txns)) then
          match last_opt txns with
          | Some l => ((PS_tx_failed, [(p_wtxid l, R_invalid true WHY_MIN_RELAY_FEE)]), P)
          | None => ((PS_tx_failed, []), P)
          end
        else ((PS_valid, map (fun t => (p_wtxid t, R_valid)) txns), P ++ txns)
      end
    end.

  Definition toy3_prestate (pre : list ptx) : pool :=
    fold_left (fun P t => if has_txid P (p_txid t) then P else snd (toy3_single P t)) pre [].
  Definition toy3_accept (pre package : list ptx) : (pkg_state * rmap) * list (list ptx) * pool :=
    accept_package toy3_single toy3_multi toy_trim (toy3_prestate pre) package.
End Toy3.
