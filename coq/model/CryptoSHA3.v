(* C49 — SHA3-256.

   Part 1 (specification), written from FIPS 202 ("SHA-3 Standard: Permutation-Based Hash and
   Extendable-Output Functions", August 2015), independent of the C++ text:
     - section 3.1: the state is a 5 x 5 array of lanes of w = 64 bits, A[x,y,z]; here the list of the
       25 lanes, lane (x,y) at index x + 5y, each lane the integer sum_z A[x,y,z] 2^z (this is the
       conversion of section 3.1.2 / appendix B.1: with bytes packed least significant bit first, a
       lane is the little-endian value of its 8 bytes);
     - section 3.2: the step mappings theta, rho, pi, chi, iota (algorithms 1-4, 6), the rho offsets
       computed by algorithm 2 and the round constants by the LFSR rc(t) of algorithm 5 -- both
       evaluated here from their definitions, not copied from anywhere;
     - section 3.3/3.4: Rnd(A, ir) = iota(chi(pi(rho(theta(A)))), ir), KECCAK-p[1600, 24] = KECCAK-f[1600];
     - section 4 / 5.1: the sponge construction and pad10*1; section 6.1: SHA3-256(M) =
       KECCAK[512](M || 01, 256): rate r = 1088 bits = 136 bytes, 256 bits of output (one squeeze).
       For byte strings the suffix 01 and pad10*1 are, in bytes (appendix B.2, table 6): q = 136 -
       (len mod 136) bytes, 0x86 if q = 1, else 0x06 0x00^(q-2) 0x80.  (proofs/CryptoSHA3Lemmas.v
       checks this byte form against the bit-level definition below on boundary lengths.)

   Part 2 (model of the C++): KeccakF and class SHA3_256 of src/crypto/sha3.{h,cpp}, statement by
   statement, including the unrolled KeccakF round (keccakf_cpp), proved equal to the FIPS
   permutation in proofs/CryptoSHA3Lemmas.v.

   Executable definitions only; proofs in proofs/CryptoSHA3Lemmas.v. *)
From Coq Require Import NArith.
From BV Require Import lib.Ints model.CryptoBase model.CryptoMD.
Local Open Scope Z_scope.

(* ================= Part 1: specification (FIPS 202) ================= *)

(* A[x,y] *)
Definition lane (A : list Z) (x y : nat) : Z := nth (x + 5 * y) A 0.
(* the state array with lanes f x y *)
Definition mk_state (f : nat -> nat -> Z) : list Z :=
  map (fun i => f (i mod 5)%nat (i / 5)%nat) (seq 0 25).

(* Algorithm 1: theta.  C[x,z] = A[x,0,z] xor A[x,1,z] xor A[x,2,z] xor A[x,3,z] xor A[x,4,z];
   D[x,z] = C[(x-1) mod 5, z] xor C[(x+1) mod 5, (z-1) mod w];  A'[x,y,z] = A[x,y,z] xor D[x,z].
   Bit z of the second term is bit z-1 of the lane: a rotation by 1 towards the high bits. *)
Definition theta_C (A : list Z) (x : nat) : Z :=
  Z.lxor (Z.lxor (Z.lxor (Z.lxor (lane A x 0) (lane A x 1)) (lane A x 2)) (lane A x 3)) (lane A x 4).
Definition theta_D (A : list Z) (x : nat) : Z :=
  Z.lxor (theta_C A ((x + 4) mod 5)) (rotl64 1 (theta_C A ((x + 1) mod 5))).
Definition keccak_theta (A : list Z) : list Z :=
  mk_state (fun x y => Z.lxor (lane A x y) (theta_D A x)).

(* Algorithm 2: rho.  A'[0,0,z] = A[0,0,z]; (x,y) = (1,0); for t from 0 to 23:
   A'[x,y,z] = A[x,y,(z - (t+1)(t+2)/2) mod w]; (x,y) = (y, (2x+3y) mod 5).
   The offsets (reduced mod w = 64) of the lanes visited by this walk: *)
Fixpoint rho_walk (n t x y : nat) : list (nat * nat * nat) :=
  match n with
  | O => []
  | S k => (x, y, (((t + 1) * (t + 2)) / 2) mod 64)%nat :: rho_walk k (S t) y ((2 * x + 3 * y) mod 5)%nat
  end.
Definition rho_offset_of (x y : nat) : nat :=
  match find (fun e => (fst (fst e) =? x)%nat && (snd (fst e) =? y)%nat) (rho_walk 24 0 1 0) with
  | Some e => snd e
  | None => 0%nat                  (* only (0,0) is not visited: offset 0 *)
  end.
(* offset of lane (x,y) at index x + 5y *)
Definition keccak_rho_offsets : list Z :=
  Eval vm_compute in map (fun i => Z.of_nat (rho_offset_of (i mod 5) (i / 5))) (seq 0 25).
Definition keccak_rho (A : list Z) : list Z :=
  mk_state (fun x y => if (x =? 0)%nat && (y =? 0)%nat then lane A 0 0
                       else rotl64 (nth (x + 5 * y) keccak_rho_offsets 0) (lane A x y)).

(* Algorithm 3: pi.  A'[x,y,z] = A[(x + 3y) mod 5, x, z] *)
Definition keccak_pi (A : list Z) : list Z :=
  mk_state (fun x y => lane A ((x + 3 * y) mod 5) x).

(* Algorithm 4: chi.  A'[x,y,z] = A[x,y,z] xor ((A[(x+1) mod 5,y,z] xor 1) and A[(x+2) mod 5,y,z]) *)
Definition keccak_chi (A : list Z) : list Z :=
  mk_state (fun x y =>
    Z.lxor (lane A x y) (Z.land (not64 (lane A ((x + 1) mod 5) y)) (lane A ((x + 2) mod 5) y))).

(* Algorithm 5: rc(t).  If t mod 255 = 0 return 1.  R = 10000000.  For i from 1 to t mod 255:
   R = 0 || R; R[0] ^= R[8]; R[4] ^= R[8]; R[5] ^= R[8]; R[6] ^= R[8]; R = Trunc8[R].  Return R[0]. *)
Definition lfsr_step (R : list bool) : list bool :=
  match false :: R with
  | [r0; r1; r2; r3; r4; r5; r6; r7; r8] =>
      [xorb r0 r8; r1; r2; r3; xorb r4 r8; xorb r5 r8; xorb r6 r8; r7]
  | _ => R
  end.
Definition keccak_rc_bit (t : nat) : bool :=
  if (t mod 255 =? 0)%nat then true
  else hd false (Nat.iter (t mod 255) lfsr_step [true; false; false; false; false; false; false; false]).

(* Algorithm 6: iota.  RC = 0^w; for j from 0 to l = 6: RC[2^j - 1] = rc(j + 7 ir);
   A'[0,0,z] = A[0,0,z] xor RC[z], all other lanes unchanged *)
Definition keccak_RC_of (ir : nat) : Z :=
  fold_left (fun acc j => if keccak_rc_bit (j + 7 * ir) then Z.lor acc (Z.shiftl 1 (2 ^ Z.of_nat j - 1)) else acc)
            (seq 0 7) 0.
Definition keccak_RC : list Z := Eval vm_compute in map keccak_RC_of (seq 0 24).
Definition keccak_iota (A : list Z) (RC : Z) : list Z :=
  mk_state (fun x y => if (x =? 0)%nat && (y =? 0)%nat then Z.lxor (lane A 0 0) RC else lane A x y).

(* 3.3: Rnd(A, ir) = iota(chi(pi(rho(theta(A)))), ir) *)
Definition keccak_round (A : list Z) (RC : Z) : list Z :=
  keccak_iota (keccak_chi (keccak_pi (keccak_rho (keccak_theta A)))) RC.
(* 3.3/3.4: KECCAK-p[1600, 24] = KECCAK-f[1600]: rounds ir = 0 .. 23 *)
Definition keccak_f (A : list Z) : list Z := fold_left keccak_round keccak_RC A.

(* ---- sponge (section 4), with r = 1088 bits = 136 bytes = 17 lanes, c = 512 ---- *)
Definition SHA3_RATE : nat := 136.
(* lane-wise xor of two states *)
Fixpoint zip_xor (a b : list Z) : list Z :=
  match a, b with x :: a', y :: b' => Z.lxor x y :: zip_xor a' b' | _, _ => [] end.
(* S xor (P_i || 0^c) then f *)
Definition sha3_absorb_block (S : list Z) (block : list N) : list Z :=
  keccak_f (zip_xor S (le64_words block ++ repeat 0 8)).
(* M || 01 || pad10*1(1088, len(M) + 2) for a message of len bytes, in bytes (appendix B.2) *)
Definition sha3_pad (len : nat) : list N :=
  let q := (SHA3_RATE - len mod SHA3_RATE)%nat in
  if (q =? 1)%nat then [134%N] (* 0x86 *)
  else 6%N :: zeros (q - 2) ++ [128%N].
Definition sha3_padded (msg : list N) : list N := msg ++ sha3_pad (length msg).
(* absorb all blocks from S = 0^1600, then Z = Trunc_256(S): the first 4 lanes, i.e. 32 bytes *)
Definition sha3_256_spec (msg : list N) : list N :=
  let p := sha3_padded msg in
  let S := process (list Z) SHA3_RATE sha3_absorb_block (length p / SHA3_RATE) (repeat 0 25) p in
  concat (map (le_bytes 8) (firstn 4 S)).

(* ---- the same padding at bit level (sections 5.1, 6.1 and B.1), used only as a cross-check ---- *)
(* B.1: a byte is the bit string b0 b1 ... b7 with value sum b_i 2^i *)
Definition bits_of_byte (b : N) : list bool := map (fun i => N.testbit b (N.of_nat i)) (seq 0 8).
Definition bits_of_bytes (l : list N) : list bool := flat_map bits_of_byte l.
Fixpoint bytes_of_bits (fuel : nat) (l : list bool) : list N :=
  match fuel with
  | O => []
  | S f => match l with
           | [] => []
           | _ => fold_right (fun (b : bool) acc => (N.b2n b + 2 * acc)%N) 0%N (firstn 8 l)
                  :: bytes_of_bits f (skipn 8 l)
           end
  end.
(* 5.1: pad10*1(x, m) = 1 || 0^j || 1 with j = (-m-2) mod x *)
Definition pad10star1 (x m : nat) : list bool :=
  true :: repeat false (Z.to_nat ((- Z.of_nat m - 2) mod Z.of_nat x)) ++ [true].
(* 6.1 + 4: N = M || 01;  P = N || pad10*1(r, len(N)) *)
Definition sha3_padded_bits (msg : list N) : list bool :=
  let n := bits_of_bytes msg ++ [false; true] in
  n ++ pad10star1 1088 (length n).

(* ================= Part 2: model of src/crypto/sha3.{h,cpp} ================= *)

(* ---- void KeccakF(uint64_t (&st)[25]) ----
     static constexpr uint64_t RNDC[24] = {
         0x0000000000000001, 0x0000000000008082, 0x800000000000808a, 0x8000000080008000,
         0x000000000000808b, 0x0000000080000001, 0x8000000080008081, 0x8000000000008009,
         0x000000000000008a, 0x0000000000000088, 0x0000000080008009, 0x000000008000000a,
         0x000000008000808b, 0x800000000000008b, 0x8000000000008089, 0x8000000000008003,
         0x8000000000008002, 0x8000000000000080, 0x000000000000800a, 0x800000008000000a,
         0x8000000080008081, 0x8000000000008080, 0x0000000080000001, 0x8000000080008008
     };
     static constexpr int ROUNDS = 24;                                                     *)
Definition KECCAK_RNDC : list Z := [
  0x0000000000000001; 0x0000000000008082; 0x800000000000808a; 0x8000000080008000;
  0x000000000000808b; 0x0000000080000001; 0x8000000080008081; 0x8000000000008009;
  0x000000000000008a; 0x0000000000000088; 0x0000000080008009; 0x000000008000000a;
  0x000000008000808b; 0x800000000000008b; 0x8000000000008089; 0x8000000000008003;
  0x8000000000008002; 0x8000000000000080; 0x000000000000800a; 0x800000008000000a;
  0x8000000080008081; 0x8000000000008080; 0x0000000080000001; 0x8000000080008008 ].

(* st[i] and st[i] = v on the array represented by the list of its 25 elements.  Every index used
   below is either a literal < 25 or m_pos, which the class invariant keeps < RATE_BUFFERS = 17
   (relation Rl in proofs/CryptoSHA3Lemmas.v), so the default of nth is never reached *)
Definition st_get (st : list Z) (i : nat) : Z := nth i st 0.
Definition st_set (st : list Z) (i : nat) (v : Z) : list Z := firstn i st ++ v :: skipn (S i) st.

(*       t = bc4 ^ std::rotl(bc1, 1); st[0] ^= t; st[5] ^= t; st[10] ^= t; st[15] ^= t; st[20] ^= t;   (one line of Theta) *)
Definition cpp_theta_col (st : list Z) (t : Z) (x : nat) : list Z :=
  fold_left (fun s i => st_set s i (Z.lxor (st_get s i) t)) [x; x + 5; x + 10; x + 15; x + 20]%nat st.

(*       bc0 = st[j]; st[j] = std::rotl(t, r); t = bc0;                                      (one line of Rho Pi) *)
Definition cpp_rhopi_step (stt : list Z * Z) (jr : nat * Z) : list Z * Z :=
  let '(st, t) := stt in
  let bc0 := st_get st (fst jr) in
  (st_set st (fst jr) (rotl64 (snd jr) t), bc0).
(* the (j, r) of the 23 such lines, in program order *)
Definition CPP_RHOPI : list (nat * Z) := [
  (10%nat, 1); (7%nat, 3); (11%nat, 6); (17%nat, 10); (18%nat, 15); (3%nat, 21); (5%nat, 28); (16%nat, 36); (8%nat, 45); (21%nat, 55); (24%nat, 2);
  (4%nat, 14); (15%nat, 27); (23%nat, 41); (19%nat, 56); (13%nat, 8); (12%nat, 25); (2%nat, 43); (20%nat, 62); (14%nat, 18); (22%nat, 39);
  (9%nat, 61); (6%nat, 20) ].

(*       bc0 = st[y]; bc1 = st[y+1]; bc2 = st[y+2]; bc3 = st[y+3]; bc4 = st[y+4];
         st[y] = bc0 ^ (~bc1 & bc2);      (for y = 0:  ... ^ RNDC[round])
         st[y+1] = bc1 ^ (~bc2 & bc3);
         st[y+2] = bc2 ^ (~bc3 & bc4);
         st[y+3] = bc3 ^ (~bc4 & bc0);
         st[y+4] = bc4 ^ (~bc0 & bc1);                                                     (one row of Chi) *)
Definition cpp_chi_row (rndc : option Z) (st : list Z) (y : nat) : list Z :=
  let bc0 := st_get st y in let bc1 := st_get st (y + 1) in let bc2 := st_get st (y + 2) in
  let bc3 := st_get st (y + 3) in let bc4 := st_get st (y + 4) in
  let v0 := Z.lxor bc0 (Z.land (not64 bc1) bc2) in
  let st := st_set st y (match rndc with Some c => Z.lxor v0 c | None => v0 end) in
  let st := st_set st (y + 1) (Z.lxor bc1 (Z.land (not64 bc2) bc3)) in
  let st := st_set st (y + 2) (Z.lxor bc2 (Z.land (not64 bc3) bc4)) in
  let st := st_set st (y + 3) (Z.lxor bc3 (Z.land (not64 bc4) bc0)) in
  let st := st_set st (y + 4) (Z.lxor bc4 (Z.land (not64 bc0) bc1)) in
  st.

(*   for (int round = 0; round < ROUNDS; ++round) {
         uint64_t bc0, bc1, bc2, bc3, bc4, t;

         // Theta
         bc0 = st[0] ^ st[5] ^ st[10] ^ st[15] ^ st[20];
         bc1 = st[1] ^ st[6] ^ st[11] ^ st[16] ^ st[21];
         bc2 = st[2] ^ st[7] ^ st[12] ^ st[17] ^ st[22];
         bc3 = st[3] ^ st[8] ^ st[13] ^ st[18] ^ st[23];
         bc4 = st[4] ^ st[9] ^ st[14] ^ st[19] ^ st[24];
         t = bc4 ^ std::rotl(bc1, 1); st[0] ^= t; st[5] ^= t; st[10] ^= t; st[15] ^= t; st[20] ^= t;
         t = bc0 ^ std::rotl(bc2, 1); st[1] ^= t; st[6] ^= t; st[11] ^= t; st[16] ^= t; st[21] ^= t;
         t = bc1 ^ std::rotl(bc3, 1); st[2] ^= t; st[7] ^= t; st[12] ^= t; st[17] ^= t; st[22] ^= t;
         t = bc2 ^ std::rotl(bc4, 1); st[3] ^= t; st[8] ^= t; st[13] ^= t; st[18] ^= t; st[23] ^= t;
         t = bc3 ^ std::rotl(bc0, 1); st[4] ^= t; st[9] ^= t; st[14] ^= t; st[19] ^= t; st[24] ^= t;

         // Rho Pi
         t = st[1];
         bc0 = st[10]; st[10] = std::rotl(t, 1); t = bc0;
         bc0 = st[7]; st[7] = std::rotl(t, 3); t = bc0;
         ... (23 lines, CPP_RHOPI) ...
         bc0 = st[6]; st[6] = std::rotl(t, 20); t = bc0;
         st[1] = std::rotl(t, 44);

         // Chi Iota
         bc0 = st[0]; bc1 = st[1]; bc2 = st[2]; bc3 = st[3]; bc4 = st[4];
         st[0] = bc0 ^ (~bc1 & bc2) ^ RNDC[round];
         st[1] = bc1 ^ (~bc2 & bc3);
         ...
         bc0 = st[20]; bc1 = st[21]; bc2 = st[22]; bc3 = st[23]; bc4 = st[24];
         ...
         st[24] = bc4 ^ (~bc0 & bc1);
     }                                                                                     *)
Definition keccakf_cpp_round (st : list Z) (rndc : Z) : list Z :=
  (* Theta *)
  let col x := Z.lxor (Z.lxor (Z.lxor (Z.lxor (st_get st x) (st_get st (x + 5))) (st_get st (x + 10)))
                              (st_get st (x + 15))) (st_get st (x + 20)) in
  let bc0 := col 0%nat in let bc1 := col 1%nat in let bc2 := col 2%nat in
  let bc3 := col 3%nat in let bc4 := col 4%nat in
  let st := cpp_theta_col st (Z.lxor bc4 (rotl64 1 bc1)) 0 in
  let st := cpp_theta_col st (Z.lxor bc0 (rotl64 1 bc2)) 1 in
  let st := cpp_theta_col st (Z.lxor bc1 (rotl64 1 bc3)) 2 in
  let st := cpp_theta_col st (Z.lxor bc2 (rotl64 1 bc4)) 3 in
  let st := cpp_theta_col st (Z.lxor bc3 (rotl64 1 bc0)) 4 in
  (* Rho Pi *)
  let t := st_get st 1 in
  let '(st, t) := fold_left cpp_rhopi_step CPP_RHOPI (st, t) in
  let st := st_set st 1 (rotl64 44 t) in
  (* Chi Iota *)
  let st := cpp_chi_row (Some rndc) st 0 in
  let st := cpp_chi_row None st 5 in
  let st := cpp_chi_row None st 10 in
  let st := cpp_chi_row None st 15 in
  let st := cpp_chi_row None st 20 in
  st.

Definition keccakf_cpp (st : list Z) : list Z := fold_left keccakf_cpp_round KECCAK_RNDC st.

(* ---- class SHA3_256 ----
     uint64_t m_state[25] = {0};
     unsigned char m_buffer[8];            (not initialised: its initial contents are an argument)
     unsigned m_bufsize = 0;
     unsigned m_pos = 0;
     static constexpr unsigned RATE_BITS = 1088;
     static constexpr unsigned RATE_BUFFERS = RATE_BITS / (8 * sizeof(m_buffer));          *)
Record sha3_256 : Type := { m_state : list Z; m_buffer : list N; m_bufsize : nat; m_pos : nat }.

Definition SHA3_RATE_BITS : nat := 1088.
Definition SHA3_RATE_BUFFERS : nat := Eval compute in (SHA3_RATE_BITS / (8 * 8))%nat.   (* 17 *)

Definition sha3_init (uninitialised_buffer : list N) : sha3_256 :=
  {| m_state := repeat 0 25; m_buffer := uninitialised_buffer; m_bufsize := 0; m_pos := 0 |}.

(*       m_state[m_pos++] ^= ReadLE64(p);
         if (m_pos == RATE_BUFFERS) {
             KeccakF(m_state);
             m_pos = 0;
         }
   on the pair (m_state, m_pos), with the 8 bytes at p *)
Definition sha3_absorb_lane (sp : list Z * nat) (lane8 : list N) : list Z * nat :=
  let st := st_set (fst sp) (snd sp) (Z.lxor (st_get (fst sp) (snd sp)) (le_value lane8)) in
  let pos := S (snd sp) in
  if (pos =? SHA3_RATE_BUFFERS)%nat then (keccakf_cpp st, 0%nat) else (st, pos).

(*   SHA3_256& SHA3_256::Write(std::span<const unsigned char> data)
     {
         if (m_bufsize && data.size() >= sizeof(m_buffer) - m_bufsize) {
             // Fill the buffer and process it.
             std::copy(data.begin(), data.begin() + (sizeof(m_buffer) - m_bufsize), m_buffer + m_bufsize);
             data = data.subspan(sizeof(m_buffer) - m_bufsize);
             m_state[m_pos++] ^= ReadLE64(m_buffer);
             m_bufsize = 0;
             if (m_pos == RATE_BUFFERS) {
                 KeccakF(m_state);
                 m_pos = 0;
             }
         }
         while (data.size() >= sizeof(m_buffer)) {
             // Process chunks directly from the buffer.
             m_state[m_pos++] ^= ReadLE64(data.data());
             data = data.subspan(8);
             if (m_pos == RATE_BUFFERS) {
                 KeccakF(m_state);
                 m_pos = 0;
             }
         }
         if (data.size()) {
             // Keep the remainder in the buffer.
             std::copy(data.begin(), data.end(), m_buffer + m_bufsize);
             m_bufsize += data.size();
         }
         return *this;
     }
   sizeof(m_buffer) - m_bufsize is computed in size_t; the class invariant m_bufsize < 8
   (sha3_wf in the proofs) makes it the natural-number difference.  The while loop runs
   data.size() / 8 times: `process` (CryptoMD.v) with block size 8. *)
(* the while loop and the final `if (data.size())`, entered with the not yet consumed data *)
Definition sha3_write_tail (h : sha3_256) (data : list N) : sha3_256 :=
  (* while (data.size() >= sizeof(m_buffer)) { m_state[m_pos++] ^= ReadLE64(data.data()); data = data.subspan(8);
       if (m_pos == RATE_BUFFERS) { KeccakF(m_state); m_pos = 0; } } *)
  let n := (length data / 8)%nat in
  let sp := process (list Z * nat) 8 sha3_absorb_lane n (m_state h, m_pos h) data in
  let data2 := skipn (n * 8) data in
  (* if (data.size()) { std::copy(data.begin(), data.end(), m_buffer + m_bufsize); m_bufsize += data.size(); } *)
  if (0 <? length data2)%nat then
    {| m_state := fst sp; m_buffer := memcpy (m_buffer h) (m_bufsize h) data2;
       m_bufsize := m_bufsize h + length data2; m_pos := snd sp |}
  else
    {| m_state := fst sp; m_buffer := m_buffer h; m_bufsize := m_bufsize h; m_pos := snd sp |}.

Definition sha3_write (h : sha3_256) (data : list N) : sha3_256 :=
  (* if (m_bufsize && data.size() >= sizeof(m_buffer) - m_bufsize) *)
  if negb (m_bufsize h =? 0)%nat && (8 - m_bufsize h <=? length data)%nat then
    (* std::copy(data.begin(), data.begin() + (8 - m_bufsize), m_buffer + m_bufsize);
       data = data.subspan(8 - m_bufsize);
       m_state[m_pos++] ^= ReadLE64(m_buffer); m_bufsize = 0;
       if (m_pos == RATE_BUFFERS) { KeccakF(m_state); m_pos = 0; } *)
    let k := (8 - m_bufsize h)%nat in
    let buf := memcpy (m_buffer h) (m_bufsize h) (firstn k data) in
    let sp := sha3_absorb_lane (m_state h, m_pos h) buf in
    sha3_write_tail {| m_state := fst sp; m_buffer := buf; m_bufsize := 0; m_pos := snd sp |} (skipn k data)
  else sha3_write_tail h data.

(*   SHA3_256& SHA3_256::Finalize(std::span<unsigned char> output)
     {
         assert(output.size() == OUTPUT_SIZE);
         std::fill(m_buffer + m_bufsize, m_buffer + sizeof(m_buffer), 0);
         m_buffer[m_bufsize] ^= 0x06;
         m_state[m_pos] ^= ReadLE64(m_buffer);
         m_state[RATE_BUFFERS - 1] ^= 0x8000000000000000;
         KeccakF(m_state);
         for (unsigned i = 0; i < 4; ++i) {
             WriteLE64(output.data() + 8 * i, m_state[i]);
         }
         return *this;
     } *)
Definition sha3_finalize (h : sha3_256) : list N :=
  let buf := firstn (m_bufsize h) (m_buffer h) ++ zeros (8 - m_bufsize h) in
  let buf := firstn (m_bufsize h) buf ++ N.lxor (nth (m_bufsize h) buf 0%N) 6 :: skipn (S (m_bufsize h)) buf in
  let st := st_set (m_state h) (m_pos h) (Z.lxor (st_get (m_state h) (m_pos h)) (le_value buf)) in
  let st := st_set st (SHA3_RATE_BUFFERS - 1)
                   (Z.lxor (st_get st (SHA3_RATE_BUFFERS - 1)) 0x8000000000000000) in
  let st := keccakf_cpp st in
  le_bytes 8 (st_get st 0) ++ le_bytes 8 (st_get st 1) ++ le_bytes 8 (st_get st 2) ++ le_bytes 8 (st_get st 3).

(* SHA3_256().Write(c1).Write(c2)....Finalize(out) *)
Definition sha3_stream (uninitialised_buffer : list N) (chunks : list (list N)) : list N :=
  sha3_finalize (fold_left sha3_write chunks (sha3_init uninitialised_buffer)).
