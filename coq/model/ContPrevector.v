(* prevector<N, T>  (src/prevector.h): model of the REPRESENTATION.
   C++ fields                                model
     Size _size                                p_size   raw field: number of elements when <= N,
                                                        number of elements + N + 1 when indirect
     union { char direct[sizeof(T)*N];         p_direct the N inline slots (junk while indirect: the union
             struct { char* indirect;                   is overwritten by pointer+capacity)
                      size_type capacity; } }  p_ind    the heap array `indirect` points to (capacity slots)
                                               p_cap    the `capacity` field
   Element counts/indices are `nat` (the C++ Size type is uint32_t; sizes >= 2^31 are outside the model,
   see props/C61.py ASSUMPTIONS).  Iterators/pointers into the element array are modelled by their index.
   Every function below is a transcription of the C++ function of the same name, quoted above it.
   Executable definitions only; proofs are in proofs/ContPrevectorLemmas.v. *)
From Coq Require Import List Arith Bool.
From BV Require Import model.ContBuf.
Import ListNotations.

Section Prevector.
  Variable T : Type.
  Variable T0 : T.        (* T{} : the value-initialised element (0 for int / unsigned char) *)
  Variable junk : T.      (* content of uninitialised memory *)
  Variable N : nat.

  Record pv := mkpv { p_size : nat; p_direct : list T; p_ind : list T; p_cap : nat }.

  (* prevector() = default;   _union = {}, _size = 0 *)
  Definition pv_empty : pv := mkpv 0 (repeat T0 N) [] 0.

  (* bool is_direct() const { return _size <= N; } *)
  Definition is_direct (s : pv) : bool := p_size s <=? N.
  (* size_type size() const { return is_direct() ? _size : _size - N - 1; } *)
  Definition size (s : pv) : nat := if is_direct s then p_size s else p_size s - N - 1.
  (* size_t capacity() const { if (is_direct()) return N; else return _union.indirect_contents.capacity; } *)
  Definition capacity (s : pv) : nat := if is_direct s then N else p_cap s.
  (* T* item_ptr(0) : the array currently in use *)
  Definition store (s : pv) : list T := if is_direct s then p_direct s else p_ind s.
  Definition with_store (s : pv) (b : list T) : pv :=
    if is_direct s then mkpv (p_size s) b (p_ind s) (p_cap s) else mkpv (p_size s) (p_direct s) b (p_cap s).
  Definition with_size (s : pv) (n : nat) : pv := mkpv n (p_direct s) (p_ind s) (p_cap s).

  (* void change_capacity(size_type new_capacity) {
         if (new_capacity <= N) {
             if (!is_direct()) {
                 T* indirect = indirect_ptr(0); T* src = indirect; T* dst = direct_ptr(0);
                 memcpy(dst, src, size() * sizeof(T));
                 free(indirect);
                 _size -= N + 1;
             }
         } else {
             if (!is_direct()) {
                 _union.indirect_contents.indirect = realloc(_union.indirect_contents.indirect, sizeof(T) * new_capacity);
                 _union.indirect_contents.capacity = new_capacity;
             } else {
                 char* new_indirect = malloc(sizeof(T) * new_capacity);
                 T* src = direct_ptr(0); T* dst = reinterpret_cast<T*>(new_indirect);
                 memcpy(dst, src, size() * sizeof(T));
                 _union.indirect_contents.indirect = new_indirect;
                 _union.indirect_contents.capacity = new_capacity;
                 _size += N + 1;
             } } } *)
  Definition change_capacity (s : pv) (new_capacity : nat) : option pv :=
    if new_capacity <=? N then
      if negb (is_direct s) then
        data <- buf_read (p_ind s) 0 (size s) ;;
        dir <- buf_write (p_direct s) 0 data ;;
        Some (mkpv (p_size s - (N + 1)) dir [] 0)
      else Some s
    else
      if negb (is_direct s) then
        Some (mkpv (p_size s) (p_direct s) (realloc junk (p_ind s) new_capacity) new_capacity)
      else
        data <- buf_read (p_direct s) 0 (size s) ;;
        ind <- buf_write (repeat junk new_capacity) 0 data ;;
        Some (mkpv (p_size s + N + 1) (repeat junk N) ind new_capacity).

  (* the two capacity checks that precede every growing operation:
       if (capacity() < n) change_capacity(n);                                   (resize, assign, reserve)
       if (capacity() < new_size) change_capacity(new_size + (new_size >> 1));   (insert, emplace_back) *)
  Definition ensure (s : pv) (n : nat) : option pv :=
    if capacity s <? n then change_capacity s n else Some s.
  Definition grow_for (s : pv) (new_size : nat) : option pv :=
    if capacity s <? new_size then change_capacity s (new_size + Nat.div2 new_size) else Some s.
  (* fill(item_ptr(cur), ...data...); _size += count;    (write first, then the size) *)
  Definition append_fill (s : pv) (cur : nat) (data : list T) : option pv :=
    b <- buf_write (store s) cur data ;;
    let s2 := with_store s b in
    Some (with_size s2 (p_size s2 + length data)).
  (* _size += n; fill(item_ptr(0), ...data...);          (size first: item_ptr is evaluated afterwards) *)
  Definition size_then_fill (s : pv) (data : list T) : option pv :=
    let s2 := with_size s (p_size s + length data) in
    b <- buf_write (store s2) 0 data ;;
    Some (with_store s2 b).
  (* T* ptr = item_ptr(p); memmove(ptr + count, ptr, (size() - p) * sizeof(T)); _size += count; fill(ptr, data) *)
  Definition insert_at (s1 : pv) (p : nat) (data : list T) : option pv :=
    let count := length data in
    let b := store s1 in
    let direct := is_direct s1 in
    moved <- buf_read b p (size s1 - p) ;;
    b1 <- buf_write b (p + count) moved ;;
    let s2 := with_size s1 (p_size s1 + count) in
    b2 <- buf_write b1 p data ;;
    Some (if direct then mkpv (p_size s2) b2 (p_ind s2) (p_cap s2)
          else mkpv (p_size s2) (p_direct s2) b2 (p_cap s2)).

  (* iterator erase(iterator first, iterator last) {
         iterator p = first;
         char* endp = (char* )&( *end());
         _size -= last - p;
         memmove(&( *first), &( *last), endp - ((char* )(&( *last))));
         return first; }
     first/last are indices; last - first and endp - last are unsigned differences (UB / huge if negative:
     the model refuses such calls). *)
  Definition erase (s : pv) (first last : nat) : option pv :=
    if (first <=? last) && (last <=? size s) then
      let b := store s in
      let direct := is_direct s in
      let endp := size s in
      let s1 := with_size s (p_size s - (last - first)) in
      data <- buf_read b last (endp - last) ;;
      b' <- buf_write b first data ;;
      Some (if direct then mkpv (p_size s1) b' (p_ind s1) (p_cap s1)
            else mkpv (p_size s1) (p_direct s1) b' (p_cap s1))
    else None.

  (* void resize(size_type new_size) {
         size_type cur_size = size();
         if (cur_size == new_size) return;
         if (cur_size > new_size) { erase(item_ptr(new_size), end()); return; }
         if (new_size > capacity()) change_capacity(new_size);
         ptrdiff_t increase = new_size - cur_size;
         fill(item_ptr(cur_size), increase);
         _size += increase; } *)
  Definition resize (s : pv) (new_size : nat) : option pv :=
    let cur_size := size s in
    if cur_size =? new_size then Some s
    else if new_size <? cur_size then erase s new_size (size s)
    else
      s1 <- ensure s new_size ;;
      let increase := new_size - cur_size in
      append_fill s1 cur_size (repeat T0 increase).

  (* void reserve(size_type new_capacity) { if (new_capacity > capacity()) change_capacity(new_capacity); } *)
  Definition reserve (s : pv) (new_capacity : nat) : option pv :=
    ensure s new_capacity.
  (* void shrink_to_fit() { change_capacity(size()); } *)
  Definition shrink_to_fit (s : pv) : option pv := change_capacity s (size s).
  (* void clear() { resize(0); } *)
  Definition clear (s : pv) : option pv := resize s 0.

  (* void assign(size_type n, const T& val) {
         clear();
         if (capacity() < n) change_capacity(n);
         _size += n;
         fill(item_ptr(0), n, val); }
     and the iterator-range overload (n = last - first, fill(item_ptr(0), first, last)). *)
  Definition assign_range (s : pv) (data : list T) : option pv :=
    let n := length data in
    s0 <- clear s ;;
    s1 <- ensure s0 n ;;
    size_then_fill s1 data.
  Definition assign (s : pv) (n : nat) (val : T) : option pv := assign_range s (repeat val n).

  (* explicit prevector(size_type n, const T& val) { change_capacity(n); _size += n; fill(item_ptr(0), n, val); }
     prevector(InputIterator first, InputIterator last) { size_type n = last - first; change_capacity(n); _size += n; fill(item_ptr(0), first, last); }
     prevector(const prevector& other) { size_type n = other.size(); change_capacity(n); _size += n; fill(item_ptr(0), other.begin(), other.end()); } *)
  Definition ctor_range (data : list T) : option pv :=
    let n := length data in
    s1 <- change_capacity pv_empty n ;;
    size_then_fill s1 data.
  Definition ctor_fill (n : nat) (val : T) : option pv := ctor_range (repeat val n).
  (* explicit prevector(size_type n) { resize(n); } *)
  Definition ctor_n (n : nat) : option pv := resize pv_empty n.
  (* the elements [begin(), end()) as read through the iterators *)
  Definition contents (s : pv) : option (list T) := buf_read (store s) 0 (size s).
  Definition ctor_copy (other : pv) : option pv := data <- contents other ;; ctor_range data.

  (* prevector(prevector&& other) noexcept : _union(std::move(other._union)), _size(other._size) { other._size = 0; }
     returns (new object, other afterwards) *)
  Definition ctor_move (other : pv) : pv * pv := (other, with_size other 0).

  (* prevector& operator=(const prevector& other) { if (&other == this) return *this; assign(other.begin(), other.end()); return *this; } *)
  Definition copy_assign (s other : pv) : option pv := data <- contents other ;; assign_range s data.

  (* prevector& operator=(prevector&& other) noexcept {
         if (!is_direct()) free(_union.indirect_contents.indirect);
         _union = std::move(other._union); _size = other._size; other._size = 0; return *this; } *)
  Definition move_assign (s other : pv) : pv * pv := (other, with_size other 0).

  (* void swap(prevector& other) noexcept { std::swap(_union, other._union); std::swap(_size, other._size); } *)
  Definition swap (s other : pv) : pv * pv := (other, s).

  (* iterator insert(iterator pos, const T& value) {
         size_type p = pos - begin();
         size_type new_size = size() + 1;
         if (capacity() < new_size) change_capacity(new_size + (new_size >> 1));
         T* ptr = item_ptr(p); T* dst = ptr + 1;
         memmove(dst, ptr, (size() - p) * sizeof(T));
         _size++;
         new(static_cast<void*>(ptr)) T(value);
         return iterator(ptr); }
     and the (pos, count, value) and (pos, first, last) overloads, which differ only in `count` and in the
     final fill: all three are insert_range with data = [value] / repeat value count / [first,last). *)
  Definition insert_range (s : pv) (p : nat) (data : list T) : option pv :=
    if p <=? size s then
      let count := length data in
      let new_size := size s + count in
      s1 <- grow_for s new_size ;;
      insert_at s1 p data
    else None.
  Definition insert (s : pv) (p : nat) (value : T) : option pv := insert_range s p [value].
  Definition insert_n (s : pv) (p count : nat) (value : T) : option pv := insert_range s p (repeat value count).

  (* void emplace_back(Args&&... args) {
         size_type new_size = size() + 1;
         if (capacity() < new_size) change_capacity(new_size + (new_size >> 1));
         new(item_ptr(size())) T(std::forward<Args>(args)...);
         _size++; }
     void push_back(const T& value) { emplace_back(value); } *)
  Definition push_back (s : pv) (value : T) : option pv :=
    let new_size := size s + 1 in
    s1 <- grow_for s new_size ;;
    append_fill s1 (size s1) [value].

  (* void pop_back() { erase(end() - 1, end()); }     (end() - 1 on an empty vector is UB) *)
  Definition pop_back (s : pv) : option pv :=
    if 1 <=? size s then erase s (size s - 1) (size s) else None.
  (* iterator erase(iterator pos) { return erase(pos, pos + 1); } *)
  Definition erase1 (s : pv) (p : nat) : option pv := erase s p (p + 1).

  (* T& operator[](size_type pos) { return *item_ptr(pos); }   reading / assigning through the reference.
     pos >= size() is a precondition violation of the container (even when it stays inside the allocation). *)
  Definition get (s : pv) (pos : nat) : option T := if pos <? size s then buf_get (store s) pos else None.
  Definition update (s : pv) (pos : nat) (v : T) : option pv :=
    if pos <? size s then b <- buf_set (store s) pos v ;; Some (with_store s b) else None.

  (* inline void resize_uninitialized(size_type new_size) {
         if (capacity() < new_size) { change_capacity(new_size); _size += new_size - size(); return; }
         if (new_size < size()) erase(item_ptr(new_size), end()); else _size += new_size - size(); }
     The caller has to initialise the added elements; the op modelled (as in src/test/fuzz/prevector.cpp) is
     resize_uninitialized(new_size) followed by v[i] = x for the added positions. *)
  Definition resize_uninitialized (s : pv) (new_size : nat) : option pv :=
    if capacity s <? new_size then
      s1 <- change_capacity s new_size ;;
      Some (with_size s1 (p_size s1 + (new_size - size s1)))
    else if new_size <? size s then erase s new_size (size s)
    else Some (with_size s (p_size s + (new_size - size s))).
  Definition resize_uninit_fill (s : pv) (new_size : nat) (vals : list T) : option pv :=
    let old := size s in
    s1 <- resize_uninitialized s new_size ;;
    if new_size <=? old then Some s1
    else if length vals =? new_size - old then
      b <- buf_write (store s1) old vals ;; Some (with_store s1 b)
    else None.

  (* ---------------------------------------------------------------------------------------------
     Representation invariant and abstraction function *)
  Definition pv_inv (s : pv) : Prop :=
    length (p_direct s) = N /\
    (is_direct s = true \/
     (N + 1 <= p_size s /\ length (p_ind s) = p_cap s /\ N < p_cap s /\ p_size s - N - 1 <= p_cap s)).
  Definition pv_invb (s : pv) : bool :=
    (length (p_direct s) =? N) &&
    (is_direct s || ((N + 1 <=? p_size s) && (length (p_ind s) =? p_cap s) && (N <? p_cap s) && (p_size s - N - 1 <=? p_cap s))).
  Definition pv_abs (s : pv) : list T := firstn (size s) (store s).

  (* ---------------------------------------------------------------------------------------------
     Operation scripts on a pair of vectors (a, b), as in the fuzz harness (pre_vector, pre_vector_alt). *)
  Inductive pvop :=
  | PushBack (v : T) | PopBack | Insert (p : nat) (v : T) | InsertN (p n : nat) (v : T)
  | InsertRange (p : nat) (l : list T) | Erase (p : nat) | EraseRange (a b : nat)
  | Resize (n : nat) | Reserve (n : nat) | ShrinkToFit | Clear
  | Assign (n : nat) (v : T) | AssignRange (l : list T) | Update (p : nat) (v : T)
  | ResizeUninit (n : nat) (l : list T)
  | Swap              (* a.swap(b) *)
  | MoveAssign        (* a = std::move(b) *)
  | CopyAssign        (* a = b *)
  | CopyCtor          (* b destroyed, then constructed as prevector(a) *)
  | MoveCtor          (* b destroyed, then constructed as prevector(std::move(a)) *)
  | CtorFill (n : nat) (v : T)   (* a destroyed, then constructed as prevector(n, v) *)
  | CtorRange (l : list T)       (* ... prevector(first, last) *)
  | CtorN (n : nat).             (* ... prevector(n) *)

  Definition on_a (f : pv -> option pv) (st : pv * pv) : option (pv * pv) :=
    a <- f (fst st) ;; Some (a, snd st).

  Definition pv_step (st : pv * pv) (o : pvop) : option (pv * pv) :=
    match o with
    | PushBack v => on_a (fun a => push_back a v) st
    | PopBack => on_a pop_back st
    | Insert p v => on_a (fun a => insert a p v) st
    | InsertN p n v => on_a (fun a => insert_n a p n v) st
    | InsertRange p l => on_a (fun a => insert_range a p l) st
    | Erase p => on_a (fun a => if p <? size a then erase1 a p else None) st
    | EraseRange x y => on_a (fun a => erase a x y) st
    | Resize n => on_a (fun a => resize a n) st
    | Reserve n => on_a (fun a => reserve a n) st
    | ShrinkToFit => on_a shrink_to_fit st
    | Clear => on_a clear st
    | Assign n v => on_a (fun a => assign a n v) st
    | AssignRange l => on_a (fun a => assign_range a l) st
    | Update p v => on_a (fun a => update a p v) st
    | ResizeUninit n l => on_a (fun a => resize_uninit_fill a n l) st
    | Swap => Some (swap (fst st) (snd st))
    | MoveAssign => Some (move_assign (fst st) (snd st))
    | CopyAssign => on_a (fun a => copy_assign a (snd st)) st
    | CopyCtor => b <- ctor_copy (fst st) ;; Some (fst st, b)
    | MoveCtor => let (b, a) := ctor_move (fst st) in Some (a, b)
    | CtorFill n v => a <- ctor_fill n v ;; Some (a, snd st)
    | CtorRange l => a <- ctor_range l ;; Some (a, snd st)
    | CtorN n => a <- ctor_n n ;; Some (a, snd st)
    end.

  Fixpoint pv_run (st : pv * pv) (ops : list pvop) : option (pv * pv) :=
    match ops with [] => Some st | o :: r => st' <- pv_step st o ;; pv_run st' r end.

  (* the trace the drivers print: the state after every operation *)
  Fixpoint pv_trace (st : pv * pv) (ops : list pvop) : list (option (pv * pv)) :=
    match ops with
    | [] => []
    | o :: r => match pv_step st o with
                | Some st' => Some st' :: pv_trace st' r
                | None => [None]
                end
    end.

  (* ---------------------------------------------------------------------------------------------
     The standard counterpart: std::vector<T> as a plain list.  `None` = precondition of the std
     operation violated (undefined behaviour). *)
  Definition vec_insert (l : list T) (p : nat) (data : list T) : option (list T) :=
    if p <=? length l then Some (firstn p l ++ data ++ skipn p l) else None.
  Definition vec_erase (l : list T) (a b : nat) : option (list T) :=
    if (a <=? b) && (b <=? length l) then Some (firstn a l ++ skipn b l) else None.
  Definition vec_resize (l : list T) (n : nat) : list T := firstn n l ++ repeat T0 (n - length l).

  Definition vec_step (st : list T * list T) (o : pvop) : option (list T * list T) :=
    let (a, b) := st in
    match o with
    | PushBack v => Some (a ++ [v], b)
    | PopBack => if 1 <=? length a then Some (removelast a, b) else None
    | Insert p v => a' <- vec_insert a p [v] ;; Some (a', b)
    | InsertN p n v => a' <- vec_insert a p (repeat v n) ;; Some (a', b)
    | InsertRange p l => a' <- vec_insert a p l ;; Some (a', b)
    | Erase p => if p <? length a then a' <- vec_erase a p (p + 1) ;; Some (a', b) else None
    | EraseRange x y => a' <- vec_erase a x y ;; Some (a', b)
    | Resize n => Some (vec_resize a n, b)
    | Reserve _ => Some (a, b)
    | ShrinkToFit => Some (a, b)
    | Clear => Some ([], b)
    | Assign n v => Some (repeat v n, b)
    | AssignRange l => Some (l, b)
    | Update p v => if p <? length a then Some (firstn p a ++ v :: skipn (S p) a, b) else None
    | ResizeUninit n l =>
        if n <=? length a then Some (firstn n a, b)
        else if length l =? n - length a then Some (a ++ l, b) else None
    | Swap => Some (b, a)
    | MoveAssign => Some (b, [])
    | CopyAssign => Some (b, b)
    | CopyCtor => Some (a, a)
    | MoveCtor => Some ([], a)
    | CtorFill n v => Some (repeat v n, b)
    | CtorRange l => Some (l, b)
    | CtorN n => Some (repeat T0 n, b)
    end.

  Fixpoint vec_run (st : list T * list T) (ops : list pvop) : option (list T * list T) :=
    match ops with [] => Some st | o :: r => st' <- vec_step st o ;; vec_run st' r end.

  Fixpoint vec_trace (st : list T * list T) (ops : list pvop) : list (option (list T * list T)) :=
    match ops with
    | [] => []
    | o :: r => match vec_step st o with
                | Some st' => Some st' :: vec_trace st' r
                | None => [None]
                end
    end.
End Prevector.
