(* The mempool as a state machine (C22).  Transcribed from
     src/txmempool.cpp     addNewTransaction, removeUnchecked, removeRecursive (both overloads), removeConflicts,
                           removeForBlock, removeForReorg, Expire, TrimToSize, CCoinsViewMemPool::GetCoin, TestLockPointValidity
     src/validation.cpp    CheckFinalTxAtTip, CalculatePrevHeights, CalculateLockPointsAtTip, CheckSequenceLocksAtTip,
                           LimitMempoolSize, MemPoolAccept::PreChecks / AcceptSingleTransactionInternal / FinalizeSubpackage,
                           Chainstate::MaybeUpdateMempoolForReorg (incl. the filter_final_and_mature lambda),
                           DisconnectTip / ConnectTip (their mempool parts), ActivateBestChainStep (one step = one OpReorg)
     src/kernel/disconnected_transactions.cpp   AddTransactionsFromBlock / removeForBlock / take (the order of the queue)
   Executable definitions only (proofs are in proofs/Mempool*.v).

   What is NOT decided here but taken from the operation (it is the implementation's own answer, recorded by the
   driver): fee / size policy, RBF economics, TRUC, cluster limits (a `stage` at which policy said no), and WHICH
   transactions TrimToSize evicts.  The parent/child graph is derived from the spends index (mapNextTx), the way
   removeRecursive(absent tx) and UpdateTransactionsFromBlock derive it; the TxGraph copy of that relation is compared with it
   on the implementation's dumps (holds) but is not a separate component of this state.
   Amounts are not modelled (C01); script validity is a bit carried by the transaction (C12). *)
From BV Require Import lib.Ints gen.Params_gen model.Locks.
Local Open Scope Z_scope.

(* ------------------------------------------------------------------------------------------ *)
(* identifiers and small list helpers *)

Definition outpoint := (Z * Z)%type.                     (* COutPoint: (txid, n) *)
Definition oeqb (a b : outpoint) : bool := (fst a =? fst b) && (snd a =? snd b).

Definition memz (x : Z) (l : list Z) : bool := existsb (Z.eqb x) l.
Definition memo (o : outpoint) (l : list outpoint) : bool := existsb (oeqb o) l.

Fixpoint nodupz (l : list Z) : list Z :=
  match l with [] => [] | x :: r => if memz x r then nodupz r else x :: nodupz r end.
Fixpoint nodupb_o (l : list outpoint) : bool :=
  match l with [] => true | x :: r => negb (memo x r) && nodupb_o r end.
Fixpoint nodupb_z (l : list Z) : bool :=
  match l with [] => true | x :: r => negb (memz x r) && nodupb_z r end.
Definition is_nil {A} (l : list A) : bool := match l with [] => true | _ => false end.
Definition is_some {A} (x : option A) : bool := match x with Some _ => true | None => false end.

(* ------------------------------------------------------------------------------------------ *)
(* transactions, blocks, the active chain and its UTXO set *)

(* CTransaction: the txid, vin (prevout, nSequence), the number of spendable outputs (outputs 0..t_nout-1), version,
   nLockTime; one bit for "every input script verifies"; the fee and virtual size CTxMemPoolEntry will record. *)
Record tx := { t_id : Z; t_vin : list (outpoint * Z); t_nout : Z; t_version : Z; t_locktime : Z;
               t_script_ok : bool; t_fee : Z; t_size : Z }.
Definition t_ins (t : tx) : list outpoint := map fst (t_vin t).
Definition to_ltx (t : tx) : ltx := {| lt_version := t_version t; lt_locktime := t_locktime t; lt_seqs := map snd (t_vin t) |}.
(* a coinbase is the transaction without (real) inputs *)
Definition is_cb (t : tx) : bool := is_nil (t_vin t).
Definition tx_creates (t : tx) (o : outpoint) : bool := (fst o =? t_id t) && (0 <=? snd o) && (snd o <? t_nout t).

Record block := { b_id : Z; b_time : Z; b_txs : list tx }.

(* the active chain, tip first; the block at the end of the list is the genesis block (height 0) *)
Definition chain := list block.
Definition height (c : chain) : Z := Z.of_nat (length c) - 1.
(* block times by height, the representation model/Locks.v works on *)
Definition times (c : chain) : list Z := rev (map b_time c).
(* CBlockIndex::GetMedianTimePast of the tip.  mtp_at is None only for an empty chain (Locks: mtp_at_some); the states of
   this model always have a non-empty chain (chain_wf), so the 0 is never used (MempoolBase.mtp_tip_some). *)
Definition mtp_tip (c : chain) : Z := match mtp_at (times c) (height c) with Some m => m | None => 0 end.
Definition block_id_at (c : chain) (h : Z) : option Z :=
  if h <? 0 then None else nth_error (rev (map b_id c)) (Z.to_nat h).

(* the coin (height, fCoinBase) an outpoint has in CoinsTip(): created by a transaction of the chain and not spent by one *)
Fixpoint find_creator (c : chain) (o : outpoint) : option (Z * bool) :=
  match c with
  | [] => None
  | b :: rest => match find (fun t => tx_creates t o) (b_txs b) with
                 | Some t => Some (Z.of_nat (length rest), is_cb t)
                 | None => find_creator rest o
                 end
  end.
Definition spent_in_block (b : block) (o : outpoint) : bool := existsb (fun t => memo o (t_ins t)) (b_txs b).
Definition spent_in_chain (c : chain) (o : outpoint) : bool := existsb (fun b => spent_in_block b o) c.
Definition utxo (c : chain) (o : outpoint) : option (Z * bool) :=
  if spent_in_chain c o then None else find_creator c o.

Definition chain_txids (c : chain) : list Z := flat_map (fun b => map t_id (b_txs b)) c.

(* ------------------------------------------------------------------------------------------ *)
(* the pool *)

(* LockPoints {height, time, maxInputBlock}: maxInputBlock as (its height, its block id) *)
Record lockpoints := { lp_height : Z; lp_time : Z; lp_maxh : Z; lp_maxid : Z }.
(* CTxMemPoolEntry: tx, nTime, spendsCoinbase, lockPoints (nFee and the size are t_fee / t_size of the tx) *)
Record entry := { e_tx : tx; e_time : Z; e_cb : bool; e_lp : lockpoints }.
Definition e_id (e : entry) : Z := t_id (e_tx e).

(* CTxMemPool: mapTx, mapNextTx (COutPoint -> spending entry), totalTxSize (uint64), m_total_fee (int64) *)
Record pool := { p_entries : list entry; p_next : list (outpoint * Z); p_size : Z; p_fee : Z }.
Definition empty_pool : pool := {| p_entries := []; p_next := []; p_size := 0; p_fee := 0 |}.

Definition find_entry (p : pool) (id : Z) : option entry := find (fun e => e_id e =? id) (p_entries p).
Definition in_pool (p : pool) (id : Z) : bool := is_some (find_entry p id).        (* exists(txid) *)
Definition pool_ids (p : pool) : list Z := map e_id (p_entries p).

(* std::map::find on mapNextTx *)
Fixpoint next_find (nx : list (outpoint * Z)) (o : outpoint) : option Z :=
  match nx with [] => None | (k, v) :: r => if oeqb k o then Some v else next_find r o end.
(* std::map::insert: keeps the old mapping when the key is present *)
Definition next_insert (nx : list (outpoint * Z)) (o : outpoint) (id : Z) : list (outpoint * Z) :=
  if is_some (next_find nx o) then nx else nx ++ [(o, id)].
(* std::map::erase(key) *)
Definition next_erase (nx : list (outpoint * Z)) (o : outpoint) : list (outpoint * Z) :=
  filter (fun kv => negb (oeqb (fst kv) o)) nx.

(* addNewTransaction:
     for (i ...) mapNextTx.insert(std::make_pair(&tx.vin[i].prevout, newit));
     totalTxSize += entry.GetTxSize();  m_total_fee += entry.GetFee(); *)
Definition add_entry (p : pool) (e : entry) : pool :=
  {| p_entries := p_entries p ++ [e];
     p_next := fold_left (fun nx o => next_insert nx o (e_id e)) (t_ins (e_tx e)) (p_next p);
     p_size := wrapu64 (p_size p + t_size (e_tx e));
     p_fee := wrap64 (p_fee p + t_fee (e_tx e)) |}.

(* removeUnchecked:
     for (const CTxIn& txin : it->GetTx().vin) mapNextTx.erase(txin.prevout);
     totalTxSize -= it->GetTxSize(); m_total_fee -= it->GetFee(); mapTx.erase(it);
   (called with an iterator: the entry exists) *)
Definition remove_unchecked (p : pool) (id : Z) : pool :=
  match find_entry p id with
  | None => p
  | Some e =>
    {| p_entries := filter (fun x => negb (e_id x =? id)) (p_entries p);
       p_next := fold_left next_erase (t_ins (e_tx e)) (p_next p);
       p_size := wrapu64 (p_size p - t_size (e_tx e));
       p_fee := wrap64 (p_fee p - t_fee (e_tx e)) |}
  end.
Definition remove_list (p : pool) (ids : list Z) : pool := fold_left remove_unchecked ids p.

(* ------------------------------------------------------------------------------------------ *)
(* the transaction graph, derived from mapNextTx / vin *)

(* children of a txid: the spenders mapNextTx lists for outpoints of that txid
     auto iter = mapNextTx.lower_bound(COutPoint(hash, 0));
     for (; iter != mapNextTx.end() && iter->first->hash == hash; ++iter) ... iter->second *)
Definition children (p : pool) (id : Z) : list Z :=
  map snd (filter (fun kv => fst (fst kv) =? id) (p_next p)).
(* in-pool parents of a transaction: GetParents / the loop of CalculateMemPoolAncestors over vin *)
Definition parents_tx (p : pool) (t : tx) : list Z := filter (in_pool p) (map fst (t_ins t)).
Definition parents (p : pool) (id : Z) : list Z :=
  match find_entry p id with Some e => parents_tx p (e_tx e) | None => [] end.

(* closure of a set under a successor function: rounds of "add every successor not yet present" until nothing is added.
   Each productive round adds an in-pool id, so (number of entries + 1) rounds suffice (MempoolGraph.close_closed). *)
Fixpoint close (fuel : nat) (succ : Z -> list Z) (acc : list Z) : list Z :=
  match fuel with
  | O => acc
  | S f =>
    match nodupz (filter (fun x => negb (memz x acc)) (flat_map succ acc)) with
    | [] => acc
    | new => close f succ (acc ++ new)
    end
  end.
Definition fuel_of (p : pool) : nat := S (length (p_entries p)).
(* TxGraph::GetDescendantsUnion(seeds) / GetDescendants(x): the seeds that are entries, and everything that spends from them *)
Definition descendants (p : pool) (seeds : list Z) : list Z :=
  close (fuel_of p) (children p) (nodupz (filter (in_pool p) seeds)).
(* CTxMemPool::CalculateMemPoolAncestors for an entry that is not in the graph yet: the union over its in-pool parents of
   GetAncestors(parent) (each of which contains the parent itself) *)
Definition ancestors_of_tx (p : pool) (t : tx) : list Z :=
  close (fuel_of p) (parents p) (nodupz (parents_tx p t)).

(* ------------------------------------------------------------------------------------------ *)
(* removal mechanisms of CTxMemPool *)

(* void CTxMemPool::removeRecursive(const CTransaction &origTx, reason):
     origit = mapTx.find(origTx.GetHash());
     if (origit != mapTx.end()) removeRecursive(origit, reason)      -- GetDescendants(origit): itself and its descendants
     else { every spender mapNextTx lists for origTx's outputs; GetDescendantsUnion of those; removeUnchecked each } *)
Definition remove_recursive (p : pool) (id : Z) : pool :=
  if in_pool p id then remove_list p (descendants p [id])
  else remove_list p (descendants p (children p id)).

(* void CTxMemPool::removeConflicts(const CTransaction &tx):
     for (const CTxIn &txin : tx.vin) { auto it = mapNextTx.find(txin.prevout);
        if (it != mapNextTx.end()) { txConflict = it->second->GetTx();
            if (Assume(txConflict.GetHash() != tx.GetHash())) { ClearPrioritisation(..); removeRecursive(it->second, CONFLICT); } } } *)
Definition remove_conflicts (p : pool) (t : tx) : pool :=
  fold_left (fun q o => match next_find (p_next q) o with
                        | Some c => if c =? t_id t then q else remove_list q (descendants q [c])
                        | None => q
                        end) (t_ins t) p.

(* removeForBlock(vtx): for each tx of the block: if it is in mapTx removeUnchecked(it, BLOCK); removeConflicts( *tx ) *)
Definition remove_for_block (p : pool) (txs : list tx) : pool :=
  fold_left (fun q t => remove_conflicts (if in_pool q (t_id t) then remove_unchecked q (t_id t) else q) t) txs p.

(* int CTxMemPool::Expire(std::chrono::seconds time):
     every entry with GetTime() < time, CalculateDescendants of each into `stage`, RemoveStaged(stage, EXPIRY) *)
Definition expire (p : pool) (cutoff : Z) : pool :=
  remove_list p (descendants p (map e_id (filter (fun e => e_time e <? cutoff) (p_entries p)))).

(* TrimToSize(sizelimit): while (DynamicMemoryUsage() > sizelimit) remove GetWorstMainChunk().  Which chunks go is the
   implementation's answer (`evict`); a chunk at the end of the linearization is closed under descendants, and so is a union
   of successively removed ones: the model removes the descendant closure of what it is told. *)
Definition trim (p : pool) (evict : list Z) : pool := remove_list p (descendants p evict).

(* static void LimitMempoolSize(pool, coins_cache):
     pool.Expire(GetTime() - pool.m_opts.expiry);  pool.TrimToSize(pool.m_opts.max_size_bytes, &vNoSpendsRemaining); *)
Definition limit_size (expiry now : Z) (evict : list Z) (p : pool) : pool :=
  trim (expire p (now - expiry)) evict.

(* ------------------------------------------------------------------------------------------ *)
(* next-block context checks *)

(* CheckFinalTxAtTip: IsFinalTx(tx, tip.nHeight + 1, tip.GetMedianTimePast()) *)
Definition check_final (c : chain) (t : tx) : bool := is_final_tx (to_ltx t) (height c + 1) (mtp_tip c).

(* CCoinsViewMemPool::GetCoin:
     ptx = mempool.get(outpoint.hash);
     if (ptx) { if (outpoint.n < ptx->vout.size()) return Coin(vout[n], MEMPOOL_HEIGHT, false); return std::nullopt; }
     return base->GetCoin(outpoint); *)
Definition view_coin (p : pool) (c : chain) (o : outpoint) : option (Z * bool) :=
  match find_entry p (fst o) with
  | Some e => if (0 <=? snd o) && (snd o <? t_nout (e_tx e)) then Some (MP_MEMPOOL_HEIGHT, false) else None
  | None => utxo c o
  end.
Fixpoint view_coins (p : pool) (c : chain) (ins : list outpoint) : option (list (Z * bool)) :=
  match ins with
  | [] => Some []
  | o :: r => match view_coin p c o with
              | None => None
              | Some x => match view_coins p c r with None => None | Some l => Some (x :: l) end
              end
  end.

(* CalculatePrevHeights + CalculateLockPointsAtTip(tip, view, tx):
     prev_heights[i] = coin->nHeight == MEMPOOL_HEIGHT ? tip.nHeight + 1 : coin->nHeight;
     next_tip.pprev = tip; next_tip.nHeight = tip->nHeight + 1;
     [min_height, min_time] = CalculateSequenceLocks(tx, STANDARD_LOCKTIME_VERIFY_FLAGS, prev_heights, next_tip);
     max_input_height = max over (the updated) prev_heights different from next_tip.nHeight, starting from 0;
     return LockPoints{min_height, min_time, Assert(tip->GetAncestor(max_input_height))};
   next_tip's own time is never read (only MedianTimePast of blocks at or below tip): the 0 appended to `times` is inert. *)
Definition calc_lock_points (c : chain) (coins : list (Z * bool)) (t : tx) : option lockpoints :=
  let tiph := height c in
  let prev := map (fun x => if fst x =? MP_MEMPOOL_HEIGHT then tiph + 1 else fst x) coins in
  match calculate_sequence_locks (to_ltx t) MP_STANDARD_LOCKTIME_VERIFY_FLAGS prev (times c ++ [0]) with
  | None => None
  | Some r =>
    let maxh := fold_left (fun m h => if h =? tiph + 1 then m else Z.max m h) (lr_prev r) 0 in
    match block_id_at c maxh with
    | None => None
    | Some bid => Some {| lp_height := lr_height r; lp_time := lr_time r; lp_maxh := maxh; lp_maxid := bid |}
    end
  end.

(* CheckSequenceLocksAtTip(tip, lp): index.pprev = tip; index.nHeight = tip->nHeight + 1; EvaluateSequenceLocks(index, {lp.height, lp.time}) *)
Definition check_seq_locks (c : chain) (lp : lockpoints) : bool :=
  match evaluate_sequence_locks (times c ++ [0]) (lp_height lp) (lp_time lp) with Some b => b | None => false end.

(* TestLockPointValidity(active_chain, lp): lp.maxInputBlock == nullptr || active_chain.Contains( *lp.maxInputBlock ) *)
Definition lock_points_valid (c : chain) (lp : lockpoints) : bool :=
  match block_id_at c (lp_maxh lp) with Some b => b =? lp_maxid lp | None => false end.

(* the maturity test of Consensus::CheckTxInputs(tx, state, view, tip height + 1) *)
Definition mature (c : chain) (coins : list (Z * bool)) : bool :=
  check_inputs_maturity (height c + 1) (map (fun x => {| c_height := fst x; c_coinbase := snd x |}) coins).

(* ------------------------------------------------------------------------------------------ *)
(* acceptance: MemPoolAccept::AcceptSingleTransactionInternal *)

(* where a policy rule (one this model does not decide) said no, in the order of the code *)
Inductive stage :=
| P_early       (* IsStandardTx, tx-size-small: before the finality test *)
| P_pre         (* after CheckTxInputs: input standardness, sigops, ephemeral dust, fee rate, TRUC *)
| P_rbf         (* ReplacementChecks, CheckMemPoolPolicyLimits: before the spends-conflicting test *)
| P_late.       (* max feerate, CheckEphemeralSpends: before the script checks *)
Definition stage_eqb (a b : stage) : bool :=
  match a, b with P_early, P_early | P_pre, P_pre | P_rbf, P_rbf | P_late, P_late => true | _, _ => false end.
Definition pol_at (pol : option stage) (s : stage) : bool := match pol with Some x => stage_eqb x s | None => false end.

Inductive reason :=
| R_vin_empty | R_dup_inputs | R_policy | R_nonfinal | R_in_mempool | R_missing | R_nonbip68 | R_premature
| R_spends_conflict | R_script | R_full.
Inductive aresult := Accepted (replaced : list Z) | Rejected (r : reason).

(* for (const CTxIn &txin : tx.vin) { ptxConflicting = m_pool.GetConflictTx(txin.prevout); if (..) ws.m_conflicts.insert(hash) } *)
Definition direct_conflicts (p : pool) (t : tx) : list Z :=
  nodupz (flat_map (fun o => match next_find (p_next p) o with Some c => [c] | None => [] end) (t_ins t)).

Definition intersects (a b : list Z) : bool := existsb (fun x => memz x b) a.

(* bypass = args.m_bypass_limits (transactions of disconnected blocks); test = args.m_test_accept.
   CheckTransaction: bad-txns-vin-empty, bad-txns-inputs-duplicate; [IsStandardTx ...]; CheckFinalTxAtTip -> non-final;
   m_pool.exists -> txn-already-in-mempool; conflicts; m_view.HaveCoin for every input -> bad-txns-inputs-missingorspent /
   txn-already-known; CalculateLockPointsAtTip + CheckSequenceLocksAtTip -> non-BIP68-final; CheckTxInputs ->
   bad-txns-premature-spend-of-coinbase; [policy]; fSpendsCoinbase; [ReplacementChecks: all_conflicts = descendants of the
   direct conflicts; cluster limits]; EntriesAndTxidsDisjoint(ancestors, ws.m_conflicts) -> bad-txns-spends-conflicting-tx;
   [policy]; PolicyScriptChecks / ConsensusScriptChecks; if (args.m_test_accept) return; FinalizeSubpackage: RemoveStaged of
   all_conflicts, addNewTransaction. *)
Definition accept (test : bool) (pol : option stage) (c : chain) (now : Z) (p : pool) (t : tx) : pool * aresult :=
  if is_nil (t_vin t) then (p, Rejected R_vin_empty)
  else if negb (nodupb_o (t_ins t)) then (p, Rejected R_dup_inputs)
  else if pol_at pol P_early then (p, Rejected R_policy)
  else if negb (check_final c t) then (p, Rejected R_nonfinal)
  else if in_pool p (t_id t) then (p, Rejected R_in_mempool)
  else
    let direct := direct_conflicts p t in
    match view_coins p c (t_ins t) with
    | None => (p, Rejected R_missing)
    | Some coins =>
      match calc_lock_points c coins t with
      | None => (p, Rejected R_nonbip68)
      | Some lp =>
        if negb (check_seq_locks c lp) then (p, Rejected R_nonbip68)
        else if negb (mature c coins) then (p, Rejected R_premature)
        else if pol_at pol P_pre then (p, Rejected R_policy)
        else if pol_at pol P_rbf then (p, Rejected R_policy)
        else if negb (is_nil direct) && intersects (ancestors_of_tx p t) direct then (p, Rejected R_spends_conflict)
        else if pol_at pol P_late then (p, Rejected R_policy)
        else if negb (t_script_ok t) then (p, Rejected R_script)
        else
          let all_conflicts := descendants p direct in
          if test then (p, Accepted all_conflicts)
          else
            let e := {| e_tx := t; e_time := now; e_cb := existsb snd coins; e_lp := lp |} in
            (add_entry (remove_list p all_conflicts) e, Accepted all_conflicts)
      end
    end.

(* ------------------------------------------------------------------------------------------ *)
(* the state and its operations *)

Record state := { s_chain : chain; s_pool : pool; s_now : Z; s_expiry : Z }.

(* ChainstateManager::ProcessTransaction(tx, test_accept): AcceptToMemoryPool(bypass_limits = false), which after
   FinalizeSubpackage runs LimitMempoolSize and reports "mempool full" when the new entry did not survive it *)
Definition process_transaction (test : bool) (pol : option stage) (evict : list Z) (st : state) (t : tx) : state * aresult :=
  let '(p1, r) := accept test pol (s_chain st) (s_now st) (s_pool st) t in
  match r with
  | Rejected _ => (st, r)
  | Accepted _ =>
    if test then (st, r)
    else
      let p2 := limit_size (s_expiry st) (s_now st) evict p1 in
      ({| s_chain := s_chain st; s_pool := p2; s_now := s_now st; s_expiry := s_expiry st |},
       if in_pool p2 (t_id t) then r else Rejected R_full)
  end.

(* a block the node connects: coinbase first and only first, txids new to the chain and distinct, nTime above the median
   time past of its parent (ContextualCheckBlockHeader: time-too-old), every input of every transaction unspent in the
   chain or created earlier in the block and spent once (ConnectBlock: bad-txns-inputs-missingorspent).  These are the
   checks the mempool invariant relies on; whether the node accepted a block is taken from the implementation. *)
Fixpoint txs_ok (c : chain) (earlier : list tx) (spent : list outpoint) (txs : list tx) : bool :=
  match txs with
  | [] => true
  | t :: r =>
    negb (is_cb t) && nodupb_o (t_ins t) &&
    forallb (fun o => negb (memo o spent) && (is_some (utxo c o) || existsb (fun e => tx_creates e o) earlier)) (t_ins t) &&
    txs_ok c (earlier ++ [t]) (t_ins t ++ spent) r
  end.
Definition block_ok (c : chain) (b : block) : bool :=
  match b_txs b with
  | [] => false
  | cb :: rest =>
    is_cb cb && nodupb_z (map t_id (b_txs b)) && negb (intersects (map t_id (b_txs b)) (chain_txids c)) &&
    (mtp_tip c <? b_time b) && txs_ok c [] [] rest &&
    (height c + 1 <? INT32_MAX)                      (* CBlockIndex::nHeight is an int *)
  end.

(* a chain the node can be on: a genesis block holding only coinbases, every later block connected by block_ok *)
Fixpoint chain_okb (c : chain) : bool :=
  match c with
  | [] => false
  | b :: rest => match rest with
                 | [] => forallb is_cb (b_txs b) && nodupb_z (map t_id (b_txs b))
                 | _ => block_ok rest b && chain_okb rest
                 end
  end.

(* DisconnectTip x n with one DisconnectedBlockTransactions: AddTransactionsFromBlock appends the block's transactions in
   reverse; take() is walked from the back: the queue is replayed oldest block first, in block order.  The genesis block is
   never disconnected. *)
Fixpoint disconnect_n (n : nat) (c : chain) (dp : list tx) : chain * list tx :=
  match n with
  | O => (c, dp)
  | S k => match c with
           | b :: ((_ :: _) as rest) => disconnect_n k rest (b_txs b ++ dp)
           | _ => (c, dp)
           end
  end.

(* ConnectTip: ConnectBlock (block_ok); m_mempool->removeForBlock(vtx); disconnectpool.removeForBlock(vtx) (by txid).
   A block that does not connect ends the step (fInvalidFound). *)
Fixpoint connect_all (c : chain) (p : pool) (dp : list tx) (bs : list block) : chain * pool * list tx :=
  match bs with
  | [] => (c, p, dp)
  | b :: r =>
    if block_ok c b then
      connect_all (b :: c) (remove_for_block p (b_txs b))
                  (filter (fun t => negb (memz (t_id t) (map t_id (b_txs b)))) dp) r
    else (c, p, dp)
  end.

(* MaybeUpdateMempoolForReorg, first loop:
     if (!fAddToMempool || tx->IsCoinBase() || AcceptToMemoryPool(tx, bypass_limits=true).m_result_type != VALID)
         m_mempool->removeRecursive(tx, REORG);
   `rejected`: transactions a policy rule turned away (recorded from the implementation). *)
Fixpoint resurrect (add : bool) (rejected : list Z) (c : chain) (now : Z) (p : pool) (dp : list tx) : pool :=
  match dp with
  | [] => p
  | t :: r =>
    let p' :=
      if negb add || is_cb t then remove_recursive p (t_id t)
      else match accept false None c now p t with
           | (p1, Accepted _) => if memz (t_id t) rejected then remove_recursive p (t_id t) else p1
           | (_, Rejected _) => remove_recursive p (t_id t)
           end in
    resurrect add rejected c now p' r
  end.

(* the filter_final_and_mature lambda: Some (true, _) = remove, Some (false, e') = keep with (maybe) refreshed lock points,
   None = assert(!coin.IsSpent()) fails *)
Fixpoint immature_inputs (c : chain) (p : pool) (ins : list outpoint) : option bool :=
  match ins with
  | [] => Some false
  | o :: r =>
    if in_pool p (fst o) then immature_inputs c p r            (* if (m_mempool->exists(txin.prevout.hash)) continue; *)
    else match utxo c o with
         | None => None                                        (* assert(!coin.IsSpent()); *)
         | Some (ch, cb) =>
           if cb && (wrap32 (height c + 1 - ch) <? COINBASE_MATURITY) then Some true else immature_inputs c p r
         end
  end.
Definition filter_entry (c : chain) (p : pool) (e : entry) : option (bool * entry) :=
  let t := e_tx e in
  if negb (check_final c t) then Some (true, e)
  else
    let after_locks (e' : entry) :=
      if e_cb e' then match immature_inputs c p (t_ins t) with
                      | None => None
                      | Some bad => Some (bad, e')
                      end
      else Some (false, e') in
    if lock_points_valid c (e_lp e) then
      (if check_seq_locks c (e_lp e) then after_locks e else Some (true, e))
    else
      match view_coins p c (t_ins t) with
      | None => Some (true, e)
      | Some coins =>
        match calc_lock_points c coins t with
        | Some lp => if check_seq_locks c lp
                     then after_locks {| e_tx := e_tx e; e_time := e_time e; e_cb := e_cb e; e_lp := lp |}
                     else Some (true, e)
        | None => Some (true, e)
        end
      end.
Fixpoint filter_entries (c : chain) (p : pool) (es : list entry) : option (list entry * list Z) :=
  match es with
  | [] => Some ([], [])
  | e :: r =>
    match filter_entry c p e, filter_entries c p r with
    | Some (bad, e'), Some (es', ids) => Some (e' :: es', if bad then e_id e :: ids else ids)
    | _, _ => None
    end
  end.
(* removeForReorg(chain, filter): to_remove = entries the filter rejects; GetDescendantsUnion; removeUnchecked each;
     for (it : mapTx) assert(TestLockPointValidity(chain, it->GetLockPoints()));            (None when it fails) *)
Definition remove_for_reorg (c : chain) (p : pool) : option pool :=
  match filter_entries c p (p_entries p) with
  | None => None
  | Some (es', bad) =>
    let p' := {| p_entries := es'; p_next := p_next p; p_size := p_size p; p_fee := p_fee p |} in
    let p'' := remove_list p' (descendants p' bad) in
    if forallb (fun e => lock_points_valid c (e_lp e)) (p_entries p'') then Some p'' else None
  end.

(* One ActivateBestChainStep (or one round of InvalidateBlock's loop): disconnect d blocks, connect bs, and - only if a
   block was disconnected - MaybeUpdateMempoolForReorg(disconnectpool, add): resurrect, removeForReorg, LimitMempoolSize. *)
Definition reorg (d : nat) (bs : list block) (add : bool) (rejected evict : list Z) (st : state) : option state :=
  let '(c1, dp) := disconnect_n d (s_chain st) [] in
  let '(c2, p2, dp2) := connect_all c1 (s_pool st) dp bs in
  if Nat.eqb (length (s_chain st)) (length c1) then
    Some {| s_chain := c2; s_pool := p2; s_now := s_now st; s_expiry := s_expiry st |}
  else
    let p3 := resurrect add rejected c2 (s_now st) p2 dp2 in
    match remove_for_reorg c2 p3 with
    | None => None
    | Some p4 => Some {| s_chain := c2; s_pool := limit_size (s_expiry st) (s_now st) evict p4;
                         s_now := s_now st; s_expiry := s_expiry st |}
    end.

Inductive op :=
| OpAccept (t : tx) (pol : option stage) (evict : list Z)       (* ProcessTransaction(tx, false) *)
| OpTest (t : tx) (pol : option stage)                           (* ProcessTransaction(tx, true) *)
| OpReorg (d : nat) (bs : list block) (add : bool) (rejected evict : list Z)
| OpTime (now : Z)                                               (* the clock moves *)
| OpTrim (evict : list Z)                                        (* TrimToSize *)
| OpExpire (cutoff : Z)                                          (* Expire *)
| OpPrio.                                                        (* PrioritiseTransaction: modified fees only *)

Definition with_pool (st : state) (p : pool) : state :=
  {| s_chain := s_chain st; s_pool := p; s_now := s_now st; s_expiry := s_expiry st |}.

(* None = the node aborted (an assert of the modelled code failed) *)
Definition step (st : state) (o : op) : option state :=
  match o with
  | OpAccept t pol evict => Some (fst (process_transaction false pol evict st t))
  | OpTest t pol => Some (fst (process_transaction true pol [] st t))
  | OpReorg d bs add rejected evict => reorg d bs add rejected evict st
  | OpTime now => Some {| s_chain := s_chain st; s_pool := s_pool st; s_now := now; s_expiry := s_expiry st |}
  | OpTrim evict => Some (with_pool st (trim (s_pool st) evict))
  | OpExpire cutoff => Some (with_pool st (expire (s_pool st) cutoff))
  | OpPrio => Some st
  end.
Fixpoint run (st : state) (ops : list op) : option state :=
  match ops with
  | [] => Some st
  | o :: r => match step st o with None => None | Some st' => run st' r end
  end.

(* ------------------------------------------------------------------------------------------ *)
(* The property's predicate on a dump of the pool (what the driver prints from the real CTxMemPool, and what
   dump_of computes from a model state): evaluated by `holds` on the implementation's output. *)

Inductive in_status := In_mempool | In_mempool_badn | In_utxo (h : Z) (cb : bool) | In_missing.
(* one entry: id, vin with the status of each input, nout is not dumped; fee, size, spendsCoinbase, version/locktime *)
Record dentry := { d_id : Z; d_vin : list (outpoint * Z * in_status); d_fee : Z; d_size : Z; d_cb : bool;
                   d_version : Z; d_locktime : Z; d_anc : list Z;
                   d_bip68 : bool   (* a fresh CalculateLockPointsAtTip + CheckSequenceLocksAtTip on (CoinsTip + pool) succeeds *) }.
Record dump := { dm_height : Z; dm_mtp : Z; dm_entries : list dentry; dm_next : list (outpoint * Z);
                 dm_total_size : Z; dm_total_fee : Z }.

Definition d_ins (d : dentry) : list outpoint := map (fun x => fst (fst x)) (d_vin d).
Definition d_ltx (d : dentry) : ltx :=
  {| lt_version := d_version d; lt_locktime := d_locktime d; lt_seqs := map (fun x => snd (fst x)) (d_vin d) |}.

Inductive violation :=
| V_dup_txid | V_double_spend | V_index_missing | V_index_extra | V_input_unavailable | V_totals | V_nonfinal | V_immature
| V_links | V_nonbip68.

(* (1) distinct txids; (2) no outpoint spent twice (by two entries or twice by one); (3) mapNextTx = exactly the inputs, each
   mapped to its spender; (4) every input is an unspent coin of the tip or an output of another entry; (5) totals;
   (6) every entry final for the next block; (7) every coinbase spend mature for the next block; (8) the recorded
   ancestor sets are the ancestor closure of "spends an output of"; (9) every entry is BIP68-final for the next block by a
   fresh evaluation. *)
Definition all_spends (d : dump) : list (outpoint * Z) :=
  flat_map (fun e => map (fun o => (o, d_id e)) (d_ins e)) (dm_entries d).
Definition pair_in (x : outpoint * Z) (l : list (outpoint * Z)) : bool :=
  existsb (fun y => oeqb (fst x) (fst y) && (snd x =? snd y)) l.
Definition d_parents (d : dump) (e : dentry) : list Z :=
  filter (fun i => memz i (map d_id (dm_entries d))) (map fst (d_ins e)).
Definition d_parents_id (d : dump) (id : Z) : list Z :=
  match find (fun e => d_id e =? id) (dm_entries d) with Some e => d_parents d e | None => [] end.
Definition same_set (a b : list Z) : bool := forallb (fun x => memz x b) a && forallb (fun x => memz x a) b.

Definition check_dump (d : dump) : option violation :=
  if negb (nodupb_z (map d_id (dm_entries d))) then Some V_dup_txid
  else if negb (nodupb_o (map fst (all_spends d))) then Some V_double_spend
  else if negb (forallb (fun x => pair_in x (dm_next d)) (all_spends d)) then Some V_index_missing
  else if negb (forallb (fun x => pair_in x (all_spends d)) (dm_next d)) || negb (nodupb_o (map fst (dm_next d))) then Some V_index_extra
  else if negb (forallb (fun e => forallb (fun x => match snd x with In_mempool | In_utxo _ _ => true | _ => false end) (d_vin e)) (dm_entries d))
       then Some V_input_unavailable
  else if negb ((dm_total_size d =? zsum (map d_size (dm_entries d))) && (dm_total_fee d =? zsum (map d_fee (dm_entries d)))) then Some V_totals
  else if negb (forallb (fun e => is_final_tx (d_ltx e) (dm_height d + 1) (dm_mtp d)) (dm_entries d)) then Some V_nonfinal
  else if negb (forallb (fun e => forallb (fun x => match snd x with
                                                      | In_utxo h cb => negb (cb && (dm_height d + 1 - h <? COINBASE_MATURITY))
                                                      | _ => true end) (d_vin e)) (dm_entries d)) then Some V_immature
  else if negb (forallb (fun e => same_set (d_anc e)
                                    (close (S (length (dm_entries d))) (d_parents_id d) (nodupz (d_parents d e)))) (dm_entries d))
       then Some V_links
  else if negb (forallb d_bip68 (dm_entries d)) then Some V_nonbip68
  else None.

(* the dump of a model state *)
(* CalculateLockPointsAtTip(tip, CCoinsViewMemPool(CoinsTip, pool), tx) and CheckSequenceLocksAtTip, from scratch *)
Definition fresh_bip68 (p : pool) (c : chain) (t : tx) : bool :=
  match view_coins p c (t_ins t) with
  | None => false
  | Some coins => match calc_lock_points c coins t with
                  | None => false
                  | Some lp => check_seq_locks c lp
                  end
  end.
Definition status_of (p : pool) (c : chain) (o : outpoint) : in_status :=
  match find_entry p (fst o) with
  | Some e => if (0 <=? snd o) && (snd o <? t_nout (e_tx e)) then In_mempool else In_mempool_badn
  | None => match utxo c o with Some (h, cb) => In_utxo h cb | None => In_missing end
  end.
Definition dentry_of (p : pool) (c : chain) (e : entry) : dentry :=
  let t := e_tx e in
  {| d_id := t_id t; d_vin := map (fun x => (fst x, snd x, status_of p c (fst x))) (t_vin t);
     d_fee := t_fee t; d_size := t_size t; d_cb := e_cb e; d_version := t_version t; d_locktime := t_locktime t;
     d_anc := ancestors_of_tx p t; d_bip68 := fresh_bip68 p c t |}.
Definition dump_of (st : state) : dump :=
  {| dm_height := height (s_chain st); dm_mtp := mtp_tip (s_chain st);
     dm_entries := map (dentry_of (s_pool st) (s_chain st)) (p_entries (s_pool st));
     dm_next := p_next (s_pool st); dm_total_size := p_size (s_pool st); dm_total_fee := p_fee (s_pool st) |}.
