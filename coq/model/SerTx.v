(* Transaction serialization.  Transcribed from
     src/serialize.h                VectorFormatter::Ser/Unser, Serialize/Unserialize of byte vectors (prevector / std::vector<unsigned char>)
     src/primitives/transaction.h   COutPoint, CTxIn, CTxOut SERIALIZE_METHODS, SerializeTransaction, UnserializeTransaction
   Executable definitions only (proofs are in proofs/SerTxLemmas.v). *)
From Coq Require Import NArith.
From BV Require Import lib.Ints gen.Params_gen model.SerBase.
Local Open Scope Z_scope.

(* ---- byte vectors: CScript (prevector<36, uint8_t>) and std::vector<unsigned char> ----
   Serialize:   WriteCompactSize(os, v.size()); if (!v.empty()) os.write(MakeByteSpan(v));
   Unserialize: v.clear(); unsigned int nSize = ReadCompactSize(is);         // range checked: <= MAX_SIZE
                unsigned int i = 0;
                while (i < nSize) { unsigned int blk = std::min(nSize - i, 5000000u); v.resize(i + blk);
                                    is.read(span{&v[i], blk}); i += blk; }
   Reading in blocks fails exactly when fewer than nSize bytes are left. *)
Definition ser_bytes (b : list N) : list N := write_compact_size (Z.of_nat (length b)) ++ b.
Definition unser_bytes (s : list N) : res (list N) :=
  bind (read_compact_size true s) (fun n s1 => read_bytes_z n s1).

(* ---- vectors of objects ----
   VectorFormatter::Ser:   WriteCompactSize(s, v.size()); for (elem : v) formatter.Ser(s, elem);
   VectorFormatter::Unser: v.clear(); size_t size = ReadCompactSize(s); ... (allocation in batches)
                           while (v.size() < allocated) { v.emplace_back(); formatter.Unser(s, v.back()); }
   i.e. `size` elements are read one after the other; the first failure is the result. *)
Definition ser_vector {A} (f : A -> list N) (l : list A) : list N :=
  write_compact_size (Z.of_nat (length l)) ++ concat (map f l).

Fixpoint read_n {A} (rd : list N -> res A) (k : nat) (s : list N) : res (list A) :=
  match k with
  | O => Ok [] s
  | S k' => bind (rd s) (fun x s1 => bind (read_n rd k' s1) (fun xs s2 => Ok (x :: xs) s2))
  end.

(* The count can be as large as MAX_SIZE while the stream is short.  Every element reader used here
   consumes at least one byte, so reading min(size, remaining+1) elements fails in exactly the same
   way as reading `size` of them would; this keeps the unary counter small.  (The `k <? n` branch is
   unreachable for such readers: read_vector_no_early_stop.) *)
Definition unser_vector {A} (rd : list N -> res A) (s : list N) : res (list A) :=
  bind (read_compact_size true s) (fun n s1 =>
    let k := Z.min n (Z.of_nat (length s1) + 1) in
    bind (read_n rd (Z.to_nat k) s1) (fun xs s2 => if k <? n then Err EEof else Ok xs s2)).

(* ---- transaction parts ---- *)
Record txin : Type := mk_txin {
  in_hash : list N;            (* COutPoint::hash, 32 bytes as serialized *)
  in_n : Z;                    (* COutPoint::n, uint32_t *)
  in_script : list N;          (* scriptSig *)
  in_sequence : Z;             (* nSequence, uint32_t *)
  in_witness : list (list N)   (* scriptWitness.stack; only serialized through the transaction *)
}.
Record txout : Type := mk_txout { out_value : Z (* CAmount, int64_t *); out_script : list N }.
Record tx : Type := mk_tx {
  tx_version : Z;              (* uint32_t version *)
  tx_vin : list txin;
  tx_vout : list txout;
  tx_locktime : Z              (* uint32_t nLockTime *)
}.

(* SERIALIZE_METHODS(COutPoint, obj) { READWRITE(obj.hash, obj.n); }          hash: 32 raw bytes
   SERIALIZE_METHODS(CTxIn, obj) { READWRITE(obj.prevout, obj.scriptSig, obj.nSequence); } *)
Definition ser_txin (i : txin) : list N :=
  in_hash i ++ write_le 4 (in_n i) ++ ser_bytes (in_script i) ++ write_le 4 (in_sequence i).
Definition unser_txin (s : list N) : res txin :=
  bind (read_bytes 32 s) (fun h s1 =>
  bind (read_le 4 s1) (fun n s2 =>
  bind (unser_bytes s2) (fun sc s3 =>
  bind (read_le 4 s3) (fun sq s4 => Ok (mk_txin h n sc sq []) s4)))).

(* SERIALIZE_METHODS(CTxOut, obj) { READWRITE(obj.nValue, obj.scriptPubKey); }   nValue: int64_t as 8 bytes LE *)
Definition ser_txout (o : txout) : list N := write_le 8 (out_value o) ++ ser_bytes (out_script o).
Definition unser_txout (s : list N) : res txout :=
  bind (read_le 8 s) (fun v s1 =>
  bind (unser_bytes s1) (fun sc s2 => Ok (mk_txout (wrap64 v) sc) s2)).

(* s << tx.vin[i].scriptWitness.stack : std::vector<std::vector<unsigned char>> *)
Definition ser_witness (st : list (list N)) : list N := ser_vector ser_bytes st.
Definition unser_witness (s : list N) : res (list (list N)) := unser_vector unser_bytes s.

(* bool HasWitness() const { for (i : vin) if (!vin[i].scriptWitness.IsNull()) return true; return false; } *)
Definition has_witness (vin : list txin) : bool :=
  existsb (fun i => match in_witness i with [] => false | _ => true end) vin.

(* template<typename Stream, typename TxType>
   void SerializeTransaction(const TxType& tx, Stream& s, const TransactionSerParams& params)
   {
       const bool fAllowWitness = params.allow_witness;
       s << tx.version;
       unsigned char flags = 0;
       if (fAllowWitness) { if (tx.HasWitness()) { flags |= 1; } }
       if (flags) { std::vector<CTxIn> vinDummy; s << vinDummy; s << flags; }
       s << tx.vin;
       s << tx.vout;
       if (flags & 1) { for (size_t i = 0; i < tx.vin.size(); i++) { s << tx.vin[i].scriptWitness.stack; } }
       s << tx.nLockTime;
   } *)
Definition ser_tx (allow_witness : bool) (t : tx) : list N :=
  let flags := if allow_witness && has_witness (tx_vin t) then 1 else 0 in
  write_le 4 (tx_version t)
  ++ (if flags =? 0 then [] else ser_vector ser_txin [] ++ write_le 1 flags)
  ++ ser_vector ser_txin (tx_vin t)
  ++ ser_vector ser_txout (tx_vout t)
  ++ (if Z.land flags 1 =? 0 then [] else concat (map (fun i => ser_witness (in_witness i)) (tx_vin t)))
  ++ write_le 4 (tx_locktime t).

(* for (size_t i = 0; i < tx.vin.size(); i++) { s >> tx.vin[i].scriptWitness.stack; } *)
Fixpoint read_witnesses (vin : list txin) (s : list N) : res (list txin) :=
  match vin with
  | [] => Ok [] s
  | i :: r =>
    bind (unser_witness s) (fun w s1 =>
    bind (read_witnesses r s1) (fun r' s2 =>
      Ok (mk_txin (in_hash i) (in_n i) (in_script i) (in_sequence i) w :: r') s2))
  end.

(* template<typename Stream, typename TxType>
   void UnserializeTransaction(TxType& tx, Stream& s, const TransactionSerParams& params)
   {
       const bool fAllowWitness = params.allow_witness;
       s >> tx.version;
       unsigned char flags = 0;
       tx.vin.clear();
       tx.vout.clear();
       /* Try to read the vin. In case the dummy is there, this will be read as an empty vector. */
       s >> tx.vin;
       if (tx.vin.size() == 0 && fAllowWitness) {
           /* We read a dummy or an empty vin. */
           s >> flags;
           if (flags != 0) { s >> tx.vin; s >> tx.vout; }
       } else {
           /* We read a non-empty vin. Assume a normal vout follows. */
           s >> tx.vout;
       }
       if ((flags & 1) && fAllowWitness) {
           /* The witness flag is present, and we support witnesses. */
           flags ^= 1;
           for (size_t i = 0; i < tx.vin.size(); i++) { s >> tx.vin[i].scriptWitness.stack; }
           if (!tx.HasWitness()) {
               /* It's illegal to encode witnesses when all witness stacks are empty. */
               throw std::ios_base::failure("Superfluous witness record");
           }
       }
       if (flags) { throw std::ios_base::failure("Unknown transaction optional data"); }
       s >> tx.nLockTime;
   } *)
Definition unser_tx (allow_witness : bool) (s : list N) : res tx :=
  bind (read_le 4 s) (fun version s1 =>
  bind (unser_vector unser_txin s1) (fun vin0 s2 =>
  bind (match vin0 with
        | [] =>
          if allow_witness then
            bind (read_le 1 s2) (fun flags s3 =>
              if flags =? 0 then Ok (flags, vin0, []) s3
              else bind (unser_vector unser_txin s3) (fun vin s4 =>
                   bind (unser_vector unser_txout s4) (fun vout s5 => Ok (flags, vin, vout) s5)))
          else bind (unser_vector unser_txout s2) (fun vout s3 => Ok (0, vin0, vout) s3)
        | _ :: _ => bind (unser_vector unser_txout s2) (fun vout s3 => Ok (0, vin0, vout) s3)
        end)
    (fun fvv s6 =>
      let '(flags, vin, vout) := fvv in
      bind (if negb (Z.land flags 1 =? 0) && allow_witness then
              bind (read_witnesses vin s6) (fun vin' s7 =>
                if has_witness vin' then Ok (Z.lxor flags 1, vin') s7 else Err ESuperfluous)
            else Ok (flags, vin) s6)
        (fun fv s8 =>
          let '(flags', vin') := fv in
          if negb (flags' =? 0) then Err EUnknownOptional
          else bind (read_le 4 s8) (fun lock s9 => Ok (mk_tx version vin' vout lock) s9))))).

(* remove the witness stacks: what a non-witness serialization carries *)
Definition strip_witness (t : tx) : tx :=
  mk_tx (tx_version t)
        (map (fun i => mk_txin (in_hash i) (in_n i) (in_script i) (in_sequence i) []) (tx_vin t))
        (tx_vout t) (tx_locktime t).

(* well-formedness of a transaction object as the C++ types guarantee it *)
Definition txin_wf (i : txin) : Prop :=
  length (in_hash i) = 32%nat /\ bytes_ok (in_hash i) /\ 0 <= in_n i <= UINT32_MAX /\
  bytes_ok (in_script i) /\ Z.of_nat (length (in_script i)) <= MAX_SIZE /\
  0 <= in_sequence i <= UINT32_MAX /\
  Z.of_nat (length (in_witness i)) <= MAX_SIZE /\
  Forall (fun e => bytes_ok e /\ Z.of_nat (length e) <= MAX_SIZE) (in_witness i).
Definition txout_wf (o : txout) : Prop :=
  INT64_MIN <= out_value o <= INT64_MAX /\ bytes_ok (out_script o) /\ Z.of_nat (length (out_script o)) <= MAX_SIZE.
Definition tx_wf (t : tx) : Prop :=
  0 <= tx_version t <= UINT32_MAX /\ 0 <= tx_locktime t <= UINT32_MAX /\
  Z.of_nat (length (tx_vin t)) <= MAX_SIZE /\ Z.of_nat (length (tx_vout t)) <= MAX_SIZE /\
  Forall txin_wf (tx_vin t) /\ Forall txout_wf (tx_vout t).

(* ---- block header and block (src/primitives/block.h) ----
   SERIALIZE_METHODS(CBlockHeader, obj) { READWRITE(obj.nVersion, obj.hashPrevBlock, obj.hashMerkleRoot, obj.nTime, obj.nBits, obj.nNonce); }
     int32_t nVersion; uint256 hashPrevBlock, hashMerkleRoot (32 raw bytes each); uint32_t nTime, nBits, nNonce
   SERIALIZE_METHODS(CBlock, obj) { READWRITE(AsBase<CBlockHeader>(obj), obj.vtx); }      vtx: std::vector<CTransactionRef> *)
Record header : Type := mk_header {
  h_version : Z; h_prev : list N; h_merkle : list N; h_time : Z; h_bits : Z; h_nonce : Z }.
Record block : Type := mk_block { b_header : header; b_vtx : list tx }.

Definition ser_header (h : header) : list N :=
  write_le 4 (h_version h) ++ h_prev h ++ h_merkle h ++ write_le 4 (h_time h) ++ write_le 4 (h_bits h) ++ write_le 4 (h_nonce h).
Definition unser_header (s : list N) : res header :=
  bind (read_le 4 s) (fun v s1 =>
  bind (read_bytes 32 s1) (fun p s2 =>
  bind (read_bytes 32 s2) (fun m s3 =>
  bind (read_le 4 s3) (fun t s4 =>
  bind (read_le 4 s4) (fun b s5 =>
  bind (read_le 4 s5) (fun n s6 => Ok (mk_header (wrap32 v) p m t b n) s6)))))).

Definition ser_block (allow_witness : bool) (b : block) : list N :=
  ser_header (b_header b) ++ ser_vector (ser_tx allow_witness) (b_vtx b).
Definition unser_block (allow_witness : bool) (s : list N) : res block :=
  bind (unser_header s) (fun h s1 =>
  bind (unser_vector (unser_tx allow_witness) s1) (fun vtx s2 => Ok (mk_block h vtx) s2)).

Definition header_wf (h : header) : Prop :=
  INT32_MIN <= h_version h <= INT32_MAX /\ length (h_prev h) = 32%nat /\ length (h_merkle h) = 32%nat /\
  0 <= h_time h <= UINT32_MAX /\ 0 <= h_bits h <= UINT32_MAX /\ 0 <= h_nonce h <= UINT32_MAX.
