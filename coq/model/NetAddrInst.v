(* Extraction-facing wrappers of the NetAddr / BanMan models (network classes as small integers, bytes as Z),
   the BanMan script interpreter, and the executable predicates of C60 evaluated on implementation output.
   Executable definitions only. *)
From Coq Require Import List Arith Bool ZArith.
From BV Require Import model.NetAddr model.BanMan.
Import ListNotations.
Local Open Scope Z_scope.

(* 1 IPv4, 2 IPv6, 3 onion, 4 I2P, 5 CJDNS, 6 internal  (= enum Network values) *)
Definition net_of_code (c : Z) : option network :=
  if c =? 1 then Some NET_IPV4 else if c =? 2 then Some NET_IPV6 else if c =? 3 then Some NET_ONION
  else if c =? 4 then Some NET_I2P else if c =? 5 then Some NET_CJDNS else if c =? 6 then Some NET_INTERNAL else None.
Definition code_of_net (n : network) : Z :=
  match n with NET_IPV4 => 1 | NET_IPV6 => 2 | NET_ONION => 3 | NET_I2P => 4 | NET_CJDNS => 5 | NET_INTERNAL => 6 end.

Definition mk (c : Z) (bytes : list Z) : option netaddr :=
  match net_of_code c with
  | Some n => let a := mkaddr n bytes in if addr_wf a then Some a else None
  | None => None
  end.

(* (valid, network bytes, netmask, match) of CSubNet(base, prefix).Match(a) *)
Definition obs_subnet (s : subnet) (a : netaddr) : (bool * list Z) * (list Z * bool) :=
  ((s_valid s, a_bytes (s_network s)), (s_mask s, subnet_match s a)).
Definition run_match_cidr (cb : Z) (bb : list Z) (prefix : Z) (ca : Z) (ab : list Z) :=
  match mk cb bb, mk ca ab with
  | Some b, Some a => Some (obs_subnet (subnet_cidr b prefix) a)
  | _, _ => None
  end.
Definition run_match_mask (cb : Z) (bb : list Z) (mb : list Z) (ca : Z) (ab : list Z) :=
  match mk cb bb, mk cb mb, mk ca ab with
  | Some b, Some m, Some a => Some (obs_subnet (subnet_of_mask b m) a)
  | _, _, _ => None
  end.
Definition run_match_single (cb : Z) (bb : list Z) (ca : Z) (ab : list Z) :=
  match mk cb bb, mk ca ab with
  | Some b, Some a => Some (obs_subnet (subnet_single b) a)
  | _, _ => None
  end.
Definition run_is_valid (c : Z) (b : list Z) : option bool := option_map is_valid (mk c b).

(* the statement's predicate for a CIDR subnet, written independently of the implementation's byte loop:
   valid address, same network class, first `prefix` bits equal (and the prefix length in range) *)
Definition spec_prefix_match (base : netaddr) (prefix : Z) (a : netaddr) : bool :=
  let maxbits := match a_net base with NET_IPV4 => 32 | NET_IPV6 => 128 | _ => -1 end in
  (0 <=? prefix) && (prefix <=? maxbits) && is_valid a && network_eqb (a_net a) (a_net base) &&
  forallb (fun i => Bool.eqb (addr_bit (a_bytes a) i) (addr_bit (a_bytes base) i)) (seq 0 (Z.to_nat prefix)).
Definition holds_match_cidr (cb : Z) (bb : list Z) (prefix : Z) (ca : Z) (ab : list Z) (impl_match : bool) : bool :=
  match mk cb bb, mk ca ab with
  | Some b, Some a => Bool.eqb impl_match (spec_prefix_match b prefix a)
  | _, _ => false
  end.
(* single-host / non-IP subnets: equality *)
Definition holds_match_single (cb : Z) (bb : list Z) (ca : Z) (ab : list Z) (impl_match : bool) : bool :=
  match mk cb bb, mk ca ab with
  | Some b, Some a => Bool.eqb impl_match (negb (network_eqb (a_net b) NET_INTERNAL) && is_valid a && addr_eqb a b)
  | _, _ => false
  end.

(* serialisation *)
Definition show_addr (a : netaddr) : Z * list Z := (code_of_net (a_net a), a_bytes a).
Definition run_ser (v2 : bool) (c : Z) (b : list Z) : option (list Z) :=
  option_map (fun a => if v2 then ser_v2 a else ser_v1 a) (mk c b).
Definition run_unser (v2 : bool) (s : list Z) : option (((Z * list Z) * bool) * list Z) :=
  match (if v2 then unser_v2 s else unser_v1 s) with
  | UOk a rest => Some ((show_addr a, is_valid a), rest)
  | UFail => None
  end.

(* ------------------------------------------------------------------------------------------------
   BanMan scripts.  op codes: 0 set time [t]; 1 ban subnet [net; prefix; offset; abs] bytes; 2 ban addr [net; offset; abs] bytes;
   3 unban subnet [net; prefix] bytes; 4 query addr [net] bytes; 5 query subnet [net; prefix] bytes; 6 list; 7 clear *)
Definition ban_op : Type := (Z * list Z) * list Z.
Inductive ban_out := OBool (b : bool) | OList (l : list (((Z * list Z) * list Z) * Z)) | ONone | OBad.

Definition show_entry (p : subnet * ban_entry) : ((Z * list Z) * list Z) * Z :=
  ((show_addr (s_network (fst p)), s_mask (fst p)), b_until (snd p)).

Definition subnet_of (c prefix : Z) (bytes : list Z) : option subnet :=
  match mk c bytes with
  | Some a => Some (if prefix <? 0 then subnet_single a else subnet_cidr a prefix)
  | None => None
  end.

Definition ban_step (d : Z) (st : Z * banmap) (o : ban_op) : (Z * banmap) * ban_out :=
  let '(now, m) := st in
  match o with
  | ((0, [t]), _) => ((t, m), ONone)
  | ((1, [c; prefix; offset; ab]), bytes) =>
      match subnet_of c prefix bytes with
      | Some s => ((now, ban now d m s offset (negb (ab =? 0))), ONone)
      | None => (st, OBad)
      end
  | ((2, [c; offset; ab]), bytes) =>
      match mk c bytes with
      | Some a => ((now, ban_addr now d m a offset (negb (ab =? 0))), ONone)
      | None => (st, OBad)
      end
  | ((3, [c; prefix]), bytes) =>
      match subnet_of c prefix bytes with
      | Some s => let r := unban now m s in ((now, snd r), OBool (fst r))
      | None => (st, OBad)
      end
  | ((4, [c]), bytes) =>
      match mk c bytes with
      | Some a => (st, OBool (is_banned_addr now m a))
      | None => (st, OBad)
      end
  | ((5, [c; prefix]), bytes) =>
      match subnet_of c prefix bytes with
      | Some s => (st, OBool (is_banned_subnet now m s))
      | None => (st, OBad)
      end
  | ((6, []), _) => let m' := get_banned now m in ((now, m'), OList (map show_entry m'))
  | ((7, []), _) => ((now, clear_banned), ONone)
  | _ => (st, OBad)
  end.

Fixpoint ban_script (d : Z) (st : Z * banmap) (ops : list ban_op) : list ban_out :=
  match ops with
  | [] => []
  | o :: r => let '(st', out) := ban_step d st o in out :: ban_script d st' r
  end.
Definition run_ban_script (d t0 : Z) (ops : list ban_op) : list ban_out := ban_script d (t0, []) ops.

(* The reference ban list of the statement: (subnet, expiry) pairs, nothing is ever swept; a ban (re)sets the
   expiry only when it extends it; an address is banned while some pair covers it and now < expiry.
   holds_ban compares every query answer of the implementation with this reference. *)
Definition ref_step (d : Z) (st : Z * banmap) (o : ban_op) : (Z * banmap) * option bool :=
  let '(now, m) := st in
  let ref_ban (s : subnet) (offset : Z) (ab : Z) :=
    let u := ban_until now d offset (negb (ab =? 0)) in
    let cur := match ban_find m s with Some e => b_until e | None => 0 end in
    if s_valid s && (cur <? u) then ban_set m s (mkban now u) else m in
  match o with
  | ((0, [t]), _) => ((t, m), None)
  | ((1, [c; prefix; offset; ab]), bytes) =>
      match subnet_of c prefix bytes with Some s => ((now, ref_ban s offset ab), None) | None => (st, None) end
  | ((2, [c; offset; ab]), bytes) =>
      match mk c bytes with Some a => ((now, ref_ban (subnet_single a) offset ab), None) | None => (st, None) end
  | ((3, [c; prefix]), bytes) =>
      match subnet_of c prefix bytes with Some s => ((now, ban_remove m s), None) | None => (st, None) end
  | ((4, [c]), bytes) =>
      match mk c bytes with Some a => (st, Some (is_banned_addr now m a)) | None => (st, None) end
  | ((5, [c; prefix]), bytes) =>
      match subnet_of c prefix bytes with Some s => (st, Some (is_banned_subnet now m s)) | None => (st, None) end
  | ((7, []), _) => ((now, []), None)
  | _ => (st, None)
  end.
Fixpoint ref_script (d : Z) (st : Z * banmap) (ops : list ban_op) : list (option bool) :=
  match ops with
  | [] => []
  | o :: r => let '(st', out) := ref_step d st o in out :: ref_script d st' r
  end.
(* impl_answers: for every operation, Some b if the implementation printed a boolean answer to a query (op 4/5) *)
Fixpoint answers_agree (refs impl : list (option bool)) : bool :=
  match refs, impl with
  | [], [] => true
  | Some r :: t, Some i :: u => Bool.eqb r i && answers_agree t u
  | None :: t, _ :: u => answers_agree t u
  | _, _ => false
  end.
Definition holds_ban (d t0 : Z) (ops : list ban_op) (impl : list (option bool)) : bool :=
  answers_agree (ref_script d (t0, []) ops) impl.
