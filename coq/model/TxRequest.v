(* Transaction download scheduling.  Transcribed from
     src/txrequest.cpp   TxRequestTracker::Impl  (and PriorityComputer)
     src/crypto/siphash.{h,cpp}  CSipHasher (SipHash-2-4), as used by PriorityComputer
   Executable definitions only (proofs are in proofs/TxRequest*.v).

   Representation choices (each is an abstraction of a library container, not of bitcoin code):
   - the boost multi_index container m_index is a list of announcements in insertion order
     (m_sequence order); iterators are (peer, txhash) keys, unique by the ByPeer index;
   - navigation in the ordered indices (std::next/std::prev/lower_bound/begin/end) is written as the
     query on the list that the sort order of that index defines (quoted at each use);
   - the unordered_map m_peerinfo is a function NodeId -> option PeerInfo;
   - dereferencing an end() iterator / a failing assert sets the flag t_bad (theorems show it stays false).
   Integers: NodeId, times (microseconds counts) are int64 values that are only compared; size_t counters
   and the sequence number use explicit wraps. *)
From BV Require Import lib.Ints.
Local Open Scope Z_scope.

(* ------------------------------------------------------------------------------------------- *)
(* SipHash-2-4 as CSipHasher(k0,k1).Write(uint256).Write(uint64).Finalize()                     *)

Definition rotl64 (x n : Z) : Z := wrapu64 (Z.lor (Z.shiftl x n) (Z.shiftr x (64 - n))).

Record sipstate := mkSip { sv0 : Z; sv1 : Z; sv2 : Z; sv3 : Z }.

(* m_v0 += m_v1; m_v1 = rotl(m_v1, 13); m_v1 ^= m_v0; m_v0 = rotl(m_v0, 32);
   m_v2 += m_v3; m_v3 = rotl(m_v3, 16); m_v3 ^= m_v2;
   m_v0 += m_v3; m_v3 = rotl(m_v3, 21); m_v3 ^= m_v0;
   m_v2 += m_v1; m_v1 = rotl(m_v1, 17); m_v1 ^= m_v2; m_v2 = rotl(m_v2, 32); *)
Definition sip_round (s : sipstate) : sipstate :=
  let v0 := sv0 s in let v1 := sv1 s in let v2 := sv2 s in let v3 := sv3 s in
  let v0 := wrapu64 (v0 + v1) in let v1 := rotl64 v1 13 in let v1 := Z.lxor v1 v0 in
  let v0 := rotl64 v0 32 in
  let v2 := wrapu64 (v2 + v3) in let v3 := rotl64 v3 16 in let v3 := Z.lxor v3 v2 in
  let v0 := wrapu64 (v0 + v3) in let v3 := rotl64 v3 21 in let v3 := Z.lxor v3 v0 in
  let v2 := wrapu64 (v2 + v1) in let v1 := rotl64 v1 17 in let v1 := Z.lxor v1 v2 in
  let v2 := rotl64 v2 32 in
  mkSip v0 v1 v2 v3.

(* Compress2: m_v3 ^= data; SipRound(); SipRound(); m_v0 ^= data; *)
Definition sip_compress2 (s : sipstate) (d : Z) : sipstate :=
  let s1 := sip_round (sip_round (mkSip (sv0 s) (sv1 s) (sv2 s) (Z.lxor (sv3 s) d))) in
  mkSip (Z.lxor (sv0 s1) d) (sv1 s1) (sv2 s1) (sv3 s1).

(* Finalize4: m_v2 ^= 0xFF; 4 x SipRound(); return m_v0 ^ m_v1 ^ m_v2 ^ m_v3;   (a uint64_t expression) *)
Definition sip_finalize4 (s : sipstate) : Z :=
  let s1 := sip_round (sip_round (sip_round (sip_round (mkSip (sv0 s) (sv1 s) (Z.lxor (sv2 s) 255) (sv3 s))))) in
  wrapu64 (Z.lxor (Z.lxor (Z.lxor (sv0 s1) (sv1 s1)) (sv2 s1)) (sv3 s1)).

Definition SIP_C0 : Z := 0x736f6d6570736575.
Definition SIP_C1 : Z := 0x646f72616e646f6d.
Definition SIP_C2 : Z := 0x6c7967656e657261.
Definition SIP_C3 : Z := 0x7465646279746573.

(* the i-th little-endian 64-bit word of a uint256 given as a number *)
Definition u256_word (h : Z) (i : Z) : Z := wrapu64 (Z.shiftr h (64 * i)).

(* CSipHasher(k0,k1).Write(txhash).Write(peer).Finalize(): 32 bytes = 4 LE words through Compress2, one
   uint64 word (NodeId converted to uint64_t), then the padding word m_tmp | (uint64{m_count} << 56)
   with m_count = 40, m_tmp = 0. *)
Definition siphash_txhash_peer (k0 k1 : Z) (txhash peer : Z) : Z :=
  let s := mkSip (Z.lxor SIP_C0 k0) (Z.lxor SIP_C1 k1) (Z.lxor SIP_C2 k0) (Z.lxor SIP_C3 k1) in
  let s := sip_compress2 s (u256_word txhash 0) in
  let s := sip_compress2 s (u256_word txhash 1) in
  let s := sip_compress2 s (u256_word txhash 2) in
  let s := sip_compress2 s (u256_word txhash 3) in
  let s := sip_compress2 s (wrapu64 peer) in
  let s := sip_compress2 s (Z.shiftl 40 56) in
  sip_finalize4 s.

(* Priority operator()(const uint256& txhash, NodeId peer, bool preferred) const
   { uint64_t low_bits = CSipHasher(m_k0, m_k1).Write(txhash).Write(peer).Finalize() >> 1;
     return low_bits | uint64_t{preferred} << 63; }          (deterministic: m_k0 = m_k1 = 0) *)
Definition compute_priority (txhash peer : Z) (preferred : bool) : Z :=
  Z.lor (Z.shiftr (siphash_txhash_peer 0 0 txhash peer) 1) (if preferred then Z.shiftl 1 63 else 0).

(* ------------------------------------------------------------------------------------------- *)
(* Announcements                                                                                 *)

Inductive tstate := CANDIDATE_DELAYED | CANDIDATE_READY | CANDIDATE_BEST | REQUESTED | COMPLETED.

Definition state_eqb (a b : tstate) : bool :=
  match a, b with
  | CANDIDATE_DELAYED, CANDIDATE_DELAYED | CANDIDATE_READY, CANDIDATE_READY
  | CANDIDATE_BEST, CANDIDATE_BEST | REQUESTED, REQUESTED | COMPLETED, COMPLETED => true
  | _, _ => false
  end.

(* struct Announcement { const GenTxid m_gtxid; microseconds m_time; const NodeId m_peer;
     const SequenceNumber m_sequence : 59; const bool m_preferred : 1; State m_state : 3; } *)
Record ann := mkAnn {
  a_txhash : Z;      (* m_gtxid.ToUint256() as a number *)
  a_wtxid : bool;    (* m_gtxid.IsWtxid() *)
  a_time : Z;        (* reqtime for CANDIDATE_*, expiry for REQUESTED *)
  a_peer : Z;
  a_seq : Z;
  a_pref : bool;
  a_state : tstate }.

Definition with_state (a : ann) (st : tstate) : ann :=
  mkAnn (a_txhash a) (a_wtxid a) (a_time a) (a_peer a) (a_seq a) (a_pref a) st.
Definition with_state_time (a : ann) (st : tstate) (tm : Z) : ann :=
  mkAnn (a_txhash a) (a_wtxid a) tm (a_peer a) (a_seq a) (a_pref a) st.

Definition st_is (st : tstate) (a : ann) : bool := state_eqb (a_state a) st.
(* IsSelected: CANDIDATE_BEST || REQUESTED;  IsWaiting: REQUESTED || CANDIDATE_DELAYED;
   IsSelectable: CANDIDATE_READY || CANDIDATE_BEST *)
Definition is_selected (a : ann) : bool := st_is CANDIDATE_BEST a || st_is REQUESTED a.
Definition is_waiting (a : ann) : bool := st_is REQUESTED a || st_is CANDIDATE_DELAYED a.
Definition is_selectable (a : ann) : bool := st_is CANDIDATE_READY a || st_is CANDIDATE_BEST a.

Definition is_key (p h : Z) (a : ann) : bool := (a_peer a =? p) && (a_txhash a =? h).
Definition has_txhash (h : Z) (a : ann) : bool := a_txhash a =? h.
Definition has_peer (p : Z) (a : ann) : bool := a_peer a =? p.
(* an announcement of txhash h from a peer other than p *)
Definition other_of (p h : Z) (a : ann) : bool := (a_txhash a =? h) && negb (a_peer a =? p).

Definition gtxid_of (a : ann) : Z * bool := (a_txhash a, a_wtxid a).

(* first element with the greatest value of f (None iff the list is empty) *)
Fixpoint argmax (f : ann -> Z) (l : list ann) : option ann :=
  match l with
  | [] => None
  | a :: r => match argmax f r with
              | Some b => if f a <? f b then Some b else Some a
              | None => Some a
              end
  end.

(* counting, used by the consistency predicates and by the recomputation of the per-peer statistics *)
Fixpoint cnt (P : ann -> bool) (l : list ann) : Z :=
  match l with [] => 0 | a :: r => (if P a then 1 else 0) + cnt P r end.

(* ------------------------------------------------------------------------------------------- *)
(* PeerInfo                                                                                      *)

(* struct PeerInfo { size_t m_total = 0; size_t m_completed = 0; size_t m_requested = 0; }; *)
Record pinfo := mkPI { pi_total : Z; pi_completed : Z; pi_requested : Z }.

Definition b2z (b : bool) : Z := if b then 1 else 0.

(* peerit->second.m_completed -= it->GetState() == State::COMPLETED;
   peerit->second.m_requested -= it->GetState() == State::REQUESTED;     (size_t arithmetic) *)
Definition pi_sub (pi : pinfo) (st : tstate) : pinfo :=
  mkPI (pi_total pi) (wrapu64 (pi_completed pi - b2z (state_eqb st COMPLETED)))
       (wrapu64 (pi_requested pi - b2z (state_eqb st REQUESTED))).
Definition pi_add (pi : pinfo) (st : tstate) : pinfo :=
  mkPI (pi_total pi) (wrapu64 (pi_completed pi + b2z (state_eqb st COMPLETED)))
       (wrapu64 (pi_requested pi + b2z (state_eqb st REQUESTED))).

Definition pmap := Z -> option pinfo.
Definition pm_set (m : pmap) (p : Z) (v : option pinfo) : pmap := fun q => if q =? p then v else m q.

(* ------------------------------------------------------------------------------------------- *)
(* The tracker                                                                                   *)

Record tracker := mkT {
  t_seq : Z;               (* m_current_sequence (uint64) *)
  t_index : list ann;      (* m_index, in insertion order *)
  t_peerinfo : pmap;       (* m_peerinfo *)
  t_bad : bool }.          (* an assert failed / an end() iterator was dereferenced *)

Definition t_empty : tracker := mkT 0 [] (fun _ => None) false.
Definition set_bad (t : tracker) : tracker := mkT (t_seq t) (t_index t) (t_peerinfo t) true.

Definition find_ann (p h : Z) (l : list ann) : option ann := find (is_key p h) l.
Definition set_ann (p h : Z) (f : ann -> ann) (l : list ann) : list ann :=
  map (fun a => if is_key p h a then f a else a) l.
Definition del_ann (p h : Z) (l : list ann) : list ann := filter (fun a => negb (is_key p h a)) l.

(* template<typename Tag, typename Modifier> void Modify(Iter<Tag> it, Modifier modifier)
   { auto peerit = m_peerinfo.find(it->m_peer);
     peerit->second.m_completed -= it->GetState() == State::COMPLETED;
     peerit->second.m_requested -= it->GetState() == State::REQUESTED;
     m_index.get<Tag>().modify(it, std::move(modifier));
     peerit->second.m_completed += it->GetState() == State::COMPLETED;
     peerit->second.m_requested += it->GetState() == State::REQUESTED; } *)
Definition modify (t : tracker) (p h : Z) (f : ann -> ann) : tracker :=
  match find_ann p h (t_index t), t_peerinfo t p with
  | Some it, Some pi =>
      let pi' := pi_add (pi_sub pi (a_state it)) (a_state (f it)) in
      mkT (t_seq t) (set_ann p h f (t_index t)) (pm_set (t_peerinfo t) p (Some pi')) (t_bad t)
  | _, _ => set_bad t
  end.

Definition modify_state (t : tracker) (p h : Z) (st : tstate) : tracker :=
  modify t p h (fun a => with_state a st).

(* template<typename Tag> Iter<Tag> Erase(Iter<Tag> it)
   { auto peerit = m_peerinfo.find(it->m_peer);
     peerit->second.m_completed -= it->GetState() == State::COMPLETED;
     peerit->second.m_requested -= it->GetState() == State::REQUESTED;
     if (--peerit->second.m_total == 0) m_peerinfo.erase(peerit);
     return m_index.get<Tag>().erase(it); } *)
Definition erase (t : tracker) (p h : Z) : tracker :=
  match find_ann p h (t_index t), t_peerinfo t p with
  | Some it, Some pi =>
      let pi1 := pi_sub pi (a_state it) in
      let tot := wrapu64 (pi_total pi1 - 1) in
      let m' := if tot =? 0 then pm_set (t_peerinfo t) p None
                else pm_set (t_peerinfo t) p (Some (mkPI tot (pi_completed pi1) (pi_requested pi1))) in
      mkT (t_seq t) (del_ann p h (t_index t)) m' (t_bad t)
  | _, _ => set_bad t
  end.

(* Erase applied to every announcement of txhash h (ForgetTxHash's loop; MakeCompleted's do-while) *)
Definition erase_txhash (t : tracker) (h : Z) : tracker :=
  fold_left (fun t' a => erase t' (a_peer a) h) (filter (has_txhash h) (t_index t)) t.

Section WithPriority.
(* The priority computer.  Theorems hold for every function; the extracted driver instantiates it with
   compute_priority (the deterministic-mode PriorityComputer). *)
Variable prio : Z -> Z -> bool -> Z.
Definition prio_of (a : ann) : Z := prio (a_txhash a) (a_peer a) (a_pref a).

(* The ByTxHash index is sorted by (txhash, state, priority) with priority = 0 unless CANDIDATE_READY, and
   the state order DELAYED < READY < BEST < REQUESTED < COMPLETED.  After `it` (peer p, txhash h) became
   CANDIDATE_READY with priority pr, std::next(it) is, within txhash h: the READY announcement with the
   smallest priority above pr if there is one (an equal-priority READY sorts before a repositioned `it`:
   boost relinks at the upper bound), else the CANDIDATE_BEST, else the REQUESTED, else a COMPLETED one;
   if none of these exists it is end() or belongs to another txhash. *)
Inductive nextk := NxNone | NxReady | NxBest (b : ann) | NxRequested | NxCompleted.
Definition next_after_ready (l : list ann) (p h pr : Z) : nextk :=
  if existsb (fun a => other_of p h a && st_is CANDIDATE_READY a && (pr <? prio_of a)) l then NxReady
  else match find (fun a => other_of p h a && st_is CANDIDATE_BEST a) l with
       | Some b => NxBest b
       | None => if existsb (fun a => other_of p h a && st_is REQUESTED a) l then NxRequested
                 else if existsb (fun a => other_of p h a && st_is COMPLETED a) l then NxCompleted
                 else NxNone
       end.

(* void PromoteCandidateReady(Iter<ByTxHash> it)
   { assert(it != end); assert(it->GetState() == State::CANDIDATE_DELAYED);
     Modify<ByTxHash>(it, [](Announcement& ann){ ann.SetState(State::CANDIDATE_READY); });
     auto it_next = std::next(it);
     if (it_next == end || it_next->txhash != it->txhash || it_next->GetState() == State::COMPLETED) {
         Modify<ByTxHash>(it, [](Announcement& ann){ ann.SetState(State::CANDIDATE_BEST); });
     } else if (it_next->GetState() == State::CANDIDATE_BEST) {
         Priority priority_old = m_computer( *it_next); Priority priority_new = m_computer( *it);
         if (priority_new > priority_old) {
             Modify<ByTxHash>(it_next, [](Announcement& ann){ ann.SetState(State::CANDIDATE_READY); });
             Modify<ByTxHash>(it, [](Announcement& ann){ ann.SetState(State::CANDIDATE_BEST); });
         } } } *)
Definition promote_candidate_ready (t : tracker) (p h : Z) : tracker :=
  match find_ann p h (t_index t) with
  | None => set_bad t
  | Some it =>
    if negb (st_is CANDIDATE_DELAYED it) then set_bad t else
    let t1 := modify_state t p h CANDIDATE_READY in
    let pr := prio_of it in
    match next_after_ready (t_index t1) p h pr with
    | NxNone | NxCompleted => modify_state t1 p h CANDIDATE_BEST
    | NxBest b =>
        if prio_of b <? pr
        then modify_state (modify_state t1 (a_peer b) h CANDIDATE_READY) p h CANDIDATE_BEST
        else t1
    | NxReady | NxRequested => t1
    end
  end.

(* std::prev(it) for a selected `it` (CANDIDATE_BEST or REQUESTED), as far as the code looks at it
   ("same txhash and CANDIDATE_READY"): the READY announcement of the txhash with the highest priority.
   If `it` is REQUESTED and a CANDIDATE_BEST of the same txhash exists (excluded by the invariants) the
   predecessor is that CANDIDATE_BEST, hence not READY. *)
Definition prev_ready_of_selected (l : list ann) (it : ann) : option ann :=
  if st_is REQUESTED it &&
     existsb (fun a => other_of (a_peer it) (a_txhash it) a && st_is CANDIDATE_BEST a) l then None
  else argmax prio_of (filter (fun a => has_txhash (a_txhash it) a && st_is CANDIDATE_READY a) l).

(* void ChangeAndReselect(Iter<ByTxHash> it, State new_state)
   { assert(new_state == State::COMPLETED || new_state == State::CANDIDATE_DELAYED); assert(it != end);
     if (it->IsSelected() && it != begin) {
         auto it_prev = std::prev(it);
         if (it_prev->txhash == it->txhash && it_prev->GetState() == State::CANDIDATE_READY)
             Modify<ByTxHash>(it_prev, [](Announcement& ann){ ann.SetState(State::CANDIDATE_BEST); });
     }
     Modify<ByTxHash>(it, [new_state](Announcement& ann){ ann.SetState(new_state); }); } *)
Definition change_and_reselect (t : tracker) (p h : Z) (new_state : tstate) : tracker :=
  match find_ann p h (t_index t) with
  | None => set_bad t
  | Some it =>
    let t1 := if is_selected it then
                match prev_ready_of_selected (t_index t) it with
                | Some r => modify_state t (a_peer r) h CANDIDATE_BEST
                | None => t
                end
              else t in
    modify_state t1 p h new_state
  end.

(* bool IsOnlyNonCompleted(Iter<ByTxHash> it): no predecessor of the same txhash (a predecessor of a
   non-COMPLETED announcement is non-COMPLETED) and no non-COMPLETED successor of the same txhash, i.e. no
   other non-COMPLETED announcement of the txhash; and when it returns true every announcement of the
   txhash is `it` or follows it. *)
Definition is_only_non_completed (l : list ann) (p h : Z) : bool :=
  negb (existsb (fun a => other_of p h a && negb (st_is COMPLETED a)) l).

(* bool MakeCompleted(Iter<ByTxHash> it)
   { assert(it != end);
     if (it->GetState() == State::COMPLETED) return true;
     if (IsOnlyNonCompleted(it)) {
         uint256 txhash = it->txhash;
         do { it = Erase<ByTxHash>(it); } while (it != end && it->txhash == txhash);
         return false; }
     ChangeAndReselect(it, State::COMPLETED);
     return true; } *)
Definition make_completed (t : tracker) (p h : Z) : tracker * bool :=
  match find_ann p h (t_index t) with
  | None => (set_bad t, false)
  | Some it =>
    if st_is COMPLETED it then (t, true)
    else if is_only_non_completed (t_index t) p h then (erase_txhash t h, false)
    else (change_and_reselect t p h COMPLETED, true)
  end.

(* The ByTime index is sorted by (wait_state, time), FUTURE_EVENT (IsWaiting) < NO_EVENT < PAST_EVENT
   (IsSelectable).  begin() is the waiting announcement with the least time if there is a waiting one
   (otherwise an announcement whose state fails both tests of the first loop); prev(end()) is the
   selectable announcement with the greatest time if there is a selectable one. *)
Definition first_by_time (l : list ann) : option ann := argmax (fun a => - a_time a) (filter is_waiting l).
Definition last_by_time (l : list ann) : option ann := argmax a_time (filter is_selectable l).

Definition expired_t := list (Z * (Z * bool)).

(* while (!m_index.empty()) {
       auto it = m_index.get<ByTime>().begin();
       if (it->GetState() == State::CANDIDATE_DELAYED && it->m_time <= now) {
           PromoteCandidateReady(m_index.project<ByTxHash>(it));
       } else if (it->GetState() == State::REQUESTED && it->m_time <= now) {
           if (expired) expired->emplace_back(it->m_peer, it->m_gtxid);
           MakeCompleted(m_index.project<ByTxHash>(it));
       } else { break; } }
   Fuel: the number of announcements; running out of fuel while work remains sets t_bad. *)
Fixpoint stp_loop1 (fuel : nat) (now : Z) (t : tracker) (ex : expired_t) : tracker * expired_t :=
  match first_by_time (t_index t) with
  | None => (t, ex)
  | Some it =>
    if a_time it <=? now then
      match fuel with
      | O => (set_bad t, ex)
      | S f =>
        if st_is CANDIDATE_DELAYED it
        then stp_loop1 f now (promote_candidate_ready t (a_peer it) (a_txhash it)) ex
        else stp_loop1 f now (fst (make_completed t (a_peer it) (a_txhash it)))
                       (ex ++ [(a_peer it, gtxid_of it)])
      end
    else (t, ex)
  end.

(* while (!m_index.empty()) {
       auto it = std::prev(m_index.get<ByTime>().end());
       if (it->IsSelectable() && it->m_time > now) {
           ChangeAndReselect(m_index.project<ByTxHash>(it), State::CANDIDATE_DELAYED);
       } else { break; } } *)
Fixpoint stp_loop2 (fuel : nat) (now : Z) (t : tracker) : tracker :=
  match last_by_time (t_index t) with
  | None => t
  | Some it =>
    if now <? a_time it then
      match fuel with
      | O => set_bad t
      | S f => stp_loop2 f now (change_and_reselect t (a_peer it) (a_txhash it) CANDIDATE_DELAYED)
      end
    else t
  end.

(* void SetTimePoint(std::chrono::microseconds now, std::vector<std::pair<NodeId, GenTxid>>* expired) *)
Definition set_time_point (t : tracker) (now : Z) : tracker * expired_t :=
  let '(t1, ex) := stp_loop1 (length (t_index t)) now t [] in
  (stp_loop2 (length (t_index t1)) now t1, ex).

(* void DisconnectedPeer(NodeId peer): for every announcement of the peer (ByPeer order; the announcements
   of one peer have pairwise different txhashes, and MakeCompleted/Erase touch one txhash only):
     if (MakeCompleted(m_index.project<ByTxHash>(it))) { Erase<ByPeer>(it); } *)
Definition disconnect_one (t : tracker) (p h : Z) : tracker :=
  let '(t1, alive) := make_completed t p h in if alive then erase t1 p h else t1.
Definition disconnected_peer (t : tracker) (p : Z) : tracker :=
  fold_left (fun t' a => disconnect_one t' p (a_txhash a)) (filter (has_peer p) (t_index t)) t.

(* void ForgetTxHash(const uint256& txhash) *)
Definition forget_txhash (t : tracker) (h : Z) : tracker := erase_txhash t h.

(* void ReceivedInv(NodeId peer, const GenTxid& gtxid, bool preferred, microseconds reqtime)
   { if (m_index.get<ByPeer>().count(ByPeerView{peer, true, gtxid.ToUint256()})) return;
     auto ret = m_index.get<ByPeer>().emplace(gtxid, peer, preferred, reqtime, m_current_sequence);
     if (!ret.second) return;
     ++m_peerinfo[peer].m_total; ++m_current_sequence; }
   m_sequence is a 59-bit field. *)
Definition received_inv (t : tracker) (peer h : Z) (wtxid pref : bool) (reqtime : Z) : tracker :=
  if existsb (fun a => is_key peer h a && st_is CANDIDATE_BEST a) (t_index t) then t
  else if existsb (fun a => is_key peer h a && negb (st_is CANDIDATE_BEST a)) (t_index t) then t
  else
    let a := mkAnn h wtxid reqtime peer (wrapu 59 (t_seq t)) pref CANDIDATE_DELAYED in
    let pi := match t_peerinfo t peer with Some pi => pi | None => mkPI 0 0 0 end in
    mkT (wrapu64 (t_seq t + 1)) (t_index t ++ [a])
        (pm_set (t_peerinfo t) peer (Some (mkPI (wrapu64 (pi_total pi + 1)) (pi_completed pi) (pi_requested pi))))
        (t_bad t).

(* std::sort(selected.begin(), selected.end(), by m_sequence) *)
Fixpoint insert_by_seq (a : ann) (l : list ann) : list ann :=
  match l with
  | [] => [a]
  | b :: r => if a_seq a <? a_seq b then a :: l else b :: insert_by_seq a r
  end.
Fixpoint sort_by_seq (l : list ann) : list ann :=
  match l with [] => [] | a :: r => insert_by_seq a (sort_by_seq r) end.

(* std::vector<GenTxid> GetRequestable(NodeId peer, microseconds now, expired) *)
Definition get_requestable (t : tracker) (peer now : Z) : tracker * list (Z * bool) * expired_t :=
  let '(t1, ex) := set_time_point t now in
  let selected := filter (fun a => has_peer peer a && st_is CANDIDATE_BEST a) (t_index t1) in
  (t1, map gtxid_of (sort_by_seq selected), ex).

(* void RequestedTx(NodeId peer, const uint256& txhash, microseconds expiry)
   it_old = ByTxHash.lower_bound(ByTxHashView{txhash, State::CANDIDATE_BEST, 0}): the first announcement of
   the txhash whose state is CANDIDATE_BEST, REQUESTED or COMPLETED, in that order. *)
Definition requested_tx (t : tracker) (peer h expiry : Z) : tracker :=
  let to_req := fun a => with_state_time a REQUESTED expiry in
  match find (fun a => is_key peer h a && st_is CANDIDATE_BEST a) (t_index t) with
  | Some _ => modify t peer h to_req
  | None =>
    match find (fun a => is_key peer h a && negb (st_is CANDIDATE_BEST a)) (t_index t) with
    | None => t
    | Some it =>
      if negb (st_is CANDIDATE_DELAYED it || st_is CANDIDATE_READY it) then t else
      let t1 :=
        match find (fun a => has_txhash h a && st_is CANDIDATE_BEST a) (t_index t) with
        | Some b => modify_state t (a_peer b) h CANDIDATE_READY
        | None =>
          match find (fun a => has_txhash h a && st_is REQUESTED a) (t_index t) with
          | Some q => modify_state t (a_peer q) h COMPLETED
          | None => t
          end
        end in
      modify t1 peer h to_req
    end
  end.

(* void ReceivedResponse(NodeId peer, const uint256& txhash) *)
Definition received_response (t : tracker) (peer h : Z) : tracker :=
  match find_ann peer h (t_index t) with
  | Some _ => fst (make_completed t peer h)
  | None => t
  end.

(* ------------------------------------------------------------------------------------------- *)
(* Operations and runs                                                                           *)

Inductive op :=
| OpInv (peer h : Z) (wtxid pref : bool) (reqtime : Z)
| OpGet (peer now : Z)
| OpReq (peer h expiry : Z)
| OpResp (peer h : Z)
| OpForget (h : Z)
| OpDisc (peer : Z).

(* what GetRequestable returns (other operations return nothing) *)
Definition outp := option (list (Z * bool) * expired_t).

Definition step (t : tracker) (o : op) : tracker * outp :=
  match o with
  | OpInv p h w pf rt => (received_inv t p h w pf rt, None)
  | OpGet p now => let '(t1, r, ex) := get_requestable t p now in (t1, Some (r, ex))
  | OpReq p h e => (requested_tx t p h e, None)
  | OpResp p h => (received_response t p h, None)
  | OpForget h => (forget_txhash t h, None)
  | OpDisc p => (disconnected_peer t p, None)
  end.

Fixpoint run (t : tracker) (ops : list op) : tracker * list outp :=
  match ops with
  | [] => (t, [])
  | o :: r => let '(t1, out) := step t o in let '(t2, outs) := run t1 r in (t2, out :: outs)
  end.

End WithPriority.

(* const accessors *)
Definition count_in_flight (t : tracker) (p : Z) : Z :=
  match t_peerinfo t p with Some pi => pi_requested pi | None => 0 end.
Definition count_candidates (t : tracker) (p : Z) : Z :=
  match t_peerinfo t p with
  | Some pi => wrapu64 (wrapu64 (pi_total pi - pi_requested pi) - pi_completed pi) | None => 0 end.
Definition count_total (t : tracker) (p : Z) : Z :=
  match t_peerinfo t p with Some pi => pi_total pi | None => 0 end.
Definition tracker_size (t : tracker) : Z := Z.of_nat (length (t_index t)).
(* GetCandidatePeers: peers of the non-COMPLETED announcements of the txhash (order of the ByTxHash index;
   compared as a set) *)
Definition candidate_peers (t : tracker) (h : Z) : list Z :=
  map a_peer (filter (fun a => has_txhash h a && negb (st_is COMPLETED a)) (t_index t)).

(* ------------------------------------------------------------------------------------------- *)
(* The consistency predicate (SanityCheck, executable)                                           *)

Definition in_st (h : Z) (st : tstate) (a : ann) : bool := has_txhash h a && st_is st a.
Definition peer_st (p : Z) (st : tstate) (a : ann) : bool := has_peer p a && st_is st a.

(* RecomputePeerInfo *)
Definition recompute_peerinfo (l : list ann) (p : Z) : option pinfo :=
  let tot := cnt (has_peer p) l in
  if tot =? 0 then None else Some (mkPI tot (cnt (peer_st p COMPLETED) l) (cnt (peer_st p REQUESTED) l)).

Definition pinfo_eqb (a b : option pinfo) : bool :=
  match a, b with
  | None, None => true
  | Some x, Some y => (pi_total x =? pi_total y) && (pi_completed x =? pi_completed y) && (pi_requested x =? pi_requested y)
  | _, _ => false
  end.

(* ------------------------------------------------------------------------------------------- *)
(* Announcement-level reference specification (the "naive reimplementation" of the header comment:
   candidates are not split into DELAYED/READY/BEST; the selection is recomputed from scratch).
   It works on the same announcement record; every CANDIDATE_* state means "CANDIDATE". *)

Definition is_candidate (a : ann) : bool :=
  st_is CANDIDATE_DELAYED a || st_is CANDIDATE_READY a || st_is CANDIDATE_BEST a.

(* forget the candidate sub-state *)
Definition norm_ann (a : ann) : ann := if is_candidate a then with_state a CANDIDATE_DELAYED else a.

Record spec_state := mkS { s_seq : Z; s_anns : list ann }.
Definition s_empty : spec_state := mkS 0 [].

(* "If for a given txhash only already-failed announcements remain, they are all forgotten." *)
Definition s_cleanup (l : list ann) : list ann :=
  filter (fun a => existsb (fun b => has_txhash (a_txhash a) b && negb (st_is COMPLETED b)) l) l.

Definition s_received_inv (s : spec_state) (p h : Z) (w pf : bool) (rt : Z) : spec_state :=
  if existsb (is_key p h) (s_anns s) then s
  else mkS (wrapu64 (s_seq s + 1))
           (s_anns s ++ [mkAnn h w rt p (wrapu 59 (s_seq s)) pf CANDIDATE_DELAYED]).

Definition s_forget (s : spec_state) (h : Z) : spec_state :=
  mkS (s_seq s) (filter (fun a => negb (has_txhash h a)) (s_anns s)).

Definition s_requested_tx (s : spec_state) (p h e : Z) : spec_state :=
  match find_ann p h (s_anns s) with
  | Some it =>
    if is_candidate it then
      mkS (s_seq s) (map (fun a => if is_key p h a then with_state_time a REQUESTED e
                                   else if has_txhash h a && st_is REQUESTED a then with_state a COMPLETED
                                   else a) (s_anns s))
    else s
  | None => s
  end.

Definition s_received_response (s : spec_state) (p h : Z) : spec_state :=
  mkS (s_seq s) (s_cleanup (set_ann p h (fun a => with_state a COMPLETED) (s_anns s))).

Definition s_disconnected (s : spec_state) (p : Z) : spec_state :=
  mkS (s_seq s) (s_cleanup (filter (fun a => negb (has_peer p a)) (s_anns s))).

Definition s_expire (now : Z) (a : ann) : ann :=
  if st_is REQUESTED a && (a_time a <=? now) then with_state a COMPLETED else a.

Section SpecWithPriority.
Variable prio : Z -> Z -> bool -> Z.

(* a candidate whose reqtime has passed, for a txhash without outstanding request, that no other such
   candidate of the txhash beats in priority *)
Definition s_selected (l : list ann) (now : Z) (a : ann) : bool :=
  is_candidate a && (a_time a <=? now) &&
  negb (existsb (fun b => has_txhash (a_txhash a) b && st_is REQUESTED b) l) &&
  forallb (fun b => negb (has_txhash (a_txhash a) b && is_candidate b && (a_time b <=? now))
                    || (prio_of prio b <=? prio_of prio a)) l.

Definition s_get_requestable (s : spec_state) (p now : Z) : spec_state * list (Z * bool) * expired_t :=
  let ex := map (fun a => (a_peer a, gtxid_of a))
                (filter (fun a => st_is REQUESTED a && (a_time a <=? now)) (s_anns s)) in
  let l2 := s_cleanup (map (s_expire now) (s_anns s)) in
  (mkS (s_seq s) l2,
   map gtxid_of (sort_by_seq (filter (fun a => has_peer p a && s_selected l2 now a) l2)), ex).

Definition s_step (s : spec_state) (o : op) : spec_state * outp :=
  match o with
  | OpInv p h w pf rt => (s_received_inv s p h w pf rt, None)
  | OpGet p now => let '(s1, r, ex) := s_get_requestable s p now in (s1, Some (r, ex))
  | OpReq p h e => (s_requested_tx s p h e, None)
  | OpResp p h => (s_received_response s p h, None)
  | OpForget h => (s_forget s h, None)
  | OpDisc p => (s_disconnected s p, None)
  end.
Fixpoint s_run (s : spec_state) (ops : list op) : spec_state * list outp :=
  match ops with
  | [] => (s, [])
  | o :: r => let '(s1, out) := s_step s o in let '(s2, outs) := s_run s1 r in (s2, out :: outs)
  end.
End SpecWithPriority.

(* the reference model's answers to the const accessors *)
Definition s_count (s : spec_state) (p : Z) : Z := cnt (has_peer p) (s_anns s).
Definition s_count_in_flight (s : spec_state) (p : Z) : Z := cnt (peer_st p REQUESTED) (s_anns s).
Definition s_count_candidates (s : spec_state) (p : Z) : Z :=
  cnt (fun a => has_peer p a && is_candidate a) (s_anns s).
Definition s_size (s : spec_state) : Z := Z.of_nat (length (s_anns s)).
Definition s_candidate_peers (s : spec_state) (h : Z) : list Z :=
  map a_peer (filter (fun a => has_txhash h a && negb (st_is COMPLETED a)) (s_anns s)).
