(* C14 -- CCheckQueue (src/checkqueue.h): the master/worker protocol of Loop / Add / Complete as a small-step
   machine.  Every access to queue, nTodo, nIdle, nTotal, m_result happens under m_mutex, so the critical sections
   are the atomic steps; running a batch happens outside the lock and touches only thread-local state and the
   checks themselves.  The scheduler is the list of actions: ANY interleaving of enabled actions is a schedule.
   Condition variables are modelled with their real semantics: a waiting thread runs again only after a
   notification (spurious wake-ups only add behaviours in which a thread re-checks and waits again); notify_one
   wakes one waiting thread if there is one and is lost otherwise.

   A check is an identifier; its verdict V c : option R (None = std::nullopt = passed) does not depend on the
   schedule (the checks share no mutable state: that, and the C++ memory model, are outside this model). *)
From BV Require Import lib.Ints.
Local Open Scope nat_scope.

Definition check := Z.
Definition R := Z.

(* where a thread is in Loop() *)
Inductive pc :=
| PNew                                   (* not in Loop: a worker thread just created, or the master outside Complete(): nNow = 0 *)
| PPend (all : bool)                     (* master only: Add() has released the mutex and is about to notify_one / notify_all *)
| PWait (notified : bool)                (* inside cond.wait(lock) *)
| PBatch (cs : list check) (do_work : bool)   (* holds vChecks, mutex released, before "execute work" *)
| PRet (cs : list check) (do_work : bool).    (* after "execute work", before re-acquiring the mutex; nNow = length cs *)

Record thread := { t_pc : pc; t_local : option R }.    (* local_result lives across iterations of the do-loop *)

Record cq := {
  q_queue : list check;          (* std::vector<T> queue, used as a stack: batches are taken from the back *)
  q_todo : nat;                  (* nTodo *)
  q_idle : nat;                  (* nIdle *)
  q_total : nat;                 (* nTotal *)
  q_result : option R;           (* m_result *)
  q_master : thread;
  q_workers : list thread;
  (* ghost state, not read by the protocol *)
  q_added : list check;          (* checks added since the master last returned from Complete() *)
  q_finished : list check;       (* checks whose batch has been accounted for (nTodo -= nNow) *)
  q_evaluated : list check;      (* checks whose operator() has run *)
  q_returned : list (option R * list check * list check)   (* results of Complete() so far, with the session's added / evaluated *)
}.

Definition cs_of (t : thread) : list check :=
  match t_pc t with PBatch cs _ | PRet cs _ => cs | _ => [] end.

(* for (T& check : vChecks) { local_result = check(); if (local_result.has_value()) break; } *)
Fixpoint run_checks (V : check -> option R) (cs : list check) (local : option R) : option R * list check :=
  match cs with
  | [] => (local, [])
  | c :: r => match V c with
              | Some e => (Some e, [c])
              | None => let '(l, ev) := run_checks V r None in (l, c :: ev)
              end
  end.

Definition upd {A} (l : list A) (i : nat) (x : A) : list A := firstn i l ++ x :: skipn (S i) l.

Definition get_thread (s : cq) (t : option nat) : option thread :=
  match t with None => Some (q_master s) | Some i => nth_error (q_workers s) i end.

Definition set_thread (s : cq) (t : option nat) (x : thread) : cq :=
  match t with
  | None => {| q_queue := q_queue s; q_todo := q_todo s; q_idle := q_idle s; q_total := q_total s; q_result := q_result s;
               q_master := x; q_workers := q_workers s;
               q_added := q_added s; q_finished := q_finished s; q_evaluated := q_evaluated s; q_returned := q_returned s |}
  | Some i => {| q_queue := q_queue s; q_todo := q_todo s; q_idle := q_idle s; q_total := q_total s; q_result := q_result s;
                 q_master := q_master s; q_workers := upd (q_workers s) i x;
                 q_added := q_added s; q_finished := q_finished s; q_evaluated := q_evaluated s; q_returned := q_returned s |}
  end.

Definition is_master (t : option nat) : bool := match t with None => true | Some _ => false end.

(* nNow = std::max(1U, std::min(nBatchSize, (unsigned int)queue.size() / (nTotal + nIdle + 1))) *)
Definition batch_now (bs : nat) (qlen total idle : nat) : nat := Nat.max 1 (Nat.min bs (qlen / (total + idle + 1))).

(* The part of the critical section after the clean-up, for thread t holding the mutex with local result `loc`:
       while (queue.empty() && !m_request_stop) {
           if (fMaster && nTodo == 0) { nTotal--; to_return = std::move(m_result); m_result = std::nullopt; return to_return; }
           nIdle++; cond.wait(lock); nIdle--;
       }
       nNow = ...; vChecks.assign(queue.end() - nNow, queue.end()); queue.erase(...); do_work = !m_result.has_value(); *)
Definition after_cleanup (bs : nat) (s : cq) (t : option nat) (loc : option R) : cq :=
  match q_queue s with
  | [] =>
      if is_master t && Nat.eqb (q_todo s) 0 then
        {| q_queue := []; q_todo := q_todo s; q_idle := q_idle s; q_total := q_total s - 1; q_result := None;
           q_master := {| t_pc := PNew; t_local := loc |}; q_workers := q_workers s;
           q_added := []; q_finished := []; q_evaluated := [];
           q_returned := q_returned s ++ [(q_result s, q_added s, q_evaluated s)] |}
      else
        set_thread {| q_queue := []; q_todo := q_todo s; q_idle := S (q_idle s); q_total := q_total s; q_result := q_result s;
                      q_master := q_master s; q_workers := q_workers s;
                      q_added := q_added s; q_finished := q_finished s; q_evaluated := q_evaluated s; q_returned := q_returned s |}
                   t {| t_pc := PWait false; t_local := loc |}
  | _ :: _ =>
      let n := batch_now bs (length (q_queue s)) (q_total s) (q_idle s) in
      let keep := length (q_queue s) - n in
      set_thread {| q_queue := firstn keep (q_queue s); q_todo := q_todo s; q_idle := q_idle s; q_total := q_total s; q_result := q_result s;
                    q_master := q_master s; q_workers := q_workers s;
                    q_added := q_added s; q_finished := q_finished s; q_evaluated := q_evaluated s; q_returned := q_returned s |}
                 t {| t_pc := PBatch (skipn keep (q_queue s)) (match q_result s with None => true | Some _ => false end); t_local := loc |}
  end.

Definition notify_master (s : cq) : cq :=
  match t_pc (q_master s) with
  | PWait false => set_thread s None {| t_pc := PWait true; t_local := t_local (q_master s) |}
  | _ => s
  end.

Inductive act :=
| AAdd (cs : list check)        (* master outside Complete: Add(vChecks), the locked part *)
| ANotifyOne (w : option nat)   (* master after Add of one check: m_worker_cv.notify_one() wakes waiting worker w; None = nobody waits *)
| ANotifyAll                    (* master after Add of several checks: m_worker_cv.notify_all() *)
| AEnter (t : option nat)       (* thread t (None = master: this is Complete() when it is outside) takes the mutex at the top of the loop *)
| AWake (t : option nat)        (* a notified waiter gets the mutex back *)
| ARun (t : option nat).        (* executes its batch *)

Definition is_waiting_unnotified (t : thread) : bool := match t_pc t with PWait false => true | _ => false end.

Definition step (bs : nat) (V : check -> option R) (s : cq) (a : act) : option cq :=
  match a with
  | AAdd cs =>
      (* if (vChecks.empty()) return;  { LOCK(m_mutex); queue.insert(queue.end(), ...); nTodo += vChecks.size(); } *)
      match t_pc (q_master s), cs with
      | PNew, _ :: _ =>
          Some {| q_queue := q_queue s ++ cs; q_todo := q_todo s + length cs; q_idle := q_idle s; q_total := q_total s; q_result := q_result s;
                  q_master := {| t_pc := PPend (negb (Nat.eqb (length cs) 1)); t_local := t_local (q_master s) |}; q_workers := q_workers s;
                  q_added := q_added s ++ cs; q_finished := q_finished s; q_evaluated := q_evaluated s; q_returned := q_returned s |}
      | _, _ => None
      end
  | ANotifyOne w =>
      match t_pc (q_master s) with
      | PPend false =>
          let s' := set_thread s None {| t_pc := PNew; t_local := t_local (q_master s) |} in
          match w with
          | Some i =>
              match nth_error (q_workers s) i with
              | Some t => if is_waiting_unnotified t then Some (set_thread s' (Some i) {| t_pc := PWait true; t_local := t_local t |}) else None
              | None => None
              end
          | None => if existsb is_waiting_unnotified (q_workers s) then None else Some s'
          end
      | _ => None
      end
  | ANotifyAll =>
      match t_pc (q_master s) with
      | PPend true =>
          Some {| q_queue := q_queue s; q_todo := q_todo s; q_idle := q_idle s; q_total := q_total s; q_result := q_result s;
                  q_master := {| t_pc := PNew; t_local := t_local (q_master s) |};
                  q_workers := map (fun t => if is_waiting_unnotified t then {| t_pc := PWait true; t_local := t_local t |} else t) (q_workers s);
                  q_added := q_added s; q_finished := q_finished s; q_evaluated := q_evaluated s; q_returned := q_returned s |}
      | _ => None
      end
  | AEnter t =>
      match get_thread s t with
      | None => None
      | Some th =>
          match t_pc th with
          | PNew =>
              (* first iteration: nTotal++ *)
              Some (after_cleanup bs {| q_queue := q_queue s; q_todo := q_todo s; q_idle := q_idle s; q_total := S (q_total s); q_result := q_result s;
                                        q_master := q_master s; q_workers := q_workers s;
                                        q_added := q_added s; q_finished := q_finished s; q_evaluated := q_evaluated s; q_returned := q_returned s |}
                                  t (t_local th))
          | PRet cs _ =>
              (* if (local_result.has_value() && !m_result.has_value()) std::swap(local_result, m_result);
                 nTodo -= nNow;  if (nTodo == 0 && !fMaster) m_master_cv.notify_one(); *)
              let swap := match t_local th, q_result s with Some _, None => true | _, _ => false end in
              let res' := if swap then t_local th else q_result s in
              let loc' := if swap then None else t_local th in
              let todo' := q_todo s - length cs in
              let s1 := {| q_queue := q_queue s; q_todo := todo'; q_idle := q_idle s; q_total := q_total s; q_result := res';
                           q_master := q_master s; q_workers := q_workers s;
                           q_added := q_added s; q_finished := q_finished s ++ cs; q_evaluated := q_evaluated s; q_returned := q_returned s |} in
              (* the thread's own pc is overwritten by after_cleanup; clear it first so that it no longer holds cs *)
              let s2 := set_thread s1 t {| t_pc := PNew; t_local := loc' |} in
              let s3 := if Nat.eqb todo' 0 && negb (is_master t) then notify_master s2 else s2 in
              Some (after_cleanup bs s3 t loc')
          | _ => None
          end
      end
  | AWake t =>
      match get_thread s t with
      | Some th =>
          match t_pc th with
          | PWait true =>
              (* nIdle--; back to the while condition *)
              Some (after_cleanup bs {| q_queue := q_queue s; q_todo := q_todo s; q_idle := q_idle s - 1; q_total := q_total s; q_result := q_result s;
                                        q_master := q_master s; q_workers := q_workers s;
                                        q_added := q_added s; q_finished := q_finished s; q_evaluated := q_evaluated s; q_returned := q_returned s |}
                                  t (t_local th))
          | _ => None
          end
      | None => None
      end
  | ARun t =>
      match get_thread s t with
      | Some th =>
          match t_pc th with
          | PBatch cs dw =>
              let '(loc', ev) := if dw then run_checks V cs (t_local th) else (t_local th, []) in
              let s1 := set_thread s t {| t_pc := PRet cs dw; t_local := loc' |} in
              Some {| q_queue := q_queue s1; q_todo := q_todo s1; q_idle := q_idle s1; q_total := q_total s1; q_result := q_result s1;
                      q_master := q_master s1; q_workers := q_workers s1;
                      q_added := q_added s1; q_finished := q_finished s1; q_evaluated := q_evaluated s1 ++ ev; q_returned := q_returned s1 |}
          | _ => None
          end
      | None => None
      end
  end.

(* a schedule: every action must be enabled when it is taken *)
Fixpoint exec (bs : nat) (V : check -> option R) (s : cq) (l : list act) : option cq :=
  match l with
  | [] => Some s
  | a :: r => match step bs V s a with Some s' => exec bs V s' r | None => None end
  end.

Definition init (nworkers : nat) : cq :=
  {| q_queue := []; q_todo := 0; q_idle := 0; q_total := 0; q_result := None;
     q_master := {| t_pc := PNew; t_local := None |};
     q_workers := repeat {| t_pc := PNew; t_local := None |} nworkers;
     q_added := []; q_finished := []; q_evaluated := []; q_returned := [] |}.

(* the serial reference: evaluate in order, stop at the first failure *)
Definition serial (V : check -> option R) (cs : list check) : option R := fst (run_checks V cs None).

(* executable predicate for the driver: what one Complete() may return for the checks of its session *)
Definition result_ok (V : check -> option R) (added : list check) (res : option R) : bool :=
  match res with
  | None => forallb (fun c => match V c with None => true | Some _ => false end) added
  | Some r => existsb (fun c => match V c with Some e => Z.eqb e r | None => false end) added
  end.

(* the actions enabled in a state (for the driver's random scheduler) *)
Definition enabled (bs : nat) (V : check -> option R) (s : cq) (a : act) : bool :=
  match step bs V s a with Some _ => true | None => false end.
