(* Signature-hash preimages (C10).  Transcribed from src/script/interpreter.cpp:
     CTransactionSignatureSerializer (SerializeScriptCode / SerializeInput / SerializeOutput / Serialize)
     SignatureHash            (legacy branch, the SIGHASH_SINGLE "one" quirk, the BIP143 branch)
     GetPrevoutsSHA256 / GetSequencesSHA256 / GetOutputsSHA256 / GetSpentAmountsSHA256 / GetSpentScriptsSHA256
     SignatureHashSchnorr     (BIP341 / BIP342)
     ComputeTapleafHash, the annex hash of VerifyWitnessProgram, TaggedHash (hash.cpp)
   and GetScriptOp of src/script/script.cpp (only what SerializeScriptCode needs from it: the opcode
   and where the iterator is left, also when it fails).
   Executable definitions only (proofs: proofs/SigHashBase.v, SigHashLegacy.v, SigHashSegwit.v, SigHashTaproot.v).

   Bytes, streams, fixed-width and CompactSize writers and the transaction records are those of the
   serialization models model/SerBase.v and model/SerTx.v.  SHA-256 is the Section variable H, applied
   to sub-preimages exactly where the code finalises a hasher:
     HashWriter::GetSHA256()  =  H stream           HashWriter::GetHash()  =  H (H stream)
     SHA256Uint256(x)         =  H x                                                        *)
From Coq Require Import NArith.
From BV Require Import lib.Ints gen.Params_gen model.SerBase model.SerTx.
Local Open Scope Z_scope.

(* ---- GetScriptOp, as far as SerializeScriptCode observes it ----
   bool GetScriptOp(pc, end, opcodeRet, pvchRet) {
     opcodeRet = OP_INVALIDOPCODE; ...
     if (pc >= end) return false;
     if (end - pc < 1) return false;
     unsigned int opcode = *pc++;
     if (opcode <= OP_PUSHDATA4) {
       unsigned int nSize = 0;
       if (opcode < OP_PUSHDATA1) { nSize = opcode; }
       else if (opcode == OP_PUSHDATA1) { if (end - pc < 1) return false; nSize = *pc++; }
       else if (opcode == OP_PUSHDATA2) { if (end - pc < 2) return false; nSize = ReadLE16(&pc[0]); pc += 2; }
       else if (opcode == OP_PUSHDATA4) { if (end - pc < 4) return false; nSize = ReadLE32(&pc[0]); pc += 4; }
       if (end - pc < 0 || (unsigned int)(end - pc) < nSize) return false;
       if (pvchRet) pvchRet->assign(pc, pc + nSize);
       pc += nSize;
     }
     opcodeRet = static_cast<opcodetype>(opcode); return true; }
   The result records how far pc moved: on success past the whole instruction, on failure past
   the opcode and past the length bytes that were read (pc is a reference and is not restored). *)
Inductive getop : Set :=
| GEnd                                   (* pc >= end: false, pc unchanged *)
| GFail (consumed : nat)                 (* false after `consumed` bytes *)
| GOp (opcode : N) (consumed : nat).     (* true: opcode, instruction length *)

Definition get_op (s : list N) : getop :=
  match s with
  | [] => GEnd
  | op :: r =>
    let opz := Z.of_N op in
    if opz <=? SH_OP_PUSHDATA4 then
      let hdr : option (Z * nat) :=          (* nSize, bytes consumed so far *)
        if opz <? SH_OP_PUSHDATA1 then Some (opz, 1%nat)
        else if opz =? SH_OP_PUSHDATA1 then
          match r with b0 :: _ => Some (le_value [b0], 2%nat) | _ => None end
        else if opz =? SH_OP_PUSHDATA2 then
          match r with b0 :: b1 :: _ => Some (le_value [b0; b1], 3%nat) | _ => None end
        else
          match r with b0 :: b1 :: b2 :: b3 :: _ => Some (le_value [b0; b1; b2; b3], 5%nat) | _ => None end in
      match hdr with
      | None => GFail 1
      | Some (nsize, h) =>
        if Z.of_nat (length s) - Z.of_nat h <? nsize then GFail h
        else GOp op (h + Z.to_nat nsize)
      end
    else GOp op 1
  end.

(* ---- CTransactionSignatureSerializer::SerializeScriptCode ----
   void SerializeScriptCode(S &s) const {
       CScript::const_iterator it = scriptCode.begin();
       CScript::const_iterator itBegin = it;
       opcodetype opcode;
       unsigned int nCodeSeparators = 0;
       while (scriptCode.GetOp(it, opcode)) { if (opcode == OP_CODESEPARATOR) nCodeSeparators++; }
       ::WriteCompactSize(s, scriptCode.size() - nCodeSeparators);
       it = itBegin;
       while (scriptCode.GetOp(it, opcode)) {
           if (opcode == OP_CODESEPARATOR) {
               s.write(std::as_bytes(std::span{&itBegin[0], size_t(it - itBegin - 1)}));
               itBegin = it;
           }
       }
       if (itBegin != scriptCode.end())
           s.write(std::as_bytes(std::span{&itBegin[0], size_t(it - itBegin)}));
   }
   Both loops make the same walk.  What is written is every complete instruction that is not
   OP_CODESEPARATOR, and - when GetOp fails on a truncated push - the bytes up to where GetOp left
   `it` (the opcode and its length bytes), NOT the rest of the script, although the CompactSize
   written before counted those bytes.  script_code_walk returns (bytes written, nCodeSeparators);
   fuel = number of GetOp calls (each successful one consumes at least one byte). *)
Fixpoint script_code_walk (fuel : nat) (s : list N) : list N * Z :=
  match fuel with
  | O => ([], 0)
  | S f =>
    match get_op s with
    | GEnd => ([], 0)
    | GFail k => (firstn k s, 0)
    | GOp op k =>
      let '(w, n) := script_code_walk f (skipn k s) in
      if Z.of_N op =? SH_OP_CODESEPARATOR then (w, n + 1) else (firstn k s ++ w, n)
    end
  end.

Definition ser_script_code (sc : list N) : list N :=
  let '(w, n) := script_code_walk (S (length sc)) sc in
  write_compact_size (Z.of_nat (length sc) - n) ++ w.

(* the walk reaches the end of the script (no truncated push) *)
Fixpoint script_parses_fuel (fuel : nat) (s : list N) : bool :=
  match fuel with
  | O => false
  | S f => match get_op s with GEnd => true | GFail _ => false | GOp _ k => script_parses_fuel f (skipn k s) end
  end.
Definition script_parses (sc : list N) : bool := script_parses_fuel (S (length sc)) sc.

(* the script without its OP_CODESEPARATOR instructions (what FindAndDelete(scriptCode, CScript(OP_CODESEPARATOR))
   of the reference SignatureHashOld in src/test/sighash_tests.cpp leaves) *)
Definition strip_codeseparators (sc : list N) : list N := fst (script_code_walk (S (length sc)) sc).

(* ---- hash-type decoding shared by the legacy and BIP143 code ----
   fAnyoneCanPay(!!(nHashTypeIn & SIGHASH_ANYONECANPAY)),
   fHashSingle((nHashTypeIn & 0x1f) == SIGHASH_SINGLE), fHashNone((nHashTypeIn & 0x1f) == SIGHASH_NONE)
   nHashType is an int32_t; & on a negative value acts on its two's complement bits, as Z.land does. *)
Definition ht_acp (ht : Z) : bool := negb (Z.land ht SIGHASH_ANYONECANPAY =? 0).
Definition ht_single (ht : Z) : bool := Z.land ht 31 =? SIGHASH_SINGLE.
Definition ht_none (ht : Z) : bool := Z.land ht 31 =? SIGHASH_NONE.

Definition ser_outpoint (i : txin) : list N := in_hash i ++ write_le 4 (in_n i).
Definition ser_sequence (i : txin) : list N := write_le 4 (in_sequence i).

Fixpoint mapi_from {A B} (k : nat) (f : nat -> A -> B) (l : list A) : list B :=
  match l with [] => [] | x :: r => f k x :: mapi_from (S k) f r end.

(* outcome of a sighash computation *)
Inductive sh_res : Type :=
| ShAssert                (* an assert of the C++ would fail (nIn out of range, inconsistent spent outputs) *)
| ShMissing               (* HandleMissingData: precomputed data not available *)
| ShOne                   (* legacy SIGHASH_SINGLE without matching output: the constant uint256::ONE *)
| ShFail                  (* SignatureHashSchnorr returns false *)
| ShPre (p : list N).     (* the byte string fed to the final hasher *)

(* uint256::ONE as it is stored: data[0] = 1 *)
Definition one32 : list N := 1%N :: repeat 0%N 31.
(* a value-initialised uint256 *)
Definition zero32 : list N := repeat 0%N 32.

(* ---- the transaction CTransactionSignatureSerializer serialises ----
   SerializeInput(s, nInput):
       if (fAnyoneCanPay) nInput = nIn;
       ::Serialize(s, txTo.vin[nInput].prevout);
       if (nInput != nIn) ::Serialize(s, CScript()); else SerializeScriptCode(s);
       if (nInput != nIn && (fHashSingle || fHashNone)) ::Serialize(s, int32_t{0});
       else ::Serialize(s, txTo.vin[nInput].nSequence);
   SerializeOutput(s, nOutput):
       if (fHashSingle && nOutput != nIn) ::Serialize(s, CTxOut());      // nValue = -1, empty script
       else ::Serialize(s, txTo.vout[nOutput]);
   Serialize(s):
       ::Serialize(s, txTo.version);
       unsigned int nInputs = fAnyoneCanPay ? 1 : txTo.vin.size();
       ::WriteCompactSize(s, nInputs);
       for (nInput = 0; nInput < nInputs; nInput++) SerializeInput(s, nInput);
       unsigned int nOutputs = fHashNone ? 0 : (fHashSingle ? nIn+1 : txTo.vout.size());
       ::WriteCompactSize(s, nOutputs);
       for (nOutput = 0; nOutput < nOutputs; nOutput++) SerializeOutput(s, nOutput);
       ::Serialize(s, txTo.nLockTime); *)
Definition legacy_ser_input (sc : list N) (nIn : nat) (zero_seq : bool) (k : nat) (i : txin) : list N :=
  ser_outpoint i
  ++ (if (k =? nIn)%nat then ser_script_code sc else ser_bytes [])
  ++ (if negb (k =? nIn)%nat && zero_seq then write_le 4 0 else write_le 4 (in_sequence i)).

Definition null_txout : txout := mk_txout (-1) [].
Definition legacy_ser_output (single : bool) (nIn : nat) (k : nat) (o : txout) : list N :=
  if single && negb (k =? nIn)%nat then ser_txout null_txout else ser_txout o.

Definition legacy_inputs (t : tx) (nIn : nat) (ht : Z) (sc : list N) (me : txin) : list (list N) :=
  let zs := ht_single ht || ht_none ht in
  if ht_acp ht then [legacy_ser_input sc nIn zs nIn me]
  else mapi_from 0 (legacy_ser_input sc nIn zs) (tx_vin t).

Definition legacy_outputs (t : tx) (nIn : nat) (ht : Z) : list (list N) :=
  if ht_none ht then []
  else if ht_single ht then mapi_from 0 (legacy_ser_output true nIn) (firstn (S nIn) (tx_vout t))
  else map ser_txout (tx_vout t).

(* uint256 SignatureHash(scriptCode, txTo, nIn, nHashType, amount, sigversion, cache, sighash_cache)
   {
       assert(nIn < txTo.vin.size());
       if (sigversion != SigVersion::WITNESS_V0) {
           if ((nHashType & 0x1f) == SIGHASH_SINGLE) { if (nIn >= txTo.vout.size()) { return uint256::ONE; } }
       }
       HashWriter ss{};
       [SigHashCache::Load: a stored midstate for (CacheIndex(nHashType), scriptCode) replaces the
        serialisation below; the driver compares results with and without it]
       if (sigversion == SigVersion::WITNESS_V0) { ... BIP143 ... }
       else { CTransactionSignatureSerializer<T> txTmp(txTo, scriptCode, nIn, nHashType); ss << txTmp; }
       ss << nHashType;
       return ss.GetHash();
   } *)
Definition legacy_preimage (t : tx) (nIn : nat) (ht : Z) (sc : list N) : sh_res :=
  match nth_error (tx_vin t) nIn with
  | None => ShAssert
  | Some me =>
    if ht_single ht && (length (tx_vout t) <=? nIn)%nat then ShOne
    else
      let ins := legacy_inputs t nIn ht sc me in
      let outs := legacy_outputs t nIn ht in
      ShPre (write_le 4 (tx_version t)
             ++ write_compact_size (Z.of_nat (length ins)) ++ concat ins
             ++ write_compact_size (Z.of_nat (length outs)) ++ concat outs
             ++ write_le 4 (tx_locktime t)
             ++ write_le 4 ht)
  end.

Section WithHash.
Variable H : list N -> list N.     (* SHA-256 *)

Definition hash256 (x : list N) : list N := H (H x).

(* GetPrevoutsSHA256 / GetSequencesSHA256 / GetOutputsSHA256: single SHA-256 of the concatenation *)
Definition sha_prevouts (t : tx) : list N := H (concat (map ser_outpoint (tx_vin t))).
Definition sha_sequences (t : tx) : list N := H (concat (map ser_sequence (tx_vin t))).
Definition sha_outputs (t : tx) : list N := H (concat (map ser_txout (tx_vout t))).
(* GetSpentAmountsSHA256 / GetSpentScriptsSHA256 *)
Definition sha_amounts (spent : list txout) : list N := H (concat (map (fun o => write_le 8 (out_value o)) spent)).
Definition sha_scriptpubkeys (spent : list txout) : list N := H (concat (map (fun o => ser_bytes (out_script o)) spent)).

(* ---- BIP143 (SigVersion::WITNESS_V0) ----
       uint256 hashPrevouts; uint256 hashSequence; uint256 hashOutputs;        // zero-initialised
       if (!(nHashType & SIGHASH_ANYONECANPAY)) hashPrevouts = cacheready ? cache->hashPrevouts : SHA256Uint256(GetPrevoutsSHA256(txTo));
       if (!(nHashType & SIGHASH_ANYONECANPAY) && (nHashType & 0x1f) != SIGHASH_SINGLE && (nHashType & 0x1f) != SIGHASH_NONE)
           hashSequence = cacheready ? cache->hashSequence : SHA256Uint256(GetSequencesSHA256(txTo));
       if ((nHashType & 0x1f) != SIGHASH_SINGLE && (nHashType & 0x1f) != SIGHASH_NONE)
           hashOutputs = cacheready ? cache->hashOutputs : SHA256Uint256(GetOutputsSHA256(txTo));
       else if ((nHashType & 0x1f) == SIGHASH_SINGLE && nIn < txTo.vout.size()) {
           HashWriter inner_ss{}; inner_ss << txTo.vout[nIn]; hashOutputs = inner_ss.GetHash(); }
       ss << txTo.version; ss << hashPrevouts; ss << hashSequence;
       ss << txTo.vin[nIn].prevout; ss << scriptCode; ss << amount; ss << txTo.vin[nIn].nSequence;
       ss << hashOutputs; ss << txTo.nLockTime;
   then (common tail)  ss << nHashType; return ss.GetHash();
   (PrecomputedTransactionData::Init stores hashPrevouts = SHA256Uint256(m_prevouts_single_hash) etc., the same values.) *)
Definition bip143_hash_prevouts (t : tx) (ht : Z) : list N :=
  if negb (ht_acp ht) then H (sha_prevouts t) else zero32.
Definition bip143_hash_sequence (t : tx) (ht : Z) : list N :=
  if negb (ht_acp ht) && negb (ht_single ht) && negb (ht_none ht) then H (sha_sequences t) else zero32.
Definition bip143_hash_outputs (t : tx) (nIn : nat) (ht : Z) : list N :=
  if negb (ht_single ht) && negb (ht_none ht) then H (sha_outputs t)
  else if ht_single ht then
    match nth_error (tx_vout t) nIn with Some o => hash256 (ser_txout o) | None => zero32 end
  else zero32.

Definition bip143_preimage (t : tx) (nIn : nat) (ht : Z) (sc : list N) (amount : Z) : sh_res :=
  match nth_error (tx_vin t) nIn with
  | None => ShAssert
  | Some me =>
    ShPre (write_le 4 (tx_version t)
           ++ bip143_hash_prevouts t ht
           ++ bip143_hash_sequence t ht
           ++ ser_outpoint me
           ++ ser_bytes sc
           ++ write_le 8 amount
           ++ write_le 4 (in_sequence me)
           ++ bip143_hash_outputs t nIn ht
           ++ write_le 4 (tx_locktime t)
           ++ write_le 4 ht)
  end.

(* ---- BIP341 / BIP342 ----
   The execution data SignatureHashSchnorr reads besides the transaction. *)
Record tap_ctx : Type := mk_tap_ctx {
  tc_spent : list txout;                 (* cache.m_spent_outputs *)
  tc_annex : option (list N);            (* the annex witness element, when present *)
  tc_leaf : option (list N * Z)          (* SigVersion::TAPSCRIPT: m_tapleaf_hash (32 bytes), m_codeseparator_pos (uint32) *)
}.

(* execdata.m_annex_hash = (HashWriter{} << annex).GetSHA256();   annex is a std::vector<unsigned char> *)
Definition annex_hash (a : list N) : list N := H (ser_bytes a).

(* bool SignatureHashSchnorr(hash_out, execdata, tx_to, in_pos, hash_type, sigversion, cache, mdb)
   {
       switch (sigversion) { case TAPROOT: ext_flag = 0; break; case TAPSCRIPT: ext_flag = 1; key_version = 0; break; default: assert(false); }
       assert(in_pos < tx_to.vin.size());
       if (!(cache.m_bip341_taproot_ready && cache.m_spent_outputs_ready)) return HandleMissingData(mdb);
       HashWriter ss{HASHER_TAPSIGHASH};
       static constexpr uint8_t EPOCH = 0;  ss << EPOCH;
       const uint8_t output_type = (hash_type == SIGHASH_DEFAULT) ? SIGHASH_ALL : (hash_type & SIGHASH_OUTPUT_MASK);
       const uint8_t input_type = hash_type & SIGHASH_INPUT_MASK;
       if (!(hash_type <= 0x03 || (hash_type >= 0x81 && hash_type <= 0x83))) return false;
       ss << hash_type;
       ss << tx_to.version;  ss << tx_to.nLockTime;
       if (input_type != SIGHASH_ANYONECANPAY) {
           ss << cache.m_prevouts_single_hash; ss << cache.m_spent_amounts_single_hash;
           ss << cache.m_spent_scripts_single_hash; ss << cache.m_sequences_single_hash; }
       if (output_type == SIGHASH_ALL) ss << cache.m_outputs_single_hash;
       assert(execdata.m_annex_init);
       const bool have_annex = execdata.m_annex_present;
       const uint8_t spend_type = (ext_flag << 1) + (have_annex ? 1 : 0);
       ss << spend_type;
       if (input_type == SIGHASH_ANYONECANPAY) {
           ss << tx_to.vin[in_pos].prevout; ss << cache.m_spent_outputs[in_pos]; ss << tx_to.vin[in_pos].nSequence;
       } else { ss << in_pos; }
       if (have_annex) ss << execdata.m_annex_hash;
       if (output_type == SIGHASH_SINGLE) {
           if (in_pos >= tx_to.vout.size()) return false;
           if (!execdata.m_output_hash) { HashWriter sha_single_output{}; sha_single_output << tx_to.vout[in_pos];
                                          execdata.m_output_hash = sha_single_output.GetSHA256(); }
           ss << execdata.m_output_hash.value(); }
       if (sigversion == SigVersion::TAPSCRIPT) {
           ss << execdata.m_tapleaf_hash; ss << key_version; ss << execdata.m_codeseparator_pos; }
       hash_out = ss.GetSHA256();  return true;
   }
   PrecomputedTransactionData::Init: assert(m_spent_outputs.size() == txTo.vin.size()) when spent outputs are
   given; without them m_spent_outputs_ready is false (missing data). *)
Definition tap_hash_type_valid (ht : Z) : bool := (ht <=? 3) || ((129 <=? ht) && (ht <=? 131)).
Definition tap_output_type (ht : Z) : Z := if ht =? SIGHASH_DEFAULT then SIGHASH_ALL else Z.land ht SIGHASH_OUTPUT_MASK.
Definition tap_input_type (ht : Z) : Z := Z.land ht SIGHASH_INPUT_MASK.
Definition tap_acp (ht : Z) : bool := tap_input_type ht =? SIGHASH_ANYONECANPAY.

Definition taproot_preimage (t : tx) (nIn : nat) (ht : Z) (c : tap_ctx) : sh_res :=
  match nth_error (tx_vin t) nIn with
  | None => ShAssert
  | Some me =>
    match tc_spent c with
    | [] => ShMissing
    | _ :: _ =>
      match nth_error (tc_spent c) nIn with
      | None => ShAssert
      | Some spent_me =>
        if negb (length (tc_spent c) =? length (tx_vin t))%nat then ShAssert
        else if negb (tap_hash_type_valid ht) then ShFail
        else
          let ext_flag := match tc_leaf c with Some _ => 1 | None => 0 end in
          let spend_type := 2 * ext_flag + (match tc_annex c with Some _ => 1 | None => 0 end) in
          let single_part : option (list N) :=
            if tap_output_type ht =? SIGHASH_SINGLE then
              match nth_error (tx_vout t) nIn with Some o => Some (H (ser_txout o)) | None => None end
            else Some [] in
          match single_part with
          | None => ShFail
          | Some single_hash =>
            ShPre (write_le 1 0
                   ++ write_le 1 ht
                   ++ write_le 4 (tx_version t)
                   ++ write_le 4 (tx_locktime t)
                   ++ (if negb (tap_acp ht)
                       then sha_prevouts t ++ sha_amounts (tc_spent c) ++ sha_scriptpubkeys (tc_spent c) ++ sha_sequences t
                       else [])
                   ++ (if tap_output_type ht =? SIGHASH_ALL then sha_outputs t else [])
                   ++ write_le 1 spend_type
                   ++ (if tap_acp ht
                       then ser_outpoint me ++ ser_txout spent_me ++ write_le 4 (in_sequence me)
                       else write_le 4 (Z.of_nat nIn))
                   ++ (match tc_annex c with Some a => annex_hash a | None => [] end)
                   ++ single_hash
                   ++ (match tc_leaf c with
                       | Some (leaf, pos) => leaf ++ write_le 1 0 ++ write_le 4 pos
                       | None => []
                       end))
          end
      end
    end
  end.

(* HashWriter TaggedHash(tag): writer << taghash << taghash with taghash = SHA256(tag) *)
Definition tagged_hash (tag : list N) (msg : list N) : list N := H (H tag ++ H tag ++ msg).
(* "TapSighash", "TapLeaf" *)
Definition TAG_TAPSIGHASH : list N := [84; 97; 112; 83; 105; 103; 104; 97; 115; 104]%N.
Definition TAG_TAPLEAF : list N := [84; 97; 112; 76; 101; 97; 102]%N.

(* uint256 ComputeTapleafHash(uint8_t leaf_version, std::span<const unsigned char> script)
   { return (HashWriter{HASHER_TAPLEAF} << leaf_version << CompactSizeWriter(script.size()) << script).GetSHA256(); } *)
Definition tapleaf_hash (leaf_version : Z) (script : list N) : list N :=
  tagged_hash TAG_TAPLEAF (write_le 1 leaf_version ++ ser_bytes script).

(* ---- the 32-byte results ---- *)
Definition legacy_sighash (t : tx) (nIn : nat) (ht : Z) (sc : list N) : option (list N) :=
  match legacy_preimage t nIn ht sc with
  | ShPre p => Some (hash256 p)
  | ShOne => Some one32
  | _ => None
  end.
Definition bip143_sighash (t : tx) (nIn : nat) (ht : Z) (sc : list N) (amount : Z) : option (list N) :=
  match bip143_preimage t nIn ht sc amount with
  | ShPre p => Some (hash256 p)
  | _ => None
  end.
Definition taproot_sighash (t : tx) (nIn : nat) (ht : Z) (c : tap_ctx) : sh_res :=
  match taproot_preimage t nIn ht c with
  | ShPre p => ShPre (tagged_hash TAG_TAPSIGHASH p)
  | r => r
  end.

End WithHash.
