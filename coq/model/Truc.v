(* TRUC (version 3) topology rules and cluster limits as pure decision functions (C27).  Transcribed from
     src/policy/truc_policy.cpp   SingleTRUCChecks, PackageTRUCChecks, FindInPackageParents
     src/policy/truc_policy.h     TRUC_VERSION, TRUC_ANCESTOR_LIMIT, TRUC_DESCENDANT_LIMIT, TRUC_MAX_VSIZE, TRUC_CHILD_MAX_VSIZE
     src/txmempool.{h,cpp}        GetParents, GetAncestorCount, GetDescendantCount, CalculateDescendants
   The mempool is the list of its transactions (model/PackageAccept.v: pool); the graph queries are computed
   from the spends relation.  Executable definitions only. *)
From BV Require Import lib.Ints gen.Params_gen model.Package model.PackageAccept.
Local Open Scope Z_scope.

Definition TRUC_VERSION : Z := MPP_TRUC_VERSION.
Definition TRUC_ANCESTOR_LIMIT : Z := MPP_TRUC_ANCESTOR_LIMIT.
Definition TRUC_DESCENDANT_LIMIT : Z := MPP_TRUC_DESCENDANT_LIMIT.
Definition TRUC_MAX_VSIZE : Z := MPP_TRUC_MAX_VSIZE.
Definition TRUC_CHILD_MAX_VSIZE : Z := MPP_TRUC_CHILD_MAX_VSIZE.

Definition is_truc (t : ptx) : bool := p_version t =? TRUC_VERSION.

(* CTxMemPool::GetParents(entry): the mempool entries whose txid is the hash of one of the inputs *)
Definition parents_of (P : pool) (t : ptx) : list ptx := filter (fun e => spends t (p_txid e)) P.
(* CTxMemPool::GetChildren *)
Definition children_of (P : pool) (t : ptx) : list ptx := filter (fun e => spends e (p_txid t)) P.

(* TxGraph::GetAncestors / GetDescendants (main level): the reflexive transitive closure, as a duplicate-free list *)
Definition in_set (t : ptx) (S : list ptx) : bool := existsb (fun e => p_txid e =? p_txid t) S.
Definition add_new (S new : list ptx) : list ptx :=
  fold_left (fun acc e => if in_set e acc then acc else acc ++ [e]) new S.
Fixpoint closure (next : ptx -> list ptx) (fuel : nat) (S : list ptx) : list ptx :=
  match fuel with
  | O => S
  | Datatypes.S f => closure next f (add_new S (flat_map next S))
  end.
Definition anc_set (P : pool) (t : ptx) : list ptx := closure (parents_of P) (length P) [t].
Definition desc_set (P : pool) (t : ptx) : list ptx := closure (children_of P) (length P) [t].
(* int64_t GetAncestorCount(const CTxMemPoolEntry& e) { return m_txgraph->GetAncestors(e, MAIN).size(); } *)
Definition anc_count (P : pool) (t : ptx) : Z := Z.of_nat (length (anc_set P t)).
Definition desc_count (P : pool) (t : ptx) : Z := Z.of_nat (length (desc_set P t)).

Inductive truc_err :=
| TE_nonv3_spends_v3        (* "non-version=3 tx ... cannot spend from version=3 tx ..." *)
| TE_v3_spends_nonv3        (* "version=3 tx ... cannot spend from non-version=3 tx ..." *)
| TE_too_big                (* "version=3 tx ... is too big" *)
| TE_too_many_ancestors     (* "tx ... would have too many ancestors" *)
| TE_child_too_big          (* "version=3 child tx ... is too big" *)
| TE_desc_limit.            (* "tx ... would exceed descendant count limit" *)

(* std::optional<std::pair<std::string, CTransactionRef>> SingleTRUCChecks(pool, ptx, mempool_parents, direct_conflicts, vsize)
   {   for (const auto& entry_ref : mempool_parents) {
           if (ptx->version != TRUC_VERSION && entry->GetTx().version == TRUC_VERSION) return {"non-version=3 ... cannot spend from version=3", nullptr};
           else if (ptx->version == TRUC_VERSION && entry->GetTx().version != TRUC_VERSION) return {"version=3 ... cannot spend from non-version=3", nullptr};
       }
       if (ptx->version != TRUC_VERSION) return std::nullopt;
       if (vsize > TRUC_MAX_VSIZE) return {"... is too big", nullptr};
       if (mempool_parents.size() + 1 > TRUC_ANCESTOR_LIMIT) return {"... would have too many ancestors", nullptr};
       if (mempool_parents.size() > 0) {
           if (pool.GetAncestorCount(mempool_parents[0]) + 1 > TRUC_ANCESTOR_LIMIT) return {"... would have too many ancestors", nullptr};
           if (vsize > TRUC_CHILD_MAX_VSIZE) return {"version=3 child tx ... is too big", nullptr};
           const auto& parent_entry = mempool_parents[0].get();
           CTxMemPool::setEntries descendants;
           auto parent_it = pool.CalculateDescendants(parent_entry, descendants);
           descendants.erase(parent_it);
           const bool child_will_be_replaced = !descendants.empty() &&
               std::any_of(descendants.cbegin(), descendants.cend(), [&](child){return direct_conflicts.contains(child->GetTx().GetHash());});
           if (pool.GetDescendantCount(parent_entry) + 1 > TRUC_DESCENDANT_LIMIT && !child_will_be_replaced) {
               const bool consider_sibling_eviction{pool.GetDescendantCount(parent_entry) == 2 &&
                   pool.GetAncestorCount( **descendants.begin()) == 2};
               return {"... would exceed descendant count limit", consider_sibling_eviction ? ( *descendants.begin())->GetSharedTx() : nullptr};
           }
       }
       return std::nullopt; } *)
Definition single_truc_checks (P : pool) (tx : ptx) (mempool_parents : list ptx) (direct_conflicts : list Z) (vsize : Z)
  : option (truc_err * option ptx) :=
  if negb (is_truc tx) && existsb is_truc mempool_parents then Some (TE_nonv3_spends_v3, None) else
  if is_truc tx && existsb (fun e => negb (is_truc e)) mempool_parents then Some (TE_v3_spends_nonv3, None) else
  if negb (is_truc tx) then None else
  if vsize >? TRUC_MAX_VSIZE then Some (TE_too_big, None) else
  if Z.of_nat (length mempool_parents) + 1 >? TRUC_ANCESTOR_LIMIT then Some (TE_too_many_ancestors, None) else
  match mempool_parents with
  | [] => None
  | parent :: _ =>
      if anc_count P parent + 1 >? TRUC_ANCESTOR_LIMIT then Some (TE_too_many_ancestors, None) else
      if vsize >? TRUC_CHILD_MAX_VSIZE then Some (TE_child_too_big, None) else
      let descendants := filter (fun d => negb (p_txid d =? p_txid parent)) (desc_set P parent) in
      let child_will_be_replaced := existsb (fun c => zmem (p_txid c) direct_conflicts) descendants in
      if (desc_count P parent + 1 >? TRUC_DESCENDANT_LIMIT) && negb child_will_be_replaced then
        let sibling := match descendants with
                       | d :: _ => if (desc_count P parent =? 2) && (anc_count P d =? 2) then Some d else None
                       | [] => None
                       end in
        Some (TE_desc_limit, sibling)
      else None
  end.

(* std::vector<size_t> FindInPackageParents(const Package& package, const CTransactionRef& ptx): the transactions
   placed before ptx (pointer identity: position i) whose txid is the hash of one of ptx's inputs *)
Definition in_package_parents (package : list ptx) (i : nat) (tx : ptx) : list ptx :=
  filter (fun t => spends tx (p_txid t)) (firstn i package).

(* the inner loops of PackageTRUCChecks over the other package transactions and their inputs, in order:
     if (input.prevout.hash == parent_info.m_txid) return "... would exceed descendant count limit";
     if (input.prevout.hash == ptx->GetHash())     return "... would have too many ancestors"; *)
Fixpoint scan_inputs (parent_txid self_txid : Z) (ins : list outpoint) : option truc_err :=
  match ins with
  | [] => None
  | inp :: r => if fst inp =? parent_txid then Some TE_desc_limit
                else if fst inp =? self_txid then Some TE_too_many_ancestors
                else scan_inputs parent_txid self_txid r
  end.
Fixpoint scan_package (parent_txid self_txid : Z) (i : nat) (k : nat) (package : list ptx) : option truc_err :=
  match package with
  | [] => None
  | t :: r => match (if (k =? i)%nat then None else scan_inputs parent_txid self_txid (p_inputs t)) with
              | Some e => Some e
              | None => scan_package parent_txid self_txid i (Datatypes.S k) r
              end
  end.

(* std::optional<std::string> PackageTRUCChecks(pool, ptx, vsize, package, mempool_parents), ptx = package[i] *)
Definition package_truc_checks (P : pool) (package : list ptx) (i : nat) (tx : ptx) (vsize : Z) (mempool_parents : list ptx)
  : option truc_err :=
  let ipp := in_package_parents package i tx in
  let nmp := Z.of_nat (length mempool_parents) in
  let nipp := Z.of_nat (length ipp) in
  if is_truc tx then
    if vsize >? TRUC_MAX_VSIZE then Some TE_too_big else
    if nmp + nipp + 1 >? TRUC_ANCESTOR_LIMIT then Some TE_too_many_ancestors else
    if match mempool_parents with p :: _ => anc_count P p + nipp + 1 >? TRUC_ANCESTOR_LIMIT | [] => false end
    then Some TE_too_many_ancestors else
    if 0 <? nmp + nipp then
      if vsize >? TRUC_CHILD_MAX_VSIZE then Some TE_child_too_big else
      (* Exactly 1 parent exists, either in mempool or package. Find it. *)
      match (match mempool_parents with
             | p :: _ => Some (p_txid p, p_version p, desc_count P p >? 1)
             | [] => match ipp with q :: _ => Some (p_txid q, p_version q, false) | [] => None end
             end) with
      | None => None
      | Some (parent_txid, parent_version, has_mempool_descendant) =>
          if negb (parent_version =? TRUC_VERSION) then Some TE_v3_spends_nonv3 else
          match scan_package parent_txid (p_txid tx) i 0 package with
          | Some e => Some e
          | None => if has_mempool_descendant then Some TE_desc_limit else None
          end
      end
    else None
  else
    if existsb is_truc mempool_parents then Some TE_nonv3_spends_v3 else
    if existsb is_truc ipp then Some TE_nonv3_spends_v3 else None.

(* ---------- the topology invariant (what test/util CheckMempoolTRUCInvariants recomputes) ---------- *)
Definition truc_ok_tx (P : pool) (t : ptx) : bool :=
  if is_truc t then
    (vsize_of t <=? TRUC_MAX_VSIZE) &&
    (desc_count P t <=? TRUC_DESCENDANT_LIMIT) && (anc_count P t <=? TRUC_ANCESTOR_LIMIT) &&
    (if 1 <? anc_count P t then (vsize_of t <=? TRUC_CHILD_MAX_VSIZE) && forallb is_truc (parents_of P t) else true)
  else forallb (fun p => negb (is_truc p)) (parents_of P t).
Definition truc_holds (P : pool) : bool := forallb (truc_ok_tx P) P.

(* the same stated on the direct parent / child relation (the form the proofs carry) *)
Definition TrucInvTx (P : pool) (t : ptx) : Prop :=
  (is_truc t = true ->
     vsize_of t <= TRUC_MAX_VSIZE /\
     (length (parents_of P t) <= 1)%nat /\ (length (children_of P t) <= 1)%nat /\
     (parents_of P t = [] \/ children_of P t = []) /\
     (forall p, In p (parents_of P t) -> is_truc p = true) /\
     (forall c, In c (children_of P t) -> is_truc c = true) /\
     (parents_of P t <> [] -> vsize_of t <= TRUC_CHILD_MAX_VSIZE)) /\
  (is_truc t = false -> forall p, In p (parents_of P t) -> is_truc p = false).
Definition TrucInv (P : pool) : Prop := forall t, In t P -> TrucInvTx P t.

(* ---------- cluster count / size limits ----------
   CTxMemPool::CTxMemPool: m_txgraph = MakeTxGraph(limits.cluster_count, limits.cluster_size_vbytes * WITNESS_SCALE_FACTOR, ...)
   ChangeSet::CheckMemPoolPolicyLimits: return !m_pool->m_txgraph->IsOversized(TxGraph::Level::TOP);
   a cluster is a connected component of the parent/child relation; the graph is oversized when some cluster has
   more than cluster_count transactions or more than cluster_size_vbytes * WITNESS_SCALE_FACTOR total weight *)
Definition neighbours (P : pool) (t : ptx) : list ptx := parents_of P t ++ children_of P t.
Definition cluster_of (P : pool) (t : ptx) : list ptx := closure (neighbours P) (length P) [t].
Definition cluster_within (count_limit weight_limit : Z) (P : pool) (t : ptx) : bool :=
  let c := cluster_of P t in
  (Z.of_nat (length c) <=? count_limit) && (zsum (map p_weight c) <=? weight_limit).
Definition check_cluster_limits (count_limit weight_limit : Z) (P : pool) : bool :=
  forallb (cluster_within count_limit weight_limit P) P.
(* bool CTxMemPool::CheckPolicyLimits(const CTransactionRef& tx): stage the addition, ask the limits *)
Definition check_policy_limits (cluster_count cluster_size_vbytes : Z) (P : pool) (tx : ptx) : bool :=
  check_cluster_limits cluster_count (cluster_size_vbytes * WITNESS_SCALE_FACTOR) (P ++ [tx]).

(* ---------- acceptance under the TRUC rules, as the op-sequence driver applies it ----------
   What PreChecks / ReplacementChecks / AcceptMultipleTransactionsInternal do with the answers of the two
   check functions; every other acceptance rule (fees, scripts, RBF economics) only ever rejects more. *)
(* ws.m_conflicts: the mempool transactions spending an outpoint tx spends (CTxMemPool::GetConflictTx) *)
Definition direct_conflicts (P : pool) (tx : ptx) : list Z :=
  map p_txid (filter (fun e => shares_input e tx) P).
(* GetEntriesForConflicts: the conflicts and all their descendants *)
Definition desc_txids (P : pool) (roots : list Z) : list Z :=
  flat_map (fun e => map p_txid (desc_set P e)) (filter (fun e => zmem (p_txid e) roots) P).

Inductive add_outcome :=
| AO_skipped                              (* already in the mempool, or (orphan-like) something in the mempool spends it *)
| AO_rejected (e : truc_err)              (* "TRUC-violation" *)
| AO_spends_conflict                      (* "bad-txns-spends-conflicting-tx" (EntriesAndTxidsDisjoint) *)
| AO_added (evicted_sibling : option ptx).

(* single transaction context: m_allow_replacement and m_allow_sibling_eviction are set
     if (const auto err{SingleTRUCChecks(m_pool, ws.m_ptx, ws.m_parents, ws.m_conflicts, ws.m_vsize)}) {
         if (args.m_allow_sibling_eviction && err->second != nullptr) { ws.m_conflicts.insert(err->second->GetHash()); ... }
         else return state.Invalid(TX_MEMPOOL_POLICY, "TRUC-violation", err->first); } *)
Definition truc_try_add (P : pool) (tx : ptx) : add_outcome * pool :=
  if has_txid P (p_txid tx) || existsb (fun e => spends e (p_txid tx)) P || spends tx (p_txid tx) then (AO_skipped, P) else
  let mp := parents_of P tx in
  let conf := direct_conflicts P tx in
  match single_truc_checks P tx mp conf (vsize_of tx) with
  | Some (e, None) => (AO_rejected e, P)
  | r =>
      let sib := match r with Some (_, s) => s | None => None end in
      let conf' := match sib with Some s => p_txid s :: conf | None => conf end in
      let R := desc_txids P conf' in
      if existsb (fun p => zmem (p_txid p) R) mp then (AO_spends_conflict, P)
      else (AO_added sib, remove_set R P ++ [tx])
  end.

(* package context (no replacement, no sibling eviction in this model: a package with mempool conflicts is skipped) *)
Fixpoint pkg_checks (P : pool) (pkg : list ptx) (i : nat) (rest : list ptx) : list (option truc_err * option truc_err) :=
  match rest with
  | [] => []
  | tx :: r =>
      let mp := parents_of P tx in
      (match single_truc_checks P tx mp [] (vsize_of tx) with Some (e, _) => Some e | None => None end,
       package_truc_checks P pkg i tx (vsize_of tx) mp) :: pkg_checks P pkg (Datatypes.S i) r
  end.
Definition pkg_fresh (P : pool) (pkg : list ptx) : bool :=
  match is_well_formed pkg with Some _ => false | None =>
    forallb (fun tx => negb (has_txid P (p_txid tx)) && negb (existsb (fun e => spends e (p_txid tx)) P) &&
                       negb (existsb (fun e => shares_input e tx) P)) pkg
  end.
Definition truc_try_package (P : pool) (pkg : list ptx) : option (list (option truc_err * option truc_err)) * pool :=
  if negb (pkg_fresh P pkg) then (None, P) else
  let res := pkg_checks P pkg 0 pkg in
  if forallb (fun r => match r with (None, None) => true | _ => false end) res then (Some res, P ++ pkg) else (Some res, P).

Inductive truc_op :=
| Op_add (tx : ptx)               (* single submission under the rules *)
| Op_package (pkg : list ptx)     (* package submission under the rules *)
| Op_remove (R : list Z)          (* any removal: block connection, expiry, size limiting, conflicts with a block *)
| Op_force (tx : ptx).            (* added without the rules (what block disconnection can do) *)
Definition truc_apply (P : pool) (o : truc_op) : pool :=
  match o with
  | Op_add tx => snd (truc_try_add P tx)
  | Op_package pkg => snd (truc_try_package P pkg)
  | Op_remove R => remove_set R P
  | Op_force tx => if has_txid P (p_txid tx) then P else P ++ [tx]
  end.
Definition truc_run (ops : list truc_op) : pool := fold_left truc_apply ops [].
Definition is_force (o : truc_op) : bool := match o with Op_force _ => true | _ => false end.
