(* Timelocks and coinbase maturity (C05).  Transcribed from
     src/consensus/tx_verify.cpp   IsFinalTx, CalculateSequenceLocks, EvaluateSequenceLocks, SequenceLocks,
                                   the maturity test of Consensus::CheckTxInputs
     src/chain.h                   CBlockIndex::GetMedianTimePast
     src/chain.cpp                 CBlockIndex::GetAncestor (as a function of heights only)
     src/validation.cpp            ContextualCheckBlock's choice of the locktime cutoff
   Executable definitions only (proofs are in proofs/LocksLemmas.v).

   A chain of block indexes is the list of the blocks' times by height: element h is the
   GetBlockTime() of the block at height h.  The block a function is called on is the LAST element
   (its height is length-1, its pprev is the element before it). *)
From Coq Require Import Sorting.Sorted Sorting.Permutation.
From BV Require Import lib.Ints gen.Params_gen.
Local Open Scope Z_scope.

(* the fields of CTransaction the lock rules read: uint32 version, uint32 nLockTime, the inputs' uint32 nSequence *)
Record ltx := { lt_version : Z; lt_locktime : Z; lt_seqs : list Z }.

(* ------------------------------------------------------------------------------------------ *)
(* bool IsFinalTx(const CTransaction &tx, int nBlockHeight, int64_t nBlockTime)
   {
       if (tx.nLockTime == 0) return true;
       if ((int64_t)tx.nLockTime < ((int64_t)tx.nLockTime < LOCKTIME_THRESHOLD ? (int64_t)nBlockHeight : nBlockTime))
           return true;
       for (const auto& txin : tx.vin) { if (!(txin.nSequence == CTxIn::SEQUENCE_FINAL)) return false; }
       return true;
   } *)
Definition is_final_tx (t : ltx) (nBlockHeight nBlockTime : Z) : bool :=
  if lt_locktime t =? 0 then true
  else
    let lt64 := wrap64 (lt_locktime t) in
    if lt64 <? (if lt64 <? LOCKTIME_THRESHOLD then wrap64 nBlockHeight else nBlockTime) then true
    else forallb (fun s => s =? LOCKS_SEQUENCE_FINAL) (lt_seqs t).

(* ------------------------------------------------------------------------------------------ *)
(* int64_t GetMedianTimePast() const
   {
       int64_t pmedian[nMedianTimeSpan];
       int64_t* pbegin = &pmedian[nMedianTimeSpan];
       int64_t* pend = &pmedian[nMedianTimeSpan];
       const CBlockIndex* pindex = this;
       for (int i = 0; i < nMedianTimeSpan && pindex; i++, pindex = pindex->pprev)
           *(--pbegin) = pindex->GetBlockTime();
       std::sort(pbegin, pend);
       return pbegin[(pend - pbegin) / 2];
   } *)

(* the loop: from the block at height h walk pprev at most `fuel` times; *(--pbegin) puts earlier
   blocks in front.  None when h is not a block of the chain. *)
Fixpoint walk_back (chain : list Z) (h : nat) (fuel : nat) {struct fuel} : option (list Z) :=
  match fuel with
  | O => Some []
  | S f =>
    match nth_error chain h with
    | None => None
    | Some t =>
      match h with
      | O => Some [t]                                                   (* pprev == nullptr ends the loop *)
      | S h' => match walk_back chain h' f with
                | None => None
                | Some r => Some (r ++ [t])
                end
      end
    end
  end.

(* std::sort on int64_t: ascending.  Modelled by insertion sort; proofs/LocksLemmas.v shows the result is
   the sorted permutation (which is unique), so any correct sort gives the same array. *)
Fixpoint insert_sorted (x : Z) (l : list Z) : list Z :=
  match l with
  | [] => [x]
  | y :: r => if x <=? y then x :: l else y :: insert_sorted x r
  end.
Definition sort_times (l : list Z) : list Z := fold_right insert_sorted [] l.

Definition median_of_window (w : list Z) : option Z :=
  nth_error (sort_times w) (Nat.div (length w) 2).

Definition mtp_nat (chain : list Z) (h : nat) : option Z :=
  match walk_back chain h (Z.to_nat LOCKS_MEDIAN_TIME_SPAN) with
  | None => None
  | Some w => median_of_window w
  end.

(* GetMedianTimePast of the block at height h of the chain *)
Definition mtp_at (chain : list Z) (h : Z) : option Z :=
  if h <? 0 then None else mtp_nat chain (Z.to_nat h).

(* const CBlockIndex* CBlockIndex::GetAncestor(int height) const
   { if (height > nHeight || height < 0) return nullptr; ... walk to that height ... }
   followed by ->GetMedianTimePast().  H is the height of the block it is called on. *)
Definition ancestor_mtp (chain : list Z) (H height : Z) : option Z :=
  if (height >? H) || (height <? 0) then None else mtp_at chain height.

(* ------------------------------------------------------------------------------------------ *)
(* std::pair<int, int64_t> CalculateSequenceLocks(const CTransaction &tx, int flags, std::vector<int>& prevHeights, const CBlockIndex& block) *)

(* bool fEnforceBIP68 = tx.version >= 2 && flags & LOCKTIME_VERIFY_SEQUENCE;   (uint32 version) *)
Definition enforce_bip68 (version flags : Z) : bool :=
  (wrapu32 version >=? 2) && negb (Z.land flags LOCKS_LOCKTIME_VERIFY_SEQUENCE =? 0).

Definition block_height (chain : list Z) : Z := Z.of_nat (length chain) - 1.

(* the result: (nMinHeight, nMinTime) and prevHeights as the function leaves it *)
Record locks_result := { lr_height : Z; lr_time : Z; lr_prev : list Z }.
Definition lr_cons (p : Z) (r : locks_result) : locks_result :=
  {| lr_height := lr_height r; lr_time := lr_time r; lr_prev := p :: lr_prev r |}.

(* for (txinIndex ...) {
       if (txin.nSequence & CTxIn::SEQUENCE_LOCKTIME_DISABLE_FLAG) { prevHeights[txinIndex] = 0; continue; }
       int nCoinHeight = prevHeights[txinIndex];
       if (txin.nSequence & CTxIn::SEQUENCE_LOCKTIME_TYPE_FLAG) {
           const int64_t nCoinTime{Assert(block.GetAncestor(std::max(nCoinHeight - 1, 0)))->GetMedianTimePast()};
           nMinTime = std::max(nMinTime, nCoinTime + (int64_t)((txin.nSequence & CTxIn::SEQUENCE_LOCKTIME_MASK) << CTxIn::SEQUENCE_LOCKTIME_GRANULARITY) - 1);
       } else {
           nMinHeight = std::max(nMinHeight, nCoinHeight + (int)(txin.nSequence & CTxIn::SEQUENCE_LOCKTIME_MASK) - 1);
       }
   }
   None = the Assert on GetAncestor fails (the process aborts). *)
Fixpoint calc_locks_loop (chain : list Z) (ins : list (Z * Z)) (minH minT : Z) : option locks_result :=
  match ins with
  | [] => Some {| lr_height := minH; lr_time := minT; lr_prev := [] |}
  | (s, ch) :: r =>
    if negb (Z.land s LOCKS_SEQUENCE_LOCKTIME_DISABLE_FLAG =? 0) then
      option_map (lr_cons 0) (calc_locks_loop chain r minH minT)
    else if negb (Z.land s LOCKS_SEQUENCE_LOCKTIME_TYPE_FLAG =? 0) then
      match ancestor_mtp chain (block_height chain) (Z.max (wrap32 (ch - 1)) 0) with
      | None => None
      | Some nCoinTime =>
        let shifted := wrapu32 (Z.shiftl (Z.land s LOCKS_SEQUENCE_LOCKTIME_MASK) LOCKS_SEQUENCE_LOCKTIME_GRANULARITY) in
        let cand := wrap64 (wrap64 (nCoinTime + wrap64 shifted) - 1) in
        option_map (lr_cons ch) (calc_locks_loop chain r minH (Z.max minT cand))
      end
    else
      let cand := wrap32 (wrap32 (ch + wrap32 (Z.land s LOCKS_SEQUENCE_LOCKTIME_MASK)) - 1) in
      option_map (lr_cons ch) (calc_locks_loop chain r (Z.max minH cand) minT)
  end.

(* assert(prevHeights.size() == tx.vin.size());  int nMinHeight = -1; int64_t nMinTime = -1;
   if (!fEnforceBIP68) return std::make_pair(nMinHeight, nMinTime); *)
Definition calculate_sequence_locks (t : ltx) (flags : Z) (prevHeights : list Z) (chain : list Z) : option locks_result :=
  if negb (Nat.eqb (length prevHeights) (length (lt_seqs t))) then None
  else if negb (enforce_bip68 (lt_version t) flags) then Some {| lr_height := -1; lr_time := -1; lr_prev := prevHeights |}
  else calc_locks_loop chain (combine (lt_seqs t) prevHeights) (-1) (-1).

(* bool EvaluateSequenceLocks(const CBlockIndex& block, std::pair<int, int64_t> lockPair)
   {
       assert(block.pprev);
       int64_t nBlockTime = block.pprev->GetMedianTimePast();
       if (lockPair.first >= block.nHeight || lockPair.second >= nBlockTime) return false;
       return true;
   } *)
Definition evaluate_sequence_locks (chain : list Z) (minH minT : Z) : option bool :=
  let H := block_height chain in
  if H <? 1 then None
  else match mtp_at chain (H - 1) with
       | None => None
       | Some nBlockTime => Some (negb ((minH >=? H) || (minT >=? nBlockTime)))
       end.

(* bool SequenceLocks(tx, flags, prevHeights, block) { return EvaluateSequenceLocks(block, CalculateSequenceLocks(tx, flags, prevHeights, block)); } *)
Definition sequence_locks (t : ltx) (flags : Z) (prevHeights : list Z) (chain : list Z) : option bool :=
  match calculate_sequence_locks t flags prevHeights chain with
  | None => None
  | Some r => evaluate_sequence_locks chain (lr_height r) (lr_time r)
  end.

(* ------------------------------------------------------------------------------------------ *)
(* Consensus::CheckTxInputs, per input:
     if (coin.IsCoinBase() && nSpendHeight - coin.nHeight < COINBASE_MATURITY) return ... "bad-txns-premature-spend-of-coinbase"
   (int nSpendHeight; coin.nHeight is a 31-bit unsigned bit-field, promoted to int) *)
Record coin := { c_height : Z; c_coinbase : bool }.
Definition premature_spend (nSpendHeight : Z) (c : coin) : bool :=
  c_coinbase c && (wrap32 (nSpendHeight - c_height c) <? COINBASE_MATURITY).
(* true = no input is rejected by the maturity rule *)
Definition check_inputs_maturity (nSpendHeight : Z) (coins : list coin) : bool :=
  negb (existsb (premature_spend nSpendHeight) coins).

(* ------------------------------------------------------------------------------------------ *)
(* ContextualCheckBlock:
     const int nHeight = pindexPrev == nullptr ? 0 : pindexPrev->nHeight + 1;
     enforce_locktime_median_time_past = DeploymentActiveAfter(pindexPrev, chainman, DEPLOYMENT_CSV)
     const int64_t nLockTimeCutoff{enforce_locktime_median_time_past ? pindexPrev->GetMedianTimePast() : block.GetBlockTime()};
     for (const auto& tx : block.vtx) if (!IsFinalTx( *tx, nHeight, nLockTimeCutoff)) return "bad-txns-nonfinal";
   prev_chain = the chain ending in pindexPrev (non-empty: the genesis block is not checked this way). *)
Definition contextual_txs_final (prev_chain : list Z) (csv_active : bool) (block_time : Z) (txs : list ltx) : option bool :=
  let nHeight := block_height prev_chain + 1 in
  match (if csv_active then mtp_at prev_chain (block_height prev_chain) else Some block_time) with
  | None => None
  | Some cutoff => Some (forallb (fun t => is_final_tx t nHeight cutoff) txs)
  end.

(* ------------------------------------------------------------------------------------------ *)
(* One non-coinbase transaction in a block at height N = height(prev)+1, as TestBlockValidity / ConnectTip see it:
     ContextualCheckBlock:  IsFinalTx(tx, N, cutoff)                          else "bad-txns-nonfinal"
     ConnectBlock:          nLockTimeFlags = DeploymentActiveAt( *pindex, CSV) ? LOCKTIME_VERIFY_SEQUENCE : 0
                            Consensus::CheckTxInputs(tx, ..., pindex->nHeight) else "bad-txns-premature-spend-of-coinbase"
                            prevheights[j] = view.AccessCoin(tx.vin[j].prevout).nHeight
                            SequenceLocks(tx, nLockTimeFlags, prevheights, *pindex ) else "bad-txns-nonfinal"
   A buried deployment is active for a block iff its height >= the deployment height (DeploymentActiveAfter(pindexPrev)
   and DeploymentActiveAt( *pindex ) agree). *)
Inductive verdict := v_ok | v_nonfinal | v_premature.
Definition connect_tx_verdict (prev_chain : list Z) (csv_height block_time : Z) (t : ltx) (coins : list coin) : option verdict :=
  let nHeight := block_height prev_chain + 1 in
  let csv_active := csv_height <=? nHeight in
  match contextual_txs_final prev_chain csv_active block_time [t] with
  | None => None
  | Some false => Some v_nonfinal
  | Some true =>
    if negb (check_inputs_maturity nHeight coins) then Some v_premature
    else match sequence_locks t (if csv_active then LOCKS_LOCKTIME_VERIFY_SEQUENCE else 0) (map c_height coins) (prev_chain ++ [block_time]) with
         | None => None
         | Some false => Some v_nonfinal
         | Some true => Some v_ok
         end
  end.

(* ------------------------------------------------------------------------------------------ *)
(* The specification side, written out with literal numbers (BIP 65/68/113 wording), as executable
   booleans for the violation search; the theorems in props/Properties_C05.v state them as Props. *)

Definition spec_final_b (t : ltx) (height time : Z) : bool :=
  (lt_locktime t =? 0)
  || ((lt_locktime t <? 500000000) && (lt_locktime t <? height))
  || ((500000000 <=? lt_locktime t) && (lt_locktime t <? time))
  || forallb (fun s => s =? 4294967295) (lt_seqs t).

(* the times of the last min(11, h+1) blocks ending at height h *)
Definition last_times (chain : list Z) (h : nat) : list Z :=
  let n := Nat.min 11 (h + 1) in firstn n (skipn (h + 1 - n) chain).
Definition count_lt (m : Z) (l : list Z) : nat := length (filter (fun x => x <? m) l).
Definition count_le (m : Z) (l : list Z) : nat := length (filter (fun x => x <=? m) l).
(* m is the element number n/2 (from 0) in ascending order: fewer than or exactly n/2 elements are
   smaller, more than n/2 are smaller or equal *)
Definition is_median_b (w : list Z) (m : Z) : bool :=
  existsb (Z.eqb m) w && Nat.leb (count_lt m w) (Nat.div (length w) 2) && Nat.ltb (Nat.div (length w) 2) (count_le m w).
Definition spec_mtp (chain : list Z) (h : Z) : option Z :=
  if (h <? 0) || (Z.of_nat (length chain) <=? h) then None
  else let w := last_times chain (Z.to_nat h) in find (is_median_b w) w.

Definition lock_enabled_b (version flags s : Z) : bool :=
  (2 <=? version) && Z.testbit flags 0 && negb (Z.testbit s 31).
Definition lock_is_time_b (s : Z) : bool := Z.testbit s 22.
Definition lock_value (s : Z) : Z := s mod 65536.

(* one input's relative lock is satisfied in the block at height H whose predecessor has median time past mtp_prev *)
Definition input_lock_ok_b (chain : list Z) (version flags : Z) (sc : Z * Z) : bool :=
  let (s, ch) := sc in
  let H := block_height chain in
  if negb (lock_enabled_b version flags s) then true
  else if lock_is_time_b s then
    match spec_mtp chain (Z.max (ch - 1) 0), spec_mtp chain (H - 1) with
    | Some a, Some b => a + 512 * lock_value s <=? b
    | _, _ => false
    end
  else ch + lock_value s <=? H.
Definition spec_sequence_locks_b (t : ltx) (flags : Z) (prevHeights : list Z) (chain : list Z) : bool :=
  forallb (input_lock_ok_b chain (lt_version t) flags) (combine (lt_seqs t) prevHeights).

Definition spec_mature_b (nSpendHeight : Z) (coins : list coin) : bool :=
  forallb (fun c => negb (c_coinbase c) || (100 <=? nSpendHeight - c_height c)) coins.

(* the verdict the property prescribes for that transaction *)
Definition spec_verdict (prev_chain : list Z) (csv_height block_time : Z) (t : ltx) (coins : list coin) : option verdict :=
  let N := Z.of_nat (length prev_chain) in
  match (if csv_height <=? N then spec_mtp prev_chain (N - 1) else Some block_time) with
  | None => None
  | Some cutoff =>
    Some (if negb (spec_final_b t N cutoff) then v_nonfinal
          else if negb (spec_mature_b N coins) then v_premature
          else if negb (spec_sequence_locks_b t (if csv_height <=? N then 1 else 0) (map c_height coins) (prev_chain ++ [block_time])) then v_nonfinal
          else v_ok)
  end.

(* ------------------------------------------------------------------------------------------ *)
(* Prop forms used in the theorem statements *)

(* the median as the property states it: element number n/2 of the ascending arrangement of w *)
Definition median_of (w : list Z) (m : Z) : Prop :=
  exists s, Permutation s w /\ Sorted Z.le s /\ nth_error s (Nat.div (length w) 2) = Some m.

Definition wf_chain (chain : list Z) : Prop :=
  (2 <= length chain)%nat /\ Z.of_nat (length chain) <= 2147418112 /\
  Forall (fun t => 0 <= t <= 4294967295) chain.

Definition wf_locks_input (t : ltx) (prevHeights chain : list Z) : Prop :=
  wf_chain chain /\
  0 <= lt_version t <= 4294967295 /\
  length prevHeights = length (lt_seqs t) /\
  Forall (fun s => 0 <= s <= 4294967295) (lt_seqs t) /\
  Forall (fun ch => 0 <= ch <= block_height chain + 1) prevHeights.

(* one input's relative lock is satisfied (the statement of BIP68, with the -1s cancelled) *)
Definition input_lock_ok (chain : list Z) (version flags s ch : Z) : Prop :=
  2 <= version -> Z.testbit flags 0 = true -> Z.testbit s 31 = false ->
  if Z.testbit s 22
  then exists a b, mtp_at chain (Z.max (ch - 1) 0) = Some a /\ mtp_at chain (block_height chain - 1) = Some b /\
                   a + 512 * (s mod 65536) <= b
  else ch + s mod 65536 <= block_height chain.
