(* Proof of work: compact targets, target validity, retargeting, permitted transitions,
   header time rules.  Transcribed from
     src/arith_uint256.cpp   arith_uint256::SetCompact / GetCompact, base_uint::bits, *=, /=, <<=, >>=
     src/pow.cpp             DeriveTarget, CheckProofOfWorkImpl, GetNextWorkRequired,
                             CalculateNextWorkRequired, PermittedDifficultyTransition
     src/chain.h             CBlockIndex::GetMedianTimePast
     src/validation.cpp      ContextualCheckBlockHeader (difficulty and time rules)
   Executable definitions only (proofs are in proofs/PowLemmas.v).

   arith_uint256 is a natural number below 2^256; every operation that can leave that range in the
   C++ (<<=, *=) is written with an explicit wrap256.  uint32_t / uint64_t / int64_t conversions are
   written with wrapu32 / wrapu64 / wrap64. *)
From BV Require Import lib.Ints lib.ChainParams gen.Params_gen.
Local Open Scope Z_scope.

Definition wrap256 (x : Z) : Z := x mod 2 ^ 256.

(* unsigned int base_uint<BITS>::bits() const : position of the highest set bit plus one, 0 for 0 *)
Definition bits256 (x : Z) : Z := if x =? 0 then 0 else Z.log2 x + 1.

(* arith_uint256& arith_uint256::SetCompact(uint32_t nCompact, bool* pfNegative, bool* pfOverflow)
   {
       int nSize = nCompact >> 24;
       uint32_t nWord = nCompact & 0x007fffff;
       if (nSize <= 3) {
           nWord >>= 8 * (3 - nSize);
           *this = nWord;
       } else {
           *this = nWord;
           *this <<= 8 * (nSize - 3);              // 256-bit shift: high bits fall off
       }
       if (pfNegative)
           *pfNegative = nWord != 0 && (nCompact & 0x00800000) != 0;
       if (pfOverflow)
           *pfOverflow = nWord != 0 && ((nSize > 34) ||
                                        (nWord > 0xff && nSize > 33) ||
                                        (nWord > 0xffff && nSize > 32));
       return *this;
   }
   Note: in the nSize <= 3 branch nWord itself is shifted, and the two flags are computed from the
   shifted nWord. *)
Record compact_decoded := { cd_value : Z; cd_negative : bool; cd_overflow : bool }.

Definition set_compact (nCompact : Z) : compact_decoded :=
  let nSize := Z.shiftr nCompact 24 in
  let nWord0 := Z.land nCompact 0x007fffff in
  let nWord := if nSize <=? 3 then Z.shiftr nWord0 (8 * (3 - nSize)) else nWord0 in
  let value := if nSize <=? 3 then nWord else wrap256 (Z.shiftl nWord (8 * (nSize - 3))) in
  {| cd_value := value;
     cd_negative := negb (nWord =? 0) && negb (Z.land nCompact 0x00800000 =? 0);
     cd_overflow := negb (nWord =? 0) && ((nSize >? 34) || ((nWord >? 0xff) && (nSize >? 33))
                                          || ((nWord >? 0xffff) && (nSize >? 32))) |}.

(* uint32_t arith_uint256::GetCompact(bool fNegative) const
   {
       int nSize = CeilDiv(bits(), 8u);
       uint32_t nCompact = 0;
       if (nSize <= 3) {
           nCompact = GetLow64() << 8 * (3 - nSize);          // uint64 shift, then truncation to uint32
       } else {
           arith_uint256 bn = *this >> 8 * (nSize - 3);
           nCompact = bn.GetLow64();                          // truncation to uint32
       }
       // The 0x00800000 bit denotes the sign.
       // Thus, if it is already set, divide the mantissa by 256 and increase the exponent.
       if (nCompact & 0x00800000) {
           nCompact >>= 8;
           nSize++;
       }
       assert((nCompact & ~0x007fffffU) == 0);
       assert(nSize < 256);
       nCompact |= nSize << 24;
       nCompact |= (fNegative && (nCompact & 0x007fffff) ? 0x00800000 : 0);
       return nCompact;
   }
   get_compact_asserts is the conjunction of the two asserts; get_compact is the returned value. *)
Definition get_compact_parts (x : Z) : Z * Z :=
  let nSize := (bits256 x + 7) / 8 in
  let nCompact :=
    if nSize <=? 3 then wrapu32 (wrapu64 (Z.shiftl (wrapu64 x) (8 * (3 - nSize))))
    else wrapu32 (wrapu64 (Z.shiftr x (8 * (nSize - 3)))) in
  if Z.land nCompact 0x00800000 =? 0 then (nCompact, nSize)
  else (Z.shiftr nCompact 8, nSize + 1).

Definition get_compact_asserts (x : Z) : bool :=
  let '(nCompact, nSize) := get_compact_parts x in
  (Z.land nCompact (Z.lxor 0xffffffff 0x007fffff) =? 0) && (nSize <? 256).

Definition get_compact (x : Z) (fNegative : bool) : Z :=
  let '(nCompact, nSize) := get_compact_parts x in
  let nCompact := Z.lor nCompact (wrapu32 (Z.shiftl nSize 24)) in
  Z.lor nCompact (if fNegative && negb (Z.land nCompact 0x007fffff =? 0) then 0x00800000 else 0).

(* ---- the reference definition (arith_uint256.h comment): N = (-1^sign) * mantissa * 256^(exponent-3),
        over unbounded integers; for exponent < 3 the mantissa loses its low bytes ---- *)
Definition compact_size (c : Z) : Z := c / 2 ^ 24.
Definition compact_mantissa (c : Z) : Z := c mod 2 ^ 23.
Definition compact_sign (c : Z) : bool := Z.odd (c / 2 ^ 23).
Definition compact_magnitude (c : Z) : Z :=
  let s := compact_size c in
  if s <=? 3 then compact_mantissa c / 256 ^ (3 - s) else compact_mantissa c * 256 ^ (s - 3).

(* std::optional<arith_uint256> DeriveTarget(unsigned int nBits, const uint256 pow_limit)
   {
       bnTarget.SetCompact(nBits, &fNegative, &fOverflow);
       if (fNegative || bnTarget == 0 || fOverflow || bnTarget > UintToArith256(pow_limit))
           return {};
       return bnTarget;
   } *)
Definition derive_target (nBits pow_limit : Z) : option Z :=
  let d := set_compact nBits in
  if cd_negative d || (cd_value d =? 0) || cd_overflow d || (cd_value d >? pow_limit) then None
  else Some (cd_value d).

(* bool CheckProofOfWorkImpl(uint256 hash, unsigned int nBits, const Consensus::Params& params)
   {
       auto bnTarget{DeriveTarget(nBits, params.powLimit)};
       if (!bnTarget) return false;
       if (UintToArith256(hash) > bnTarget) return false;
       return true;
   } *)
Definition check_pow (pow_limit hash nBits : Z) : bool :=
  match derive_target nBits pow_limit with
  | None => false
  | Some t => if hash >? t then false else true
  end.

(* the statement of C07 for CheckProofOfWork, over unbounded integers *)
Definition check_pow_spec (pow_limit hash nBits : Z) : bool :=
  negb (compact_sign nBits) && (0 <? compact_magnitude nBits) && (compact_magnitude nBits <=? pow_limit)
  && (hash <=? compact_magnitude nBits).

(* int64_t DifficultyAdjustmentInterval() const { return nPowTargetTimespan / nPowTargetSpacing; } *)
Definition interval (c : chain_params) : Z := cdiv (cp_target_timespan c) (cp_target_spacing c).

(* base_uint::operator*=(uint32_t b32) : this is the overload chosen for `bnNew *= nActualTimespan`
   (int64_t -> uint32_t is a standard conversion, int64_t -> base_uint a user-defined one), so the
   multiplier is truncated to 32 bits and the product to 256 bits.
   base_uint::operator/=(const base_uint&) : `bnNew /= params.nPowTargetTimespan` converts
   int64_t -> uint64_t -> base_uint; division by zero throws uint_error (None here). *)
Definition mul_u32 (a : Z) (b : Z) : Z := wrap256 (a * wrapu32 b).
Definition div_i64 (a : Z) (b : Z) : option Z :=
  let d := wrapu64 b in if d =? 0 then None else Some (a / d).

(* unsigned int CalculateNextWorkRequired(const CBlockIndex* pindexLast, int64_t nFirstBlockTime, const Consensus::Params& params)
   {
       if (params.fPowNoRetargeting) return pindexLast->nBits;
       int64_t nActualTimespan = pindexLast->GetBlockTime() - nFirstBlockTime;
       if (nActualTimespan < params.nPowTargetTimespan/4) nActualTimespan = params.nPowTargetTimespan/4;
       if (nActualTimespan > params.nPowTargetTimespan*4) nActualTimespan = params.nPowTargetTimespan*4;
       const arith_uint256 bnPowLimit = UintToArith256(params.powLimit);
       arith_uint256 bnNew;
       if (params.enforce_BIP94) {
           int nHeightFirst = pindexLast->nHeight - (params.DifficultyAdjustmentInterval()-1);
           const CBlockIndex* pindexFirst = pindexLast->GetAncestor(nHeightFirst);
           bnNew.SetCompact(pindexFirst->nBits);
       } else {
           bnNew.SetCompact(pindexLast->nBits);
       }
       bnNew *= nActualTimespan;
       bnNew /= params.nPowTargetTimespan;
       if (bnNew > bnPowLimit) bnNew = bnPowLimit;
       return bnNew.GetCompact();
   }
   first_bits is pindexFirst->nBits (only read on BIP94 chains). *)
Definition clamp_timespan (c : chain_params) (actual : Z) : Z :=
  let lo := cdiv (cp_target_timespan c) 4 in
  let hi := wrap64 (cp_target_timespan c * 4) in
  let a := if actual <? lo then lo else actual in
  if a >? hi then hi else a.

Definition calc_next_work (c : chain_params) (last_bits first_bits t_first t_last : Z) : option Z :=
  if cp_no_retargeting c then Some last_bits
  else
    let actual := clamp_timespan c (wrap64 (t_last - t_first)) in
    let bn := cd_value (set_compact (if cp_enforce_bip94 c then first_bits else last_bits)) in
    let bn := mul_u32 bn actual in
    match div_i64 bn (cp_target_timespan c) with
    | None => None
    | Some bn =>
      let bn := if bn >? cp_pow_limit c then cp_pow_limit c else bn in
      Some (get_compact bn false)
    end.

(* bool PermittedDifficultyTransition(const Consensus::Params& params, int64_t height, uint32_t old_nbits, uint32_t new_nbits)
   {
       if (params.fPowAllowMinDifficultyBlocks) return true;
       if (height % params.DifficultyAdjustmentInterval() == 0) {
           int64_t smallest_timespan = params.nPowTargetTimespan/4;
           int64_t largest_timespan = params.nPowTargetTimespan*4;
           const arith_uint256 pow_limit = UintToArith256(params.powLimit);
           arith_uint256 observed_new_target;
           observed_new_target.SetCompact(new_nbits);
           arith_uint256 largest_difficulty_target;
           largest_difficulty_target.SetCompact(old_nbits);
           largest_difficulty_target *= largest_timespan;
           largest_difficulty_target /= params.nPowTargetTimespan;
           if (largest_difficulty_target > pow_limit) largest_difficulty_target = pow_limit;
           arith_uint256 maximum_new_target;
           maximum_new_target.SetCompact(largest_difficulty_target.GetCompact());
           if (maximum_new_target < observed_new_target) return false;
           ... the same with smallest_timespan ...
           if (minimum_new_target > observed_new_target) return false;
       } else if (old_nbits != new_nbits) {
           return false;
       }
       return true;
   } *)
Definition scaled_bound (c : chain_params) (old_nbits timespan : Z) : option Z :=
  let t := cd_value (set_compact old_nbits) in
  let t := mul_u32 t timespan in
  match div_i64 t (cp_target_timespan c) with
  | None => None
  | Some t =>
    let t := if t >? cp_pow_limit c then cp_pow_limit c else t in
    Some (cd_value (set_compact (get_compact t false)))
  end.

Definition permitted_transition (c : chain_params) (height old_nbits new_nbits : Z) : option bool :=
  if cp_allow_min_difficulty c then Some true
  else if cmod height (interval c) =? 0 then
    let smallest_timespan := cdiv (cp_target_timespan c) 4 in
    let largest_timespan := wrap64 (cp_target_timespan c * 4) in
    let observed := cd_value (set_compact new_nbits) in
    match scaled_bound c old_nbits largest_timespan with
    | None => None
    | Some maximum_new_target =>
      if maximum_new_target <? observed then Some false
      else match scaled_bound c old_nbits smallest_timespan with
           | None => None
           | Some minimum_new_target =>
             if minimum_new_target >? observed then Some false else Some true
           end
    end
  else if negb (old_nbits =? new_nbits) then Some false
  else Some true.

(* ---- chains of block index entries, tip first: [tip; ...; genesis]; height of the head of a
        list l is length l - 1.  pprev is the tail; GetAncestor(h) is the entry of height h (that
        GetAncestor computes exactly this is C54). ---- *)
Record blk := { b_time : Z; b_bits : Z }.

Definition height_of (chain : list blk) : Z := Z.of_nat (length chain) - 1.

Definition ancestor_at (chain : list blk) (h : Z) : option blk :=
  let ht := height_of chain in
  if (h <? 0) || (h >? ht) then None else nth_error chain (Z.to_nat (ht - h)).

(* const CBlockIndex* pindex = pindexLast;
   while (pindex->pprev && pindex->nHeight % params.DifficultyAdjustmentInterval() != 0 && pindex->nBits == nProofOfWorkLimit)
       pindex = pindex->pprev;
   return pindex->nBits;
   h is the height of the head of the list. *)
Fixpoint min_difficulty_walk_back (c : chain_params) (limit_bits : Z) (chain : list blk) (h : Z) : option Z :=
  match chain with
  | [] => None
  | b :: rest =>
    match rest with
    | [] => Some (b_bits b)
    | _ :: _ =>
      if negb (cmod h (interval c) =? 0) && (b_bits b =? limit_bits)
      then min_difficulty_walk_back c limit_bits rest (h - 1)
      else Some (b_bits b)
    end
  end.

(* unsigned int GetNextWorkRequired(const CBlockIndex* pindexLast, const CBlockHeader *pblock, const Consensus::Params& params)
   {
       assert(pindexLast != nullptr);
       unsigned int nProofOfWorkLimit = UintToArith256(params.powLimit).GetCompact();
       if ((pindexLast->nHeight+1) % params.DifficultyAdjustmentInterval() != 0)
       {
           if (params.fPowAllowMinDifficultyBlocks)
           {
               if (pblock->GetBlockTime() > pindexLast->GetBlockTime() + params.nPowTargetSpacing*2)
                   return nProofOfWorkLimit;
               else { ...walk back...; return pindex->nBits; }
           }
           return pindexLast->nBits;
       }
       int nHeightFirst = pindexLast->nHeight - (params.DifficultyAdjustmentInterval()-1);
       assert(nHeightFirst >= 0);
       const CBlockIndex* pindexFirst = pindexLast->GetAncestor(nHeightFirst);
       assert(pindexFirst);
       return CalculateNextWorkRequired(pindexLast, pindexFirst->GetBlockTime(), params);
   }
   None = an assert fails / division by zero. *)
Definition get_next_work_required (c : chain_params) (chain : list blk) (block_time : Z) : option Z :=
  match chain with
  | [] => None
  | last :: _ =>
    let h := height_of chain in
    let limit_bits := get_compact (cp_pow_limit c) false in
    if negb (cmod (h + 1) (interval c) =? 0) then
      if cp_allow_min_difficulty c then
        if block_time >? b_time last + wrap64 (cp_target_spacing c * 2) then Some limit_bits
        else min_difficulty_walk_back c limit_bits chain h
      else Some (b_bits last)
    else
      let h_first := h - (interval c - 1) in
      if h_first <? 0 then None
      else match ancestor_at chain h_first with
           | None => None
           | Some first => calc_next_work c (b_bits last) (b_bits first) (b_time first) (b_time last)
           end
  end.

(* int64_t GetMedianTimePast() const
   {
       int64_t pmedian[nMedianTimeSpan]; ...
       for (int i = 0; i < nMedianTimeSpan && pindex; i++, pindex = pindex->pprev)
           *(--pbegin) = pindex->GetBlockTime();
       std::sort(pbegin, pend);
       return pbegin[(pend - pbegin) / 2];
   } *)
Fixpoint insert_sorted (x : Z) (l : list Z) : list Z :=
  match l with
  | [] => [x]
  | y :: r => if x <=? y then x :: l else y :: insert_sorted x r
  end.
Fixpoint sort_z (l : list Z) : list Z :=
  match l with [] => [] | x :: r => insert_sorted x (sort_z r) end.

Definition median_time_past (chain : list blk) : option Z :=
  let ts := sort_z (map b_time (firstn (Z.to_nat MEDIAN_TIME_SPAN) chain)) in
  nth_error ts (Nat.div (length ts) 2).

(* ContextualCheckBlockHeader (src/validation.cpp), the difficulty and time rules, in code order:
       if (block.nBits != GetNextWorkRequired(pindexPrev, &block, consensusParams)) -> "bad-diffbits"
       if (block.GetBlockTime() <= pindexPrev->GetMedianTimePast())                  -> "time-too-old"
       if (consensusParams.enforce_BIP94)
           if (nHeight % consensusParams.DifficultyAdjustmentInterval() == 0)
               if (block.GetBlockTime() < pindexPrev->GetBlockTime() - MAX_TIMEWARP) -> "time-timewarp-attack"
       if (block.Time() > NodeClock::now() + std::chrono::seconds{MAX_FUTURE_BLOCK_TIME}) -> "time-too-new"
   (the version gates that follow belong to the deployment properties).  AcceptBlockHeader runs
   CheckBlockHeader (CheckProofOfWork on the header hash, "high-hash") before it. *)
Inductive header_result := HdrOk | HighHash | BadDiffBits | TimeTooOld | TimeWarp | TimeTooNew | HdrBug.

Definition contextual_check_header (c : chain_params) (prev_chain : list blk)
           (h_time h_bits now : Z) : header_result :=
  match prev_chain with
  | [] => HdrBug
  | prev :: _ =>
    let n_height := height_of prev_chain + 1 in
    match get_next_work_required c prev_chain h_time, median_time_past prev_chain with
    | Some required, Some mtp =>
      if negb (h_bits =? required) then BadDiffBits
      else if h_time <=? mtp then TimeTooOld
      else if cp_enforce_bip94 c && (cmod n_height (interval c) =? 0) && (h_time <? b_time prev - MAX_TIMEWARP)
           then TimeWarp
      else if h_time >? now + MAX_FUTURE_BLOCK_TIME then TimeTooNew
      else HdrOk
    | _, _ => HdrBug
    end
  end.

Definition accept_header (c : chain_params) (prev_chain : list blk)
           (h_hash h_time h_bits now : Z) : header_result :=
  if negb (check_pow (cp_pow_limit c) h_hash h_bits) then HighHash
  else contextual_check_header c prev_chain h_time h_bits now.

(* ---- executable predicates for the violation search (soundness in PowLemmas.v) ---- *)

(* what C07 says about a decoded compact value, judged on the implementation's (value, neg, ovf) *)
Definition holds_set_compact (c value : Z) (neg ovf : bool) : bool :=
  let m := compact_magnitude c in
  (value =? m mod 2 ^ 256)
  && Bool.eqb ovf (2 ^ 256 <=? m)
  && Bool.eqb neg (compact_sign c && negb (m =? 0)).

(* The reference encoder (the MPI-derived format the header comment describes): the size is the
   number of bytes of x with a leading zero byte when the top bit of the top byte is set, i.e. the
   smallest n >= 0 with 2*x < 256^n; the mantissa is the top three of those n bytes (left aligned
   when n < 3). *)
Fixpoint mpi_size_fuel (fuel : nat) (x n : Z) : Z :=
  match fuel with
  | O => n
  | S f => if 2 * x <? 256 ^ n then n else mpi_size_fuel f x (n + 1)
  end.
Definition mpi_size (x : Z) : Z := mpi_size_fuel 40 x 0.
Definition compact_encode_spec (x : Z) : Z :=
  let n := mpi_size x in
  (if n <=? 3 then x * 256 ^ (3 - n) else x / 256 ^ (n - 3)) + n * 2 ^ 24.

(* the truncation that encoding performs: the low n-3 bytes are dropped *)
Definition compact_exp (x : Z) : Z := Z.max 0 (mpi_size x - 3).
Definition compact_trunc (x : Z) : Z := x / 256 ^ compact_exp x * 256 ^ compact_exp x.

(* judged on the implementation's GetCompact(x) = c *)
Definition holds_get_compact (x c : Z) : bool :=
  (c =? compact_encode_spec x) && (compact_magnitude c =? compact_trunc x).

(* judged on the implementation's CalculateNextWorkRequired result for a valid old target *)
Definition retarget_spec (c : chain_params) (old actual : Z) : Z :=
  let T := cp_target_timespan c in
  let a := Z.max (T / 4) (Z.min (T * 4) actual) in
  Z.min (old * a / T) (cp_pow_limit c).

Definition holds_retarget (c : chain_params) (old actual new_bits : Z) : bool :=
  let new := compact_magnitude new_bits in
  (new_bits =? compact_encode_spec (retarget_spec c old actual))
  && (new <=? cp_pow_limit c) && (new <=? 4 * old) && (compact_trunc (old / 4) <=? new).
