(* Peer transports (property C32).  Transcribed from
     src/net.h      V1Transport::{Reset, CompleteInternal, ReceivedBytes}
     src/net.cpp    V1Transport::{readHeader, readData, GetReceivedMessage, SetMessageToSend, GetBytesToSend, MarkBytesSent}
                    V2Transport::{ProcessReceivedMaybeV1Bytes, ProcessReceivedKeyBytes, ProcessReceivedGarbageBytes,
                                  ProcessReceivedPacketBytes, GetMaxBytesToProcess, ReceivedBytes, GetMessageType,
                                  GetReceivedMessage, SetMessageToSend}, V2_MESSAGE_IDS, V2MessageMap
                    CNode::ReceiveMsgBytes (the loop that drives a transport)
     src/protocol.cpp CMessageHeader::{CMessageHeader, GetMessageType, IsMessageTypeValid}
     src/bip324.cpp BIP324Cipher::{Encrypt, DecryptLength, Decrypt} (framing only; the ciphers are parameters)
   Executable definitions only.  A byte is an N below 256; byte strings are lists.

   The cryptographic primitives are PARAMETERS of the model (Section variables, function arguments after
   extraction): the 4-byte v1 checksum function, and for v2 the session derived from the peer's key bytes,
   its garbage terminator, length cipher and AEAD.  The theorems name the premises they need about them. *)
From Coq Require Import NArith String Ascii.
From BV Require Import lib.Ints gen.Params_gen.
Local Open Scope Z_scope.

(* ------------------------------------------------------------------------------------------------ *)
(* byte-string helpers *)

Fixpoint bytes_eqb (a b : list N) : bool :=
  match a, b with
  | [], [] => true
  | x :: a', y :: b' => N.eqb x y && bytes_eqb a' b'
  | _, _ => false
  end.

(* std::equal(buf.begin(), buf.end(), pat.begin()): every byte of buf equals the byte of pat at the same
   position (buf is never longer than pat where the code uses it; a longer buf compares unequal here) *)
Fixpoint is_prefix_of (buf pat : list N) : bool :=
  match buf, pat with
  | [], _ => true
  | x :: b', y :: p' => N.eqb x y && is_prefix_of b' p'
  | _ :: _, [] => false
  end.

Definition lastn (n : nat) (l : list N) : list N := skipn (length l - n) l.

(* little-endian value of a byte string / k little-endian bytes of a value *)
Fixpoint le_value (l : list N) : Z :=
  match l with [] => 0 | b :: r => Z.of_N b + 256 * le_value r end.
Fixpoint le_bytes (k : nat) (v : Z) : list N :=
  match k with O => [] | S k' => Z.to_N (v mod 256) :: le_bytes k' (v / 256) end.

Definition zeros (n : nat) : list N := repeat 0%N n.

(* sizes as nat, from the generated constants *)
Definition HEADER_SIZE : nat := Z.to_nat TR_HEADER_SIZE.                 (* 24 *)
Definition MESSAGE_START_SIZE : nat := Z.to_nat TR_MESSAGE_START_SIZE.   (* 4 *)
Definition MESSAGE_TYPE_SIZE : nat := Z.to_nat TR_MESSAGE_TYPE_SIZE.     (* 12 *)
Definition MESSAGE_SIZE_SIZE : nat := Z.to_nat TR_MESSAGE_SIZE_SIZE.     (* 4 *)
Definition CHECKSUM_SIZE : nat := Z.to_nat TR_CHECKSUM_SIZE.             (* 4 *)

(* ------------------------------------------------------------------------------------------------ *)
(* what a connection hands to message processing *)

Inductive out :=
| Delivered (type payload : list N)   (* vRecvMsg.push_back(msg) *)
| Rejected.                           (* reject_message: dropped, connection kept *)

(* one iteration of the loop in CNode::ReceiveMsgBytes:
     while (msg_bytes.size() > 0) {
         if (!m_transport->ReceivedBytes(msg_bytes)) return false;            -> IFail
         if (m_transport->ReceivedMessageComplete()) {
             CNetMessage msg = m_transport->GetReceivedMessage(time, reject_message);
             if (reject_message) { ...; continue; }                           -> [Rejected]
             vRecvMsg.push_back(std::move(msg)); }                            -> [Delivered ..]
     }                                                                                            *)
Inductive iter_result (T : Type) :=
| IFail
| ICont (s : T) (rest : list N) (o : list out).
Arguments IFail {T}.
Arguments ICont {T} s rest o.

Inductive conn (T : Type) :=
| Alive (s : T) (outs : list out)   (* ReceiveMsgBytes returned true for every chunk so far *)
| Dead (outs : list out)            (* a ReceiveMsgBytes returned false: the peer is disconnected *)
| OutOfFuel.                        (* never produced (node_fuel_ok) *)
Arguments Alive {T} s outs.
Arguments Dead {T} outs.
Arguments OutOfFuel {T}.

Section Node.
  Variable T : Type.
  Variable iter : T -> list N -> iter_result T.

  Fixpoint node_loop (fuel : nat) (s : T) (bytes : list N) (acc : list out) : conn T :=
    match bytes with
    | [] => Alive s acc
    | _ :: _ =>
        match fuel with
        | O => OutOfFuel
        | S f =>
            match iter s bytes with
            | IFail => Dead acc
            | ICont s' rest o => node_loop f s' rest (acc ++ o)
            end
        end
    end.

  (* one call of ReceiveMsgBytes with one chunk; every iteration consumes at least one byte *)
  Definition node_recv (c : conn T) (chunk : list N) : conn T :=
    match c with
    | Alive s acc => node_loop (length chunk) s chunk acc
    | Dead acc => Dead acc        (* a disconnected peer's socket is not read again *)
    | OutOfFuel => OutOfFuel
    end.

  Definition node_recv_chunks (c : conn T) (chunks : list (list N)) : conn T :=
    fold_left node_recv chunks c.
End Node.
Arguments node_loop {T} iter fuel s bytes acc.
Arguments node_recv {T} iter c chunk.
Arguments node_recv_chunks {T} iter c chunks.

Definition conn_outs {T} (c : conn T) : list out :=
  match c with Alive _ o => o | Dead o => o | OutOfFuel => [] end.
Definition conn_dead {T} (c : conn T) : bool :=
  match c with Dead _ => true | _ => false end.

(* ------------------------------------------------------------------------------------------------ *)
(* message type strings *)

(* std::string(m_msg_type, m_msg_type + strnlen(m_msg_type, MESSAGE_TYPE_SIZE)) *)
Fixpoint until_nul (l : list N) : list N :=
  match l with
  | [] => []
  | b :: r => if N.eqb b 0 then [] else b :: until_nul r
  end.

Fixpoint all_zero (l : list N) : bool :=
  match l with [] => true | b :: r => N.eqb b 0 && all_zero r end.

(* bool CMessageHeader::IsMessageTypeValid() const:
     for (p1 = m_msg_type; p1 < m_msg_type + MESSAGE_TYPE_SIZE; ++p1) {
         if ( *p1 == 0) { for (; p1 < end; ++p1) if ( *p1 != 0) return false; }
         else if ( *p1 < ' ' || *p1 > 0x7E) return false; }
     return true;
   (char is signed on the supported targets: bytes >= 0x80 are negative, hence < ' ') *)
Fixpoint type_chars_valid (hi : N) (l : list N) : bool :=
  match l with
  | [] => true
  | b :: r => if N.eqb b 0 then all_zero r
              else if (N.ltb b 32 || N.ltb hi b)%bool then false else type_chars_valid hi r
  end.
Definition v1_type_valid (t12 : list N) : bool := type_chars_valid 126 t12.

(* what a sender may pass as a message type: at most 12 characters, none NUL
   (CMessageHeader's constructor asserts the length; c_str() stops at a NUL) *)
Definition type_sendable (t : list N) : bool :=
  (Nat.leb (length t) MESSAGE_TYPE_SIZE) && forallb (fun b => negb (N.eqb b 0)) t.
Definition pad_type (t : list N) : list N := t ++ zeros (MESSAGE_TYPE_SIZE - length t).

(* ------------------------------------------------------------------------------------------------ *)
(* V1 *)

Section V1.
  Variable magic : list N.              (* Params().MessageStart() *)
  Variable H4 : list N -> list N.       (* first CHECKSUM_SIZE bytes of Hash(payload) (double SHA-256) *)

  (* receiver: in_data=false with nHdrPos=|buf| bytes of header, or in_data=true with the complete
     24 header bytes and nDataPos=|data| bytes of payload (the incremental hasher has seen exactly data) *)
  Inductive v1st :=
  | V1H (buf : list N)
  | V1D (hdr data : list N).

  Definition v1_init : v1st := V1H [].     (* Reset() *)

  (* SERIALIZE_METHODS(CMessageHeader): pchMessageStart(4) m_msg_type(12) nMessageSize(LE32) pchChecksum(4) *)
  Definition hdr_magic (h : list N) : list N := firstn MESSAGE_START_SIZE h.
  Definition hdr_type (h : list N) : list N := firstn MESSAGE_TYPE_SIZE (skipn MESSAGE_START_SIZE h).
  Definition hdr_size (h : list N) : Z :=
    le_value (firstn MESSAGE_SIZE_SIZE (skipn (MESSAGE_START_SIZE + MESSAGE_TYPE_SIZE) h)).
  Definition hdr_cks (h : list N) : list N :=
    firstn CHECKSUM_SIZE (skipn (MESSAGE_START_SIZE + MESSAGE_TYPE_SIZE + MESSAGE_SIZE_SIZE) h).

  (* unsigned int nCopy = std::min<unsigned int>(nRemaining, msg_bytes.size());
     both operands are converted to unsigned int (32 bits) *)
  Definition ncopy (remaining : Z) (avail : nat) : nat :=
    Z.to_nat (Z.min (wrapu32 remaining) (wrapu32 (Z.of_nat avail))).

  (* bool ReceivedBytes(std::span<const uint8_t>& msg_bytes) {
         int ret = in_data ? readData(msg_bytes) : readHeader(msg_bytes);
         if (ret < 0) Reset(); else msg_bytes = msg_bytes.subspan(ret);
         return ret >= 0; }
     readHeader: copy nCopy bytes; if (nHdrPos < HEADER_SIZE) return nCopy; deserialize (cannot throw with
       24 bytes); if (hdr.pchMessageStart != m_magic_bytes) return -1;
       if (hdr.nMessageSize > MAX_SIZE || hdr.nMessageSize > MAX_PROTOCOL_MESSAGE_LENGTH) return -1;
       in_data = true; return nCopy;
     readData: nRemaining = hdr.nMessageSize - nDataPos; copy nCopy bytes, feed the hasher; return nCopy *)
  Definition v1_received_bytes (s : v1st) (bytes : list N) : option v1st * list N :=
    match s with
    | V1H buf =>
        let n := ncopy (Z.of_nat HEADER_SIZE - Z.of_nat (length buf)) (length bytes) in
        let buf' := buf ++ firstn n bytes in
        if Nat.ltb (length buf') HEADER_SIZE then (Some (V1H buf'), skipn n bytes)
        else if negb (bytes_eqb (hdr_magic buf') magic) then (None, bytes)
        else if (TR_MAX_SIZE <? hdr_size buf') || (TR_MAX_PROTOCOL_MESSAGE_LENGTH <? hdr_size buf') then (None, bytes)
        else (Some (V1D buf' []), skipn n bytes)
    | V1D hdr data =>
        let n := ncopy (hdr_size hdr - Z.of_nat (length data)) (length bytes) in
        (Some (V1D hdr (data ++ firstn n bytes)), skipn n bytes)
    end.

  (* bool CompleteInternal() { if (!in_data) return false; return hdr.nMessageSize == nDataPos; } *)
  Definition v1_complete (s : v1st) : bool :=
    match s with
    | V1H _ => false
    | V1D hdr data => hdr_size hdr =? Z.of_nat (length data)
    end.

  (* CNetMessage V1Transport::GetReceivedMessage(time, bool& reject_message):
       msg.m_type = hdr.GetMessageType(); hash = GetMessageHash();
       if (memcmp(hash.begin(), hdr.pchChecksum, CHECKSUM_SIZE) != 0) reject_message = true;
       else if (!hdr.IsMessageTypeValid()) reject_message = true;
       Reset(); return msg; *)
  Definition v1_get_received_message (s : v1st) : out :=
    match s with
    | V1H _ => Rejected      (* not reachable: only called when complete *)
    | V1D hdr data =>
        if negb (bytes_eqb (H4 data) (hdr_cks hdr)) then Rejected
        else if negb (v1_type_valid (hdr_type hdr)) then Rejected
        else Delivered (until_nul (hdr_type hdr)) data
    end.

  Definition v1_iter (s : v1st) (bytes : list N) : iter_result v1st :=
    match v1_received_bytes s bytes with
    | (None, _) => IFail
    | (Some s1, rest) =>
        if v1_complete s1 then ICont v1_init rest [v1_get_received_message s1]
        else ICont s1 rest []
    end.

  (* sender: bool V1Transport::SetMessageToSend(CSerializedNetMsg& msg):
       uint256 hash = Hash(msg.data);
       CMessageHeader hdr(m_magic_bytes, msg.m_type.c_str(), msg.data.size());   (size converted to unsigned int)
       memcpy(hdr.pchChecksum, hash.begin(), CHECKSUM_SIZE); VectorWriter{m_header_to_send, 0, hdr}; *)
  Definition v1_header (type payload : list N) : list N :=
    magic ++ pad_type type ++ le_bytes MESSAGE_SIZE_SIZE (wrapu32 (Z.of_nat (length payload))) ++ H4 payload.
  Definition v1_encode (type payload : list N) : list N := v1_header type payload ++ payload.

  (* the send-side state machine: m_sending_header, m_bytes_sent, m_header_to_send, m_message_to_send.data *)
  Record v1send := { sd_hdr_phase : bool; sd_sent : nat; sd_header : list N; sd_data : list N }.
  Definition v1send_init : v1send := {| sd_hdr_phase := false; sd_sent := 0; sd_header := []; sd_data := [] |}.
  (* if (m_sending_header || m_bytes_sent < m_message_to_send.data.size()) return false; ... *)
  Definition v1_set_message_to_send (s : v1send) (type payload : list N) : option v1send :=
    if sd_hdr_phase s || Nat.ltb (sd_sent s) (length (sd_data s)) then None
    else Some {| sd_hdr_phase := true; sd_sent := 0; sd_header := v1_header type payload; sd_data := payload |}.
  (* GetBytesToSend: header.subspan(m_bytes_sent) or data.subspan(m_bytes_sent) *)
  Definition v1_bytes_to_send (s : v1send) : list N :=
    if sd_hdr_phase s then skipn (sd_sent s) (sd_header s) else skipn (sd_sent s) (sd_data s).
  (* MarkBytesSent(bytes_sent): m_bytes_sent += bytes_sent;
       if (m_sending_header && m_bytes_sent == m_header_to_send.size()) { m_sending_header = false; m_bytes_sent = 0; }
       else if (!m_sending_header && m_bytes_sent == m_message_to_send.data.size()) { ClearShrink(data); m_bytes_sent = 0; } *)
  Definition v1_mark_bytes_sent (s : v1send) (n : nat) : v1send :=
    let sent := (sd_sent s + n)%nat in
    if sd_hdr_phase s && Nat.eqb sent (length (sd_header s)) then
      {| sd_hdr_phase := false; sd_sent := 0; sd_header := sd_header s; sd_data := sd_data s |}
    else if negb (sd_hdr_phase s) && Nat.eqb sent (length (sd_data s)) then
      {| sd_hdr_phase := false; sd_sent := 0; sd_header := sd_header s; sd_data := [] |}
    else {| sd_hdr_phase := sd_hdr_phase s; sd_sent := sent; sd_header := sd_header s; sd_data := sd_data s |}.

  (* a socket writer: repeatedly take the bytes offered, send the first k of them (k from the schedule,
     at least one byte, at most what is offered), mark them sent; stops when nothing is offered *)
  Fixpoint v1_pump (sched : list nat) (s : v1send) (acc : list N) : v1send * list N :=
    match sched with
    | [] => (s, acc)
    | k :: r =>
        let avail := v1_bytes_to_send s in
        match avail with
        | [] => (s, acc)
        | _ => let k' := Nat.max 1 (Nat.min k (length avail)) in
               v1_pump r (v1_mark_bytes_sent s k') (acc ++ firstn k' avail)
        end
    end.
End V1.

(* ------------------------------------------------------------------------------------------------ *)
(* V2: message type encoding inside a packet's contents *)

Fixpoint bytes_of_ascii (s : String.string) : list N :=
  match s with
  | String.EmptyString => []
  | String.String c r => N.of_nat (Ascii.nat_of_ascii c) :: bytes_of_ascii r
  end.

(* The short message type ids of BIP324 (its table "v2 Bitcoin P2P message structure"), ids 1..28, followed by
   this tree's additions: ids 29..36 reserved (decoded as the empty type) and 37 = "feature".
   This list is written from the specification, NOT generated: Properties_C32 proves that the table compiled
   into net.cpp (TR_V2_SHORTID_DECODE, printed through V2Transport::GetMessageType) is exactly this one. *)
Definition BIP324_SHORT_IDS : list (list N) := map bytes_of_ascii [
  "addr"; "block"; "blocktxn"; "cmpctblock"; "feefilter"; "filteradd"; "filterclear"; "filterload";
  "getblocks"; "getblocktxn"; "getdata"; "getheaders"; "headers"; "inv"; "mempool"; "merkleblock";
  "notfound"; "ping"; "pong"; "sendcmpct"; "tx"; "getcfilters"; "cfilter"; "getcfheaders"; "cfheaders";
  "getcfcheckpt"; "cfcheckpt"; "addrv2";
  ""; ""; ""; ""; ""; ""; ""; "";
  "feature" ]%string.

Section V2Types.
  Variable ids : list (list N).      (* V2_MESSAGE_IDS[1..] *)

  (* V2MessageMap: for (i = 1; i < size; ++i) m_map.emplace(V2_MESSAGE_IDS[i], i);  emplace keeps the FIRST
     index of a repeated name (the reserved ids all carry the empty name) *)
  Fixpoint find_id (l : list (list N)) (i : N) (t : list N) : option N :=
    match l with
    | [] => None
    | x :: r => if bytes_eqb x t then Some i else find_id r (N.succ i) t
    end.
  Definition v2_short_id (t : list N) : option N := find_id ids 1 t.

  (* SetMessageToSend: contents = short id ‖ payload, or 0x00 ‖ 12 bytes of type padded with 0x00 ‖ payload *)
  Definition v2_contents (type payload : list N) : list N :=
    match v2_short_id type with
    | Some i => i :: payload
    | None => 0%N :: pad_type type ++ payload
    end.

  (* std::optional<std::string> V2Transport::GetMessageType(std::span<const uint8_t>& contents):
       if (contents.size() == 0) return nullopt; first_byte = contents[0]; strip it;
       if (first_byte != 0) { if (first_byte < std::size(V2_MESSAGE_IDS)) return V2_MESSAGE_IDS[first_byte]; else return nullopt; }
       if (contents.size() < MESSAGE_TYPE_SIZE) return nullopt;
       chars before the first 0x00 must be in [' ', 0x7F]; everything after it must be 0x00; strip 12 bytes *)
  Definition v2_get_message_type (contents : list N) : option (list N * list N) :=
    match contents with
    | [] => None
    | b :: rest =>
        if negb (N.eqb b 0) then
          match nth_error ids (N.to_nat b - 1) with
          | Some t => Some (t, rest)
          | None => None
          end
        else if Nat.ltb (length rest) MESSAGE_TYPE_SIZE then None
        else let t12 := firstn MESSAGE_TYPE_SIZE rest in
             if type_chars_valid 127 t12 then Some (until_nul t12, skipn MESSAGE_TYPE_SIZE rest)
             else None
    end.

  (* GetReceivedMessage in APP_READY: reject_message = !msg_type *)
  Definition v2_get_received_message (contents : list N) : out :=
    match v2_get_message_type contents with
    | Some (t, p) => Delivered t p
    | None => Rejected
    end.
End V2Types.

(* ------------------------------------------------------------------------------------------------ *)
(* V2 receiver *)

Definition ELLSWIFT_SIZE : nat := Z.to_nat TR_ELLSWIFT_SIZE.                   (* 64 *)
Definition V1_PREFIX_LEN : nat := 16.                                          (* private constant; tied by the fallback cases *)
Definition GARBAGE_TERMINATOR_LEN : nat := Z.to_nat TR_GARBAGE_TERMINATOR_LEN. (* 16 *)
Definition MAX_GARBAGE_LEN : nat := Z.to_nat TR_MAX_GARBAGE_LEN.               (* 4095 *)
Definition LENGTH_LEN : nat := Z.to_nat TR_LENGTH_LEN.                         (* 3 *)
(* static constexpr size_t MAX_CONTENTS_LEN = 1 + MESSAGE_TYPE_SIZE + std::min<size_t>(MAX_SIZE, MAX_PROTOCOL_MESSAGE_LENGTH); *)
Definition MAX_CONTENTS_LEN : Z := 1 + TR_MESSAGE_TYPE_SIZE + Z.min TR_MAX_SIZE TR_MAX_PROTOCOL_MESSAGE_LENGTH.

Definition VERSION_TAIL : list N := bytes_of_ascii "version"%string ++ zeros 5.  (* 'v','e','r','s','i','o','n',0,0,0,0,0 *)

Section V2.
  Variable magic : list N.
  Variable H4 : list N -> list N.
  Variable ids : list (list N).
  Variable initiating : bool.
  (* the cipher, as the receiver uses it *)
  Variable S : Type.                                   (* an initialised BIP324Cipher (receive half) *)
  Variable kex : list N -> S.                          (* m_cipher.Initialize(their 64 key bytes, m_initiating) *)
  Variable rterm : S -> list N.                        (* GetReceiveGarbageTerminator() *)
  Variable ldec : S -> nat -> list N -> Z.             (* DecryptLength of the n-th packet's 3 length bytes *)
  Variable pdec : S -> nat -> list N -> list N -> option (N * list N).
                                                       (* Decrypt of the n-th packet: aad, input -> header byte, contents *)

  (* m_recv_state with the members that are live in it.  APP_READY is not a resting state of the
     ReceiveMsgBytes loop: the message is extracted in the iteration that completes it. *)
  Inductive v2st :=
  | SMaybeV1 (buf : list N)                                         (* KEY_MAYBE_V1 *)
  | SKey (buf : list N)                                             (* KEY *)
  | SGarb (s : S) (buf : list N)                                    (* GARB_GARBTERM *)
  | SPkt (s : S) (app : bool) (cnt : nat) (aad buf : list N) (len : Z)   (* VERSION (app=false) / APP; len = m_recv_len *)
  | SV1 (v : v1st).                                                 (* V1 (fallback) *)

  Definition v2_init : v2st := if initiating then SKey [] else SMaybeV1 [].

  Definition v1_prefix : list N := magic ++ VERSION_TAIL.

  (* one pass of the loop in V2Transport::ReceivedBytes followed, when it reaches APP_READY, by the
     GetReceivedMessage of the caller:
        max_read = min(msg_bytes.size(), GetMaxBytesToProcess()); append; switch (m_recv_state) Process...  *)
  Definition v2_iter (st : v2st) (bytes : list N) : iter_result v2st :=
    match st with
    | SMaybeV1 buf =>
        (* GetMaxBytesToProcess: V1_PREFIX_LEN - m_recv_buffer.size() *)
        let need := (V1_PREFIX_LEN - length buf)%nat in
        let buf' := buf ++ firstn need bytes in
        let rest := skipn need bytes in
        (* ProcessReceivedMaybeV1Bytes *)
        if negb (is_prefix_of buf' v1_prefix) then ICont (SKey buf') rest []
        else if Nat.eqb (length buf') V1_PREFIX_LEN then
          (* bool ret = m_v1_fallback.ReceivedBytes(feedback); Assume(ret) — the result is not acted on *)
          let v := match fst (v1_received_bytes magic v1_init buf') with Some v => v | None => v1_init end in
          ICont (SV1 v) rest []
        else ICont (SMaybeV1 buf') rest []
    | SKey buf =>
        (* EllSwiftPubKey::size() - m_recv_buffer.size() *)
        let need := (ELLSWIFT_SIZE - length buf)%nat in
        let buf' := buf ++ firstn need bytes in
        let rest := skipn need bytes in
        (* ProcessReceivedKeyBytes: if (!m_initiating && size >= OFFSET + MATCH.size() && equal(MATCH, buf+OFFSET)) return false *)
        if negb initiating && Nat.leb (MESSAGE_START_SIZE + 12) (length buf')
           && bytes_eqb (firstn 12 (skipn MESSAGE_START_SIZE buf')) VERSION_TAIL then IFail
        else if Nat.eqb (length buf') ELLSWIFT_SIZE then ICont (SGarb (kex buf') []) rest []
        else ICont (SKey buf') rest []
    | SGarb s buf =>
        (* GetMaxBytesToProcess: 1 *)
        let buf' := buf ++ firstn 1 bytes in
        let rest := skipn 1 bytes in
        (* ProcessReceivedGarbageBytes *)
        if Nat.leb GARBAGE_TERMINATOR_LEN (length buf') then
          if bytes_eqb (lastn GARBAGE_TERMINATOR_LEN buf') (rterm s) then
            ICont (SPkt s false 0 (firstn (length buf' - GARBAGE_TERMINATOR_LEN) buf') [] 0) rest []
          else if Nat.eqb (length buf') (MAX_GARBAGE_LEN + GARBAGE_TERMINATOR_LEN) then IFail
          else ICont (SGarb s buf') rest []
        else ICont (SGarb s buf') rest []
    | SPkt s app cnt aad buf len =>
        (* GetMaxBytesToProcess: size < LENGTH_LEN ? LENGTH_LEN - size : EXPANSION + m_recv_len - size
           (EXPANSION + m_recv_len is an unsigned 32-bit sum);  max_read = std::min(msg_bytes.size(), max_read)
           (the minimum is taken before converting to a count: an announced length can be 2^24) *)
        let need := if Nat.ltb (length buf) LENGTH_LEN then (LENGTH_LEN - length buf)%nat
                    else Z.to_nat (Z.min (wrapu32 (TR_EXPANSION + len) - Z.of_nat (length buf)) (Z.of_nat (length bytes))) in
        let buf' := buf ++ firstn need bytes in
        let rest := skipn need bytes in
        (* ProcessReceivedPacketBytes *)
        if Nat.eqb (length buf') LENGTH_LEN then
          let len' := ldec s cnt buf' in
          if MAX_CONTENTS_LEN <? len' then IFail
          else ICont (SPkt s app cnt aad buf' len') rest []
        else if Nat.ltb LENGTH_LEN (length buf') && (Z.of_nat (length buf') =? wrapu32 (len + TR_EXPANSION)) then
          match pdec s cnt aad (skipn LENGTH_LEN buf') with
          | None => IFail
          | Some (hdr, contents) =>
              (* ignore = (header[0] & IGNORE_BIT) == IGNORE_BIT;  ClearShrink(m_recv_aad) *)
              if N.eqb (N.land hdr (Z.to_N TR_IGNORE_BIT)) (Z.to_N TR_IGNORE_BIT) then
                ICont (SPkt s app (Datatypes.S cnt) [] [] len) rest []
              else if app then
                (* APP -> APP_READY; GetReceivedMessage -> APP *)
                ICont (SPkt s true (Datatypes.S cnt) [] [] len) rest [v2_get_received_message ids contents]
              else
                (* VERSION -> APP: the version packet's contents are ignored *)
                ICont (SPkt s true (Datatypes.S cnt) [] [] len) rest []
          end
        else ICont (SPkt s app cnt aad buf' len) rest []
    | SV1 v =>
        (* if (m_recv_state == RecvState::V1) return m_v1_fallback.ReceivedBytes(msg_bytes); *)
        match v1_iter magic H4 v bytes with
        | IFail => IFail
        | ICont v' rest o => ICont (SV1 v') rest o
        end
    end.
End V2.
Arguments SMaybeV1 {S} buf.
Arguments SKey {S} buf.
Arguments SGarb {S} s buf.
Arguments SPkt {S} s app cnt aad buf len.
Arguments SV1 {S} v.

(* ------------------------------------------------------------------------------------------------ *)
(* V2 sender (a peer): the byte stream of a connection direction *)

Section V2Send.
  Variable sterm : list N.                                 (* GetSendGarbageTerminator() *)
  Variable lenc : nat -> Z -> list N.                      (* length cipher on the n-th packet *)
  Variable penc : nat -> list N -> N -> list N -> list N.  (* AEAD on the n-th packet: aad, header byte, contents *)

  (* BIP324Cipher::Encrypt(contents, aad, ignore, output): 3 encrypted length bytes of contents.size(),
     then the AEAD of header ‖ contents under aad *)
  Definition v2_packet (n : nat) (aad : list N) (ignore : bool) (contents : list N) : list N :=
    lenc n (Z.of_nat (length contents)) ++ penc n aad (if ignore then Z.to_N TR_IGNORE_BIT else 0%N) contents.

  (* packets in order; only the first carries the garbage as AAD *)
  Fixpoint v2_packets (n : nat) (aad : list N) (pkts : list (bool * list N)) : list N :=
    match pkts with
    | [] => []
    | (ig, c) :: r => v2_packet n aad ig c ++ v2_packets (Datatypes.S n) [] r
    end.

  (* StartSendingHandshake + ProcessReceivedKeyBytes: key ‖ garbage ‖ terminator ‖ packets (AAD = garbage) *)
  Definition v2_stream (pk garbage : list N) (pkts : list (bool * list N)) : list N :=
    pk ++ garbage ++ sterm ++ v2_packets 0 garbage pkts.
End V2Send.

(* what a receiver must deliver for a packet sequence: decoys are skipped, the first other packet is the
   version packet, the rest are messages *)
Section V2Spec.
  Variable ids : list (list N).
  Fixpoint v2_expected (app : bool) (pkts : list (bool * list N)) : list out :=
    match pkts with
    | [] => []
    | (true, _) :: r => v2_expected app r
    | (false, c) :: r => if app then v2_get_received_message ids c :: v2_expected true r
                         else v2_expected true r
    end.
End V2Spec.

(* ------------------------------------------------------------------------------------------------ *)
(* executable predicate of the property on one observed direction:
     sent      what the sending side handed to its transport, as the receiver should report it
     got       what the receiving side delivered
     tampered  whether any wire byte was altered
     dead      whether the receiving side's ReceiveMsgBytes returned false
   C32: the delivered sequence is a prefix of the sent one, and the whole of it when nothing was altered. *)
Definition out_eqb (a b : out) : bool :=
  match a, b with
  | Delivered t p, Delivered t' p' => bytes_eqb t t' && bytes_eqb p p'
  | Rejected, Rejected => true
  | _, _ => false
  end.
Fixpoint outs_prefix (a b : list out) : bool :=
  match a, b with
  | [], _ => true
  | x :: a', y :: b' => out_eqb x y && outs_prefix a' b'
  | _ :: _, [] => false
  end.
Fixpoint outs_eqb (a b : list out) : bool :=
  match a, b with
  | [], [] => true
  | x :: a', y :: b' => out_eqb x y && outs_eqb a' b'
  | _, _ => false
  end.
Definition delivered_payloads (l : list out) : list (list N) :=
  flat_map (fun o => match o with Delivered _ p => [p] | Rejected => [] end) l.
Fixpoint payload_subseq (got sent : list (list N)) : bool :=
  match sent with
  | [] => match got with [] => true | _ => false end
  | s :: sent' =>
      match got with
      | [] => true
      | g :: got' => if bytes_eqb g s then payload_subseq got' sent' else payload_subseq got sent'
      end
  end.
(* v1: untampered -> exactly the sent sequence, connection up; tampered -> (the checksum covers the payload
   only) every delivered payload is a sent payload, in order *)
Definition holds_v1 (tampered : bool) (sent got : list out) (dead : bool) : bool :=
  if tampered then payload_subseq (delivered_payloads got) (delivered_payloads sent)
  else outs_eqb got sent && negb dead.
(* v2: untampered -> exactly what the packet sequence must deliver, connection up; tampered -> an initial
   segment of it *)
Definition holds_v2 (tampered : bool) (sent got : list out) (dead : bool) : bool :=
  if tampered then outs_prefix got sent
  else outs_eqb got sent && negb dead.
