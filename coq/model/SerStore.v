(* Block-file storage primitives.  Transcribed from
     src/util/obfuscation.h     Obfuscation::SetRotations, ToKey, XorWord, operator()
     src/node/blockstorage.cpp  BlockManager::WriteBlock (record layout), ReadRawBlock, ReadBlock, ReadBlockUndo (what it looks at)
   (little-endian host, as on every platform the project supports; std::endian::native == little)
   Executable definitions only (proofs are in proofs/SerStoreLemmas.v). *)
From Coq Require Import NArith.
From BV Require Import lib.Ints gen.Params_gen model.SerBase model.SerTx.
Local Open Scope Z_scope.

(* static KeyType ToKey(span<const std::byte, 8> key_span) { KeyType key{}; std::memcpy(&key, key_span.data(), 8); return key; } *)
Definition to_key (key_bytes : list N) : Z := le_value key_bytes.

(* std::rotr(key, r) on uint64_t, 0 <= r < 64 *)
Definition rotr64 (key r : Z) : Z :=
  if r =? 0 then key else Z.lor (Z.shiftr key r) (wrapu64 (Z.shiftl key (64 - r))).

(* void SetRotations(KeyType key) { for (size_t i{0}; i < KEY_SIZE; ++i) { int key_rotation_bits{int(CHAR_BIT * i)}; ...
       m_rotations[i] = std::rotr(key, key_rotation_bits); } } *)
Definition rotation (key : Z) (i : Z) : Z := rotr64 key (8 * i).

(* static void XorWord(span<std::byte> target, KeyType key)
   {
       assert(target.size() <= KEY_SIZE);
       if (target.empty()) return;
       KeyType raw{};
       std::memcpy(&raw, target.data(), target.size());
       raw ^= key;
       std::memcpy(target.data(), &raw, target.size());
   } *)
Definition xor_word (target : list N) (key : Z) : list N :=
  match target with
  | [] => []
  | _ => firstn (length target) (le_bytes 8 (Z.lxor (le_value target) key))
  end.

(* for (constexpr auto unroll{8}; target.size() >= KEY_SIZE * unroll; target = target.subspan(KEY_SIZE * unroll))
       for (size_t i{0}; i < unroll; ++i) XorWord(target.subspan(i * KEY_SIZE, KEY_SIZE), rot_key);
   The nat argument bounds the number of iterations by the length (each one consumes 64 bytes). *)
Fixpoint xor_words_in (n : nat) (block : list N) (key : Z) : list N :=
  match n with
  | O => block
  | S n' => xor_word (firstn 8 block) key ++ xor_words_in n' (skipn 8 block) key
  end.
Fixpoint xor_chunks64 (fuel : nat) (target : list N) (key : Z) : list N * list N :=
  match fuel with
  | O => ([], target)
  | S f =>
    if (64 <=? length target)%nat then
      let '(done, rest) := xor_chunks64 f (skipn 64 target) key in
      (xor_words_in 8 (firstn 64 target) key ++ done, rest)
    else ([], target)
  end.
(* for (; target.size() >= KEY_SIZE; target = target.subspan(KEY_SIZE)) XorWord(target.first<KEY_SIZE>(), rot_key); *)
Fixpoint xor_chunks8 (fuel : nat) (target : list N) (key : Z) : list N * list N :=
  match fuel with
  | O => ([], target)
  | S f =>
    if (8 <=? length target)%nat then
      let '(done, rest) := xor_chunks8 f (skipn 8 target) key in
      (xor_word (firstn 8 target) key ++ done, rest)
    else ([], target)
  end.

(* void operator()(span<std::byte> target, size_t key_offset = 0) const
   {
       if (!*this) return;                                            // m_rotations[0] == 0
       KeyType rot_key{m_rotations[key_offset % KEY_SIZE]};
       if (target.size() > KEY_SIZE) {
           if (const auto misalign{reinterpret_cast<uintptr_t>(target.data()) % KEY_SIZE}) {
               const size_t alignment{KEY_SIZE - misalign};
               XorWord(target.first(alignment), rot_key);
               target = {target.data() + alignment, target.size() - alignment};
               rot_key = m_rotations[(key_offset + alignment) % KEY_SIZE];
           }
           ... the two chunk loops ...
       }
       XorWord(target, rot_key);
   }
   `misalign` (0..7) is the address of the buffer modulo 8: a free parameter of the model. *)
Definition obfuscate (key_bytes : list N) (key_offset misalign : Z) (target : list N) : list N :=
  let key := to_key key_bytes in
  if key =? 0 then target
  else
    let rot_key := rotation key (key_offset mod 8) in
    if (8 <? length target)%nat then
      let '(pre, t1, rot1) :=
        if misalign =? 0 then ([], target, rot_key)
        else let alignment := 8 - misalign in
             (xor_word (firstn (Z.to_nat alignment) target) rot_key, skipn (Z.to_nat alignment) target,
              rotation key ((key_offset + alignment) mod 8)) in
      let '(d64, t2) := xor_chunks64 (length t1) t1 rot1 in
      let '(d8, t3) := xor_chunks8 (length t2) t2 rot1 in
      pre ++ d64 ++ d8 ++ xor_word t3 rot1
    else xor_word target rot_key.

(* the specification: byte j is XORed with key byte (key_offset + j) mod 8 *)
Fixpoint xor_stream (key_bytes : list N) (off : Z) (target : list N) : list N :=
  match target with
  | [] => []
  | b :: r => N.lxor b (nth (Z.to_nat (off mod 8)) key_bytes 0%N) :: xor_stream key_bytes (off + 1) r
  end.

(* ---- block records in a blk file (plaintext, i.e. after the obfuscation layer) ----
   WriteBlock:   fileout << GetParams().MessageStart() << block_size;  pos.nPos += STORAGE_HEADER_BYTES;  fileout << TX_WITH_WITNESS(block);
   The index stores the position of the payload (8 bytes after the start of the record). *)
Definition write_record (magic payload : list N) : list N :=
  magic ++ write_le 4 (Z.of_nat (length payload)) ++ payload.

Fixpoint bytes_eq (a b : list N) : bool :=
  match a, b with
  | [], [] => true
  | x :: a', y :: b' => (x =? y)%N && bytes_eq a' b'
  | _, _ => false
  end.

(* ReadRawBlockResult BlockManager::ReadRawBlock(const FlatFilePos& pos, ...) const
   {
       if (pos.nPos < STORAGE_HEADER_BYTES) return Unexpected{ReadRawError::IO};
       AutoFile filein{OpenBlockFile({pos.nFile, pos.nPos - STORAGE_HEADER_BYTES}, true)};    // fseek to pos - 8
       try {
           MessageStartChars blk_start; unsigned int blk_size;
           filein >> blk_start >> blk_size;
           if (blk_start != GetParams().MessageStart()) return Unexpected{IO};
           if (blk_size > MAX_SIZE) return Unexpected{IO};
           std::vector<std::byte> data(blk_size);
           filein.read(data);
           return data;
       } catch (const std::exception& e) { return Unexpected{IO}; }                          // short read
   }
   `file` is the plaintext content of the block file; None = ReadRawError::IO. *)
Definition read_raw_block (magic file : list N) (pos : Z) : option (list N) :=
  if pos <? 8 then None
  else
    let s := skipn (Z.to_nat (pos - 8)) file in
    match read_bytes 4 s with
    | Err _ => None
    | Ok m s1 =>
      match read_le 4 s1 with
      | Err _ => None
      | Ok size s2 =>
        if negb (bytes_eq m magic) then None
        else if size >? MAX_SIZE then None
        else match read_bytes_z size s2 with Ok data _ => Some data | Err _ => None end
      end
    end.

(* bool BlockManager::ReadBlock(CBlock& block, const FlatFilePos& pos, const std::optional<uint256>& expected_hash) const
   {
       const auto block_data{ReadRawBlock(pos)};            if (!block_data) return false;
       try { SpanReader{*block_data} >> TX_WITH_WITNESS(block); } catch (...) { return false; }
       const auto block_hash{block.GetHash()};
       if (!CheckProofOfWork(block_hash, block.nBits, GetConsensus())) return false;
       if (expected_hash && block_hash != *expected_hash) return false;
       return true;
   }
   header_ok stands for the two hash tests on the 80 header bytes (proof of work, equality with the
   indexed hash); trailing bytes after the block inside the record are not an error (SpanReader). *)
Definition read_block (header_ok : header -> bool) (magic file : list N) (pos : Z) : bool :=
  match read_raw_block magic file pos with
  | None => false
  | Some data =>
    match unser_block true data with
    | Ok b _ => header_ok (b_header b)
    | Err _ => false
    end
  end.

(* a single-byte corruption of a file: XOR `mask` into the byte at offset `at` *)
Fixpoint flip_byte (file : list N) (at_ : nat) (mask : N) : list N :=
  match file, at_ with
  | [], _ => []
  | b :: r, O => N.lxor b mask :: r
  | b :: r, S k => b :: flip_byte r k mask
  end.

(* ReadBlockUndo reads the undo payload and the 32-byte checksum that follows it starting at the
   indexed position; it never looks at the 8 header bytes of the undo record.  With a collision-free
   checksum, a single-byte corruption of the record [header(8) | payload(usize) | checksum(32)] is
   noticed exactly when it is not in the header. *)
Definition undo_read_ok_after_flip (usize rel_off : Z) (mask : N) : bool :=
  (mask =? 0)%N || (rel_off <? 8) || (8 + usize + 32 <=? rel_off).
