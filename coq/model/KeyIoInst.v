(* C45 — executable instance of the key_io model: Hash() = double SHA-256 (model/CryptoSHA256.v),
   chain prefixes / HRPs and the bech32 character limit as generated from the compiled tree. *)
From Coq Require Import NArith.
From BV Require Import lib.Ints gen.Params_gen model.CryptoSHA256 model.Bech32 model.Base58 model.KeyIo.
Local Open Scope N_scope.

Definition keyio_chains : list keyio_params := map kp_of_row KEYIO_CHAINS.
Definition bech32_limit : nat := Z.to_nat BECH32_CHAR_LIMIT.

Definition hash256 : list N -> list N := sha256d.
Definition b58check_encode (input : list N) : b58enc_result := encode_base58check hash256 input.
Definition b58check_decode (s : list N) (max_ret_len : N) : b58dec_result := decode_base58check hash256 s max_ret_len.
Definition addr_encode (kp : keyio_params) (d : dest) : addr_result := encode_destination hash256 kp d.
Definition addr_decode (kp : keyio_params) (s : list N) : dest * dec_err := decode_destination hash256 bech32_limit kp s.
Definition bech32_decode (s : list N) : dec_result := decode bech32_limit s.
Definition xkey_encode (prefix code74 : list N) : addr_result := encode_ext hash256 prefix code74.
Definition xkey_decode (prefix s : list N) : option (list N) := decode_ext hash256 prefix s.
Definition wif_encode (kp : keyio_params) (key32 : list N) (compressed : bool) : addr_result := encode_secret hash256 kp key32 compressed.
Definition wif_decode (kp : keyio_params) (s : list N) : option (list N * bool) := decode_secret hash256 kp s.
