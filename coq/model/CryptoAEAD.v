(* C49 — the ChaCha20-Poly1305 AEAD.
   Specification from RFC 8439 sections 2.6 (Poly1305 key generation) and 2.8 (AEAD construction).
   Model of AEADChaCha20Poly1305 and FSChaCha20Poly1305 (src/crypto/chacha20poly1305.{h,cpp}):
   the sequence of Seek / Crypt / Keystream / Update calls, the tag comparison loop, the rekeying.
   Executable definitions only. *)
From Coq Require Import NArith.
From BV Require Import lib.Ints model.CryptoBase model.CryptoChaCha model.CryptoPoly1305.
Local Open Scope Z_scope.

(* ---------------- RFC 8439 ---------------- *)
(* 2.6: poly1305_key_gen(key, nonce): counter = 0; block = chacha20_block(key, counter, nonce); return block[0..31] *)
Definition poly1305_key_gen (key nonce : list N) : list N := firstn 32 (chacha20_block key 0 nonce).

(* 2.8: pad16(x): zero bytes up to a multiple of 16 *)
Definition pad16 (x : list N) : list N := zeros ((16 - length x mod 16) mod 16).

(* mac_data = aad | pad16(aad) | ciphertext | pad16(ciphertext) | num_to_8_le_bytes(aad.length) | num_to_8_le_bytes(ciphertext.length) *)
Definition aead_mac_data (aad ct : list N) : list N :=
  aad ++ pad16 aad ++ ct ++ pad16 ct ++ le_bytes 8 (Z.of_nat (length aad)) ++ le_bytes 8 (Z.of_nat (length ct)).

Definition aead_tag_spec (key nonce aad ct : list N) : list N :=
  poly1305_spec (poly1305_key_gen key nonce) (aead_mac_data aad ct).

(* chacha20_aead_encrypt(aad, key, iv, constant, plaintext): ciphertext = chacha20_encrypt(key, 1, nonce, plaintext); return (ciphertext, tag) *)
Definition aead_encrypt_spec (key nonce aad plaintext : list N) : list N :=
  let ct := chacha20_encrypt key 1 nonce plaintext in
  ct ++ aead_tag_spec key nonce aad ct.

(* decryption: "the tag is calculated ... and compared to the received tag; the message is authenticated if and only if the tags match" *)
Definition list_N_eqb (a b : list N) : bool :=
  (length a =? length b)%nat && forallb (fun xy => N.eqb (fst xy) (snd xy)) (combine a b).
Definition aead_decrypt_spec (key nonce aad input : list N) : option (list N) :=
  let ct := firstn (length input - 16) input in
  let tag := skipn (length input - 16) input in
  if list_N_eqb tag (aead_tag_spec key nonce aad ct) then Some (chacha20_encrypt key 1 nonce ct) else None.

(* ---------------- AEADChaCha20Poly1305 ---------------- *)
(* int timingsafe_bcmp_internal(const unsigned char* b1, const unsigned char* b2, size_t n)
   { int ret = 0; for (; n > 0; n--) ret |= *p1++ ^ *p2++; return (ret != 0); } *)
Definition timingsafe_bcmp (b1 b2 : list N) (n : nat) : bool :=
  negb (N.eqb (fold_left (fun ret xy => N.lor ret (N.lxor (fst xy) (snd xy))) (combine (firstn n b1) (firstn n b2)) 0%N) 0%N).

(* void ComputeTag(ChaCha20& chacha20, aad, cipher, tag)
   {
       static const std::byte PADDING[16] = {{}};
       std::byte first_block[64];
       chacha20.Keystream(first_block);
       Poly1305 poly1305{std::span{first_block}.first(32)};
       const unsigned aad_padding_length = (16 - (aad.size() % 16)) % 16;
       poly1305.Update(aad).Update(std::span{PADDING}.first(aad_padding_length));
       const unsigned cipher_padding_length = (16 - (cipher.size() % 16)) % 16;
       poly1305.Update(cipher).Update(std::span{PADDING}.first(cipher_padding_length));
       std::byte length_desc[16];
       WriteLE64(length_desc, aad.size());
       WriteLE64(length_desc + 8, cipher.size());
       poly1305.Update(length_desc);
       poly1305.Finalize(tag);
   }
   `pbuf`: the indeterminate initial contents of the Poly1305 context's buffer *)
Definition compute_tag (pbuf : list N) (c : chacha20) (aad cipher : list N) : list N * chacha20 :=
  let '(first_block, c1) := chacha20_keystream c 64 in
  let p0 := poly1305_init pbuf (firstn 32 first_block) in
  let aad_padding_length := ((16 - length aad mod 16) mod 16)%nat in
  let p1 := poly1305_update (poly1305_update p0 aad) (firstn aad_padding_length (zeros 16)) in
  let cipher_padding_length := ((16 - length cipher mod 16) mod 16)%nat in
  let p2 := poly1305_update (poly1305_update p1 cipher) (firstn cipher_padding_length (zeros 16)) in
  let length_desc := le_bytes 8 (wrapu64 (Z.of_nat (length aad))) ++ le_bytes 8 (wrapu64 (Z.of_nat (length cipher))) in
  let p3 := poly1305_update p2 length_desc in
  (poly1305_finish p3, c1).

(* void Encrypt(plain1, plain2, aad, nonce, cipher)
   {
       m_chacha20.Seek(nonce, 1);
       m_chacha20.Crypt(plain1, cipher.first(plain1.size()));
       m_chacha20.Crypt(plain2, cipher.subspan(plain1.size()).first(plain2.size()));
       m_chacha20.Seek(nonce, 0);
       ComputeTag(m_chacha20, aad, cipher.first(cipher.size() - EXPANSION), cipher.last(EXPANSION));
   } *)
Definition aead_encrypt (pbuf : list N) (c : chacha20) (plain1 plain2 aad : list N) (nonce_first nonce_second : Z)
  : list N * chacha20 :=
  let c1 := chacha20_seek c nonce_first nonce_second 1 in
  let '(o1, c2) := chacha20_crypt c1 plain1 in
  let '(o2, c3) := chacha20_crypt c2 plain2 in
  let c4 := chacha20_seek c3 nonce_first nonce_second 0 in
  let '(tag, c5) := compute_tag pbuf c4 aad (o1 ++ o2) in
  (o1 ++ o2 ++ tag, c5).

(* bool Decrypt(cipher, aad, nonce, plain1, plain2)   [assert(cipher.size() == plain1.size() + plain2.size() + EXPANSION)]
   {
       m_chacha20.Seek(nonce, 0);
       std::byte expected_tag[EXPANSION];
       ComputeTag(m_chacha20, aad, cipher.first(cipher.size() - EXPANSION), expected_tag);
       if (timingsafe_bcmp_internal(expected_tag, cipher.last(EXPANSION).data(), EXPANSION)) return false;
       m_chacha20.Crypt(cipher.first(plain1.size()), plain1);
       m_chacha20.Crypt(cipher.subspan(plain1.size()).first(plain2.size()), plain2);
       return true;
   }
   len1 = plain1.size(); plain2.size() = cipher.size() - 16 - len1 *)
Definition aead_decrypt (pbuf : list N) (c : chacha20) (cipher aad : list N) (nonce_first nonce_second : Z) (len1 : nat)
  : option (list N * list N) * chacha20 :=
  let c1 := chacha20_seek c nonce_first nonce_second 0 in
  let ctlen := (length cipher - 16)%nat in
  let '(expected_tag, c2) := compute_tag pbuf c1 aad (firstn ctlen cipher) in
  if timingsafe_bcmp expected_tag (skipn ctlen cipher) 16 then (None, c2)
  else
    let '(p1, c3) := chacha20_crypt c2 (firstn len1 cipher) in
    let '(p2, c4) := chacha20_crypt c3 (firstn (ctlen - len1) (skipn len1 cipher)) in
    (Some (p1, p2), c4).

(* void Keystream(nonce, keystream) { m_chacha20.Seek(nonce, 1); m_chacha20.Keystream(keystream); } *)
Definition aead_keystream (c : chacha20) (nonce_first nonce_second : Z) (n : nat) : list N * chacha20 :=
  chacha20_keystream (chacha20_seek c nonce_first nonce_second 1) n.

(* ---------------- FSChaCha20Poly1305 ----------------
   AEADChaCha20Poly1305 m_aead; const uint32_t m_rekey_interval; uint32_t m_packet_counter{0}; uint64_t m_rekey_counter{0};
   void NextPacket()
   {
       if (++m_packet_counter == m_rekey_interval) {
           std::byte one_block[64];
           m_aead.Keystream({0xFFFFFFFF, m_rekey_counter}, one_block);
           m_aead.SetKey(std::span{one_block}.first(KEYLEN));
           m_packet_counter = 0;
           ++m_rekey_counter;
       }
   }
   Encrypt(plain1, plain2, aad, cipher) { m_aead.Encrypt(plain1, plain2, aad, {m_packet_counter, m_rekey_counter}, cipher); NextPacket(); }
   Decrypt(cipher, aad, plain1, plain2) { bool ret = m_aead.Decrypt(cipher, aad, {m_packet_counter, m_rekey_counter}, plain1, plain2); NextPacket(); return ret; } *)
Record fsaead : Type :=
  { f_aead : chacha20; f_rekey_interval : Z; f_packet_counter : Z; f_rekey_counter : Z }.

Definition fsaead_new (ubuf key : list N) (rekey_interval : Z) : fsaead :=
  {| f_aead := chacha20_new ubuf key; f_rekey_interval := rekey_interval; f_packet_counter := 0; f_rekey_counter := 0 |}.

Definition fsaead_next_packet (f : fsaead) (c : chacha20) : fsaead :=
  let pc := wrapu32 (f_packet_counter f + 1) in
  if pc =? f_rekey_interval f then
    let '(one_block, c1) := aead_keystream c 0xFFFFFFFF (f_rekey_counter f) 64 in
    let c2 := chacha20_setkey c1 (firstn 32 one_block) in
    {| f_aead := c2; f_rekey_interval := f_rekey_interval f; f_packet_counter := 0;
       f_rekey_counter := wrapu64 (f_rekey_counter f + 1) |}
  else
    {| f_aead := c; f_rekey_interval := f_rekey_interval f; f_packet_counter := pc;
       f_rekey_counter := f_rekey_counter f |}.

Definition fsaead_encrypt (pbuf : list N) (f : fsaead) (plain1 plain2 aad : list N) : list N * fsaead :=
  let '(out, c) := aead_encrypt pbuf (f_aead f) plain1 plain2 aad (f_packet_counter f) (f_rekey_counter f) in
  (out, fsaead_next_packet f c).

Definition fsaead_decrypt (pbuf : list N) (f : fsaead) (cipher aad : list N) (len1 : nat)
  : option (list N * list N) * fsaead :=
  let '(res, c) := aead_decrypt pbuf (f_aead f) cipher aad (f_packet_counter f) (f_rekey_counter f) len1 in
  (res, fsaead_next_packet f c).

(* a sequence of packets (plain, aad) encrypted one after the other *)
Fixpoint fsaead_encrypt_seq (pbuf : list N) (f : fsaead) (packets : list (list N * list N)) : list (list N) * fsaead :=
  match packets with
  | [] => ([], f)
  | (plain, aad) :: r =>
    let '(o, f1) := fsaead_encrypt pbuf f plain [] aad in
    let '(os, f2) := fsaead_encrypt_seq pbuf f1 r in (o :: os, f2)
  end.

(* ---- BIP324's definition of the forward-secure AEAD: packet number i uses key K_(i / interval) and nonce
   (i mod interval as 4 LE bytes) || (i / interval as 8 LE bytes); K_0 = key and K_(j+1) = the first 32 bytes of
   the AEAD encryption of 32 zero bytes under K_j with nonce 0xFFFFFFFF || LE64(j) ---- *)
Definition bip324_nonce (a b : Z) : list N := le_bytes 4 a ++ le_bytes 8 b.
Fixpoint bip324_key (key : list N) (j : nat) : list N :=
  match j with
  | O => key
  | S i => let k := bip324_key key i in
           firstn 32 (aead_encrypt_spec k (bip324_nonce 0xFFFFFFFF (Z.of_nat i)) [] (zeros 32))
  end.
Definition bip324_packet_spec (key : list N) (interval : nat) (i : nat) (aad plain : list N) : list N :=
  aead_encrypt_spec (bip324_key key (i / interval)) (bip324_nonce (Z.of_nat (i mod interval)) (Z.of_nat (i / interval))) aad plain.
