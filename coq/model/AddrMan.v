(* C37  Address manager (src/addrman.cpp, src/addrman_impl.h): executable model of AddrManImpl.

   State = the data members of AddrManImpl (mapInfo, mapAddr, vRandom, vvNew, vvTried, nNew, nTried,
   nIdCount, m_last_good, m_tried_collisions, m_network_counts).  The tables are sparse maps
   (bucket, position) -> nId (a missing slot is the C++ value -1).

   What the C++ takes from keyed hashes / CNetAddr methods is a Section variable here:
     tried_bucket key             AddrInfo::GetTriedBucket(nKey, netgroupman)
     new_bucket key src           AddrInfo::GetNewBucket(nKey, src, netgroupman)
     bucket_pos fNew bucket key   AddrInfo::GetBucketPosition(nKey, fNew, bucket)
     routable / valid / network / netclass / addr_of (the CNetAddr part of a CService)
   The correspondence driver tabulates the real functions for the universe of addresses it uses.
   Random draws (insecure_rand) and the clock (NodeClock::now()) are explicit arguments; the iteration
   order of the unordered_map mapInfo is an explicit argument where the C++ result depends on it.

   Every C++ assert / Assume / operator[] on a missing key is an explicit [Fail code] outcome, so
   that "no assertion fires" is a theorem and not an assumption. *)
From BV Require Import lib.Ints.
Local Open Scope Z_scope.

(* ---------- association maps (std::unordered_map / the sparse tables) ---------- *)
Section AMap.
  Context {K V : Type} (keqb : K -> K -> bool).
  Fixpoint mfind (k : K) (m : list (K * V)) : option V :=
    match m with
    | [] => None
    | (k', v) :: r => if keqb k k' then Some v else mfind k r
    end.
  (* replace in place, else append *)
  Fixpoint mset (k : K) (v : V) (m : list (K * V)) : list (K * V) :=
    match m with
    | [] => [(k, v)]
    | (k', v') :: r => if keqb k k' then (k, v) :: r else (k', v') :: mset k v r
    end.
  Fixpoint mdel (k : K) (m : list (K * V)) : list (K * V) :=
    match m with
    | [] => []
    | (k', v') :: r => if keqb k k' then mdel k r else (k', v') :: mdel k r
    end.
End AMap.

Definition slot := (Z * Z)%type.
Definition sloteqb (a b : slot) : bool := (fst a =? fst b) && (snd a =? snd b).
Definition zfind {V} := @mfind Z V Z.eqb.
Definition zset {V} := @mset Z V Z.eqb.
Definition zdel {V} := @mdel Z V Z.eqb.
Definition sfind {V} := @mfind slot V sloteqb.
Definition sset {V} := @mset slot V sloteqb.
Definition sdel {V} := @mdel slot V sloteqb.

Definition zlen {A} (l : list A) : Z := Z.of_nat (length l).
Definition znth {A} (i : Z) (l : list A) : option A := if i <? 0 then None else nth_error l (Z.to_nat i).
Fixpoint set_nth {A} (n : nat) (x : A) (l : list A) : list A :=
  match l, n with
  | [], _ => []
  | _ :: r, O => x :: r
  | y :: r, S n' => y :: set_nth n' x r
  end.
Definition zset_nth {A} (i : Z) (x : A) (l : list A) : list A := if i <? 0 then l else set_nth (Z.to_nat i) x l.
Definition zseq (n : Z) : list Z := map Z.of_nat (seq 0 (Z.to_nat n)).

(* std::set<nid_type> as a strictly increasing list *)
Fixpoint set_insert (x : Z) (l : list Z) : list Z :=
  match l with
  | [] => [x]
  | y :: r => if x <? y then x :: l else if x =? y then l else y :: set_insert x r
  end.
Fixpoint set_remove (x : Z) (l : list Z) : list Z :=
  match l with
  | [] => []
  | y :: r => if x =? y then r else y :: set_remove x r
  end.

(* ---------- outcomes ---------- *)
Inductive res (A : Type) : Type := Ok (a : A) | Fail (code : Z).
Arguments Ok {A} a.
Arguments Fail {A} code.
Definition bind {A B} (r : res A) (f : A -> res B) : res B :=
  match r with Ok a => f a | Fail c => Fail c end.
Notation "'do' x <- r ; k" := (bind r (fun x => k)) (at level 200, x pattern, r at level 100, k at level 200).

(* Fail codes (which C++ assertion would have fired / which operator[] would have created a garbage entry) *)
Definition E_SWAP_RANGE := 1.     (* SwapRandom: assert(nRndPos1 < vRandom.size() && nRndPos2 < vRandom.size()) *)
Definition E_SWAP_INFO := 2.      (* SwapRandom: assert(it_1 != mapInfo.end()) / it_2 *)
Definition E_DEL_MISSING := 3.    (* Delete: assert(mapInfo.contains(nId)) *)
Definition E_DEL_TRIED := 4.      (* Delete: assert(!info.fInTried) *)
Definition E_DEL_REF := 5.        (* Delete: assert(info.nRefCount == 0) *)
Definition E_CLEAR_REF := 6.      (* ClearNew: assert(infoDelete.nRefCount > 0) (also: mapInfo[nIdDelete] missing) *)
Definition E_MT_REF := 7.         (* MakeTried: assert(info.nRefCount == 0) *)
Definition E_MT_EVICT := 8.       (* MakeTried: assert(mapInfo.contains(nIdEvict)) *)
Definition E_MT_NEWSLOT := 9.     (* MakeTried: assert(vvNew[nUBucket][nUBucketPos] == -1) *)
Definition E_GETADDR_INFO := 12.  (* GetAddr_: assert(it != mapInfo.end()) *)
Definition E_GOOD_REF := 13.      (* Good_: Assume(info.nRefCount > 0) *)
Definition E_ADD_EXISTING := 14.  (* AddSingle: mapInfo[vvNew[..]] on a missing id *)
Definition E_RESOLVE_SLOT := 15.  (* ResolveCollisions_/SelectTriedCollision_: Assume(vvTried[..] != -1) / mapInfo[id_old] missing *)
Definition E_DANGLING := 16.      (* a reference into mapInfo used after its entry was erased *)
Definition E_SER_NNEW := 20.      (* Serialize: assert(nIds != nNew) *)
Definition E_SER_NTRIED := 21.    (* Serialize: assert(nIds != nTried) *)
Definition E_UNSER_NNEW := 30.    (* Unserialize: nNew out of range *)
Definition E_UNSER_NTRIED := 31.  (* Unserialize: nTried out of range *)
Definition E_UNSER_EOF := 32.     (* Unserialize: stream ends early *)
Definition E_UNSER_CHECK := 100.  (* Unserialize: CheckAddrman() != 0 : Fail (100 - code) *)

(* ---------- constants (addrman.h / addrman_impl.h), supplied from the compiled tree ---------- *)
Record cfg := mkCfg {
  c_NB : Z;            (* ADDRMAN_NEW_BUCKET_COUNT *)
  c_NT : Z;            (* ADDRMAN_TRIED_BUCKET_COUNT *)
  c_BS : Z;            (* ADDRMAN_BUCKET_SIZE *)
  c_MAXREF : Z;        (* ADDRMAN_NEW_BUCKETS_PER_ADDRESS *)
  c_COLL : Z;          (* ADDRMAN_SET_TRIED_COLLISION_SIZE *)
  c_HORIZON : Z;       (* ADDRMAN_HORIZON, seconds *)
  c_RETRIES : Z;       (* ADDRMAN_RETRIES *)
  c_MAXFAIL : Z;       (* ADDRMAN_MAX_FAILURES *)
  c_MINFAIL : Z;       (* ADDRMAN_MIN_FAIL, seconds *)
  c_REPLACEMENT : Z;   (* ADDRMAN_REPLACEMENT, seconds *)
  c_TESTWIN : Z        (* ADDRMAN_TEST_WINDOW, seconds *)
}.

(* ---------- AddrInfo ---------- *)
Record ainfo := mkInfo {
  a_key : Z;           (* the CService (address:port) this entry is about: key of mapAddr *)
  a_src : Z;           (* source (a CNetAddr) *)
  a_time : Z;          (* nTime *)
  a_services : Z;      (* nServices *)
  a_last_try : Z;      (* m_last_try *)
  a_last_count : Z;    (* m_last_count_attempt *)
  a_last_success : Z;  (* m_last_success *)
  a_attempts : Z;      (* nAttempts *)
  a_ref : Z;           (* nRefCount *)
  a_tried : bool;      (* fInTried *)
  a_rpos : Z           (* nRandomPos *)
}.
Definition set_time t a := mkInfo (a_key a) (a_src a) t (a_services a) (a_last_try a) (a_last_count a) (a_last_success a) (a_attempts a) (a_ref a) (a_tried a) (a_rpos a).
Definition set_services v a := mkInfo (a_key a) (a_src a) (a_time a) v (a_last_try a) (a_last_count a) (a_last_success a) (a_attempts a) (a_ref a) (a_tried a) (a_rpos a).
Definition set_last_try v a := mkInfo (a_key a) (a_src a) (a_time a) (a_services a) v (a_last_count a) (a_last_success a) (a_attempts a) (a_ref a) (a_tried a) (a_rpos a).
Definition set_last_count v a := mkInfo (a_key a) (a_src a) (a_time a) (a_services a) (a_last_try a) v (a_last_success a) (a_attempts a) (a_ref a) (a_tried a) (a_rpos a).
Definition set_last_success v a := mkInfo (a_key a) (a_src a) (a_time a) (a_services a) (a_last_try a) (a_last_count a) v (a_attempts a) (a_ref a) (a_tried a) (a_rpos a).
Definition set_attempts v a := mkInfo (a_key a) (a_src a) (a_time a) (a_services a) (a_last_try a) (a_last_count a) (a_last_success a) v (a_ref a) (a_tried a) (a_rpos a).
Definition set_ref v a := mkInfo (a_key a) (a_src a) (a_time a) (a_services a) (a_last_try a) (a_last_count a) (a_last_success a) (a_attempts a) v (a_tried a) (a_rpos a).
Definition set_tried v a := mkInfo (a_key a) (a_src a) (a_time a) (a_services a) (a_last_try a) (a_last_count a) (a_last_success a) (a_attempts a) (a_ref a) v (a_rpos a).
Definition set_rpos v a := mkInfo (a_key a) (a_src a) (a_time a) (a_services a) (a_last_try a) (a_last_count a) (a_last_success a) (a_attempts a) (a_ref a) (a_tried a) v.

(* ---------- AddrManImpl ---------- *)
Record st := mkSt {
  s_idcount : Z;                   (* nIdCount *)
  s_info : list (Z * ainfo);       (* mapInfo *)
  s_addr : list (Z * Z);           (* mapAddr : key -> nId *)
  s_random : list Z;               (* vRandom *)
  s_ntried : Z;                    (* nTried *)
  s_nnew : Z;                      (* nNew *)
  s_tried : list (slot * Z);       (* vvTried, slots that are not -1 *)
  s_new : list (slot * Z);         (* vvNew, slots that are not -1 *)
  s_last_good : Z;                 (* m_last_good *)
  s_coll : list Z;                 (* m_tried_collisions *)
  s_netcnt : list (Z * (Z * Z))    (* m_network_counts : net -> (n_new, n_tried) *)
}.
Definition init_state : st := mkSt 0 [] [] [] 0 0 [] [] 1 [] [].
Definition set_info v s := mkSt (s_idcount s) v (s_addr s) (s_random s) (s_ntried s) (s_nnew s) (s_tried s) (s_new s) (s_last_good s) (s_coll s) (s_netcnt s).
Definition set_addr v s := mkSt (s_idcount s) (s_info s) v (s_random s) (s_ntried s) (s_nnew s) (s_tried s) (s_new s) (s_last_good s) (s_coll s) (s_netcnt s).
Definition set_random v s := mkSt (s_idcount s) (s_info s) (s_addr s) v (s_ntried s) (s_nnew s) (s_tried s) (s_new s) (s_last_good s) (s_coll s) (s_netcnt s).
Definition set_ntried v s := mkSt (s_idcount s) (s_info s) (s_addr s) (s_random s) v (s_nnew s) (s_tried s) (s_new s) (s_last_good s) (s_coll s) (s_netcnt s).
Definition set_nnew v s := mkSt (s_idcount s) (s_info s) (s_addr s) (s_random s) (s_ntried s) v (s_tried s) (s_new s) (s_last_good s) (s_coll s) (s_netcnt s).
Definition set_triedt v s := mkSt (s_idcount s) (s_info s) (s_addr s) (s_random s) (s_ntried s) (s_nnew s) v (s_new s) (s_last_good s) (s_coll s) (s_netcnt s).
Definition set_newt v s := mkSt (s_idcount s) (s_info s) (s_addr s) (s_random s) (s_ntried s) (s_nnew s) (s_tried s) v (s_last_good s) (s_coll s) (s_netcnt s).
Definition set_last_good v s := mkSt (s_idcount s) (s_info s) (s_addr s) (s_random s) (s_ntried s) (s_nnew s) (s_tried s) (s_new s) v (s_coll s) (s_netcnt s).
Definition set_coll v s := mkSt (s_idcount s) (s_info s) (s_addr s) (s_random s) (s_ntried s) (s_nnew s) (s_tried s) (s_new s) (s_last_good s) v (s_netcnt s).
Definition set_netcnt v s := mkSt (s_idcount s) (s_info s) (s_addr s) (s_random s) (s_ntried s) (s_nnew s) (s_tried s) (s_new s) (s_last_good s) (s_coll s) v.
Definition set_idcount v s := mkSt v (s_info s) (s_addr s) (s_random s) (s_ntried s) (s_nnew s) (s_tried s) (s_new s) (s_last_good s) (s_coll s) (s_netcnt s).

(* m_network_counts[net] (operator[] default-constructs {0,0}); size_t arithmetic written as wrapu64 *)
Definition nc_get (m : list (Z * (Z * Z))) (net : Z) : Z * Z :=
  match zfind net m with Some c => c | None => (0, 0) end.
Definition nc_add (dn dt : Z) (net : Z) (m : list (Z * (Z * Z))) : list (Z * (Z * Z)) :=
  let c := nc_get m net in zset net (wrapu64 (fst c + dn), wrapu64 (snd c + dt)) m.

(* ---------- serialized form (the part of peers.dat that is not constant) ---------- *)
Record sentry := mkSentry {
  e_key : Z; e_src : Z;
  e_time : Z;            (* nTime goes to disk as uint32 (LossyChronoFormatter<uint32_t>) *)
  e_services : Z; e_last_success : Z; e_attempts : Z
}.
Record sfile := mkSfile {
  f_nnew : Z; f_ntried : Z;
  f_new : list sentry;           (* "all new addresses" *)
  f_tried : list sentry;         (* "all tried addresses" *)
  f_buckets : list (list Z)      (* per new bucket: indices into f_new *)
}.

Section Model.
  Variable c : cfg.
  Variable tried_bucket : Z -> Z.
  Variable new_bucket : Z -> Z -> Z.
  Variable bucket_pos : bool -> Z -> Z -> Z.
  Variable routable : Z -> bool.
  Variable valid : Z -> bool.
  Variable network : Z -> Z.        (* GetNetwork() *)
  Variable netclass : Z -> Z.       (* GetNetClass() *)
  Variable addr_of : Z -> Z.        (* the CNetAddr part of the CService, comparable with a source *)

  Definition tslot (k : Z) : slot := let b := tried_bucket k in (b, bucket_pos false b k).
  Definition nslot (k src : Z) : slot := let b := new_bucket k src in (b, bucket_pos true b k).

  (* bool AddrInfo::IsTerrible(NodeSeconds now) const
       if (now - m_last_try <= 1min) return false;
       if (nTime > now + 10min) return true;
       if (now - nTime > ADDRMAN_HORIZON) return true;
       if (TicksSinceEpoch<seconds>(m_last_success) == 0 && nAttempts >= ADDRMAN_RETRIES) return true;
       if (now - m_last_success > ADDRMAN_MIN_FAIL && nAttempts >= ADDRMAN_MAX_FAILURES) return true;
       return false; *)
  Definition is_terrible (now : Z) (a : ainfo) : bool :=
    if now - a_last_try a <=? 60 then false
    else if a_time a >? now + 600 then true
    else if now - a_time a >? c_HORIZON c then true
    else if (a_last_success a =? 0) && (a_attempts a >=? c_RETRIES c) then true
    else if (now - a_last_success a >? c_MINFAIL c) && (a_attempts a >=? c_MAXFAIL c) then true
    else false.

  (* AddrInfo* AddrManImpl::Find(const CService& addr, nid_type* pnId)
       it = mapAddr.find(addr); if (it == end) return nullptr; *pnId = it->second;
       it2 = mapInfo.find(it->second); if (it2 != end) return &it2->second; return nullptr; *)
  Definition find_addr (s : st) (k : Z) : option (Z * ainfo) :=
    match zfind k (s_addr s) with
    | None => None
    | Some id => match zfind id (s_info s) with Some a => Some (id, a) | None => None end
    end.

  (* AddrInfo* AddrManImpl::Create(addr, addrSource, pnId)
       nId = nIdCount++; mapInfo[nId] = AddrInfo(addr, addrSource); mapAddr[addr] = nId;
       mapInfo[nId].nRandomPos = vRandom.size(); vRandom.push_back(nId); nNew++;
       m_network_counts[addr.GetNetwork()].n_new++; *)
  Definition create (s : st) (k src time services : Z) : st * Z :=
    let id := s_idcount s in
    let a := mkInfo k src time services 0 0 0 0 0 false (zlen (s_random s)) in
    (mkSt (id + 1) (zset id a (s_info s)) (zset k id (s_addr s)) (s_random s ++ [id]) (s_ntried s) (s_nnew s + 1)
          (s_tried s) (s_new s) (s_last_good s) (s_coll s) (nc_add 1 0 (network k) (s_netcnt s)), id).

  (* void AddrManImpl::SwapRandom(unsigned int nRndPos1, unsigned int nRndPos2) const
       if (nRndPos1 == nRndPos2) return;
       assert(nRndPos1 < vRandom.size() && nRndPos2 < vRandom.size());
       nId1 = vRandom[nRndPos1]; nId2 = vRandom[nRndPos2];
       it_1 = mapInfo.find(nId1); it_2 = mapInfo.find(nId2); assert(both found);
       it_1->second.nRandomPos = nRndPos2; it_2->second.nRandomPos = nRndPos1;
       vRandom[nRndPos1] = nId2; vRandom[nRndPos2] = nId1;
     (a negative int converted to unsigned fails the range assertion) *)
  Definition swap_random (s : st) (p1 p2 : Z) : res st :=
    if p1 =? p2 then Ok s else
    match znth p1 (s_random s), znth p2 (s_random s) with
    | Some id1, Some id2 =>
      match zfind id1 (s_info s) with
      | None => Fail E_SWAP_INFO
      | Some a1 =>
        let info1 := zset id1 (set_rpos p2 a1) (s_info s) in
        match zfind id2 info1 with
        | None => Fail E_SWAP_INFO
        | Some a2 =>
          let info2 := zset id2 (set_rpos p1 a2) info1 in
          Ok (set_random (zset_nth p2 id1 (zset_nth p1 id2 (s_random s))) (set_info info2 s))
        end
      end
    | _, _ => Fail E_SWAP_RANGE
    end.

  (* void AddrManImpl::Delete(nid_type nId)
       assert(mapInfo.contains(nId)); info = mapInfo[nId]; assert(!info.fInTried); assert(info.nRefCount == 0);
       SwapRandom(info.nRandomPos, vRandom.size() - 1); m_network_counts[info.GetNetwork()].n_new--;
       vRandom.pop_back(); mapAddr.erase(info); mapInfo.erase(nId); nNew--; *)
  Definition delete (s : st) (id : Z) : res st :=
    match zfind id (s_info s) with
    | None => Fail E_DEL_MISSING
    | Some a =>
      if a_tried a then Fail E_DEL_TRIED else
      if negb (a_ref a =? 0) then Fail E_DEL_REF else
      do s1 <- swap_random s (a_rpos a) (zlen (s_random s) - 1);
      Ok (mkSt (s_idcount s1) (zdel id (s_info s1)) (zdel (a_key a) (s_addr s1)) (removelast (s_random s1))
               (s_ntried s1) (s_nnew s1 - 1) (s_tried s1) (s_new s1) (s_last_good s1) (s_coll s1)
               (nc_add (-1) 0 (network (a_key a)) (s_netcnt s1)))
    end.

  (* void AddrManImpl::ClearNew(int nUBucket, int nUBucketPos)
       if (vvNew[b][p] != -1) { nIdDelete = vvNew[b][p]; infoDelete = mapInfo[nIdDelete];
         assert(infoDelete.nRefCount > 0); infoDelete.nRefCount--; vvNew[b][p] = -1;
         if (infoDelete.nRefCount == 0) Delete(nIdDelete); } *)
  Definition clear_new (s : st) (sl : slot) : res st :=
    match sfind sl (s_new s) with
    | None => Ok s
    | Some idd =>
      match zfind idd (s_info s) with
      | None => Fail E_CLEAR_REF
      | Some a =>
        if negb (a_ref a >? 0) then Fail E_CLEAR_REF else
        let s1 := set_newt (sdel sl (s_new s)) (set_info (zset idd (set_ref (a_ref a - 1) a) (s_info s)) s) in
        if a_ref a - 1 =? 0 then delete s1 idd else Ok s1
      end
    end.

  (* MakeTried, first loop:
       const int start_bucket{info.GetNewBucket(nKey, m_netgroupman)};
       for (int n = 0; n < ADDRMAN_NEW_BUCKET_COUNT; ++n) {
           const int bucket{(start_bucket + n) % ADDRMAN_NEW_BUCKET_COUNT};
           const int pos{info.GetBucketPosition(nKey, true, bucket)};
           if (vvNew[bucket][pos] == nId) { vvNew[bucket][pos] = -1; info.nRefCount--; if (info.nRefCount == 0) break; } } *)
  Fixpoint mt_loop (ns : list Z) (start id key : Z) (newt : list (slot * Z)) (ref : Z) : list (slot * Z) * Z :=
    match ns with
    | [] => (newt, ref)
    | n :: r =>
      let b := (start + n) mod c_NB c in
      let p := bucket_pos true b key in
      match sfind (b, p) newt with
      | Some i =>
        if i =? id then
          let newt' := sdel (b, p) newt in
          if ref - 1 =? 0 then (newt', ref - 1) else mt_loop r start id key newt' (ref - 1)
        else mt_loop r start id key newt ref
      | None => mt_loop r start id key newt ref
      end
    end.

  (* void AddrManImpl::MakeTried(AddrInfo& info, nid_type nId)   (info == mapInfo[nId])
       <loop above>; nNew--; m_network_counts[info.GetNetwork()].n_new--; assert(info.nRefCount == 0);
       nKBucket = info.GetTriedBucket(..); nKBucketPos = info.GetBucketPosition(nKey, false, nKBucket);
       if (vvTried[nKBucket][nKBucketPos] != -1) {
           nIdEvict = vvTried[..]; assert(mapInfo.contains(nIdEvict)); infoOld = mapInfo[nIdEvict];
           infoOld.fInTried = false; vvTried[..] = -1; nTried--; m_network_counts[infoOld.GetNetwork()].n_tried--;
           nUBucket = infoOld.GetNewBucket(nKey, m_netgroupman); nUBucketPos = infoOld.GetBucketPosition(nKey, true, nUBucket);
           ClearNew(nUBucket, nUBucketPos); assert(vvNew[nUBucket][nUBucketPos] == -1);
           infoOld.nRefCount = 1; vvNew[nUBucket][nUBucketPos] = nIdEvict; nNew++; m_network_counts[..].n_new++; }
       assert(vvTried[nKBucket][nKBucketPos] == -1);
       vvTried[nKBucket][nKBucketPos] = nId; nTried++; info.fInTried = true; m_network_counts[info.GetNetwork()].n_tried++; *)
  (* the "if (vvTried[nKBucket][nKBucketPos] != -1) { ... }" block of MakeTried *)
  Definition mt_evict (s1 : st) (ts : slot) : res st :=
    match sfind ts (s_tried s1) with
    | None => Ok s1
    | Some idev =>
      match zfind idev (s_info s1) with
      | None => Fail E_MT_EVICT
      | Some old =>
        let ko := a_key old in
        let s1a := mkSt (s_idcount s1) (zset idev (set_tried false old) (s_info s1)) (s_addr s1) (s_random s1)
                        (s_ntried s1 - 1) (s_nnew s1) (sdel ts (s_tried s1)) (s_new s1) (s_last_good s1) (s_coll s1)
                        (nc_add 0 (-1) (network ko) (s_netcnt s1)) in
        let us := nslot ko (a_src old) in
        do s1b <- clear_new s1a us;
        match sfind us (s_new s1b) with
        | Some _ => Fail E_MT_NEWSLOT
        | None =>
          match zfind idev (s_info s1b) with
          | None => Fail E_DANGLING
          | Some old' =>
            Ok (mkSt (s_idcount s1b) (zset idev (set_ref 1 old') (s_info s1b)) (s_addr s1b) (s_random s1b)
                     (s_ntried s1b) (s_nnew s1b + 1) (s_tried s1b) (sset us idev (s_new s1b)) (s_last_good s1b)
                     (s_coll s1b) (nc_add 1 0 (network ko) (s_netcnt s1b)))
          end
        end
      end
    end.
  Definition make_tried (s : st) (id : Z) : res st :=
    match zfind id (s_info s) with
    | None => Fail E_DANGLING
    | Some a =>
      let k := a_key a in
      let '(newt, ref) := mt_loop (zseq (c_NB c)) (new_bucket k (a_src a)) id k (s_new s) (a_ref a) in
      let s1 := mkSt (s_idcount s) (zset id (set_ref ref a) (s_info s)) (s_addr s) (s_random s) (s_ntried s) (s_nnew s - 1)
                     (s_tried s) newt (s_last_good s) (s_coll s) (nc_add (-1) 0 (network k) (s_netcnt s)) in
      if negb (ref =? 0) then Fail E_MT_REF else
      let ts := tslot k in
      do s2 <- mt_evict s1 ts;
      match zfind id (s_info s2) with
      | None => Fail E_DANGLING
      | Some a' =>
        Ok (mkSt (s_idcount s2) (zset id (set_tried true a') (s_info s2)) (s_addr s2) (s_random s2) (s_ntried s2 + 1)
                 (s_nnew s2) (sset ts id (s_tried s2)) (s_new s2) (s_last_good s2) (s_coll s2)
                 (nc_add 0 1 (network k) (s_netcnt s2)))
      end
    end.

  (* second half of AddSingle (pinfo == mapInfo[nId] exists, whether found or just created):
       nUBucket = pinfo->GetNewBucket(nKey, source, ..); nUBucketPos = pinfo->GetBucketPosition(nKey, true, nUBucket);
       bool fInsert = vvNew[nUBucket][nUBucketPos] == -1;
       if (vvNew[nUBucket][nUBucketPos] != nId) {
         if (!fInsert) { infoExisting = mapInfo[vvNew[..]];
            if (infoExisting.IsTerrible() || (infoExisting.nRefCount > 1 && pinfo->nRefCount == 0)) fInsert = true; }
         if (fInsert) { ClearNew(nUBucket, nUBucketPos); pinfo->nRefCount++; vvNew[nUBucket][nUBucketPos] = nId; }
         else if (pinfo->nRefCount == 0) Delete(nId); }
       return fInsert; *)
  Definition add_insert (s1 : st) (id : Z) (us : slot) : res (st * bool) :=
    do s2 <- clear_new s1 us;
    match zfind id (s_info s2) with
    | None => Fail E_DANGLING
    | Some p' => Ok (set_newt (sset us id (s_new s2)) (set_info (zset id (set_ref (a_ref p' + 1) p') (s_info s2)) s2), true)
    end.
  Definition add_place (s1 : st) (id k src now : Z) : res (st * bool) :=
    let us := nslot k src in
    match zfind id (s_info s1) with
    | None => Fail E_DANGLING
    | Some p =>
      match sfind us (s_new s1) with
      | None => add_insert s1 id us
      | Some cur =>
        if cur =? id then Ok (s1, false) else
        match zfind cur (s_info s1) with
        | None => Fail E_ADD_EXISTING
        | Some ex =>
          if is_terrible now ex || ((a_ref ex >? 1) && (a_ref p =? 0)) then add_insert s1 id us
          else if a_ref p =? 0 then do s2 <- delete s1 id; Ok (s2, false)
          else Ok (s1, false)
        end
      end
    end.

  (* bool AddrManImpl::AddSingle(const CAddress& addr, const CNetAddr& source, std::chrono::seconds time_penalty)
     [k, time, services] = addr (CService, nTime, nServices); draw = the value insecure_rand.randrange(1 << nRefCount)
     would return if it is reached; now = NodeClock::now() (also the default argument of IsTerrible()). *)
  Definition add_single (s : st) (k time services src penalty now draw : Z) : res (st * bool) :=
    (* if (!addr.IsRoutable()) return false; *)
    if negb (routable k) then Ok (s, false) else
    (* if (addr == source) time_penalty = 0s;   (CNetAddr comparison: the port plays no role) *)
    let penalty := if addr_of k =? src then 0 else penalty in
    match find_addr s k with
    | Some (id, a) =>
      (* const bool currently_online{NodeClock::now() - addr.nTime < 24h}; update_interval{currently_online ? 1h : 24h};
         if (pinfo->nTime < addr.nTime - update_interval - time_penalty) pinfo->nTime = std::max(NodeSeconds{0s}, addr.nTime - time_penalty);
         pinfo->nServices = ServiceFlags(pinfo->nServices | addr.nServices); *)
      let interval := if now - time <? 86400 then 3600 else 86400 in
      let a1 := if a_time a <? time - interval - penalty then set_time (Z.max 0 (time - penalty)) a else a in
      let a2 := set_services (Z.lor (a_services a1) services) a1 in
      let s1 := set_info (zset id a2 (s_info s)) s in
      (* if (addr.nTime <= pinfo->nTime) return false; if (pinfo->fInTried) return false;
         if (pinfo->nRefCount == ADDRMAN_NEW_BUCKETS_PER_ADDRESS) return false;
         if (pinfo->nRefCount > 0) { const int nFactor{1 << pinfo->nRefCount}; if (insecure_rand.randrange(nFactor) != 0) return false; } *)
      if time <=? a_time a2 then Ok (s1, false)
      else if a_tried a2 then Ok (s1, false)
      else if a_ref a2 =? c_MAXREF c then Ok (s1, false)
      else if (a_ref a2 >? 0) && negb (draw =? 0) then Ok (s1, false)
      else add_place s1 id k src now
    | None =>
      (* pinfo = Create(addr, source, &nId); pinfo->nTime = std::max(NodeSeconds{0s}, pinfo->nTime - time_penalty); *)
      let '(s1, id) := create s k src (Z.max 0 (time - penalty)) services in
      add_place s1 id k src now
    end.

  (* bool AddrManImpl::Add_(vAddr, source, time_penalty): for each address AddSingle; return added > 0.
     One [draw] per address. *)
  Fixpoint add_many (s : st) (l : list (Z * Z * Z * Z)) (src penalty now : Z) (added : bool) : res (st * bool) :=
    match l with
    | [] => Ok (s, added)
    | (k, time, services, draw) :: r =>
      do (s1, b) <- add_single s k time services src penalty now draw;
      add_many s1 r src penalty now (added || b)
    end.

  (* bool AddrManImpl::Good_(const CService& addr, bool test_before_evict, NodeSeconds time) *)
  Definition good (s : st) (k : Z) (test_before_evict : bool) (time : Z) : res (st * bool) :=
    (* m_last_good = time; pinfo = Find(addr, &nId); if (!pinfo) return false; *)
    let s0 := set_last_good time s in
    match find_addr s0 k with
    | None => Ok (s0, false)
    | Some (id, a) =>
      (* info.m_last_success = time; info.m_last_try = time; info.nAttempts = 0; *)
      let a1 := set_attempts 0 (set_last_try time (set_last_success time a)) in
      let s1 := set_info (zset id a1 (s_info s0)) s0 in
      (* if (info.fInTried) return false;  if (!Assume(info.nRefCount > 0)) return false; *)
      if a_tried a1 then Ok (s1, false) else
      if negb (a_ref a1 >? 0) then Fail E_GOOD_REF else
      (* if (test_before_evict && (vvTried[tried_bucket][tried_bucket_pos] != -1)) {
             if (m_tried_collisions.size() < ADDRMAN_SET_TRIED_COLLISION_SIZE) m_tried_collisions.insert(nId);
             return false; }
         else { MakeTried(info, nId); return true; } *)
      match sfind (tslot (a_key a1)) (s_tried s1) with
      | Some _ =>
        if test_before_evict then
          Ok (if zlen (s_coll s1) <? c_COLL c then set_coll (set_insert id (s_coll s1)) s1 else s1, false)
        else do s2 <- make_tried s1 id; Ok (s2, true)
      | None => do s2 <- make_tried s1 id; Ok (s2, true)
      end
    end.

  (* void AddrManImpl::Attempt_(const CService& addr, bool fCountFailure, NodeSeconds time)
       info.m_last_try = time;
       if (fCountFailure && info.m_last_count_attempt < m_last_good) { info.m_last_count_attempt = time; info.nAttempts++; } *)
  Definition attempt (s : st) (k : Z) (count_failure : bool) (time : Z) : st :=
    match find_addr s k with
    | None => s
    | Some (id, a) =>
      let a1 := set_last_try time a in
      let a2 := if count_failure && (a_last_count a1 <? s_last_good s)
                then set_attempts (wrap32 (a_attempts a1 + 1)) (set_last_count time a1) else a1 in
      set_info (zset id a2 (s_info s)) s
    end.

  (* void AddrManImpl::Connected_(addr, time): if (time - info.nTime > 20min) info.nTime = time; *)
  Definition connected (s : st) (k time : Z) : st :=
    match find_addr s k with
    | None => s
    | Some (id, a) => if time - a_time a >? 1200 then set_info (zset id (set_time time a) (s_info s)) s else s
    end.

  (* void AddrManImpl::SetServices_(addr, nServices): info.nServices = nServices; *)
  Definition set_services_op (s : st) (k services : Z) : st :=
    match find_addr s k with
    | None => s
    | Some (id, a) => set_info (zset id (set_services services a) (s_info s)) s
    end.

  (* void AddrManImpl::ResolveCollisions_(): one iteration of the loop over m_tried_collisions for id_new.
     Returns the state and erase_collision. *)
  Definition resolve_one (s : st) (idn now : Z) : res (st * bool) :=
    match zfind idn (s_info s) with
    | None => Ok (s, true)                                   (* if (!mapInfo.contains(id_new)) erase_collision = true; *)
    | Some inew =>
      if negb (valid (a_key inew)) then Ok (s, true) else    (* if (!info_new.IsValid()) erase_collision = true; *)
      match sfind (tslot (a_key inew)) (s_tried s) with
      | None => Fail E_RESOLVE_SLOT                          (* Assume(vvTried[..] != -1); id_old = vvTried[..]; info_old = mapInfo[id_old]; *)
      | Some idold =>
        match zfind idold (s_info s) with
        | None => Fail E_RESOLVE_SLOT
        | Some iold =>
          (* if (current_time - info_old.m_last_success < ADDRMAN_REPLACEMENT) erase_collision = true;
             else if (current_time - info_old.m_last_try < ADDRMAN_REPLACEMENT) {
                 if (current_time - info_old.m_last_try > 60s) { Good_(info_new, false, current_time); erase_collision = true; } }
             else if (current_time - info_new.m_last_success > ADDRMAN_TEST_WINDOW) { Good_(info_new, false, current_time); erase_collision = true; } *)
          if now - a_last_success iold <? c_REPLACEMENT c then Ok (s, true)
          else if now - a_last_try iold <? c_REPLACEMENT c then
            if now - a_last_try iold >? 60 then do (s1, _) <- good s (a_key inew) false now; Ok (s1, true)
            else Ok (s, false)
          else if now - a_last_success inew >? c_TESTWIN c then do (s1, _) <- good s (a_key inew) false now; Ok (s1, true)
          else Ok (s, false)
        end
      end
    end.
  (* for (it = m_tried_collisions.begin(); it != end;) { ...; if (erase_collision) m_tried_collisions.erase(it++); else it++; }
     Good_ with test_before_evict=false never inserts into the set, so the loop visits the elements present at entry, in order. *)
  Fixpoint resolve_loop (ids : list Z) (s : st) (now : Z) : res st :=
    match ids with
    | [] => Ok s
    | idn :: r =>
      do (s1, erase) <- resolve_one s idn now;
      resolve_loop r (if (erase : bool) then set_coll (set_remove idn (s_coll s1)) s1 else s1) now
    end.
  Definition resolve_collisions (s : st) (now : Z) : res st := resolve_loop (s_coll s) s now.

  (* std::pair<CAddress, NodeSeconds> AddrManImpl::SelectTriedCollision_();  draw = insecure_rand.randrange(size).
     Result: Some (key, last_try) of the to-be-evicted tried entry, None for the empty pair. *)
  Definition select_tried_collision (s : st) (draw : Z) : res (st * option (Z * Z)) :=
    match s_coll s with
    | [] => Ok (s, None)
    | _ =>
      match znth draw (s_coll s) with
      | None => Ok (s, None)   (* not reachable: randrange(size) < size *)
      | Some idn =>
        match zfind idn (s_info s) with
        | None => Ok (set_coll (set_remove idn (s_coll s)) s, None)
        | Some inew =>
          match sfind (tslot (a_key inew)) (s_tried s) with
          | None => Fail E_RESOLVE_SLOT
          | Some idold =>
            match zfind idold (s_info s) with
            | None => Fail E_RESOLVE_SLOT
            | Some iold => Ok (s, Some (a_key iold, a_last_try iold))
            end
          end
        end
      end
    end.

  (* std::vector<CAddress> AddrManImpl::GetAddr_(max_addresses, max_pct, network, filtered)
       nNodes = vRandom.size(); if (max_pct != 0) { max_pct = min(max_pct, 100); nNodes = max_pct * nNodes / 100; }
       if (max_addresses != 0) nNodes = min(nNodes, max_addresses);
       for (n = 0; n < vRandom.size(); n++) { if (addresses.size() >= nNodes) break;
           nRndPos = insecure_rand.randrange(vRandom.size() - n) + n; SwapRandom(n, nRndPos);
           it = mapInfo.find(vRandom[n]); assert(it != end);
           if (network != nullopt && ai.GetNetClass() != network) continue;
           if (ai.IsTerrible(now) && filtered) continue;  addresses.push_back(ai); }
     draws = the successive values of randrange; net < 0 stands for std::nullopt. Returns the keys, in order. *)
  Fixpoint getaddr_loop (fuel : nat) (n : Z) (draws : list Z) (s : st) (nnodes net : Z) (filtered : bool) (now : Z) (acc : list Z)
    : res (st * list Z) :=
    match fuel with
    | O => Ok (s, rev acc)
    | S fuel' =>
      if zlen acc >=? nnodes then Ok (s, rev acc) else
      match draws with
      | [] => Ok (s, rev acc)     (* the driver supplies one draw per position *)
      | d :: draws' =>
        do s1 <- swap_random s n (d + n);
        match znth n (s_random s1) with
        | None => Fail E_GETADDR_INFO
        | Some id =>
          match zfind id (s_info s1) with
          | None => Fail E_GETADDR_INFO
          | Some a =>
            let skip := ((0 <=? net) && negb (netclass (a_key a) =? net)) || (is_terrible now a && filtered) in
            getaddr_loop fuel' (n + 1) draws' s1 nnodes net filtered now (if skip then acc else a_key a :: acc)
          end
        end
      end
    end.
  Definition getaddr (s : st) (max_addresses max_pct net : Z) (filtered : bool) (now : Z) (draws : list Z) : res (st * list Z) :=
    let size := zlen (s_random s) in
    let n1 := if max_pct =? 0 then size else Z.min max_pct 100 * size / 100 in
    let n2 := if max_addresses =? 0 then n1 else Z.min n1 max_addresses in
    getaddr_loop (length (s_random s)) 0 draws s n2 net filtered now [].

  (* size_t AddrManImpl::Size_(std::optional<Network> net, std::optional<bool> in_new) const
     net < 0: nullopt; in_new: 0 = false, 1 = true, other = nullopt *)
  Definition size_op (s : st) (net in_new : Z) : Z :=
    if net <? 0 then
      (if in_new =? 1 then s_nnew s else if in_new =? 0 then s_ntried s else zlen (s_random s))
    else
      match zfind net (s_netcnt s) with
      | Some (n, t) => if in_new =? 1 then n else if in_new =? 0 then t else n + t
      | None => 0
      end.

  (* Select_: the part before the random search loop.
       new_count = nNew; tried_count = nTried;
       if (!networks.empty()) { new_count = tried_count = 0; for (network : networks) { it = m_network_counts.find(network); if found: += } }
       if (new_only && new_count == 0) return {};  if (new_count + tried_count == 0) return {};
     Result: None = returns the empty pair; Some None = searches new or tried by coin; Some (Some b) = searches tried iff b.
     After this the loop draws buckets until it finds an entry of a requested network: it terminates (with
     probability 1) only if such an entry exists in the table searched, which is what the counts are for. *)
  Definition select_counts (s : st) (nets : list Z) : Z * Z :=
    match nets with
    | [] => (s_nnew s, s_ntried s)
    | _ => fold_left (fun acc net => match zfind net (s_netcnt s) with
                                     | Some (n, t) => (fst acc + n, snd acc + t)
                                     | None => acc end) nets (0, 0)
    end.
  Definition select_plan (s : st) (new_only : bool) (nets : list Z) : option (option bool) :=
    if match s_random s with [] => true | _ => false end then None else
    let '(nc, tc) := select_counts s nets in
    if new_only && (nc =? 0) then None
    else if nc + tc =? 0 then None
    else if new_only || (tc =? 0) then Some (Some false)
    else if nc =? 0 then Some (Some true)
    else Some None.
  (* the specification of an acceptable Select_ result [k] (judged on the implementation's answer) *)
  Definition select_result_ok (s : st) (new_only : bool) (nets : list Z) (k : Z) : bool :=
    match find_addr s k with
    | None => false
    | Some (id, a) =>
      (match nets with [] => true | _ => existsb (Z.eqb (network k)) nets end)
      && (if new_only then negb (a_tried a) else true)
      && (if a_tried a then match sfind (tslot k) (s_tried s) with Some i => i =? id | None => false end
          else existsb (fun e => snd e =? id) (s_new s))
    end.

  (* ---------- CheckAddrman ---------- *)
  (* int AddrManImpl::CheckAddrman() const; the loop over mapInfo *)
  Fixpoint check_infos (s : st) (l : list (Z * ainfo)) (set_tried : list Z) (map_new : list (Z * Z))
                       (local : list (Z * (Z * Z))) : res (list Z * list (Z * Z) * list (Z * (Z * Z))) :=
    match l with
    | [] => Ok (set_tried, map_new, local)
    | (n, a) :: r =>
      do (st1, mn1, lc1) <-
        (if a_tried a then
           if a_last_success a =? 0 then Fail (-1)
           else if negb (a_ref a =? 0) then Fail (-2)
           else Ok (n :: set_tried, map_new, nc_add 0 1 (network (a_key a)) local)
         else
           if (a_ref a <? 0) || (a_ref a >? c_MAXREF c) then Fail (-3)
           else if a_ref a =? 0 then Fail (-4)
           else Ok (set_tried, zset n (a_ref a) map_new, nc_add 1 0 (network (a_key a)) local));
      if negb (match zfind (a_key a) (s_addr s) with Some i => i =? n | None => false end) then Fail (-5)
      else if negb (match znth (a_rpos a) (s_random s) with Some i => i =? n | None => false end) then Fail (-14)
      else if a_last_try a <? 0 then Fail (-6)
      else if a_last_success a <? 0 then Fail (-8)
      else check_infos s r st1 mn1 lc1
    end.
  Fixpoint check_tried_slots (s : st) (l : list (slot * Z)) (set_tried : list Z) : res (list Z) :=
    match l with
    | [] => Ok set_tried
    | ((b, p), id) :: r =>
      if negb (existsb (Z.eqb id) set_tried) then Fail (-11) else
      match zfind id (s_info s) with
      | None => Fail (-17)
      | Some a =>
        if negb (tried_bucket (a_key a) =? b) then Fail (-17)
        else if negb (bucket_pos false b (a_key a) =? p) then Fail (-18)
        else check_tried_slots s r (filter (fun x => negb (x =? id)) set_tried)
      end
    end.
  Fixpoint check_new_slots (s : st) (l : list (slot * Z)) (map_new : list (Z * Z)) : res (list (Z * Z)) :=
    match l with
    | [] => Ok map_new
    | ((b, p), id) :: r =>
      match zfind id map_new with
      | None => Fail (-12)
      | Some cnt =>
        match zfind id (s_info s) with
        | None => Fail (-19)
        | Some a =>
          if negb (bucket_pos true b (a_key a) =? p) then Fail (-19)
          else check_new_slots s r (if cnt - 1 =? 0 then zdel id map_new else zset id (cnt - 1) map_new)
        end
      end
    end.
  Definition slot_in_range (nb : Z) (e : slot * Z) : bool :=
    let '((b, p), _) := e in (0 <=? b) && (b <? nb) && (0 <=? p) && (p <? c_BS c).
  Definition check_addrman (s : st) : Z :=
    if negb (zlen (s_random s) =? s_ntried s + s_nnew s) then -7 else
    match check_infos s (s_info s) [] [] [] with
    | Fail e => e
    | Ok (set_tried, map_new, local) =>
      if negb (zlen set_tried =? s_ntried s) then -9
      else if negb (zlen map_new =? s_nnew s) then -10
      (* a slot outside the array bounds has no C++ counterpart *)
      else if negb (forallb (slot_in_range (c_NT c)) (s_tried s) && forallb (slot_in_range (c_NB c)) (s_new s)) then -99
      else match check_tried_slots s (s_tried s) set_tried with
      | Fail e => e
      | Ok st2 =>
        match check_new_slots s (s_new s) map_new with
        | Fail e => e
        | Ok mn2 =>
          if negb (match st2 with [] => true | _ => false end) then -13
          else if negb (match mn2 with [] => true | _ => false end) then -15
          (* if (m_network_counts.size() < local_counts.size()) return -20;
             for ([net, count] : m_network_counts) if (local_counts[net] != count) return -21; *)
          else if zlen (s_netcnt s) <? zlen local then -20
          else if negb (forallb (fun e => let '(net, (n, t)) := e in
                                  let lc := nc_get local net in (fst lc =? n) && (snd lc =? t)) (s_netcnt s)) then -21
          else 0
        end
      end
    end.

  (* ---------- Serialize / Unserialize ---------- *)
  Definition entry_of (a : ainfo) : sentry :=
    mkSentry (a_key a) (a_src a) (wrapu32 (a_time a)) (a_services a) (a_last_success a) (a_attempts a).

  (* for (entry : mapInfo) { mapUnkIds[entry.first] = nIds; if (info.nRefCount) { assert(nIds != nNew); s << info; nIds++; } } *)
  Fixpoint ser_new (l : list (Z * ainfo)) (nnew nids : Z) (unk : list (Z * Z)) (out : list sentry)
    : res (list (Z * Z) * list sentry) :=
    match l with
    | [] => Ok (unk, rev out)
    | (id, a) :: r =>
      let unk' := zset id nids unk in
      if negb (a_ref a =? 0) then
        if nids =? nnew then Fail E_SER_NNEW else ser_new r nnew (nids + 1) unk' (entry_of a :: out)
      else ser_new r nnew nids unk' out
    end.
  (* for (entry : mapInfo) if (info.fInTried) { assert(nIds != nTried); s << info; nIds++; } *)
  Fixpoint ser_tried (l : list (Z * ainfo)) (ntried nids : Z) (out : list sentry) : res (list sentry) :=
    match l with
    | [] => Ok (rev out)
    | (id, a) :: r =>
      if a_tried a then
        if nids =? ntried then Fail E_SER_NTRIED else ser_tried r ntried (nids + 1) (entry_of a :: out)
      else ser_tried r ntried nids out
    end.
  (* entries of one bucket in position order *)
  Fixpoint insert_by_pos (e : Z * Z) (l : list (Z * Z)) : list (Z * Z) :=
    match l with
    | [] => [e]
    | x :: r => if fst e <? fst x then e :: l else x :: insert_by_pos e r
    end.
  Definition bucket_slots (newt : list (slot * Z)) (b : Z) : list (Z * Z) :=
    fold_right insert_by_pos [] (map (fun e => (snd (fst e), snd e)) (filter (fun e => fst (fst e) =? b) newt)).
  (* [order] = the iteration order of mapInfo (ids) *)
  Definition order_infos (s : st) (order : list Z) : list (Z * ainfo) :=
    flat_map (fun id => match zfind id (s_info s) with Some a => [(id, a)] | None => [] end) order.
  Definition serialize (s : st) (order : list Z) : res sfile :=
    let l := order_infos s order in
    do (unk, fnew) <- ser_new l (s_nnew s) 0 [] [];
    do ftried <- ser_tried l (s_ntried s) 0 [];
    (* for each bucket: nSize, then for each non-empty position: mapUnkIds[vvNew[bucket][i]] *)
    let buckets := map (fun b => map (fun e => match zfind (snd e) unk with Some i => i | None => 0 end) (bucket_slots (s_new s) b))
                       (zseq (c_NB c)) in
    Ok (mkSfile (s_nnew s) (s_ntried s) fnew ftried buckets).

  (* Unserialize into a fresh AddrManImpl. [asmap_same]: serialized_asmap_version == supplied_asmap_version *)
  Fixpoint unser_new (n : Z) (es : list sentry) (cnt : nat) (s : st) : res st :=
    match cnt with
    | O => Ok s
    | S cnt' =>
      match es with
      | [] => Fail E_UNSER_EOF
      | e :: r =>
        (* AddrInfo& info = mapInfo[n]; s >> info; mapAddr[info] = n; info.nRandomPos = vRandom.size(); vRandom.push_back(n);
           m_network_counts[info.GetNetwork()].n_new++; *)
        let a := mkInfo (e_key e) (e_src e) (e_time e) (e_services e) 0 0 (e_last_success e) (e_attempts e) 0 false (zlen (s_random s)) in
        unser_new (n + 1) r cnt'
          (mkSt (s_idcount s) (zset n a (s_info s)) (zset (e_key e) n (s_addr s)) (s_random s ++ [n]) (s_ntried s) (s_nnew s)
                (s_tried s) (s_new s) (s_last_good s) (s_coll s) (nc_add 1 0 (network (e_key e)) (s_netcnt s)))
      end
    end.
  Fixpoint unser_tried (es : list sentry) (cnt : nat) (s : st) (lost : Z) : res (st * Z) :=
    match cnt with
    | O => Ok (s, lost)
    | S cnt' =>
      match es with
      | [] => Fail E_UNSER_EOF
      | e :: r =>
        (* nKBucket = info.GetTriedBucket(..); nKBucketPos = ..;
           if (info.IsValid() && vvTried[nKBucket][nKBucketPos] == -1) { info.nRandomPos = vRandom.size(); info.fInTried = true;
              vRandom.push_back(nIdCount); mapInfo[nIdCount] = info; mapAddr[info] = nIdCount; vvTried[..] = nIdCount; nIdCount++;
              m_network_counts[..].n_tried++; } else nLost++; *)
        let ts := tslot (e_key e) in
        if valid (e_key e) && match sfind ts (s_tried s) with None => true | Some _ => false end then
          let id := s_idcount s in
          let a := mkInfo (e_key e) (e_src e) (e_time e) (e_services e) 0 0 (e_last_success e) (e_attempts e) 0 true (zlen (s_random s)) in
          unser_tried r cnt'
            (mkSt (id + 1) (zset id a (s_info s)) (zset (e_key e) id (s_addr s)) (s_random s ++ [id]) (s_ntried s) (s_nnew s)
                  (sset ts id (s_tried s)) (s_new s) (s_last_good s) (s_coll s) (nc_add 0 1 (network (e_key e)) (s_netcnt s))) lost
        else unser_tried r cnt' s (lost + 1)
      end
    end.
  (* for (bucket_entry : bucket_entries) { ... } *)
  Fixpoint unser_place (l : list (Z * Z)) (restore : bool) (s : st) : st :=
    match l with
    | [] => s
    | (b, idx) :: r =>
      match zfind idx (s_info s) with
      | None => unser_place r restore s   (* not reachable: entry_index < nNew *)
      | Some a =>
        if negb (valid (a_key a)) then unser_place r restore s
        else if a_ref a >=? c_MAXREF c then unser_place r restore s
        else
          let p := bucket_pos true b (a_key a) in
          let place sl := set_newt (sset sl idx (s_new s)) (set_info (zset idx (set_ref (a_ref a + 1) a) (s_info s)) s) in
          if restore && match sfind (b, p) (s_new s) with None => true | Some _ => false end then
            unser_place r restore (place (b, p))
          else
            let sl := nslot (a_key a) (a_src a) in
            match sfind sl (s_new s) with
            | None => unser_place r restore (place sl)
            | Some _ => unser_place r restore s
            end
      end
    end.
  (* for (it = mapInfo.cbegin(); ...) if (!fInTried && nRefCount == 0) Delete(it->first); *)
  Fixpoint unser_prune (ids : list Z) (s : st) : res st :=
    match ids with
    | [] => Ok s
    | id :: r =>
      match zfind id (s_info s) with
      | Some a => if negb (a_tried a) && (a_ref a =? 0) then do s1 <- delete s id; unser_prune r s1 else unser_prune r s
      | None => unser_prune r s
      end
    end.
  Definition bucket_entries (f : sfile) : list (Z * Z) :=
    concat (map (fun bi => let '(b, idxs) := bi in
                           flat_map (fun i => if (0 <=? i) && (i <? f_nnew f) then [(b, i)] else []) idxs)
                (combine (zseq (zlen (f_buckets f))) (f_buckets f))).
  Definition unserialize (f : sfile) (asmap_same : bool) : res st :=
    if (f_nnew f >? c_NB c * c_BS c) || (f_nnew f <? 0) then Fail E_UNSER_NNEW else
    if (f_ntried f >? c_NT c * c_BS c) || (f_ntried f <? 0) then Fail E_UNSER_NTRIED else
    let s0 := set_ntried (f_ntried f) (set_nnew (f_nnew f) init_state) in
    do s1 <- unser_new 0 (f_new f) (Z.to_nat (f_nnew f)) s0;
    let s1 := set_idcount (f_nnew f) s1 in
    do (s2, lost) <- unser_tried (f_tried f) (Z.to_nat (f_ntried f)) s1 0;
    let s2 := set_ntried (s_ntried s2 - lost) s2 in
    let restore := (zlen (f_buckets f) =? c_NB c) && asmap_same in
    let s3 := unser_place (bucket_entries f) restore s2 in
    do s4 <- unser_prune (map fst (s_info s3)) s3;
    let code := check_addrman s4 in
    if code =? 0 then Ok s4 else Fail (E_UNSER_CHECK - code).

End Model.
