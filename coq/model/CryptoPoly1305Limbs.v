(* C49 — Poly1305: the 26-bit limb arithmetic of poly1305_donna (src/crypto/poly1305.cpp), transcribed
   statement by statement with every uint32_t / uint64_t operation reduced explicitly (w32 / w64).
   proofs/CryptoPoly1305LimbsLemmas.v shows that it computes what model/CryptoPoly1305.v assumes at the
   level of numbers:  h := (h + block + hibit) * r  mod 2^130 - 5  per block, and
   mac = (h mod p + pad) mod 2^128.
   Executable definitions only. *)
From Coq Require Import NArith.
From BV Require Import lib.Ints model.CryptoBase model.CryptoPoly1305.
Local Open Scope Z_scope.

Definition limbs : Type := (Z * Z * Z * Z * Z)%type.
Definition M26 : Z := 0x3ffffff.

(* the number five limbs stand for *)
Definition lval (h : limbs) : Z :=
  let '(h0, h1, h2, h3, h4) := h in
  h0 + 2 ^ 26 * h1 + 2 ^ 52 * h2 + 2 ^ 78 * h3 + 2 ^ 104 * h4.

(* ReadLE32(&m[off]) *)
Definition rd32 (m : list N) (off : nat) : Z := le_value (firstn 4 (skipn off m)).

(* poly1305_init:
     st->r[0] = (ReadLE32(&key[ 0])     ) & 0x3ffffff;
     st->r[1] = (ReadLE32(&key[ 3]) >> 2) & 0x3ffff03;
     st->r[2] = (ReadLE32(&key[ 6]) >> 4) & 0x3ffc0ff;
     st->r[3] = (ReadLE32(&key[ 9]) >> 6) & 0x3f03fff;
     st->r[4] = (ReadLE32(&key[12]) >> 8) & 0x00fffff;
     st->pad[i] = ReadLE32(&key[16 + 4 i]) *)
Definition donna_r (key : list N) : limbs :=
  (Z.land (rd32 key 0) 0x3ffffff,
   Z.land (Z.shiftr (rd32 key 3) 2) 0x3ffff03,
   Z.land (Z.shiftr (rd32 key 6) 4) 0x3ffc0ff,
   Z.land (Z.shiftr (rd32 key 9) 6) 0x3f03fff,
   Z.land (Z.shiftr (rd32 key 12) 8) 0x00fffff).
Definition donna_pad (key : list N) : Z * Z * Z * Z :=
  (rd32 key 16, rd32 key 20, rd32 key 24, rd32 key 28).

(* one iteration of the loop of poly1305_blocks; hibit = (st->final) ? 0 : (1UL << 24).  Three stages. *)

(* h += m[i]:
     h0 += (ReadLE32(m+ 0)     ) & 0x3ffffff;  h1 += (ReadLE32(m+ 3) >> 2) & 0x3ffffff;
     h2 += (ReadLE32(m+ 6) >> 4) & 0x3ffffff;  h3 += (ReadLE32(m+ 9) >> 6) & 0x3ffffff;
     h4 += (ReadLE32(m+12) >> 8) | hibit; *)
Definition donna_add_msg (hibit : Z) (h : limbs) (m : list N) : limbs :=
  let '(h0, h1, h2, h3, h4) := h in
  (w32 (h0 + Z.land (rd32 m 0) M26),
   w32 (h1 + Z.land (Z.shiftr (rd32 m 3) 2) M26),
   w32 (h2 + Z.land (Z.shiftr (rd32 m 6) 4) M26),
   w32 (h3 + Z.land (Z.shiftr (rd32 m 9) 6) M26),
   w32 (h4 + Z.lor (Z.shiftr (rd32 m 12) 8) hibit)).

(* h *= r:  s_i = r_i * 5 (uint32_t);
     d0 = ((uint64_t)h0 * r0) + ((uint64_t)h1 * s4) + ((uint64_t)h2 * s3) + ((uint64_t)h3 * s2) + ((uint64_t)h4 * s1); ... *)
Definition donna_mul (r : limbs) (h : limbs) : limbs :=
  let '(r0, r1, r2, r3, r4) := r in
  let '(h0, h1, h2, h3, h4) := h in
  let s1 := w32 (r1 * 5) in let s2 := w32 (r2 * 5) in let s3 := w32 (r3 * 5) in let s4 := w32 (r4 * 5) in
  (w64 (w64 (h0 * r0) + w64 (h1 * s4) + w64 (h2 * s3) + w64 (h3 * s2) + w64 (h4 * s1)),
   w64 (w64 (h0 * r1) + w64 (h1 * r0) + w64 (h2 * s4) + w64 (h3 * s3) + w64 (h4 * s2)),
   w64 (w64 (h0 * r2) + w64 (h1 * r1) + w64 (h2 * r0) + w64 (h3 * s4) + w64 (h4 * s3)),
   w64 (w64 (h0 * r3) + w64 (h1 * r2) + w64 (h2 * r1) + w64 (h3 * r0) + w64 (h4 * s4)),
   w64 (w64 (h0 * r4) + w64 (h1 * r3) + w64 (h2 * r2) + w64 (h3 * r1) + w64 (h4 * r0))).

(* (partial) h %= p:
                   c = (uint32_t)(d0 >> 26); h0 = (uint32_t)d0 & 0x3ffffff;
     d1 += c;      c = (uint32_t)(d1 >> 26); h1 = (uint32_t)d1 & 0x3ffffff;  ... d4 likewise
     h0 += c * 5;  c = (h0 >> 26); h0 = h0 & 0x3ffffff;
     h1 += c; *)
Definition donna_carry (d : limbs) : limbs :=
  let '(d0, d1, d2, d3, d4) := d in
  let c := w32 (Z.shiftr d0 26) in let h0 := Z.land (w32 d0) M26 in
  let d1 := w64 (d1 + c) in let c := w32 (Z.shiftr d1 26) in let h1 := Z.land (w32 d1) M26 in
  let d2 := w64 (d2 + c) in let c := w32 (Z.shiftr d2 26) in let h2 := Z.land (w32 d2) M26 in
  let d3 := w64 (d3 + c) in let c := w32 (Z.shiftr d3 26) in let h3 := Z.land (w32 d3) M26 in
  let d4 := w64 (d4 + c) in let c := w32 (Z.shiftr d4 26) in let h4 := Z.land (w32 d4) M26 in
  let h0 := w32 (h0 + w32 (c * 5)) in let c := Z.shiftr h0 26 in let h0 := Z.land h0 M26 in
  let h1 := w32 (h1 + c) in
  (h0, h1, h2, h3, h4).

Definition donna_block (r : limbs) (hibit : Z) (h : limbs) (m : list N) : limbs :=
  donna_carry (donna_mul r (donna_add_msg hibit h m)).

(* poly1305_blocks(st, m, 16 * n) *)
Fixpoint donna_blocks (n : nat) (r : limbs) (hibit : Z) (h : limbs) (m : list N) : limbs :=
  match n with
  | O => h
  | S k => donna_blocks k r hibit (donna_block r hibit h (firstn 16 m)) (skipn 16 m)
  end.

(* the tail of poly1305_finish (after the optional last block), in three stages *)

(* fully carry h:
                  c = h1 >> 26; h1 = h1 & 0x3ffffff;
     h2 +=     c; c = h2 >> 26; h2 = h2 & 0x3ffffff;
     h3 +=     c; c = h3 >> 26; h3 = h3 & 0x3ffffff;
     h4 +=     c; c = h4 >> 26; h4 = h4 & 0x3ffffff;
     h0 += c * 5; c = h0 >> 26; h0 = h0 & 0x3ffffff;
     h1 +=     c; *)
Definition donna_full_carry (h : limbs) : limbs :=
  let '(h0, h1, h2, h3, h4) := h in
  let c := Z.shiftr h1 26 in let h1 := Z.land h1 M26 in
  let h2 := w32 (h2 + c) in let c := Z.shiftr h2 26 in let h2 := Z.land h2 M26 in
  let h3 := w32 (h3 + c) in let c := Z.shiftr h3 26 in let h3 := Z.land h3 M26 in
  let h4 := w32 (h4 + c) in let c := Z.shiftr h4 26 in let h4 := Z.land h4 M26 in
  let h0 := w32 (h0 + w32 (c * 5)) in let c := Z.shiftr h0 26 in let h0 := Z.land h0 M26 in
  let h1 := w32 (h1 + c) in
  (h0, h1, h2, h3, h4).

(* compute h + -p; select h if h < p, or h + -p if h >= p:
     g0 = h0 + 5; c = g0 >> 26; g0 &= 0x3ffffff;
     g1 = h1 + c; c = g1 >> 26; g1 &= 0x3ffffff;  (g2, g3 likewise)
     g4 = h4 + c - (1UL << 26);
     mask = (g4 >> ((sizeof(uint32_t) * 8) - 1)) - 1;
     g0 &= mask; ... g4 &= mask;  mask = ~mask;
     h0 = (h0 & mask) | g0; ... h4 = (h4 & mask) | g4; *)
Definition donna_freeze (h : limbs) : limbs :=
  let '(h0, h1, h2, h3, h4) := h in
  let g0 := w32 (h0 + 5) in let c := Z.shiftr g0 26 in let g0 := Z.land g0 M26 in
  let g1 := w32 (h1 + c) in let c := Z.shiftr g1 26 in let g1 := Z.land g1 M26 in
  let g2 := w32 (h2 + c) in let c := Z.shiftr g2 26 in let g2 := Z.land g2 M26 in
  let g3 := w32 (h3 + c) in let c := Z.shiftr g3 26 in let g3 := Z.land g3 M26 in
  let g4 := w32 (h4 + c - 2 ^ 26) in
  let mask := w32 (Z.shiftr g4 31 - 1) in
  let g0 := Z.land g0 mask in let g1 := Z.land g1 mask in let g2 := Z.land g2 mask in
  let g3 := Z.land g3 mask in let g4 := Z.land g4 mask in
  let mask := not32 mask in
  (Z.lor (Z.land h0 mask) g0, Z.lor (Z.land h1 mask) g1, Z.lor (Z.land h2 mask) g2,
   Z.lor (Z.land h3 mask) g3, Z.lor (Z.land h4 mask) g4).

(* h = h % (2^128):
     h0 = ((h0      ) | (h1 << 26)) & 0xffffffff;  h1 = ((h1 >>  6) | (h2 << 20)) & 0xffffffff;
     h2 = ((h2 >> 12) | (h3 << 14)) & 0xffffffff;  h3 = ((h3 >> 18) | (h4 <<  8)) & 0xffffffff;
   mac = (h + pad) % (2^128):
     f = (uint64_t)h0 + st->pad[0]            ; h0 = (uint32_t)f;
     f = (uint64_t)h1 + st->pad[1] + (f >> 32); h1 = (uint32_t)f;  (h2, h3 likewise)
     WriteLE32(mac + 0, h0); ... *)
Definition donna_pack (h : limbs) (pad : Z * Z * Z * Z) : list N :=
  let '(h0, h1, h2, h3, h4) := h in
  let '(pad0, pad1, pad2, pad3) := pad in
  let k0 := w32 (Z.lor h0 (w32 (Z.shiftl h1 26))) in
  let k1 := w32 (Z.lor (Z.shiftr h1 6) (w32 (Z.shiftl h2 20))) in
  let k2 := w32 (Z.lor (Z.shiftr h2 12) (w32 (Z.shiftl h3 14))) in
  let k3 := w32 (Z.lor (Z.shiftr h3 18) (w32 (Z.shiftl h4 8))) in
  let f := w64 (k0 + pad0) in let o0 := w32 f in
  let f := w64 (k1 + pad1 + Z.shiftr f 32) in let o1 := w32 f in
  let f := w64 (k2 + pad2 + Z.shiftr f 32) in let o2 := w32 f in
  let f := w64 (k3 + pad3 + Z.shiftr f 32) in let o3 := w32 f in
  le_bytes 4 o0 ++ le_bytes 4 o1 ++ le_bytes 4 o2 ++ le_bytes 4 o3.

Definition donna_finish (h : limbs) (pad : Z * Z * Z * Z) : list N :=
  donna_pack (donna_freeze (donna_full_carry h)) pad.

(* one-shot MAC computed entirely with the limb code (whole blocks, then the padded last block with final = 1) *)
Definition donna_mac (key msg : list N) : list N :=
  let r := donna_r key in
  let n := (length msg / 16)%nat in
  let h := donna_blocks n r (2 ^ 24) (0, 0, 0, 0, 0) msg in
  let rest := skipn (n * 16) msg in
  let h := if (0 <? length rest)%nat
           then donna_block r 0 h (rest ++ [1%N] ++ zeros (16 - length rest - 1))
           else h in
  donna_finish h (donna_pad key).

(* ---------------- the incremental interface on limbs ----------------
   The same poly1305_init / poly1305_update / poly1305_finish as in model/CryptoPoly1305.v (see the C++
   quoted there), with r, h, pad held in limbs as in the C++ struct and poly1305_blocks = donna_blocks. *)
Record donna_ctx : Type :=
  { d_r : limbs; d_h : limbs; d_pad : Z * Z * Z * Z; d_leftover : nat; d_buffer : list N; d_final : bool }.

Definition donna_init (uninitialised_buffer : list N) (key : list N) : donna_ctx :=
  {| d_r := donna_r key; d_h := (0, 0, 0, 0, 0); d_pad := donna_pad key; d_leftover := 0;
     d_buffer := uninitialised_buffer; d_final := false |}.

Definition donna_ctx_blocks (st : donna_ctx) (m : list N) (bytes : nat) : donna_ctx :=
  {| d_r := d_r st;
     d_h := donna_blocks (bytes / 16) (d_r st) (if d_final st then 0 else 2 ^ 24) (d_h st) m;
     d_pad := d_pad st; d_leftover := d_leftover st; d_buffer := d_buffer st; d_final := d_final st |}.

Definition donna_set_leftover (st : donna_ctx) (buf : list N) (lo : nat) : donna_ctx :=
  {| d_r := d_r st; d_h := d_h st; d_pad := d_pad st; d_leftover := lo; d_buffer := buf; d_final := d_final st |}.

Definition donna_update_tail (st : donna_ctx) (m : list N) : donna_ctx :=
  let bytes := length m in
  let '(st2, m2) :=
    if (16 <=? bytes)%nat then
      let want := (bytes / 16 * 16)%nat in
      (donna_ctx_blocks st m want, skipn want m)
    else (st, m) in
  if (0 <? length m2)%nat then
    donna_set_leftover st2 (memcpy (d_buffer st2) (d_leftover st2) m2) (d_leftover st2 + length m2)
  else st2.

Definition donna_update (st : donna_ctx) (m : list N) : donna_ctx :=
  let bytes := length m in
  if negb (d_leftover st =? 0)%nat then
    let want := Nat.min (16 - d_leftover st) bytes in
    let buf' := memcpy (d_buffer st) (d_leftover st) (firstn want m) in
    let lo' := (d_leftover st + want)%nat in
    if (lo' <? 16)%nat then donna_set_leftover st buf' lo'
    else
      let st1 := donna_ctx_blocks (donna_set_leftover st buf' lo') buf' 16 in
      donna_update_tail (donna_set_leftover st1 buf' 0) (skipn want m)
  else donna_update_tail st m.

(* poly1305_finish: if (st->leftover) { buffer[leftover] = 1; zero the rest; st->final = 1; poly1305_blocks(st, buffer, 16); } ... *)
Definition donna_ctx_finish (st : donna_ctx) : list N :=
  let h :=
    if negb (d_leftover st =? 0)%nat then
      let buf' := firstn (d_leftover st) (d_buffer st) ++ [1%N] ++ zeros (16 - d_leftover st - 1) in
      donna_block (d_r st) 0 (d_h st) buf'
    else d_h st in
  donna_finish h (d_pad st).

Definition donna_stream (ubuf key : list N) (chunks : list (list N)) : list N :=
  donna_ctx_finish (fold_left donna_update chunks (donna_init ubuf key)).
