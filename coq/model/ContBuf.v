(* Raw memory buffers shared by the container models (C61).
   A buffer is a `list T` of exactly `capacity` slots; slots that the C++ code has not initialised hold
   an arbitrary `junk` value (the refinement theorems show that no observable depends on it).
   Reads and writes are bounds-checked: an out-of-bounds access (undefined behaviour in C++) is `None`,
   so "every access of every operation is in bounds" is part of what the step theorems prove.
   Executable definitions only. *)
From Coq Require Import List Arith Bool.
Import ListNotations.

(* option monad used by every container model *)
Notation "x <- e ;; f" := (match e with Some x => f | None => None end)
  (at level 61, e at next level, right associativity).

Section Buf.
  Context {T : Type}.

  (* total helpers (bw = write `data` at `pos`, br = read `n` slots from `pos`) *)
  Definition bw (b : list T) (pos : nat) (data : list T) : list T :=
    firstn pos b ++ data ++ skipn (pos + length data) b.
  Definition br (b : list T) (pos n : nat) : list T := firstn n (skipn pos b).

  (* memcpy / memmove / std::fill_n / placement-new of a run of slots:  checked *)
  Definition buf_write (b : list T) (pos : nat) (data : list T) : option (list T) :=
    if pos + length data <=? length b then Some (bw b pos data) else None.
  Definition buf_read (b : list T) (pos n : nat) : option (list T) :=
    if pos + n <=? length b then Some (br b pos n) else None.

  (* single slot *)
  Definition buf_get (b : list T) (i : nat) : option T := nth_error b i.
  Definition buf_set (b : list T) (i : nat) (v : T) : option (list T) := buf_write b i [v].

  (* realloc(p, n): keeps min(old, n) slots, the rest is uninitialised *)
  Definition realloc (junk : T) (b : list T) (n : nat) : list T :=
    firstn n b ++ repeat junk (n - length b).
End Buf.
