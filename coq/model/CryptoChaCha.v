(* C49 — ChaCha20.
   Specification from RFC 8439 sections 2.1 - 2.4 (quarter round, block function, encryption).
   Model of the C++ classes of src/crypto/chacha20.{h,cpp}: ChaCha20Aligned (12 state words
   `input`: 8 key words, the 32-bit block counter, 3 nonce words; Keystream / Crypt on whole
   blocks, with the counter overflow rule `++j12; if (!j12) ++j13;`), ChaCha20 (leftover
   keystream buffer m_buffer / m_bufleft; Keystream and Crypt in three phases), FSChaCha20.
   The unrolled block loop of the C++ is not modelled statement by statement: where the C++
   computes a block the model calls the RFC block function on (constants ++ input).
   Executable definitions only. *)
From Coq Require Import NArith.
From BV Require Import lib.Ints model.CryptoBase.
Local Open Scope Z_scope.

(* ---------------- RFC 8439 ---------------- *)

(* 2.1: a += b; d ^= a; d <<<= 16;  c += d; b ^= c; b <<<= 12;  a += b; d ^= a; d <<<= 8;  c += d; b ^= c; b <<<= 7 *)
Definition quarter (a b c d : Z) : Z * Z * Z * Z :=
  let a := w32 (a + b) in let d := rotl32 16 (Z.lxor d a) in
  let c := w32 (c + d) in let b := rotl32 12 (Z.lxor b c) in
  let a := w32 (a + b) in let d := rotl32 8 (Z.lxor d a) in
  let c := w32 (c + d) in let b := rotl32 7 (Z.lxor b c) in
  (a, b, c, d).

Fixpoint upd (i : nat) (v : Z) (l : list Z) : list Z :=
  match l with
  | [] => []
  | x :: r => match i with O => v :: r | S j => x :: upd j v r end
  end.

(* 2.2: QUARTERROUND(x, y, z, w) on the state seen as a vector of 16 words *)
Definition quarterround (x y z w : nat) (st : list Z) : list Z :=
  let '(a, b, c, d) := quarter (nth x st 0) (nth y st 0) (nth z st 0) (nth w st 0) in
  upd w d (upd z c (upd y b (upd x a st))).

(* 2.3: inner_block = 4 column rounds + 4 diagonal rounds *)
Definition inner_block (st : list Z) : list Z :=
  let st := quarterround 0 4 8 12 st in
  let st := quarterround 1 5 9 13 st in
  let st := quarterround 2 6 10 14 st in
  let st := quarterround 3 7 11 15 st in
  let st := quarterround 0 5 10 15 st in
  let st := quarterround 1 6 11 12 st in
  let st := quarterround 2 7 8 13 st in
  quarterround 3 4 9 14 st.

Fixpoint iterate {A} (n : nat) (f : A -> A) (x : A) : A :=
  match n with O => x | S k => iterate k f (f x) end.

Fixpoint add_words (a b : list Z) : list Z :=
  match a, b with x :: a', y :: b' => w32 (x + y) :: add_words a' b' | _, _ => [] end.

(* "ChaCha20 ... constants 0x61707865, 0x3320646e, 0x79622d32, 0x6b206574" *)
Definition chacha_consts : list Z := [0x61707865; 0x3320646e; 0x79622d32; 0x6b206574].

(* the block function on an initial 16-word state: 10 double rounds, add the initial state, serialize little endian *)
Definition chacha20_block_words (state : list Z) : list N :=
  concat (map (le_bytes 4) (add_words (iterate 10 inner_block state) state)).

(* 2.3: chacha20_block(key, counter, nonce): key 32 bytes, nonce 12 bytes, counter a 32-bit number *)
Definition chacha20_block (key : list N) (counter : Z) (nonce : list N) : list N :=
  chacha20_block_words (chacha_consts ++ le32_words key ++ [counter] ++ le32_words nonce).

(* 2.4: for j = 0 .. floor(len/64)-1: block = plaintext[j*64 .. j*64+63] xor chacha20_block(key, counter+j, nonce);
        then the last partial block.  (xor_bytes truncates to the shorter operand.)  fuel = |plaintext| *)
Fixpoint chacha20_encrypt_fuel (fuel : nat) (key : list N) (counter : Z) (nonce : list N) (plaintext : list N) : list N :=
  match fuel with
  | O => []
  | S f =>
    match plaintext with
    | [] => []
    | _ => xor_bytes (firstn 64 plaintext) (chacha20_block key counter nonce) ++
           chacha20_encrypt_fuel f key (counter + 1) nonce (skipn 64 plaintext)
    end
  end.
Definition chacha20_encrypt (key : list N) (counter : Z) (nonce : list N) (plaintext : list N) : list N :=
  chacha20_encrypt_fuel (length plaintext) key counter nonce plaintext.

(* ---------------- ChaCha20Aligned ---------------- *)
(* uint32_t input[12] *)
(* void SetKey(key): input[0..7] = ReadLE32(key + 4i); input[8..11] = 0 *)
Definition aligned_setkey (key : list N) : list Z := le32_words key ++ [0; 0; 0; 0].
(* void Seek(Nonce96 nonce, uint32_t block_counter):
     input[8] = block_counter; input[9] = nonce.first; input[10] = nonce.second; input[11] = nonce.second >> 32; *)
Definition aligned_seek (input : list Z) (nonce_first nonce_second block_counter : Z) : list Z :=
  firstn 8 input ++ [block_counter; nonce_first; w32 nonce_second; Z.shiftr nonce_second 32].

(* one block of the loop: the block is computed from (constants, j4..j15); then `++j12; if (!j12) ++j13;` *)
Definition aligned_block (input : list Z) : list N := chacha20_block_words (chacha_consts ++ input).
Definition aligned_next (input : list Z) : list Z :=
  let j12 := w32 (nth 8 input 0 + 1) in
  let j13 := if j12 =? 0 then w32 (nth 9 input 0 + 1) else nth 9 input 0 in
  upd 9 j13 (upd 8 j12 input).

(* Keystream(out) with out.size() = 64 * blocks; returns the bytes and the updated input
   (input[8], input[9] are written back when the loop ends; `if (!blocks) return;`) *)
Fixpoint aligned_keystream (blocks : nat) (input : list Z) : list N * list Z :=
  match blocks with
  | O => ([], input)
  | S b => let '(r, input') := aligned_keystream b (aligned_next input) in (aligned_block input ++ r, input')
  end.
(* Crypt(in, out): the same loop with the input XORed in *)
Definition aligned_crypt (blocks : nat) (input : list Z) (data : list N) : list N * list Z :=
  let '(ks, input') := aligned_keystream blocks input in (xor_bytes data ks, input').

(* ---------------- ChaCha20 (unrestricted lengths) ---------------- *)
(* ChaCha20Aligned m_aligned; std::array<std::byte, 64> m_buffer; unsigned m_bufleft{0}; *)
Record chacha20 : Type := { cc_input : list Z; cc_buffer : list N; cc_bufleft : nat }.

(* ChaCha20(key); m_buffer is not initialised: its contents are an argument *)
Definition chacha20_new (uninitialised_buffer : list N) (key : list N) : chacha20 :=
  {| cc_input := aligned_setkey key; cc_buffer := uninitialised_buffer; cc_bufleft := 0 |}.
(* void SetKey(key) { m_aligned.SetKey(key); m_bufleft = 0; memory_cleanse(m_buffer) } *)
Definition chacha20_setkey (c : chacha20) (key : list N) : chacha20 :=
  {| cc_input := aligned_setkey key; cc_buffer := zeros 64; cc_bufleft := 0 |}.
(* void Seek(nonce, block_counter) { m_aligned.Seek(nonce, block_counter); m_bufleft = 0; } *)
Definition chacha20_seek (c : chacha20) (nonce_first nonce_second block_counter : Z) : chacha20 :=
  {| cc_input := aligned_seek (cc_input c) nonce_first nonce_second block_counter;
     cc_buffer := cc_buffer c; cc_bufleft := 0 |}.

(* void ChaCha20::Crypt(std::span<const std::byte> input, std::span<std::byte> output) noexcept
   {
       if (!input.size()) return;
       if (m_bufleft) {
           unsigned reuse = std::min<size_t>(m_bufleft, input.size());
           for (unsigned i = 0; i < reuse; i++) output[i] = input[i] ^ m_buffer[m_aligned.BLOCKLEN - m_bufleft + i];
           m_bufleft -= reuse; output = output.subspan(reuse); input = input.subspan(reuse);
       }
       if (input.size() >= m_aligned.BLOCKLEN) {
           size_t blocks = input.size() / m_aligned.BLOCKLEN;
           m_aligned.Crypt(input.first(blocks * 64), output.first(blocks * 64));
           output = output.subspan(blocks * 64); input = input.subspan(blocks * 64);
       }
       if (!input.empty()) {
           m_aligned.Keystream(m_buffer);
           for (unsigned i = 0; i < input.size(); i++) output[i] = input[i] ^ m_buffer[i];
           m_bufleft = m_aligned.BLOCKLEN - input.size();
       }
   } *)
Definition chacha20_crypt (c : chacha20) (data : list N) : list N * chacha20 :=
  if (length data =? 0)%nat then ([], c) else
  (* phase 1: leftover keystream *)
  let reuse := if (0 <? cc_bufleft c)%nat then Nat.min (cc_bufleft c) (length data) else 0%nat in
  let out1 := xor_bytes (firstn reuse data) (firstn reuse (skipn (64 - cc_bufleft c) (cc_buffer c))) in
  let bufleft1 := (cc_bufleft c - reuse)%nat in
  let data1 := skipn reuse data in
  (* phase 2: whole blocks *)
  let '(out2, input2, data2) :=
    if (64 <=? length data1)%nat then
      let blocks := (length data1 / 64)%nat in
      let '(o, i) := aligned_crypt blocks (cc_input c) (firstn (blocks * 64) data1) in
      (o, i, skipn (blocks * 64) data1)
    else ([], cc_input c, data1) in
  (* phase 3: a fresh block into the buffer *)
  if (0 <? length data2)%nat then
    let '(blk, input3) := aligned_keystream 1 input2 in
    (out1 ++ out2 ++ xor_bytes data2 blk,
     {| cc_input := input3; cc_buffer := blk; cc_bufleft := (64 - length data2)%nat |})
  else
    (out1 ++ out2, {| cc_input := input2; cc_buffer := cc_buffer c; cc_bufleft := bufleft1 |}).

(* void ChaCha20::Keystream(std::span<std::byte> out): the same three phases, copying instead of XORing *)
Definition chacha20_keystream (c : chacha20) (n : nat) : list N * chacha20 :=
  if (n =? 0)%nat then ([], c) else
  let reuse := if (0 <? cc_bufleft c)%nat then Nat.min (cc_bufleft c) n else 0%nat in
  let out1 := firstn reuse (skipn (64 - cc_bufleft c) (cc_buffer c)) in
  let bufleft1 := (cc_bufleft c - reuse)%nat in
  let n1 := (n - reuse)%nat in
  let '(out2, input2, n2) :=
    if (64 <=? n1)%nat then
      let blocks := (n1 / 64)%nat in
      let '(o, i) := aligned_keystream blocks (cc_input c) in
      (o, i, (n1 - blocks * 64)%nat)
    else ([], cc_input c, n1) in
  if (0 <? n2)%nat then
    let '(blk, input3) := aligned_keystream 1 input2 in
    (out1 ++ out2 ++ firstn n2 blk,
     {| cc_input := input3; cc_buffer := blk; cc_bufleft := (64 - n2)%nat |})
  else
    (out1 ++ out2, {| cc_input := input2; cc_buffer := cc_buffer c; cc_bufleft := bufleft1 |}).

(* a sequence of Crypt calls on one object; the outputs in order *)
Fixpoint chacha20_crypt_seq (c : chacha20) (chunks : list (list N)) : list (list N) * chacha20 :=
  match chunks with
  | [] => ([], c)
  | d :: r => let '(o, c1) := chacha20_crypt c d in
              let '(os, c2) := chacha20_crypt_seq c1 r in (o :: os, c2)
  end.

(* operations mixing both calls: Crypt data | Keystream n *)
Inductive cc_op : Type := OpCrypt (data : list N) | OpKeystream (n : nat).
Definition cc_run_op (c : chacha20) (op : cc_op) : list N * chacha20 :=
  match op with OpCrypt d => chacha20_crypt c d | OpKeystream n => chacha20_keystream c n end.
Fixpoint cc_run_ops (c : chacha20) (ops : list cc_op) : list (list N) * chacha20 :=
  match ops with
  | [] => ([], c)
  | op :: r => let '(o, c1) := cc_run_op c op in
               let '(os, c2) := cc_run_ops c1 r in (o :: os, c2)
  end.

(* ---------------- FSChaCha20 (BIP324 length cipher) ----------------
   void FSChaCha20::Crypt(input, output)
   {
       m_chacha20.Crypt(input, output);
       if (++m_chunk_counter == m_rekey_interval) {
           std::byte new_key[KEYLEN];
           m_chacha20.Keystream(new_key);
           m_chacha20.SetKey(new_key);
           m_chacha20.Seek({0, ++m_rekey_counter}, 0);
           m_chunk_counter = 0;
       }
   } *)
Record fschacha20 : Type :=
  { fs_chacha : chacha20; fs_rekey_interval : Z; fs_chunk_counter : Z; fs_rekey_counter : Z }.
Definition fschacha20_new (ubuf key : list N) (rekey_interval : Z) : fschacha20 :=
  {| fs_chacha := chacha20_new ubuf key; fs_rekey_interval := rekey_interval;
     fs_chunk_counter := 0; fs_rekey_counter := 0 |}.
Definition fschacha20_crypt (f : fschacha20) (data : list N) : list N * fschacha20 :=
  let '(out, c1) := chacha20_crypt (fs_chacha f) data in
  let cnt := wrapu32 (fs_chunk_counter f + 1) in
  if cnt =? fs_rekey_interval f then
    let '(new_key, c2) := chacha20_keystream c1 32 in
    let c3 := chacha20_setkey c2 new_key in
    let rk := wrapu64 (fs_rekey_counter f + 1) in
    let c4 := chacha20_seek c3 0 rk 0 in
    (out, {| fs_chacha := c4; fs_rekey_interval := fs_rekey_interval f; fs_chunk_counter := 0; fs_rekey_counter := rk |})
  else
    (out, {| fs_chacha := c1; fs_rekey_interval := fs_rekey_interval f; fs_chunk_counter := cnt;
             fs_rekey_counter := fs_rekey_counter f |}).
Fixpoint fschacha20_crypt_seq (f : fschacha20) (chunks : list (list N)) : list (list N) * fschacha20 :=
  match chunks with
  | [] => ([], f)
  | d :: r => let '(o, f1) := fschacha20_crypt f d in
              let '(os, f2) := fschacha20_crypt_seq f1 r in (o :: os, f2)
  end.
