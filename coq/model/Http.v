(* The HTTP request parser of the RPC/REST server.  Transcribed from
     src/util/string.cpp   util::LineReader::ReadLine / ReadLength
     src/httpserver.cpp    HTTPHeaders::{FindFirst,FindAll,Read}, HTTPRequest::{LoadControlData,LoadHeaders,LoadBody},
                           HTTPRemoteClient::ReadRequest, HTTPServer::MaybeDispatchRequestsFromClient
   Executable definitions only (proofs are in proofs/Http*.v).

   Representation.  A LineReader over the receive buffer is (m_str, m_it); every use in the parser
   only needs the not yet consumed suffix [m_it, end) and differences of Consumed(), so the model
   passes the unconsumed suffix [rem : bytes] around and functions return the new suffix.
   "reader.Consumed() - start" inside HTTPHeaders::Read is the local counter [here].
   The C++ while loops are [run_loop body]: [body] is the loop body, it reports whether the loop
   continues ([Adv]), the function returns false because data is missing ([Need]), returns true
   ([Done]) or throws ([Fail]).  Fuel is the buffer length + 1 (every continuing iteration consumes
   at least one byte; run_loop_never_out_of_fuel in the proofs). *)
From BV Require Import lib.Ints gen.Params_gen.
From Coq Require Import NArith.
Local Open Scope Z_scope.

Definition byte := N.
Definition bytes := list N.

Definition LF : N := 10%N.
Definition CR : N := 13%N.
Definition NUL : N := 0%N.
Definition SP : N := 32%N.
Definition COLON : N := 58%N.
Definition SEMICOLON : N := 59%N.
Definition DOT : N := 46%N.

Fixpoint bytes_eqb (a b : bytes) : bool :=
  match a, b with
  | [], [] => true
  | x :: a', y :: b' => N.eqb x y && bytes_eqb a' b'
  | _, _ => false
  end.

Definition mem_byte (c : N) (set : bytes) : bool := existsb (N.eqb c) set.
(* std::string_view::find_first_of(set) != npos *)
Definition contains_any (set : bytes) (s : bytes) : bool := existsb (fun c => mem_byte c set) s.

(* thrown exceptions: std::runtime_error (reply 400) and ContentTooLargeError (reply 413) *)
Inductive http_error := BadRequest | ContentTooLarge.

(* ---------------------------------------------------------------------------------------------- *)
(* util::LineReader *)

(* std::optional<std::string_view> LineReader::ReadLine()
   {
       if (m_it == m_str.end()) return std::nullopt;
       const auto line_start = m_it;
       while (m_it != m_str.end()) {
           const bool new_line{*m_it == '\n'};
           ++m_it;
           if (new_line) {
               std::string_view line{line_start, m_it - 1};
               if (!line.empty() && line.back() == '\r') line.remove_suffix(1);
               return line;
           }
           if (static_cast<size_t>(std::distance(line_start, m_it)) > m_max_line_length) {
               m_it = line_start;
               throw std::runtime_error("max_line_length exceeded by LineReader");
           }
       }
       m_it = line_start;      // no \n yet: nothing consumed
       return std::nullopt;
   } *)
Inductive rl_result :=
| RL_None                                   (* std::nullopt, iterator reset *)
| RL_TooLong                                (* throws *)
| RL_Line (line rest : bytes) (n : nat).    (* the line, the new unconsumed suffix, bytes consumed (line + terminator) *)

(* list reversal in linear time (List.rev is quadratic); frev l = rev l by List.rev_alt *)
Definition frev (l : bytes) : bytes := rev_append l [].

Definition strip_cr (line : bytes) : bytes :=
  match frev line with
  | c :: r => if N.eqb c CR then frev r else line
  | [] => line
  end.

(* [acc_rev]: the bytes of the current line seen so far, reversed; [n] = distance(line_start, m_it);
   [left] = m_max_line_length - n, so "distance(line_start, m_it) > m_max_line_length" after the
   increment is "left = 0" before it (counting down keeps the extracted code linear). *)
Fixpoint read_line_go (left : nat) (acc_rev : bytes) (n : nat) (r : bytes) {struct r} : rl_result :=
  match r with
  | [] => RL_None
  | c :: r' =>
    if N.eqb c LF then RL_Line (strip_cr (frev acc_rev)) r' (S n)
    else match left with
         | O => RL_TooLong
         | S left' => read_line_go left' (c :: acc_rev) (S n) r'
         end
  end.
Definition read_line (max : nat) (r : bytes) : rl_result := read_line_go max [] 0 r.

(* std::string_view LineReader::ReadLength(size_t len)
   { if (len == 0) return {}; if (Remaining() < len) throw ...; out(m_it, len); m_it += len; return out; }
   All callers pass len <= Remaining(); the model returns None for the throw. *)
Definition read_length (len : nat) (r : bytes) : option (bytes * bytes) :=
  if Nat.ltb (length r) len then None else Some (firstn len r, skipn len r).

(* ---------------------------------------------------------------------------------------------- *)
(* string helpers (util/string.h, util/strencodings.{h,cpp}) *)

(* constexpr char ToLower(char c) { return (c >= 'A' && c <= 'Z' ? (c - 'A') + 'a' : c); } *)
Definition to_lower_char (c : N) : N := if (N.leb 65 c && N.leb c 90)%bool then (c + 32)%N else c.
Definition to_lower (s : bytes) : bytes := map to_lower_char s.
(* bool CaseInsensitiveEqual(s1, s2): same size and equal after lowering A-Z *)
Definition case_insensitive_equal (a b : bytes) : bool := bytes_eqb (to_lower a) (to_lower b).

(* TrimStringView(str, " \f\n\r\t\v") *)
Definition WHITESPACE : bytes := [32; 12; 10; 13; 9; 11]%N.
Fixpoint drop_ws (s : bytes) : bytes :=
  match s with
  | c :: r => if mem_byte c WHITESPACE then drop_ws r else s
  | [] => []
  end.
Definition trim (s : bytes) : bytes := frev (drop_ws (frev (drop_ws s))).

(* Split(sp, sep): split on every occurrence of [sep]; always at least one part *)
Fixpoint split_go (sep : N) (cur_rev : bytes) (s : bytes) : list bytes :=
  match s with
  | [] => [frev cur_rev]
  | c :: r => if N.eqb c sep then frev cur_rev :: split_go sep [] r else split_go sep (c :: cur_rev) r
  end.
Definition split (sep : N) (s : bytes) : list bytes := split_go sep [] s.

(* position of the first occurrence of a byte: std::string_view::find(c) *)
Fixpoint find_byte (c : N) (s : bytes) : option nat :=
  match s with
  | [] => None
  | x :: r => if N.eqb x c then Some O else option_map S (find_byte c r)
  end.

Fixpoint is_prefix (p s : bytes) : bool :=
  match p, s with
  | [], _ => true
  | x :: p', y :: s' => N.eqb x y && is_prefix p' s'
  | _ :: _, [] => false
  end.
(* std::string_view::rfind(pat): position of the last occurrence *)
Fixpoint rfind (pat s : bytes) : option nat :=
  match s with
  | [] => if is_prefix pat [] then Some O else None
  | _ :: r =>
    match rfind pat r with
    | Some i => Some (S i)
    | None => if is_prefix pat s then Some O else None
    end
  end.

(* std::from_chars for an unsigned type: digits of the base only, no sign, no prefix, the whole
   string must be consumed, the value must fit; empty string is an error. *)
Definition digit_value (base : Z) (c : N) : option Z :=
  let v :=
    if (N.leb 48 c && N.leb c 57)%bool then Some (Z.of_N c - 48)
    else if (N.leb 97 c && N.leb c 122)%bool then Some (Z.of_N c - 97 + 10)
    else if (N.leb 65 c && N.leb c 90)%bool then Some (Z.of_N c - 65 + 10)
    else None in
  match v with Some d => if d <? base then Some d else None | None => None end.
Fixpoint digits_value (base : Z) (acc : Z) (s : bytes) : option Z :=
  match s with
  | [] => Some acc
  | c :: r => match digit_value base c with Some d => digits_value base (acc * base + d) r | None => None end
  end.
(* ToIntegral<T>(str, base) for an unsigned T with maximum [tmax] *)
Definition to_integral (tmax base : Z) (s : bytes) : option Z :=
  match s with
  | [] => None
  | _ => match digits_value base 0 s with
         | Some v => if v <=? tmax then Some v else None
         | None => None
         end
  end.
Definition UINT8_MAX : Z := 255.

(* ---------------------------------------------------------------------------------------------- *)
(* HTTPHeaders *)

(* std::vector<std::pair<std::string, std::string>> m_headers;  size_t m_consumed{0}; *)
Record headers := mkHeaders { h_list : list (bytes * bytes); h_consumed : Z }.
Definition empty_headers : headers := mkHeaders [] 0.

Definition find_first (key : bytes) (h : headers) : option bytes :=
  match filter (fun kv => case_insensitive_equal key (fst kv)) (h_list h) with
  | kv :: _ => Some (snd kv)
  | [] => None
  end.
Definition find_all (key : bytes) (h : headers) : list bytes :=
  map snd (filter (fun kv => case_insensitive_equal key (fst kv)) (h_list h)).
Definition write_header (k v : bytes) (h : headers) : headers := mkHeaders (h_list h ++ [(k, v)]) (h_consumed h).

Definition MAX_LINE : nat := Z.to_nat HTTP_MAX_HEADERS_SIZE.   (* LineReader reader(m_recv_buffer, MAX_HEADERS_SIZE) *)

(* ---------------------------------------------------------------------------------------------- *)
(* while loops *)

Inductive step_res (S : Type) :=
| Need (s : S) (rest : bytes)     (* the function returns false: more data is needed *)
| Fail (s : S) (e : http_error)   (* throws; s = the loop state at that point *)
| Done (s : S) (rest : bytes)     (* the function returns true *)
| Adv (s : S) (rest : bytes).     (* next iteration *)
Arguments Need {S}. Arguments Fail {S}. Arguments Done {S}. Arguments Adv {S}.

Inductive loop_res (S : Type) :=
| LNeed (s : S) (rest : bytes)
| LFail (s : S) (e : http_error)
| LDone (s : S) (rest : bytes)
| LOutOfFuel.
Arguments LNeed {S}. Arguments LFail {S}. Arguments LDone {S}. Arguments LOutOfFuel {S}.

Section Loop.
  Context {S : Type}.
  Variable body : S -> bytes -> step_res S.
  Fixpoint loop (fuel : nat) (s : S) (r : bytes) : loop_res S :=
    match fuel with
    | O => LOutOfFuel
    | Datatypes.S f =>
      match body s r with
      | Need s' r' => LNeed s' r'
      | Fail s' e => LFail s' e
      | Done s' r' => LDone s' r'
      | Adv s' r' => loop f s' r'
      end
    end.
  Definition run_loop (s : S) (r : bytes) : loop_res S := loop (Datatypes.S (length r)) s r.
End Loop.

(* ---------------------------------------------------------------------------------------------- *)
(* bool HTTPHeaders::Read(util::LineReader& reader, bool write)
   {
       size_t start{reader.Consumed()};
       while (auto maybe_line = reader.ReadLine()) {
           if (reader.Consumed() - start + m_consumed > MAX_HEADERS_SIZE) throw std::runtime_error("HTTP headers exceed size limit");
           const std::string_view& line = *maybe_line;
           if (line.empty()) { m_consumed += reader.Consumed() - start; return true; }
           if (line.find_first_of("\r\n\0", 0, 3) != npos) throw ...("Header contains invalid character");
           const size_t pos{line.find(':')};
           if (pos == npos) throw ...("HTTP header missing colon (:)");
           std::string_view key = line.substr(0, pos);
           if (key.find_first_of(" \t\n\r\f\v") != npos) throw ...("Invalid header field-name contains whitespace");
           std::string value = util::TrimString(std::string_view(line).substr(pos + 1));
           if (key.empty()) throw ...("Empty HTTP header name");
           if (write) Write(std::string(key), std::move(value));
       }
       m_consumed += reader.Consumed() - start;
       return false;
   }
   loop state: (the headers object, here = reader.Consumed() - start) *)
Definition headers_body (write : bool) (st : headers * Z) (rem : bytes) : step_res (headers * Z) :=
  let '(h, here) := st in
  match read_line MAX_LINE rem with
  | RL_None => Need (h, here) rem
  | RL_TooLong => Fail st BadRequest
  | RL_Line line rest n =>
    let here' := here + Z.of_nat n in
    if HTTP_MAX_HEADERS_SIZE <? here' + h_consumed h then Fail st BadRequest
    else match line with
         | [] => Done (h, here') rest
         | _ =>
           if contains_any [CR; LF; NUL] line then Fail st BadRequest
           else match find_byte COLON line with
                | None => Fail st BadRequest
                | Some pos =>
                  let key := firstn pos line in
                  if contains_any [32; 9; 10; 13; 12; 11]%N key then Fail st BadRequest
                  else
                    let value := trim (skipn (S pos) line) in
                    match key with
                    | [] => Fail st BadRequest
                    | _ => Adv (if write then write_header key value h else h, here') rest
                    end
                end
         end
  end.

(* m_consumed += reader.Consumed() - start *)
Definition headers_finish (st : headers * Z) : headers := mkHeaders (h_list (fst st)) (h_consumed (fst st) + snd st).

Inductive outcome (A : Type) :=
| Ret (result : bool) (a : A) (rest : bytes)     (* returned true / false *)
| Throw (e : http_error) (a : A).                (* threw; a = the object as mutated up to the throw *)
Arguments Ret {A}. Arguments Throw {A}.

(* On a throw the headers written so far stay in the object (the error reply looks at them);
   m_consumed is not updated and never read again: the model resets it to 0. *)
Definition headers_read (write : bool) (h : headers) (rem : bytes) : outcome headers :=
  match run_loop (headers_body write) (h, 0) rem with
  | LNeed st r => Ret false (headers_finish st) r
  | LDone st r => Ret true (headers_finish st) r
  | LFail st e => Throw e (mkHeaders (h_list (fst st)) 0)
  | LOutOfFuel => Throw BadRequest (mkHeaders (h_list h) 0)   (* unreachable: run_loop_never_out_of_fuel *)
  end.

(* ---------------------------------------------------------------------------------------------- *)
(* HTTPRequest *)

Inductive http_method := M_UNKNOWN | M_GET | M_POST | M_HEAD | M_PUT.
Inductive req_state := Init | NeedsHeaders | NeedsBody | Complete | Error.

Record request := mkRequest {
  rq_method : http_method;
  rq_target : bytes;
  rq_major : Z;
  rq_minor : Z;
  rq_headers : headers;
  rq_body : bytes;
  rq_chunk_size : option Z;     (* std::optional<uint64_t> m_chunk_size *)
  rq_chunk_read : Z;            (* uint64_t m_chunk_read{0} *)
  rq_state : req_state
}.
(* m_version defaults to 1.1; m_method is uninitialised until LoadControlData (never read before) *)
Definition new_request : request := mkRequest M_UNKNOWN [] 1 1 empty_headers [] None 0 Init.
Definition set_state (st : req_state) (q : request) : request :=
  mkRequest (rq_method q) (rq_target q) (rq_major q) (rq_minor q) (rq_headers q) (rq_body q) (rq_chunk_size q) (rq_chunk_read q) st.
Definition set_headers (h : headers) (q : request) : request :=
  mkRequest (rq_method q) (rq_target q) (rq_major q) (rq_minor q) h (rq_body q) (rq_chunk_size q) (rq_chunk_read q) (rq_state q).
Definition set_body_chunk (body : bytes) (cs : option Z) (cr : Z) (q : request) : request :=
  mkRequest (rq_method q) (rq_target q) (rq_major q) (rq_minor q) (rq_headers q) body cs cr (rq_state q).

Definition ascii (l : list N) : bytes := l.
Definition S_GET : bytes := [71; 69; 84]%N.
Definition S_POST : bytes := [80; 79; 83; 84]%N.
Definition S_HEAD : bytes := [72; 69; 65; 68]%N.
Definition S_PUT : bytes := [80; 85; 84]%N.
Definition S_HTTP_SLASH : bytes := [72; 84; 84; 80; 47]%N.
Definition S_TRANSFER_ENCODING : bytes := [84;114;97;110;115;102;101;114;45;69;110;99;111;100;105;110;103]%N.
Definition S_CHUNKED : bytes := [99;104;117;110;107;101;100]%N.
Definition S_CONTENT_LENGTH : bytes := [67;111;110;116;101;110;116;45;76;101;110;103;116;104]%N.

(* bool HTTPRequest::LoadControlData(LineReader& reader)
   {
       auto maybe_line = reader.ReadLine();
       if (!maybe_line) return false;
       if (request_line.length() < MIN_REQUEST_LINE_LENGTH) throw ...("HTTP request line too short");
       if (request_line.find('\0') != npos) throw ...("Invalid request line contains NUL");
       const std::vector<std::string_view> parts{Split<std::string_view>(request_line, " ")};
       if (parts.size() != 3) throw ...("HTTP request line malformed");
       m_method = GET/POST/HEAD/PUT/UNKNOWN by parts[0];  m_target = parts[1];
       if (parts[2].rfind("HTTP/") != 0) throw ...;
       const std::vector<std::string_view> version_parts{Split<std::string_view>(parts[2].substr(5), ".")};
       if (version_parts.size() != 2) throw ...;
       if (version_parts[0].size() != 1 || version_parts[1].size() != 1) throw ...("HTTP bad version");
       auto major = ToIntegral<uint8_t>(version_parts[0]);  auto minor = ToIntegral<uint8_t>(version_parts[1]);
       if (!major || !minor || major != 1 || minor > 9) throw ...("HTTP bad version");
       m_version.major = major.value(); m_version.minor = minor.value();
       return true;
   } *)
Definition parse_method (s : bytes) : http_method :=
  if bytes_eqb s S_GET then M_GET else if bytes_eqb s S_POST then M_POST
  else if bytes_eqb s S_HEAD then M_HEAD else if bytes_eqb s S_PUT then M_PUT else M_UNKNOWN.

(* (false, q'): threw, q' = the request as assigned so far (m_method and m_target are assigned
   before the version is looked at) *)
Definition parse_request_line (line : bytes) (q : request) : bool * request :=
  if Z.of_nat (length line) <? HTTP_MIN_REQUEST_LINE_LENGTH then (false, q)
  else if mem_byte NUL line then (false, q)
  else match split SP line with
       | [p0; p1; p2] =>
         let q1 := mkRequest (parse_method p0) p1 (rq_major q) (rq_minor q) (rq_headers q) (rq_body q)
                             (rq_chunk_size q) (rq_chunk_read q) (rq_state q) in
         match rfind S_HTTP_SLASH p2 with
         | Some O =>
           match split DOT (skipn 5 p2) with
           | [v0; v1] =>
             if negb (Nat.eqb (length v0) 1) || negb (Nat.eqb (length v1) 1) then (false, q1)
             else match to_integral UINT8_MAX 10 v0, to_integral UINT8_MAX 10 v1 with
                  | Some major, Some minor =>
                    if negb (major =? 1) || (9 <? minor) then (false, q1)
                    else (true, mkRequest (parse_method p0) p1 major minor (rq_headers q) (rq_body q)
                                          (rq_chunk_size q) (rq_chunk_read q) (rq_state q))
                  | _, _ => (false, q1)
                  end
           | _ => (false, q1)
           end
         | _ => (false, q1)
         end
       | _ => (false, q)
       end.

Definition load_control_data (q : request) (rem : bytes) : outcome request :=
  match read_line MAX_LINE rem with
  | RL_None => Ret false q rem
  | RL_TooLong => Throw BadRequest q
  | RL_Line line rest _ =>
    match parse_request_line line q with
    | (true, q') => Ret true q' rest
    | (false, q') => Throw BadRequest q'
    end
  end.

(* bool HTTPRequest::LoadHeaders(LineReader& reader) { return m_headers.Read(reader); } *)
Definition load_headers (q : request) (rem : bytes) : outcome request :=
  match headers_read true (rq_headers q) rem with
  | Ret b h r => Ret b (set_headers h q) r
  | Throw e h => Throw e (set_headers h q)
  end.

(* One iteration of the chunked-transfer loop of LoadBody:
       while (reader.Remaining() > 0) {
           if (!m_chunk_size) {
               auto maybe_chunk_size = reader.ReadLine();
               if (!maybe_chunk_size) return false;
               chunk_size_noext = line up to the first ';'
               m_chunk_size = ToIntegral<uint64_t>(util::TrimStringView(chunk_size_noext), 16);
               if (!m_chunk_size) throw std::runtime_error("Cannot parse chunk length value");
               if ((m_body.size() > MAX_BODY_SIZE) || ( *m_chunk_size > MAX_BODY_SIZE - m_body.size()))
                   throw ContentTooLargeError("Chunk will exceed max body size");
           }
           if ( *m_chunk_size == 0) return m_headers.Read(reader, /*write=*/false);      // trailers
           if (m_chunk_read < *m_chunk_size) {
               const uint64_t chunk_need{ *m_chunk_size - m_chunk_read};
               const uint64_t buffer_has{std::min(chunk_need, static_cast<uint64_t>(reader.Remaining()))};
               m_body += reader.ReadLength(buffer_has);  m_chunk_read += buffer_has;
           }
           if (m_chunk_read == *m_chunk_size) {
               auto crlf = reader.ReadLine();
               if (!crlf) return false;
               if (!crlf.value().empty()) throw std::runtime_error("Improperly terminated chunk");
               m_chunk_size.reset();  m_chunk_read = 0;
           }
       }
       return false;     // all the chunks read so far, the last chunk is still missing
   The result [Adv] is only used when bytes remain; with an empty rest the while condition fails
   and the function returns false ([Need]). *)
Definition chunk_size_of_line (line : bytes) : option Z :=
  let noext := match find_byte SEMICOLON line with Some p => firstn p line | None => line end in
  to_integral UINT64_MAX 16 (trim noext).

Definition chunk_continue (q : request) (rest : bytes) : step_res request :=
  match rest with [] => Need q [] | _ => Adv q rest end.

(* "if (m_chunk_read < *m_chunk_size) { ... ReadLength ... }"; [size] = *m_chunk_size, not 0 *)
Definition chunk_bulk (q : request) (size : Z) (rem : bytes) : request * bytes :=
  if rq_chunk_read q <? size then
    let chunk_need := size - rq_chunk_read q in
    let buffer_has := Z.min chunk_need (Z.of_nat (length rem)) in
    (set_body_chunk (rq_body q ++ firstn (Z.to_nat buffer_has) rem) (Some size) (rq_chunk_read q + buffer_has) q,
     skipn (Z.to_nat buffer_has) rem)
  else (q, rem).

(* "if (m_chunk_read == *m_chunk_size) { ... ReadLine ... }" and the end of the iteration *)
Definition chunk_crlf (q1 : request) (size : Z) (rem1 : bytes) : step_res request :=
  if rq_chunk_read q1 =? size then
    match read_line MAX_LINE rem1 with
    | RL_None => Need q1 rem1
    | RL_TooLong => Fail q1 BadRequest
    | RL_Line line rest _ =>
      match line with
      | [] => chunk_continue (set_body_chunk (rq_body q1) None 0 q1) rest
      | _ => Fail q1 BadRequest
      end
    end
  else chunk_continue q1 rem1.

Definition chunk_data (q : request) (size : Z) (rem : bytes) : step_res request :=
  let '(q1, rem1) := chunk_bulk q size rem in chunk_crlf q1 size rem1.

Definition chunk_trailers_or_data (q : request) (size : Z) (rem : bytes) : step_res request :=
  if size =? 0 then
    match headers_read false (rq_headers q) rem with
    | Ret true h r => Done (set_headers h q) r
    | Ret false h r => Need (set_headers h q) r
    | Throw e h => Fail (set_headers h q) e
    end
  else chunk_data q size rem.

Definition chunk_body (q : request) (rem : bytes) : step_res request :=
  match rem with
  | [] => Need q []                      (* while (reader.Remaining() > 0) *)
  | _ =>
    match rq_chunk_size q with
    | Some size => chunk_trailers_or_data q size rem
    | None =>
      match read_line MAX_LINE rem with
      | RL_None => Need q rem
      | RL_TooLong => Fail q BadRequest
      | RL_Line line rest _ =>
        match chunk_size_of_line line with
        | None => Fail q BadRequest
        | Some size =>
          let q1 := set_body_chunk (rq_body q) (Some size) (rq_chunk_read q) q in
          let blen := Z.of_nat (length (rq_body q)) in
          if (HTTP_MAX_BODY_SIZE <? blen) || (HTTP_MAX_BODY_SIZE - blen <? size) then Fail q1 ContentTooLarge
          else chunk_trailers_or_data q1 size rest
        end
      end
    end
  end.

(* the else branch of LoadBody:
       auto content_length_values{m_headers.FindAll("Content-Length")};
       if (content_length_values.empty()) return true;
       for (i = 1 ..) if (content_length_values[i] != first) throw std::runtime_error("Differing Content-Length values");
       const auto content_length{ToIntegral<uint64_t>(first_content_length_value)};
       if (!content_length) throw std::runtime_error("Cannot parse Content-Length value");
       if ( *content_length > MAX_BODY_SIZE) throw ContentTooLargeError("Max body size exceeded");
       const uint64_t body_need{ *content_length - m_body.size()};
       const uint64_t buffer_has{std::min(body_need, static_cast<uint64_t>(reader.Remaining()))};
       m_body += reader.ReadLength(buffer_has);
       return m_body.size() == *content_length; *)
Definition load_body_content_length (q : request) (rem : bytes) : outcome request :=
  match find_all S_CONTENT_LENGTH (rq_headers q) with
  | [] => Ret true q rem
  | first :: others =>
    if negb (forallb (bytes_eqb first) others) then Throw BadRequest q
    else match to_integral UINT64_MAX 10 first with
         | None => Throw BadRequest q
         | Some content_length =>
           if HTTP_MAX_BODY_SIZE <? content_length then Throw ContentTooLarge q
           else
             let body_need := wrapu64 (content_length - Z.of_nat (length (rq_body q))) in
             let buffer_has := Z.min body_need (Z.of_nat (length rem)) in
             let body := rq_body q ++ firstn (Z.to_nat buffer_has) rem in
             Ret (Z.of_nat (length body) =? content_length)
                 (set_body_chunk body (rq_chunk_size q) (rq_chunk_read q) q) (skipn (Z.to_nat buffer_has) rem)
         end
  end.

(* bool HTTPRequest::LoadBody(LineReader& reader)
   {
       auto transfer_encoding_header = m_headers.FindFirst("Transfer-Encoding");
       if (transfer_encoding_header && ToLower(transfer_encoding_header.value()) == "chunked") { ...loop... }
       else { ...Content-Length... }
   } *)
Definition is_chunked (q : request) : bool :=
  match find_first S_TRANSFER_ENCODING (rq_headers q) with
  | Some v => bytes_eqb (to_lower v) S_CHUNKED
  | None => false
  end.

Definition load_body (q : request) (rem : bytes) : outcome request :=
  if is_chunked q then
    match run_loop chunk_body q rem with
    | LNeed q' r => Ret false q' r
    | LDone q' r => Ret true q' r
    | LFail q' e => Throw e q'
    | LOutOfFuel => Throw BadRequest q    (* unreachable *)
    end
  else load_body_content_length q rem.

(* void HTTPRemoteClient::ReadRequest(HTTPRequest& req)
   {
       if (m_recv_buffer.empty()) return;
       LineReader reader(m_recv_buffer, MAX_HEADERS_SIZE);
       try {
           switch (req.GetState()) {
           case Init:         if (!req.LoadControlData(reader)) break; req.SetState(NeedsHeaders); [[fallthrough]];
           case NeedsHeaders: if (!req.LoadHeaders(reader)) break;     req.SetState(NeedsBody);    [[fallthrough]];
           case NeedsBody:    if (!req.LoadBody(reader)) break;        req.SetState(Complete);     [[fallthrough]];
           case Complete: break;
           case Error: break;
           }
       } catch (...) { req.SetState(Error); m_recv_buffer.clear(); throw; }
       m_recv_buffer.erase(begin, begin + reader.Consumed());
   }
   Returns the request and the new receive buffer, or the exception. *)
Definition from_needs_body (q : request) (rem : bytes) : outcome request :=
  match load_body q rem with
  | Ret true q' r => Ret true (set_state Complete q') r
  | other => other
  end.
Definition from_needs_headers (q : request) (rem : bytes) : outcome request :=
  match load_headers q rem with
  | Ret true q' r => from_needs_body (set_state NeedsBody q') r
  | other => other
  end.
Definition from_init (q : request) (rem : bytes) : outcome request :=
  match load_control_data q rem with
  | Ret true q' r => from_needs_headers (set_state NeedsHeaders q') r
  | other => other
  end.

(* [Ret b q buf]: b = the request is Complete *)
Definition read_request (q : request) (buf : bytes) : outcome request :=
  match buf with
  | [] => Ret false q []
  | _ =>
    match rq_state q with
    | Init => from_init q buf
    | NeedsHeaders => from_needs_headers q buf
    | NeedsBody => from_needs_body q buf
    | Complete => Ret true q buf
    | Error => Ret false q buf
    end
  end.

(* ---------------------------------------------------------------------------------------------- *)
(* The connection: HTTPServer::MaybeDispatchRequestsFromClient is called after every receive and
   again after a reply has been written:
       if (!client->m_req) client->m_req = std::make_unique<HTTPRequest>(client);
       try { client->ReadRequest( *client->m_req); }
       catch (const ContentTooLargeError&) { reply 413; client->m_disconnect = true; return; }
       catch (const std::runtime_error&)   { reply 400; client->m_disconnect = true; return; }
       if (client->m_req->GetState() == Complete) { ... m_request_dispatcher(std::move(client->m_req)); }
   The model dispatches a complete request at once and goes on with a fresh one (a keep-alive
   connection whose replies are written immediately); the loop state is (current request,
   requests dispatched so far, error reply written). *)
Definition dispatch_state : Type := request * list request * option http_error.

(* after an exception: the request is in state Error, the buffer is cleared, the error reply is
   written and the client is disconnected: whatever arrives later is not read *)
Definition dispatch_body (st : dispatch_state) (buf : bytes) : step_res dispatch_state :=
  let '(q, done, err) := st in
  match err with
  | Some _ => Need st []
  | None =>
    match buf with
    | [] => Need st []
    | _ =>
      match read_request q buf with
      | Throw e q' => Need (set_state Error q', done, Some e) []
      | Ret true q' rest =>
        match rest with
        | [] => Need (new_request, done ++ [q'], None) []
        | _ => Adv (new_request, done ++ [q'], None) rest
        end
      | Ret false q' rest => Need (q', done, None) rest
      end
    end
  end.

Record client := mkClient {
  cl_buffer : bytes;                 (* m_recv_buffer *)
  cl_req : request;                  (* m_req *)
  cl_dispatched : list request;      (* requests handed to m_request_dispatcher, in order *)
  cl_error : option http_error       (* Some: error reply written, m_disconnect set, nothing more is read *)
}.
Definition new_client : client := mkClient [] new_request [] None.
Definition client_of (st : dispatch_state) (buf : bytes) : client :=
  let '(q, done, err) := st in mkClient buf q done err.

(* bytes received from the socket are appended to m_recv_buffer, then MaybeDispatchRequestsFromClient *)
Definition feed (c : client) (data : bytes) : client :=
  match run_loop dispatch_body (cl_req c, cl_dispatched c, cl_error c) (cl_buffer c ++ data) with
  | LNeed st rest => client_of st rest
  | LDone st rest => client_of st rest                                        (* unreachable: dispatch_body has no Done *)
  | LFail st e => mkClient [] (cl_req c) (cl_dispatched c) (Some e)           (* unreachable: dispatch_body has no Fail *)
  | LOutOfFuel => mkClient [] (cl_req c) (cl_dispatched c) (Some BadRequest)  (* unreachable *)
  end.

Definition feed_all (c : client) (fragments : list bytes) : client := fold_left feed fragments c.

(* what the property talks about: the dispatched requests (method, target, version, headers, body)
   in order; the error reply if any, with what WriteReply reads from the failed request (its
   version and the headers stored so far); how far the pending request got *)
Definition observable (c : client) :=
  (map (fun q => (rq_method q, rq_target q, rq_major q, rq_minor q, h_list (rq_headers q), rq_body q)) (cl_dispatched c),
   match cl_error c with
   | Some e => Some (e, rq_major (cl_req c), rq_minor (cl_req c), h_list (rq_headers (cl_req c)))
   | None => None
   end,
   rq_state (cl_req c)).
