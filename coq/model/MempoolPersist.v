(* C55  Saving and reloading the mempool (mempool.dat).  Transcribed from
     src/node/mempool_persist.cpp   DumpMempool, LoadMempool
     src/util/obfuscation.h         Obfuscation::operator() (XOR with the key byte of the absolute file position), Serialize/Unserialize
     src/streams.cpp                AutoFile::detail_fread / write_buffer (obfuscation keyed by m_position)
     src/serialize.h                Serialize/Unserialize of std::map / std::set / std::pair
     src/txmempool.cpp              PrioritiseTransaction, ApplyDelta (at entry creation), AddUnbroadcastTx
   Executable definitions only (proofs are in proofs/MempoolPersist*.v).

   The transaction serializer is abstract in the Section (T, ser, unser, txid); the extracted
   instance at the end uses the transaction codec of model/SerTx.v (TX_WITH_WITNESS) and SHA256d.
   `accept` is the verdict of normal submission (AcceptToMemoryPool) as a function of the pool
   state, the transaction and the accept time: it is the only part of the node the loader consults. *)
From Coq Require Import NArith.
From BV Require Import lib.Ints gen.Params_gen model.SerBase model.SerTx model.CryptoSHA256.
Local Open Scope Z_scope.

(* static const uint64_t MEMPOOL_DUMP_VERSION_NO_XOR_KEY{1};  static const uint64_t MEMPOOL_DUMP_VERSION{2};
   (file-local constants of mempool_persist.cpp; tied behaviourally by the version cases of the correspondence) *)
Definition MEMPOOL_DUMP_VERSION_NO_XOR_KEY : Z := 1.
Definition MEMPOOL_DUMP_VERSION : Z := 2.

(* ---- Obfuscation --------------------------------------------------------------------------
   void operator()(std::span<std::byte> target, size_t key_offset = 0) const
   { if (!*this) return; KeyType rot_key{m_rotations[key_offset % KEY_SIZE]}; ... XorWord(...) ... }
   m_rotations[i] = rotr(key, 8*i) (little endian): the byte at absolute position p of the file is
   XORed with key byte (p mod 8).  An absent key (version 1 file, `SetObfuscation({})`) is the
   all-zero key, for which the C++ returns early: XOR with zero. *)
Definition key_byte (key : list N) (pos : nat) : N := nth (pos mod 8) key 0%N.
Fixpoint xor_at (key : list N) (pos : nat) (l : list N) : list N :=
  match l with [] => [] | b :: r => N.lxor b (key_byte key pos) :: xor_at key (S pos) r end.

(* ---- ordered containers keyed by Txid (uint256: `operator<=>` defaulted on the byte array =
   lexicographic comparison of the 32 bytes in memory order) ---- *)
Fixpoint bytes_eqb (a b : list N) : bool :=
  match a, b with
  | [], [] => true
  | x :: a', y :: b' => (x =? y)%N && bytes_eqb a' b'
  | _, _ => false
  end.
Fixpoint lex_ltb (a b : list N) : bool :=
  match a, b with
  | _, [] => false
  | [], _ :: _ => true
  | x :: a', y :: b' => if (x <? y)%N then true else if (y <? x)%N then false else lex_ltb a' b'
  end.

Definition dmap := list (list N * Z).     (* std::map<Txid, CAmount>: sorted, unique keys *)
Definition idset := list (list N).        (* std::set<Txid> *)

Fixpoint dm_find (k : list N) (m : dmap) : option Z :=
  match m with [] => None | (k', v) :: r => if bytes_eqb k k' then Some v else dm_find k r end.
(* operator[] followed by an assignment *)
Fixpoint dm_set (k : list N) (v : Z) (m : dmap) : dmap :=
  match m with
  | [] => [(k, v)]
  | (k', v') :: r => if bytes_eqb k k' then (k, v) :: r
                     else if lex_ltb k k' then (k, v) :: m else (k', v') :: dm_set k v r
  end.
Fixpoint dm_erase (k : list N) (m : dmap) : dmap :=
  match m with [] => [] | (k', v) :: r => if bytes_eqb k k' then r else (k', v) :: dm_erase k r end.
(* std::map::insert(hint, item): an existing key keeps its value *)
Definition dm_insert (m : dmap) (kv : list N * Z) : dmap :=
  match dm_find (fst kv) m with Some _ => m | None => dm_set (fst kv) (snd kv) m end.
Definition dm_of_list (l : list (list N * Z)) : dmap := fold_left dm_insert l [].

Fixpoint set_mem (k : list N) (s : idset) : bool :=
  match s with [] => false | k' :: r => bytes_eqb k k' || set_mem k r end.
Fixpoint set_insert (k : list N) (s : idset) : idset :=
  match s with
  | [] => [k]
  | k' :: r => if bytes_eqb k k' then s else if lex_ltb k k' then k :: s else k' :: set_insert k r
  end.
Definition set_of_list (l : list (list N)) : idset := fold_left (fun s k => set_insert k s) l [].

(* CAmount SaturatingAdd(CAmount, CAmount) (util/overflow.h) *)
Definition sat_add64 (a b : Z) : Z :=
  if a + b >? INT64_MAX then INT64_MAX else if a + b <? INT64_MIN then INT64_MIN else a + b.

(* ---- the mempool as far as persistence is concerned ---- *)
Record entry : Type := mk_entry { e_id : list N; e_time : Z; e_delta : Z (* TxMempoolInfo::nFeeDelta = modified fee - fee *) }.
Record pool : Type := mk_pool {
  p_entries : list entry;     (* mapTx, in insertion order *)
  p_deltas : dmap;            (* mapDeltas *)
  p_unb : idset               (* m_unbroadcast_txids *)
}.
Definition empty_pool : pool := mk_pool [] [] [].

Definition in_pool (id : list N) (p : pool) : bool := existsb (fun e => bytes_eqb id (e_id e)) (p_entries p).

(* void CTxMemPool::PrioritiseTransaction(const Txid& hash, const CAmount& nFeeDelta)
   {   CAmount &delta = mapDeltas[hash];
       delta = SaturatingAdd(delta, nFeeDelta);
       txiter it = mapTx.find(hash);
       if (it != mapTx.end()) { it->UpdateModifiedFee(nFeeDelta); ... }     // m_modified_fee = SaturatingAdd(m_modified_fee, nFeeDelta)
       if (delta == 0) { mapDeltas.erase(hash); } }
   The entry's observable nFeeDelta is (modified fee - fee); the saturation of the modified fee itself
   depends on the base fee, which the persistence code never sees: the model keeps the delta sum
   saturated on its own (they agree unless fee + delta leaves int64). *)
Definition prioritise (p : pool) (id : list N) (d : Z) : pool :=
  let cur := match dm_find id (p_deltas p) with Some v => v | None => 0 end in
  let nd := sat_add64 cur d in
  let ents := map (fun e => if bytes_eqb id (e_id e) then mk_entry (e_id e) (e_time e) (sat_add64 (e_delta e) d) else e) (p_entries p) in
  mk_pool ents (if nd =? 0 then dm_erase id (p_deltas p) else dm_set id nd (p_deltas p)) (p_unb p).

(* void AddUnbroadcastTx(const Txid& txid) { LOCK(cs); if (exists(txid)) m_unbroadcast_txids.insert(txid); } *)
Definition add_unbroadcast (p : pool) (id : list N) : pool :=
  if in_pool id p then mk_pool (p_entries p) (p_deltas p) (set_insert id (p_unb p)) else p.

Record load_opts : Type := mk_opts { o_use_current_time : bool; o_apply_fee_delta : bool; o_apply_unbroadcast : bool }.

Inductive lres : Type :=
| LOk (p : pool) (rest : list N)          (* LoadMempool returns true *)
| LFail (p : pool) (e : err).             (* an exception was caught (or the version is unknown): returns false; p is what stays *)

Definition lres_pool (r : lres) : pool := match r with LOk p _ => p | LFail p _ => p end.
Definition lres_ok (r : lres) : bool := match r with LOk _ _ => true | LFail _ _ => false end.

Section Persist.
  Variable T : Type.
  Variable ser : T -> list N.
  Variable unser : list N -> res T.
  Variable txid : T -> list N.
  (* normal submission: the verdict of AcceptToMemoryPool(active_chainstate, tx, nTime, bypass_limits=false, test_accept=false)
     in a given pool state *)
  Variable accept : pool -> T -> Z -> bool.

  Record mrec : Type := mk_rec { r_tx : T; r_time : Z; r_delta : Z }.

  (* file << TX_WITH_WITNESS( *(i.tx)); file << int64_t{count_seconds(i.m_time)}; file << int64_t{i.nFeeDelta}; *)
  Definition ser_rec (r : mrec) : list N := ser (r_tx r) ++ write_le 8 (r_time r) ++ write_le 8 (r_delta r).
  (* file >> TX_WITH_WITNESS(tx); file >> nTime; file >> nFeeDelta;     (int64_t: two's complement of the 8 bytes) *)
  Definition unser_rec (s : list N) : res mrec :=
    bind (unser s) (fun t s1 =>
    bind (read_le 8 s1) (fun tm s2 =>
    bind (read_le 8 s2) (fun d s3 => Ok (mk_rec t (wrap64 tm) (wrap64 d)) s3))).

  (* std::pair<Txid, CAmount> *)
  Definition ser_pair (kv : list N * Z) : list N := fst kv ++ write_le 8 (snd kv).
  Definition unser_pair (s : list N) : res (list N * Z) :=
    bind (read_bytes 32 s) (fun k s1 => bind (read_le 8 s1) (fun v s2 => Ok (k, wrap64 v) s2)).
  Definition ser_id (k : list N) : list N := k.
  Definition unser_id (s : list N) : res (list N) := read_bytes 32 s.

  (* what DumpMempool copies out of the pool under pool.cs: infoAll(), mapDeltas, GetUnbroadcastTxs() *)
  Record snapshot : Type := mk_snap { sn_recs : list mrec; sn_deltas : dmap; sn_unb : idset }.

  (* uint64_t mempool_transactions_to_write(vinfo.size()); file << mempool_transactions_to_write;
     for (const auto& i : vinfo) { ...record...; mapDeltas.erase(i.tx->GetHash()); }
     file << mapDeltas;  file << unbroadcast_txids; *)
  Definition encode_body (d : snapshot) : list N :=
    write_le 8 (Z.of_nat (length (sn_recs d))) ++ concat (map ser_rec (sn_recs d))
    ++ ser_vector ser_pair (sn_deltas d) ++ ser_vector ser_id (sn_unb d).

  (* const uint64_t version{pool.m_opts.persist_v1_dat ? MEMPOOL_DUMP_VERSION_NO_XOR_KEY : MEMPOOL_DUMP_VERSION};
     file << version;
     if (!pool.m_opts.persist_v1_dat) { const Obfuscation obfuscation{FastRandomContext{}.randbytes<Obfuscation::KEY_SIZE>()};
                                        file << obfuscation; file.SetObfuscation(obfuscation); }
     else { file.SetObfuscation({}); }
     Obfuscation::Serialize writes the 8 key bytes as a byte vector (CompactSize 8, then the bytes);
     from then on every byte written is XORed according to its absolute position in the file. *)
  Definition encode_file (v1 : bool) (key : list N) (d : snapshot) : list N :=
    if v1 then write_le 8 MEMPOOL_DUMP_VERSION_NO_XOR_KEY ++ encode_body d
    else let hdr := write_le 8 MEMPOOL_DUMP_VERSION ++ ser_bytes key in
         hdr ++ xor_at key (length hdr) (encode_body d).

  (* the three things copied under the lock, then `mapDeltas.erase(i.tx->GetHash())` for every saved entry *)
  Definition dump_snapshot (infos : list mrec) (deltas : dmap) (unb : idset) : snapshot :=
    mk_snap infos (fold_left (fun m r => dm_erase (txid (r_tx r)) m) infos deltas) unb.
  Definition dump_file (v1 : bool) (key : list N) (infos : list mrec) (p : pool) : list N :=
    encode_file v1 key (dump_snapshot infos (p_deltas p) (p_unb p)).

  (* ---- LoadMempool ---- *)
  Variable now : Z.        (* TicksSinceEpoch<seconds>(NodeClock::now()) *)
  Variable expiry : Z.     (* pool.m_opts.expiry in seconds *)
  Variable opts : load_opts.

  (* MemPoolAccept::PreChecks: `if (m_pool.exists(hash)) return state.Invalid(TX_CONFLICT, "txn-already-in-mempool")`;
     a new entry starts with the delta found in mapDeltas (CTxMemPool::ApplyDelta in PreChecks). *)
  Definition atmp (p : pool) (t : T) (time : Z) : pool * bool :=
    if in_pool (txid t) p then (p, false)
    else if accept p t time then
      (mk_pool (p_entries p ++ [mk_entry (txid t) time (match dm_find (txid t) (p_deltas p) with Some v => v | None => 0 end)])
               (p_deltas p) (p_unb p), true)
    else (p, false).

  (*  if (opts.use_current_time) { nTime = TicksSinceEpoch<std::chrono::seconds>(now); }
      CAmount amountdelta = nFeeDelta;
      if (amountdelta && opts.apply_fee_delta_priority) { pool.PrioritiseTransaction(tx->GetHash(), amountdelta); }
      if (nTime > TicksSinceEpoch<std::chrono::seconds>(now - pool.m_opts.expiry)) {
          const auto& accepted = AcceptToMemoryPool(active_chainstate, tx, nTime, false, false);  ...counters only...
      } else { ++expired; } *)
  Definition apply_rec (p : pool) (r : mrec) : pool :=
    let time := if o_use_current_time opts then now else r_time r in
    let p1 := if negb (r_delta r =? 0) && o_apply_fee_delta opts then prioritise p (txid (r_tx r)) (r_delta r) else p in
    if time >? now - expiry then fst (atmp p1 (r_tx r) time) else p1.

  (* while (txns_tried < total_txns_to_load) { ++txns_tried; ...read one record, apply it... }
     k = number of records still to try, as a unary number (see load_body for how it is bounded) *)
  Fixpoint load_recs (k : nat) (s : list N) (p : pool) : lres :=
    match k with
    | O => LOk p s
    | S k' => match unser_rec s with
              | Err e => LFail p e
              | Ok r s' => load_recs k' s' (apply_rec p r)
              end
    end.

  (*  std::map<Txid, CAmount> mapDeltas;  file >> mapDeltas;
      if (opts.apply_fee_delta_priority) { for (const auto& i : mapDeltas) { pool.PrioritiseTransaction(i.first, i.second); } }
      std::set<Txid> unbroadcast_txids;  file >> unbroadcast_txids;
      if (opts.apply_unbroadcast_set) { for (const auto& txid : unbroadcast_txids) {
              if (pool.get(txid) != nullptr) pool.AddUnbroadcastTx(txid); } } *)
  Definition apply_deltas (p : pool) (m : dmap) : pool :=
    if o_apply_fee_delta opts then fold_left (fun q kv => prioritise q (fst kv) (snd kv)) m p else p.
  Definition apply_unb (p : pool) (s : idset) : pool :=
    if o_apply_unbroadcast opts then fold_left (fun q id => if in_pool id q then add_unbroadcast q id else q) s p else p.

  Definition load_tail (s : list N) (p : pool) : lres :=
    match unser_vector unser_pair s with
    | Err e => LFail p e
    | Ok pairs s1 =>
      let p1 := apply_deltas p (dm_of_list pairs) in
      match unser_vector unser_id s1 with
      | Err e => LFail p1 e
      | Ok ids s2 => LOk (apply_unb p1 (set_of_list ids)) s2
      end
    end.

  (* uint64_t total_txns_to_load; file >> total_txns_to_load;   (a raw 8-byte count, NOT a CompactSize: no range check)
     The count can be 2^64-1 while the file is short.  A record reader that succeeds consumes at
     least one byte, so trying min(total, remaining+1) records fails in exactly the same way as trying
     `total` of them would; this keeps the unary counter small (the `k <? total` branch is unreachable for
     such readers: proofs/MempoolPersistLemmas.v, load_body_no_early_stop). *)
  Definition load_body (body : list N) (p : pool) : lres :=
    match read_le 8 body with
    | Err e => LFail p e
    | Ok total s =>
      let k := Z.min total (Z.of_nat (length s) + 1) in
      match load_recs (Z.to_nat k) s p with
      | LFail q e => LFail q e
      | LOk q s1 => if k <? total then LFail q EEof else load_tail s1 q
      end
    end.

  (*  uint64_t version;  file >> version;
      if (version == MEMPOOL_DUMP_VERSION_NO_XOR_KEY) { file.SetObfuscation({}); }
      else if (version == MEMPOOL_DUMP_VERSION) { Obfuscation obfuscation; file >> obfuscation; file.SetObfuscation(obfuscation); }
      else { return false; }
      Obfuscation::Unserialize: std::vector<std::byte> bytes; s >> bytes;
                                if (bytes.size() != KEY_SIZE) throw std::ios_base::failure("Obfuscation key size should be exactly 8 bytes long");
      Reading de-obfuscates each byte according to its absolute position (AutoFile::detail_fread):
      de-obfuscating the unread rest of the file at once is the same thing. *)
  Definition load_file (file : list N) (p : pool) : lres :=
    match read_le 8 file with
    | Err e => LFail p e
    | Ok version s =>
      if version =? MEMPOOL_DUMP_VERSION_NO_XOR_KEY then load_body s p
      else if version =? MEMPOOL_DUMP_VERSION then
        match unser_bytes s with
        | Err e => LFail p e
        | Ok key s1 =>
          if negb (Nat.eqb (length key) 8) then LFail p EOther
          else load_body (xor_at key (length file - length s1) s1) p
        end
      else LFail p EOther
    end.

  (* ---- the pure reading of a whole file (used to state what a file contains) ---- *)
  Definition parse_body (body : list N) : res snapshot :=
    bind (read_le 8 body) (fun total s =>
      let k := Z.min total (Z.of_nat (length s) + 1) in
      bind (read_n unser_rec (Z.to_nat k) s) (fun recs s1 =>
        if k <? total then Err EEof else
        bind (unser_vector unser_pair s1) (fun pairs s2 =>
        bind (unser_vector unser_id s2) (fun ids s3 => Ok (mk_snap recs (dm_of_list pairs) (set_of_list ids)) s3)))).
  Definition parse_file (file : list N) : res snapshot :=
    bind (read_le 8 file) (fun version s =>
      if version =? MEMPOOL_DUMP_VERSION_NO_XOR_KEY then parse_body s
      else if version =? MEMPOOL_DUMP_VERSION then
        bind (unser_bytes s) (fun key s1 =>
          if negb (Nat.eqb (length key) 8) then Err EOther
          else parse_body (xor_at key (length file - length s1) s1))
      else Err EOther).

  (* what a successful load does with the contents of the file *)
  Definition apply_snapshot (d : snapshot) (p : pool) : pool :=
    apply_unb (apply_deltas (fold_left apply_rec (sn_recs d) p) (sn_deltas d)) (sn_unb d).

  (* ---- specification vocabulary (used by the theorems) ---- *)
  Definition rec_id (r : mrec) : list N := txid (r_tx r).
  (* the pool entry a saved record stands for *)
  Definition entry_of (r : mrec) : entry := mk_entry (rec_id r) (r_time r) (r_delta r).
  Definition unexpired (r : mrec) : bool := r_time r >? now - expiry.
  (* the pool state normal submission sees for record r: its saved delta is already in mapDeltas *)
  Definition with_delta (p : pool) (r : mrec) : pool :=
    if negb (r_delta r =? 0) then prioritise p (rec_id r) (r_delta r) else p.
  (* the saved records that are unexpired and that normal submission accepts when their turn comes *)
  Fixpoint accepted_recs (p : pool) (l : list mrec) : list mrec :=
    match l with
    | [] => []
    | r :: l' =>
      let p1 := with_delta p r in
      (if unexpired r && negb (in_pool (rec_id r) p1) && accept p1 (r_tx r) (r_time r) then [r] else [])
      ++ accepted_recs (apply_rec p r) l'
    end.
End Persist.

(* the options LoadMempool is called with at startup (node/mempool_persist_args, init.cpp): file times, deltas and unbroadcast set applied *)
Definition startup_opts : load_opts := mk_opts false true true.

Arguments mk_rec {T}.
Arguments r_tx {T}.
Arguments r_time {T}.
Arguments r_delta {T}.
Arguments mk_snap {T}.
Arguments sn_recs {T}.
Arguments sn_deltas {T}.
Arguments sn_unb {T}.

(* ---- the instance that is extracted and run against the real code ---- *)
Definition tx_ser (t : tx) : list N := ser_tx true t.
Definition tx_unser (s : list N) : res tx := unser_tx true s.
(* CTransaction::ComputeHash: SHA256d of the serialization without witness; ComputeWitnessHash: with witness *)
Definition tx_txid (t : tx) : list N := sha256d (ser_tx false t).
Definition tx_wtxid (t : tx) : list N := sha256d (ser_tx true t).

(* normal submission as observed: the witness hashes the reference submission accepted *)
Definition oracle_accept (accepted : list (list N)) (p : pool) (t : tx) (time : Z) : bool := set_mem (tx_wtxid t) accepted.

Definition run_load (accepted : list (list N)) (now expiry : Z) (o : load_opts) (file : list N) (p : pool) : lres :=
  load_file tx tx_unser tx_txid (oracle_accept accepted) now expiry o file p.
Definition run_parse (file : list N) : res (snapshot tx) := parse_file tx tx_unser file.
Definition run_dump_snapshot (infos : list (mrec tx)) (deltas : dmap) (unb : idset) : snapshot tx :=
  dump_snapshot tx tx_txid infos deltas unb.
