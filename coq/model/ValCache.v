(* Validation caches (C13).  Transcribed from
     src/cuckoocache.h        CuckooCache::cache<Element, Hash>: setup, epoch_check, insert, contains
     src/util/hasher.h        SignatureCacheHasher (the 8 location hashes), src/util/fastrange.h FastRange32
     src/script/sigcache.cpp  CachingTransactionSignatureChecker::VerifyECDSASignature / VerifySchnorrSignature
     src/validation.cpp       CheckInputScripts (script-execution cache discipline)
   Executable definitions only (proofs: proofs/ValCacheLemmas.v).

   Elements are uint256 values, here the integer whose least significant byte is data[0].
   Script execution is abstracted as an interaction tree over signature queries (what the interpreter
   asks the signature checker), so that "with cache" and "without cache" run the same script. *)
From Coq Require Import NArith.
From BV Require Import lib.Ints.
Local Open Scope Z_scope.

(* ------------------------------------------------------------------------------------------ *)
(* CuckooCache::cache *)

Record cuckoo : Type := mk_cuckoo {
  cu_size : Z;                 (* uint32_t size *)
  cu_table : list Z;           (* std::vector<Element> table *)
  cu_collect : list bool;      (* collection_flags: true = may be overwritten *)
  cu_epoch : list bool;        (* epoch_flags *)
  cu_counter : Z;              (* epoch_heuristic_counter *)
  cu_epoch_size : Z;
  cu_depth : nat               (* depth_limit *)
}.

(* uint32_t operator()<k>(const uint256& key): memcpy(&u, key.begin()+4*k, 4)  -> the k-th 32-bit word
   FastRange32(x, n) = (uint64_t{x} * n) >> 32 *)
Definition hash_word (k : Z) (e : Z) : Z := Z.shiftr e (32 * k) mod 2 ^ 32.
Definition fast_range32 (x n : Z) : Z := Z.shiftr (wrapu64 (x * n)) 32.
(* std::array<uint32_t, 8> compute_hashes(const Element& e) *)
Definition compute_hashes (size : Z) (e : Z) : list nat :=
  map (fun k => Z.to_nat (fast_range32 (hash_word k e) size)) [0; 1; 2; 3; 4; 5; 6; 7].

(* uint32_t setup(uint32_t new_size) {
       size = std::max<uint32_t>(2, new_size);
       depth_limit = static_cast<uint8_t>(std::log2(static_cast<float>(size)));
       table.resize(size); collection_flags.setup(size);      // all flags set: everything collectable
       epoch_flags.resize(size);                              // all false
       epoch_size = std::max(uint32_t{1}, (45 * size) / 100);
       epoch_heuristic_counter = epoch_size;
       return size; }
   (size < 2^24 here, where the float conversion is exact and log2 truncates to Z.log2;
    table.resize value-initialises: uint256 zero) *)
Definition cuckoo_setup (new_size : Z) : cuckoo :=
  let size := Z.max 2 new_size in
  let n := Z.to_nat size in
  let es := Z.max 1 (wrapu32 (45 * size) / 100) in
  mk_cuckoo size (repeat 0 n) (repeat true n) (repeat false n) es es (Z.to_nat (Z.log2 size)).

Fixpoint upd {A} (l : list A) (i : nat) (v : A) : list A :=
  match l, i with
  | [], _ => []
  | _ :: r, O => v :: r
  | x :: r, S j => x :: upd r j v
  end.

(* void epoch_check() {
       if (epoch_heuristic_counter != 0) { --epoch_heuristic_counter; return; }
       uint32_t epoch_unused_count = 0;
       for (i < size) epoch_unused_count += epoch_flags[i] && !collection_flags.bit_is_set(i);
       if (epoch_unused_count >= epoch_size) {
           for (i < size) if (epoch_flags[i]) epoch_flags[i] = false; else allow_erase(i);
           epoch_heuristic_counter = epoch_size;
       } else
           epoch_heuristic_counter = std::max(1u, std::max(epoch_size / 16, epoch_size - epoch_unused_count)); } *)
Fixpoint count_unused (ep col : list bool) : Z :=
  match ep, col with
  | e :: er, c :: cr => (if e && negb c then 1 else 0) + count_unused er cr
  | _, _ => 0
  end.
Fixpoint age_collect (ep col : list bool) : list bool :=
  match ep, col with
  | e :: er, c :: cr => (if e then c else true) :: age_collect er cr
  | _, _ => col
  end.
Definition epoch_check (c : cuckoo) : cuckoo :=
  if negb (cu_counter c =? 0) then
    mk_cuckoo (cu_size c) (cu_table c) (cu_collect c) (cu_epoch c) (cu_counter c - 1) (cu_epoch_size c) (cu_depth c)
  else
    let unused := count_unused (cu_epoch c) (cu_collect c) in
    if unused >=? cu_epoch_size c then
      mk_cuckoo (cu_size c) (cu_table c) (age_collect (cu_epoch c) (cu_collect c)) (map (fun _ => false) (cu_epoch c))
                (cu_epoch_size c) (cu_epoch_size c) (cu_depth c)
    else
      mk_cuckoo (cu_size c) (cu_table c) (cu_collect c) (cu_epoch c)
                (Z.max 1 (Z.max (cu_epoch_size c / 16) (cu_epoch_size c - unused))) (cu_epoch_size c) (cu_depth c).

(* first location whose slot holds e:  for (loc : locs) if (table[loc] == e)   - the whole 256-bit element is compared *)
Fixpoint find_equal (table : list Z) (locs : list nat) (e : Z) : option nat :=
  match locs with
  | [] => None
  | loc :: r => match nth_error table loc with
                | Some x => if x =? e then Some loc else find_equal table r e
                | None => find_equal table r e
                end
  end.
(* first collectable location *)
Fixpoint find_collectable (col : list bool) (locs : list nat) : option nat :=
  match locs with
  | [] => None
  | loc :: r => match nth_error col loc with Some true => Some loc | _ => find_collectable col r end
  end.
(* std::find(locs.begin(), locs.end(), last_loc) - locs.begin()    (8 when absent) *)
Fixpoint index_of (locs : list nat) (x : option nat) : nat :=
  match locs with
  | [] => O
  | l :: r => match x with
              | Some v => if (l =? v)%nat then O else S (index_of r x)
              | None => S (index_of r x)
              end
  end.

Section WithLocs.
(* the location function: compute_hashes for the real cache; any function in the theorems *)
Variable locs_of : Z -> list nat.

(* inline void insert(Element e) {
       epoch_check();
       uint32_t last_loc = invalid();  bool last_epoch = true;
       std::array<uint32_t, 8> locs = compute_hashes(e);
       for (loc : locs) if (table[loc] == e) { please_keep(loc); epoch_flags[loc] = last_epoch; return; }
       for (uint8_t depth = 0; depth < depth_limit; ++depth) {
           for (loc : locs) { if (!collection_flags.bit_is_set(loc)) continue;
                              table[loc] = std::move(e); please_keep(loc); epoch_flags[loc] = last_epoch; return; }
           last_loc = locs[(1 + (std::find(locs.begin(), locs.end(), last_loc) - locs.begin())) & 7];
           std::swap(table[last_loc], e);
           bool epoch = last_epoch; last_epoch = epoch_flags[last_loc]; epoch_flags[last_loc] = epoch;
           locs = compute_hashes(e);
       } }
   None = an index outside the table (excluded for locations below size: cuckoo_total). *)
Fixpoint insert_loop (depth : nat) (c : cuckoo) (e : Z) (last_loc : option nat) (last_epoch : bool) : option cuckoo :=
  match depth with
  | O => Some c
  | S d =>
    let locs := locs_of e in
    match find_collectable (cu_collect c) locs with
    | Some loc =>
      Some (mk_cuckoo (cu_size c) (upd (cu_table c) loc e) (upd (cu_collect c) loc false) (upd (cu_epoch c) loc last_epoch)
                      (cu_counter c) (cu_epoch_size c) (cu_depth c))
    | None =>
      match nth_error locs (Nat.land (1 + index_of locs last_loc) 7) with
      | None => None
      | Some ll =>
        match nth_error (cu_table c) ll, nth_error (cu_epoch c) ll with
        | Some displaced, Some ep =>
          insert_loop d (mk_cuckoo (cu_size c) (upd (cu_table c) ll e) (cu_collect c) (upd (cu_epoch c) ll last_epoch)
                                   (cu_counter c) (cu_epoch_size c) (cu_depth c))
                      displaced (Some ll) ep
        | _, _ => None
        end
      end
    end
  end.

Definition cuckoo_insert (c0 : cuckoo) (e : Z) : option cuckoo :=
  let c := epoch_check c0 in
  match find_equal (cu_table c) (locs_of e) e with
  | Some loc =>
    Some (mk_cuckoo (cu_size c) (cu_table c) (upd (cu_collect c) loc false) (upd (cu_epoch c) loc true)
                    (cu_counter c) (cu_epoch_size c) (cu_depth c))
  | None => insert_loop (cu_depth c) c e None true
  end.

(* inline bool contains(const Element& e, const bool erase) const {
       std::array<uint32_t, 8> locs = compute_hashes(e);
       for (loc : locs) if (table[loc] == e) { if (erase) allow_erase(loc); return true; }
       return false; } *)
Definition cuckoo_contains (c : cuckoo) (e : Z) (erase : bool) : bool * cuckoo :=
  match find_equal (cu_table c) (locs_of e) e with
  | Some loc =>
    (true, if erase then mk_cuckoo (cu_size c) (cu_table c) (upd (cu_collect c) loc true) (cu_epoch c)
                                   (cu_counter c) (cu_epoch_size c) (cu_depth c)
           else c)
  | None => (false, c)
  end.

(* operation sequences on one cache (the correspondence cases) *)
Inductive cop : Type := CInsert (e : Z) | CContains (e : Z) (erase : bool).
Fixpoint cuckoo_run (c : cuckoo) (ops : list cop) : option (list bool * cuckoo) :=
  match ops with
  | [] => Some ([], c)
  | CInsert e :: r =>
    match cuckoo_insert c e with
    | None => None
    | Some c1 => match cuckoo_run c1 r with Some (o, c2) => Some (true :: o, c2) | None => None end
    end
  | CContains e er :: r =>
    let '(b, c1) := cuckoo_contains c e er in
    match cuckoo_run c1 r with Some (o, c2) => Some (b :: o, c2) | None => None end
  end.

(* ------------------------------------------------------------------------------------------ *)
(* signature cache: CachingTransactionSignatureChecker *)

(* what the interpreter asks the checker: Verify{ECDSA,Schnorr}Signature(sig, pubkey, sighash) *)
Record sigquery : Type := mk_sigquery { sq_schnorr : bool; sq_sighash : list N; sq_pubkey : list N; sq_sig : list N }.

(* one input's script execution: it ends with a verdict, or asks a signature query and goes on *)
Inductive run : Type :=
| Done (ok : bool)
| Ask (q : sigquery) (k : bool -> run).

Variable oracle : sigquery -> bool.          (* TransactionSignatureChecker::Verify*Signature: the curve *)
Variable sigkey : sigquery -> Z.             (* ComputeEntryECDSA / ComputeEntrySchnorr: salted SHA-256 of (sighash, pubkey, sig) *)

Fixpoint exec_plain (r : run) : bool :=
  match r with Done b => b | Ask q k => exec_plain (k (oracle q)) end.

(* bool CachingTransactionSignatureChecker::VerifyECDSASignature(vchSig, pubkey, sighash) const {
       uint256 entry; m_signature_cache.ComputeEntryECDSA(entry, sighash, vchSig, pubkey);
       if (m_signature_cache.Get(entry, !store)) return true;
       if (!TransactionSignatureChecker::VerifyECDSASignature(vchSig, pubkey, sighash)) return false;
       if (store) m_signature_cache.Set(entry);
       return true; }                                    (VerifySchnorrSignature: the same)
   None = the cache model failed (never: cuckoo_total) *)
Definition cached_verify (store : bool) (sc : cuckoo) (q : sigquery) : option (bool * cuckoo) :=
  let key := sigkey q in
  let '(hit, sc1) := cuckoo_contains sc key (negb store) in
  if hit then Some (true, sc1)
  else if negb (oracle q) then Some (false, sc1)
  else if store then match cuckoo_insert sc1 key with Some sc2 => Some (true, sc2) | None => None end
  else Some (true, sc1).

Fixpoint exec_cached (store : bool) (sc : cuckoo) (r : run) : option (bool * cuckoo) :=
  match r with
  | Done b => Some (b, sc)
  | Ask q k =>
    match cached_verify store sc q with
    | None => None
    | Some (a, sc1) => exec_cached store sc1 (k a)
    end
  end.

(* ------------------------------------------------------------------------------------------ *)
(* script-execution cache: CheckInputScripts *)

Variable T : Type.                           (* transactions *)
Variable F : Type.                           (* script verification flags *)
Variable C : Type.                           (* the spent outputs handed in through the coins view *)
Variable is_coinbase : T -> bool.
Variable wtxid : T -> Z.                     (* tx.GetWitnessHash() *)
Variable exec_key : Z -> F -> Z.             (* SHA256(nonce || nonce || wtxid || flags) *)
Variable script_runs : T -> F -> C -> list run.   (* CScriptCheck(spent_outputs[i], tx, ..., i, flags, ...) for every input *)

Record vstate : Type := mk_vstate { vs_script : cuckoo; vs_sig : cuckoo }.

Record vcall : Type := mk_vcall {
  vc_tx : T; vc_flags : F; vc_coins : C;
  vc_sig_store : bool;          (* cacheSigStore *)
  vc_full_store : bool;         (* cacheFullScriptStore *)
  vc_deferred : bool            (* pvChecks != nullptr *)
}.

Inductive vresult : Type :=
| VTrue                          (* returned true, nothing left to run *)
| VFalse                         (* returned false: state.Invalid(...) *)
| VDeferred (checks : list run). (* returned true with the checks pushed onto pvChecks *)

(* all inputs in order; stops at the first failure *)
Fixpoint run_inputs (store : bool) (sc : cuckoo) (rs : list run) : option (bool * cuckoo) :=
  match rs with
  | [] => Some (true, sc)
  | r :: rest =>
    match exec_cached store sc r with
    | None => None
    | Some (false, sc1) => Some (false, sc1)
    | Some (true, sc1) => run_inputs store sc1 rest
    end
  end.

(* bool CheckInputScripts(tx, state, inputs, flags, cacheSigStore, cacheFullScriptStore, txdata, validation_cache, pvChecks) {
       if (tx.IsCoinBase()) return true;
       uint256 hashCacheEntry;  [hasher over nonce||nonce, then wtxid, then flags]
       if (validation_cache.m_script_execution_cache.contains(hashCacheEntry, !cacheFullScriptStore)) return true;
       [spent outputs from the view]
       for (i < tx.vin.size()) {
           CScriptCheck check(txdata.m_spent_outputs[i], tx, validation_cache.m_signature_cache, i, flags, cacheSigStore, &txdata);
           if (pvChecks) pvChecks->emplace_back(std::move(check));
           else if (auto result = check(); result.has_value()) return state.Invalid(...);
       }
       if (cacheFullScriptStore && !pvChecks) validation_cache.m_script_execution_cache.insert(hashCacheEntry);
       return true; } *)
Definition check_input_scripts (st : vstate) (c : vcall) : option (vresult * vstate) :=
  if is_coinbase (vc_tx c) then Some (VTrue, st) else
  let key := exec_key (wtxid (vc_tx c)) (vc_flags c) in
  let '(hit, sc1) := cuckoo_contains (vs_script st) key (negb (vc_full_store c)) in
  if hit then Some (VTrue, mk_vstate sc1 (vs_sig st)) else
  let rs := script_runs (vc_tx c) (vc_flags c) (vc_coins c) in
  if vc_deferred c then Some (VDeferred rs, mk_vstate sc1 (vs_sig st)) else
  match run_inputs (vc_sig_store c) (vs_sig st) rs with
  | None => None
  | Some (false, sg1) => Some (VFalse, mk_vstate sc1 sg1)
  | Some (true, sg1) =>
    if vc_full_store c then
      match cuckoo_insert sc1 key with Some sc2 => Some (VTrue, mk_vstate sc2 sg1) | None => None end
    else Some (VTrue, mk_vstate sc1 sg1)
  end.

(* the verdict without any cache *)
Definition real_ok (t : T) (fl : F) (coins : C) : bool :=
  if is_coinbase t then true else forallb exec_plain (script_runs t fl coins).

(* a history of validations on one pair of caches; the deferred checks of a call are run (by the check
   queue) before the next call, with the same signature cache *)
Fixpoint run_history (st : vstate) (h : list vcall) : option (list bool * vstate) :=
  match h with
  | [] => Some ([], st)
  | c :: rest =>
    match check_input_scripts st c with
    | None => None
    | Some (res, st1) =>
      let fin : option (bool * vstate) :=
        match res with
        | VTrue => Some (true, st1)
        | VFalse => Some (false, st1)
        | VDeferred rs =>
          match run_inputs (vc_sig_store c) (vs_sig st1) rs with
          | None => None
          | Some (b, sg) => Some (b, mk_vstate (vs_script st1) sg)
          end
        end in
      match fin with
      | None => None
      | Some (b, st2) => match run_history st2 rest with Some (o, st3) => Some (b :: o, st3) | None => None end
      end
    end
  end.

End WithLocs.
