(* Context-free package checks (C29).  Transcribed from
     src/policy/packages.cpp   IsTopoSortedPackage (both overloads), IsConsistentPackage,
                               IsWellFormedPackage, IsChildWithParents, IsChildWithParentsTree
     src/policy/packages.h     MAX_PACKAGE_COUNT, MAX_PACKAGE_WEIGHT
   A transaction is abstracted to what these functions read: its txid, its wtxid, the list of
   outpoints it spends and its weight (GetTransactionWeight, an int32_t).
   std::unordered_set<Txid> / <COutPoint> are modelled as lists used only through membership, erase
   (all copies) and number of distinct elements.
   Executable definitions only. *)
From BV Require Import lib.Ints gen.Params_gen.
Local Open Scope Z_scope.

Definition outpoint := (Z * Z)%type.          (* COutPoint: (hash as a number, n) *)
(* p_fee (modified fee), p_version and p_nout (number of outputs) are not read by the package checks;
   they are used by the acceptance scenarios (model/PackageAccept.v) and the TRUC rules (model/Truc.v) *)
Record ptx := { p_txid : Z; p_wtxid : Z; p_inputs : list outpoint; p_weight : Z;
                p_fee : Z; p_version : Z; p_nout : Z }.
Definition package := list ptx.

(* generated from the compiled tree (tie/params/mempoolpol.h) *)
Definition MAX_PACKAGE_COUNT : Z := MPP_MAX_PACKAGE_COUNT.
Definition MAX_PACKAGE_WEIGHT : Z := MPP_MAX_PACKAGE_WEIGHT.

Definition zmem (x : Z) (l : list Z) : bool := existsb (Z.eqb x) l.
(* unordered_set::erase(key) *)
Definition zerase (x : Z) (l : list Z) : list Z := filter (fun y => negb (Z.eqb x y)) l.
Definition opeqb (a b : outpoint) : bool := (fst a =? fst b) && (snd a =? snd b).
Definition opmem (o : outpoint) (l : list outpoint) : bool := existsb (opeqb o) l.

(* bool IsTopoSortedPackage(const Package& txns, std::unordered_set<Txid, SaltedTxidHasher>& later_txids)
   {
       for (const auto& tx : txns) {
           for (const auto& input : tx->vin) {
               if (later_txids.contains(input.prevout.hash)) {
                   // The parent is a subsequent transaction in the package.
                   return false;
               }
           }
           Assume(later_txids.erase(tx->GetHash()) == 1);
       }
       return true;
   } *)
Fixpoint topo_sorted_from (txns : package) (later : list Z) : bool :=
  match txns with
  | [] => true
  | tx :: rest =>
      if existsb (fun inp => zmem (fst inp) later) (p_inputs tx) then false
      else topo_sorted_from rest (zerase (p_txid tx) later)
  end.

(* bool IsTopoSortedPackage(const Package& txns)
   {   std::unordered_set<Txid, SaltedTxidHasher> later_txids;
       std::transform(txns.cbegin(), txns.cend(), std::inserter(later_txids, later_txids.end()),
                      [](const auto& tx) { return tx->GetHash(); });
       return IsTopoSortedPackage(txns, later_txids); } *)
Definition is_topo_sorted (txns : package) : bool := topo_sorted_from txns (map p_txid txns).

(* bool IsConsistentPackage(const Package& txns)
   {   std::unordered_set<COutPoint, SaltedOutpointHasher> inputs_seen;
       for (const auto& tx : txns) {
           if (tx->vin.empty()) { return false; }
           for (const auto& input : tx->vin) {
               if (inputs_seen.contains(input.prevout)) { return false; }
           }
           // Batch-add all the inputs for a tx at a time. ...
           std::transform(tx->vin.cbegin(), tx->vin.cend(), std::inserter(inputs_seen, inputs_seen.end()),
                          [](const auto& input) { return input.prevout; });
       }
       return true; } *)
Fixpoint consistent_from (txns : package) (seen : list outpoint) : bool :=
  match txns with
  | [] => true
  | tx :: rest =>
      match p_inputs tx with
      | [] => false
      | _ => if existsb (fun inp => opmem inp seen) (p_inputs tx) then false
             else consistent_from rest (p_inputs tx ++ seen)
      end
  end.
Definition is_consistent (txns : package) : bool := consistent_from txns [].

Inductive pkg_reason :=
| package_too_many_transactions | package_too_large | package_contains_duplicates
| package_not_sorted | conflict_in_package.

(* const int64_t total_weight = std::accumulate(txns.cbegin(), txns.cend(), 0,
                                  [](int64_t sum, const auto& tx) { return sum + GetTransactionWeight( *tx); });
   The initial value 0 is an int, so std::accumulate's accumulator is an int: each step computes
   int64(acc) + int64(weight) (cannot overflow int64: both are 32-bit values) and stores the
   result back into the int accumulator (conversion int64 -> int, modular: wrap32). *)
Definition acc_weight (txns : package) : Z :=
  fold_left (fun acc tx => wrap32 (wrap64 (acc + p_weight tx))) txns 0.

(* bool IsWellFormedPackage(const Package& txns, PackageValidationState& state)
   {   const unsigned int package_count = txns.size();
       if (package_count > MAX_PACKAGE_COUNT) return state.Invalid(PCKG_POLICY, "package-too-many-transactions");
       const int64_t total_weight = std::accumulate(...);
       // If the package only contains 1 tx, it's better to report the policy violation on individual tx weight.
       if (package_count > 1 && total_weight > MAX_PACKAGE_WEIGHT) return state.Invalid(PCKG_POLICY, "package-too-large");
       std::unordered_set<Txid, SaltedTxidHasher> later_txids;
       std::transform(txns.cbegin(), txns.cend(), std::inserter(later_txids, later_txids.end()), [](const auto& tx) { return tx->GetHash(); });
       if (later_txids.size() != txns.size()) return state.Invalid(PCKG_POLICY, "package-contains-duplicates");
       if (!IsTopoSortedPackage(txns, later_txids)) return state.Invalid(PCKG_POLICY, "package-not-sorted");
       if (!IsConsistentPackage(txns)) return state.Invalid(PCKG_POLICY, "conflict-in-package");
       return true; } *)
Definition is_well_formed (txns : package) : option pkg_reason :=
  let package_count := wrapu32 (Z.of_nat (length txns)) in
  if package_count >? MAX_PACKAGE_COUNT then Some package_too_many_transactions else
  let total_weight := acc_weight txns in
  if (package_count >? 1) && (total_weight >? MAX_PACKAGE_WEIGHT) then Some package_too_large else
  let later_txids := nodup Z.eq_dec (map p_txid txns) in
  if negb (Nat.eqb (length later_txids) (length txns)) then Some package_contains_duplicates else
  if negb (topo_sorted_from txns later_txids) then Some package_not_sorted else
  if negb (is_consistent txns) then Some conflict_in_package else
  None.

Fixpoint last_opt {A} (l : list A) : option A :=
  match l with [] => None | [x] => Some x | _ :: r => last_opt r end.

(* bool IsChildWithParents(const Package& package)
   {   if (package.size() < 2) return false;
       const auto& child = package.back();
       std::unordered_set<Txid, SaltedTxidHasher> input_txids;
       std::transform(child->vin.cbegin(), child->vin.cend(), std::inserter(input_txids, input_txids.end()),
                      [](const auto& input) { return input.prevout.hash; });
       // Every transaction must be a parent of the last transaction in the package.
       return std::all_of(package.cbegin(), package.cend() - 1,
                          [&input_txids](const auto& ptx) { return input_txids.contains(ptx->GetHash()); }); } *)
Definition is_child_with_parents (pkg : package) : bool :=
  if (length pkg <? 2)%nat then false else
  match last_opt pkg with
  | None => false
  | Some child =>
      let input_txids := map fst (p_inputs child) in
      forallb (fun p => zmem (p_txid p) input_txids) (removelast pkg)
  end.

(* bool IsChildWithParentsTree(const Package& package)
   {   if (!IsChildWithParents(package)) return false;
       std::unordered_set<Txid, SaltedTxidHasher> parent_txids;
       std::transform(package.cbegin(), package.cend() - 1, std::inserter(parent_txids, parent_txids.end()),
                      [](const auto& ptx) { return ptx->GetHash(); });
       // Each parent must not have an input who is one of the other parents.
       return std::all_of(package.cbegin(), package.cend() - 1, [&](const auto& ptx) {
           for (const auto& input : ptx->vin) { if (parent_txids.contains(input.prevout.hash)) return false; }
           return true; }); } *)
Definition is_child_with_parents_tree (pkg : package) : bool :=
  if negb (is_child_with_parents pkg) then false else
  let parent_txids := map p_txid (removelast pkg) in
  forallb (fun p => negb (existsb (fun inp => zmem (fst inp) parent_txids) (p_inputs p))) (removelast pkg).

(* ---------- declarative specification ---------- *)

(* the package as a C++ value: size fits unsigned int, weights are non-negative int32 values *)
Definition pkg_repr (txns : package) : Prop :=
  Z.of_nat (length txns) <= UINT32_MAX /\ forall t, In t txns -> 0 <= p_weight t <= INT32_MAX.

Definition spec_count (txns : package) : Prop := Z.of_nat (length txns) <= MAX_PACKAGE_COUNT.
(* the limit applies to packages of more than one transaction *)
Definition spec_weight (txns : package) : Prop :=
  (length txns <= 1)%nat \/ zsum (map p_weight txns) <= MAX_PACKAGE_WEIGHT.
Definition spec_no_duplicates (txns : package) : Prop := NoDup (map p_txid txns).
(* no transaction spends an output of itself or of a transaction placed later *)
Definition spec_sorted (txns : package) : Prop :=
  forall i j ti tj inp, nth_error txns i = Some ti -> nth_error txns j = Some tj -> (i <= j)%nat ->
    In inp (p_inputs ti) -> fst inp <> p_txid tj.
(* every transaction has an input, and no outpoint is spent by two different transactions *)
Definition spec_consistent (txns : package) : Prop :=
  (forall t, In t txns -> p_inputs t <> []) /\
  forall i j ti tj o, nth_error txns i = Some ti -> nth_error txns j = Some tj -> (i < j)%nat ->
    In o (p_inputs ti) -> In o (p_inputs tj) -> False.

(* the reject reason names the first violated rule, in the order of the code *)
Definition first_violation_is (txns : package) (r : option pkg_reason) : Prop :=
  match r with
  | Some package_too_many_transactions => ~ spec_count txns
  | Some package_too_large => spec_count txns /\ ~ spec_weight txns
  | Some package_contains_duplicates => spec_count txns /\ spec_weight txns /\ ~ spec_no_duplicates txns
  | Some package_not_sorted => spec_count txns /\ spec_weight txns /\ spec_no_duplicates txns /\ ~ spec_sorted txns
  | Some conflict_in_package => spec_count txns /\ spec_weight txns /\ spec_no_duplicates txns /\ spec_sorted txns /\ ~ spec_consistent txns
  | None => spec_count txns /\ spec_weight txns /\ spec_no_duplicates txns /\ spec_sorted txns /\ spec_consistent txns
  end.

(* exactly one child (the last transaction) and only parents of that child before it *)
Definition spec_child_with_parents (pkg : package) : Prop :=
  exists parents child, parents <> [] /\ pkg = parents ++ [child] /\
    forall p, In p parents -> exists inp, In inp (p_inputs child) /\ fst inp = p_txid p.
Definition spec_child_with_parents_tree (pkg : package) : Prop :=
  exists parents child, parents <> [] /\ pkg = parents ++ [child] /\
    (forall p, In p parents -> exists inp, In inp (p_inputs child) /\ fst inp = p_txid p) /\
    (forall p q inp, In p parents -> In q parents -> In inp (p_inputs p) -> fst inp <> p_txid q).

(* ---------- executable first-violated-rule function (independent of the code's data flow) ----------
   used by the violation search: quadratic pairwise checks over positions, exact sum of weights. *)
Fixpoint has_dup (l : list Z) : bool :=
  match l with [] => false | x :: r => zmem x r || has_dup r end.
(* some input of t names a txid in l *)
Definition spends_any (t : ptx) (l : list Z) : bool := existsb (fun inp => zmem (fst inp) l) (p_inputs t).
Fixpoint unsorted (txns : package) : bool :=
  match txns with [] => false | t :: r => spends_any t (map p_txid (t :: r)) || unsorted r end.
Definition shares_input (a b : ptx) : bool := existsb (fun o => opmem o (p_inputs b)) (p_inputs a).
Fixpoint has_conflict (txns : package) : bool :=
  match txns with [] => false | t :: r => existsb (shares_input t) r || has_conflict r end.
Definition has_empty_vin (txns : package) : bool :=
  existsb (fun t => match p_inputs t with [] => true | _ => false end) txns.

Definition first_violation (txns : package) : option pkg_reason :=
  if Z.of_nat (length txns) >? MAX_PACKAGE_COUNT then Some package_too_many_transactions else
  if (1 <? length txns)%nat && (zsum (map p_weight txns) >? MAX_PACKAGE_WEIGHT) then Some package_too_large else
  if has_dup (map p_txid txns) then Some package_contains_duplicates else
  if unsorted txns then Some package_not_sorted else
  if has_empty_vin txns || has_conflict txns then Some conflict_in_package else None.

Definition spec_cwp_b (pkg : package) : bool :=
  match rev pkg with
  | child :: (_ :: _) as rparents =>
      forallb (fun p => existsb (fun inp => fst inp =? p_txid p) (p_inputs child)) rparents
  | _ => false
  end.
Definition spec_cwp_tree_b (pkg : package) : bool :=
  match rev pkg with
  | child :: (_ :: _) as rparents =>
      forallb (fun p => existsb (fun inp => fst inp =? p_txid p) (p_inputs child)) rparents &&
      forallb (fun p => forallb (fun q => forallb (fun inp => negb (fst inp =? p_txid q)) (p_inputs p)) rparents) rparents
  | _ => false
  end.

(* premise of the well-formedness theorems, executable (cases outside it are not judged) *)
Definition weights_ok_b (txns : package) : bool :=
  forallb (fun t => (0 <=? p_weight t) && (p_weight t * MAX_PACKAGE_COUNT <=? INT32_MAX)) txns.
