(* Layered coin caches (C15).  Transcribed from
     src/coins.h     Coin, CCoinsCacheEntry (DIRTY/FRESH), CoinsViewCacheCursor, CCoinsViewCache,
                     CoinsViewOverlay::FetchCoinFromBase
     src/coins.cpp   CCoinsViewCache::{PeekCoin, FetchCoin, GetCoin, AddCoin, SpendCoin, AccessCoin,
                     HaveCoin, BatchWrite, Flush, Sync, Reset, Uncache, GetCacheSize, SanityCheck}
     src/txdb.cpp    CCoinsViewDB::BatchWrite (write unspent / erase spent, dirty entries only)
     src/prevector.h copy/move assignment (capacity kept by copy-assignment), src/memusage.h MallocUsage
   Executable definitions only (proofs are in proofs/CoinsLemmas.v).

   Shape of the model.  A stack is a list of cache layers, HEAD = TOP (the most derived cache), over
   a bottom map `db` (the database view).  Every operation names the layer by its depth from the top
   (0 = top).  Throwing paths of the C++ are explicit `Throw` results.

   Things that are deliberately not in the model, and why that is sound for C15:
   - the doubly linked list of flagged entries is represented by "the entries whose flags are not 0";
     BatchWrite touches one key per list element, so the list order is unobservable except in the
     partially-written state left behind by a throwing BatchWrite, and scripts stop at a throw.
     Consequently Sync's second logic_error ("Not all unspent flagged entries were cleared") has no
     counterpart: it needs a base BatchWrite that does not walk the whole cursor.
   - best-block hashes (SetBestBlock/GetBestBlock) are not part of the property.
   - CoinsViewOverlay is modelled only in its serial mode (no StartFetching): FetchCoinFromBase =
     base->PeekCoin. *)
From BV Require Import lib.Ints gen.Params_gen.
Local Open Scope Z_scope.

(* ------------------------------------------------------------------------------------------- *)
(* Outpoints, coins, association-list maps                                                      *)

Definition outpoint := nat.

(* class Coin { CTxOut out; bool fCoinBase:1; uint32_t nHeight:31; }  -- an UNSPENT coin.
   A spent/empty Coin (out.IsNull()) is `None : option coin` everywhere below.
   c_slen = scriptPubKey.size(); c_unsp = scriptPubKey.IsUnspendable(). *)
Record coin := mkCoin { c_value : Z; c_height : Z; c_cb : bool; c_slen : Z; c_unsp : bool }.

Definition coin_eqb (a b : coin) : bool :=
  (c_value a =? c_value b) && (c_height a =? c_height b) && Bool.eqb (c_cb a) (c_cb b) &&
  (c_slen a =? c_slen b) && Bool.eqb (c_unsp a) (c_unsp b).

Definition ocoin_eqb (a b : option coin) : bool :=
  match a, b with
  | Some x, Some y => coin_eqb x y
  | None, None => true
  | _, _ => false
  end.

Section AMap.
  Context {V : Type}.
  Fixpoint m_get (k : outpoint) (m : list (outpoint * V)) : option V :=
    match m with
    | [] => None
    | (k', v) :: r => if Nat.eqb k k' then Some v else m_get k r
    end.
  Fixpoint m_del (k : outpoint) (m : list (outpoint * V)) : list (outpoint * V) :=
    match m with
    | [] => []
    | (k', v) :: r => if Nat.eqb k k' then m_del k r else (k', v) :: m_del k r
    end.
  Definition m_set (k : outpoint) (v : V) (m : list (outpoint * V)) : list (outpoint * V) :=
    (k, v) :: m_del k m.
  Fixpoint m_sum (f : V -> Z) (m : list (outpoint * V)) : Z :=
    match m with
    | [] => 0
    | (_, v) :: r => f v + m_sum f r
    end.
End AMap.

(* ------------------------------------------------------------------------------------------- *)
(* Memory accounting of one Coin                                                                *)

(* memusage.h (64-bit):  MallocUsage(alloc) = alloc == 0 ? 0 : ((alloc + 31) >> 4) << 4 *)
(* alloc is a size_t: `alloc == 0` is written `alloc <= 0` so that the function is total on Z *)
Definition malloc_usage (alloc : Z) : Z := if alloc <=? 0 then 0 else ((alloc + 31) / 16) * 16.

(* prevector<36>: a script of at most COINS_SCRIPT_DIRECT_CAPACITY bytes built by the range/copy
   constructor is stored inline (allocated_memory() = 0), a longer one allocates exactly size bytes. *)
Definition exact_cap (slen : Z) : Z := if slen <=? COINS_SCRIPT_DIRECT_CAPACITY then 0 else slen.

(* prevector::operator=(const prevector&) = assign(): clear(); if (capacity() < n) change_capacity(n);
   where capacity() is N when direct.  `cap` is the allocated capacity of the destination before
   the assignment (0 = direct). The capacity is KEPT when it is already large enough. *)
Definition copy_assign_cap (cap : Z) (slen : Z) : Z :=
  let capacity := if cap =? 0 then COINS_SCRIPT_DIRECT_CAPACITY else cap in
  if capacity <? slen then slen else cap.

(* ------------------------------------------------------------------------------------------- *)
(* Cache entries and layers                                                                     *)

(* struct CCoinsCacheEntry { Coin coin; uint8_t m_flags (DIRTY=1, FRESH=2); m_prev/m_next }.
   e_cap = allocated capacity of coin.out.scriptPubKey (0 when stored inline / cleared), so that
   coin.DynamicMemoryUsage() = malloc_usage e_cap. *)
Record entry := mkEntry { e_coin : option coin; e_cap : Z; e_dirty : bool; e_fresh : bool }.

(* class CCoinsViewCache { CCoinsMap cacheCoins; size_t cachedCoinsUsage; size_t m_dirty_count; }
   l_overlay = the layer is a CoinsViewOverlay (fetches from its base with PeekCoin). *)
Record layer := mkLayer { l_map : list (outpoint * entry); l_usage : Z; l_dirty : Z; l_overlay : bool }.

Definition dbmap := list (outpoint * coin).

Definition b2z (b : bool) : Z := if b then 1 else 0.
Definition entry_usage (e : entry) : Z := malloc_usage (e_cap e).
Definition entry_dirtyz (e : entry) : Z := b2z (e_dirty e).
Definition entry_flagged (e : entry) : bool := e_dirty e || e_fresh e.
Definition is_unspent (e : entry) : bool := match e_coin e with Some _ => true | None => false end.

(* util/overflow.h  TrySub(T& i, U j): if (i < j) return false; i -= j; return true;
   (always used as Assume(TrySub(..)): a failed Assume does not stop a release build) *)
Definition try_sub (i j : Z) : Z := if i <? j then i else i - j.

Definition empty_layer (overlay : bool) : layer := mkLayer [] 0 0 overlay.
Definition with_map (L : layer) (m : list (outpoint * entry)) (u d : Z) : layer :=
  mkLayer m u d (l_overlay L).

Inductive err := ErrOverwrite | ErrFreshMisapplied | ErrBadLayer.
Inductive result (A : Type) := Ok (a : A) | Throw (e : err).
Arguments Ok {A} a.
Arguments Throw {A} e.

(* ------------------------------------------------------------------------------------------- *)
(* Reads                                                                                        *)

(* std::optional<Coin> CCoinsViewCache::PeekCoin(const COutPoint& outpoint) const {
     if (auto it{cacheCoins.find(outpoint)}; it != cacheCoins.end())
         return it->second.coin.IsSpent() ? std::nullopt : std::optional{it->second.coin};
     return base->PeekCoin(outpoint); }
   The bottom view answers from its map. Nothing is modified. *)
Fixpoint view_peek (ls : list layer) (db : dbmap) (k : outpoint) : option coin :=
  match ls with
  | [] => m_get k db
  | L :: ps => match m_get k (l_map L) with
               | Some e => e_coin e
               | None => view_peek ps db k
               end
  end.

(* The entry FetchCoin creates for a coin found in the base:
     ret->second.coin = std::move( *coin);  cachedCoinsUsage += ret->second.coin.DynamicMemoryUsage();
   (no flags). The optional holds a copy of the base's coin, hence an exactly-sized script. *)
Definition fetched_entry (c : coin) : entry := mkEntry (Some c) (exact_cap (c_slen c)) false false.
Definition cache_fetched (L : layer) (k : outpoint) (c : coin) : layer :=
  let e := fetched_entry c in
  with_map L (m_set k e (l_map L)) (l_usage L + entry_usage e) (l_dirty L).

(* GetCoin through a whole (sub)stack; returns the stack with whatever got cached on the way.
   std::optional<Coin> CCoinsViewCache::GetCoin(const COutPoint& outpoint) const {
     if (auto it{FetchCoin(outpoint)}; it != cacheCoins.end() && !it->second.coin.IsSpent()) return it->second.coin;
     return std::nullopt; }
   CCoinsMap::iterator CCoinsViewCache::FetchCoin(const COutPoint &outpoint) const {
     const auto [ret, inserted] = cacheCoins.try_emplace(outpoint);
     if (inserted) {
         if (auto coin{FetchCoinFromBase(outpoint)}) { ...cache it... }
         else { cacheCoins.erase(ret); return cacheCoins.end(); } }
     return ret; }
   FetchCoinFromBase = base->GetCoin (CCoinsViewCache) | base->PeekCoin (CoinsViewOverlay, serial mode). *)
Fixpoint view_get (ls : list layer) (db : dbmap) (k : outpoint) : list layer * option coin :=
  match ls with
  | [] => ([], m_get k db)
  | L :: ps =>
      match m_get k (l_map L) with
      | Some e => (L :: ps, e_coin e)
      | None =>
          let '(ps', r) := if l_overlay L then (ps, view_peek ps db k) else view_get ps db k in
          match r with
          | Some c => (cache_fetched L k c :: ps', Some c)
          | None => (L :: ps', None)
          end
      end
  end.

(* FetchCoin of the top cache L of the stack L :: ps: the (possibly updated) layers and the entry the
   returned iterator points to (None = cacheCoins.end()). *)
Definition fetch_coin (L : layer) (ps : list layer) (db : dbmap) (k : outpoint)
  : layer * list layer * option entry :=
  match m_get k (l_map L) with
  | Some e => (L, ps, Some e)
  | None =>
      let '(ps', r) := if l_overlay L then (ps, view_peek ps db k) else view_get ps db k in
      match r with
      | Some c => (cache_fetched L k c, ps', Some (fetched_entry c))
      | None => (L, ps', None)
      end
  end.

(* ------------------------------------------------------------------------------------------- *)
(* Mutations of one cache                                                                       *)

(* void CCoinsViewCache::AddCoin(const COutPoint &outpoint, Coin&& coin, bool possible_overwrite) {
     assert(!coin.IsSpent());
     if (coin.out.scriptPubKey.IsUnspendable()) return;
     std::tie(it, inserted) = cacheCoins.emplace(...);           // no FetchCoin: the base is not consulted
     bool fresh = false;
     if (!possible_overwrite) {
         if (!it->second.coin.IsSpent()) throw std::logic_error("Attempted to overwrite an unspent coin ...");
         fresh = !it->second.IsDirty(); }
     if (!inserted) { Assume(TrySub(m_dirty_count, it->second.IsDirty()));
                      Assume(TrySub(cachedCoinsUsage, it->second.coin.DynamicMemoryUsage())); }
     it->second.coin = std::move(coin);
     CCoinsCacheEntry::SetDirty( *it, m_sentinel); ++m_dirty_count;
     if (fresh) CCoinsCacheEntry::SetFresh( *it, m_sentinel);
     cachedCoinsUsage += it->second.coin.DynamicMemoryUsage(); }
   Flags are OR-ed in: an existing FRESH flag survives an overwrite. *)
Definition add_coin (L : layer) (k : outpoint) (c : coin) (ow : bool) : result layer :=
  if c_unsp c then Ok L
  else
    let old := m_get k (l_map L) in
    let e0 := match old with Some e => e | None => mkEntry None 0 false false end in
    if negb ow && is_unspent e0 then Throw ErrOverwrite
    else
      let fresh := if ow then false else negb (e_dirty e0) in
      let d1 := match old with Some e => try_sub (l_dirty L) (entry_dirtyz e) | None => l_dirty L end in
      let u1 := match old with Some e => try_sub (l_usage L) (entry_usage e) | None => l_usage L end in
      let e := mkEntry (Some c) (exact_cap (c_slen c)) true (e_fresh e0 || fresh) in
      Ok (with_map L (m_set k e (l_map L)) (u1 + entry_usage e) (d1 + 1)).

(* bool CCoinsViewCache::SpendCoin(const COutPoint &outpoint, Coin* moveout) {
     CCoinsMap::iterator it = FetchCoin(outpoint);
     if (it == cacheCoins.end()) return false;
     Assume(TrySub(m_dirty_count, it->second.IsDirty()));
     Assume(TrySub(cachedCoinsUsage, it->second.coin.DynamicMemoryUsage()));
     if (moveout) *moveout = std::move(it->second.coin);
     if (it->second.IsFresh()) cacheCoins.erase(it);
     else { CCoinsCacheEntry::SetDirty( *it, m_sentinel); ++m_dirty_count; it->second.coin.Clear(); }
     return true; }
   NOTE: an entry that is already spent (spent+DIRTY) is found by FetchCoin, so the call returns
   true (with an empty moveout) although the view has no such coin. *)
Definition spend_coin (L : layer) (ps : list layer) (db : dbmap) (k : outpoint)
  : layer * list layer * (bool * option coin) :=
  let '(L1, ps', it) := fetch_coin L ps db k in
  match it with
  | None => (L1, ps', (false, None))
  | Some e =>
      let d1 := try_sub (l_dirty L1) (entry_dirtyz e) in
      let u1 := try_sub (l_usage L1) (entry_usage e) in
      if e_fresh e then (with_map L1 (m_del k (l_map L1)) u1 d1, ps', (true, e_coin e))
      else (with_map L1 (m_set k (mkEntry None 0 true (e_fresh e)) (l_map L1)) u1 (d1 + 1), ps', (true, e_coin e))
  end.

(* void CCoinsViewCache::Uncache(const COutPoint& hash) {
     CCoinsMap::iterator it = cacheCoins.find(hash);
     if (it != cacheCoins.end() && !it->second.IsDirty()) {
         Assume(TrySub(cachedCoinsUsage, it->second.coin.DynamicMemoryUsage()));
         cacheCoins.erase(it); } } *)
Definition uncache (L : layer) (k : outpoint) : layer :=
  match m_get k (l_map L) with
  | Some e => if e_dirty e then L
              else with_map L (m_del k (l_map L)) (try_sub (l_usage L) (entry_usage e)) (l_dirty L)
  | None => L
  end.

(* void CCoinsViewCache::Reset() noexcept { cacheCoins.clear(); cachedCoinsUsage = 0; m_dirty_count = 0; ... } *)
Definition reset_layer (L : layer) : layer := with_map L [] 0 0.

(* ------------------------------------------------------------------------------------------- *)
(* BatchWrite                                                                                   *)

(* One iteration of the loop body of CCoinsViewCache::BatchWrite on the receiving cache P for the
   child's entry (k, ce); `we` = cursor.WillErase( *it) = will_erase || ce spent (move, else copy).
     if (!it->second.IsDirty()) continue;
     auto [itUs, inserted]{cacheCoins.try_emplace(it->first)};
     if (inserted) {
         if (it->second.IsFresh() && it->second.coin.IsSpent()) cacheCoins.erase(itUs);
         else { entry.coin = move-or-copy; SetDirty; ++m_dirty_count; cachedCoinsUsage += usage;
                if (it->second.IsFresh()) SetFresh; }
     } else {
         if (it->second.IsFresh() && !itUs->second.coin.IsSpent()) throw std::logic_error("FRESH flag misapplied ...");
         if (itUs->second.IsFresh() && it->second.coin.IsSpent()) {
             Assume(TrySub(m_dirty_count, itUs->second.IsDirty()));
             Assume(TrySub(cachedCoinsUsage, itUs->second.coin.DynamicMemoryUsage()));
             cacheCoins.erase(itUs);
         } else {
             Assume(TrySub(cachedCoinsUsage, itUs->second.coin.DynamicMemoryUsage()));
             itUs->second.coin = move-or-copy;
             cachedCoinsUsage += itUs->second.coin.DynamicMemoryUsage();
             if (!itUs->second.IsDirty()) { SetDirty; ++m_dirty_count; } } } *)
Definition bw_parent (P : layer) (k : outpoint) (ce : entry) (will_erase : bool) : result layer :=
  if negb (e_dirty ce) then Ok P
  else
    let we := will_erase || negb (is_unspent ce) in
    match m_get k (l_map P) with
    | None =>
        if e_fresh ce && negb (is_unspent ce) then Ok P
        else
          let cap := if we then e_cap ce
                     else match e_coin ce with Some c => copy_assign_cap 0 (c_slen c) | None => 0 end in
          let e := mkEntry (e_coin ce) cap true (e_fresh ce) in
          Ok (with_map P (m_set k e (l_map P)) (l_usage P + entry_usage e) (l_dirty P + 1))
    | Some pe =>
        if e_fresh ce && is_unspent pe then Throw ErrFreshMisapplied
        else if e_fresh pe && negb (is_unspent ce) then
          Ok (with_map P (m_del k (l_map P)) (try_sub (l_usage P) (entry_usage pe))
                (try_sub (l_dirty P) (entry_dirtyz pe)))
        else
          let cap := if we then e_cap ce
                     else match e_coin ce with Some c => copy_assign_cap (e_cap pe) (c_slen c) | None => 0 end in
          let e := mkEntry (e_coin ce) cap true (e_fresh pe) in
          Ok (with_map P (m_set k e (l_map P)) (try_sub (l_usage P) (entry_usage pe) + entry_usage e)
                (if e_dirty pe then l_dirty P else l_dirty P + 1))
    end.

(* The bottom view (CCoinsViewDB::BatchWrite / the in-memory base of the driver):
     if (it->second.IsDirty()) { if (it->second.coin.IsSpent()) batch.Erase(entry); else batch.Write(entry, coin); } *)
Definition bw_db (db : dbmap) (k : outpoint) (ce : entry) : dbmap :=
  if negb (e_dirty ce) then db
  else match e_coin ce with
       | Some c => m_set k c db
       | None => m_del k db
       end.

(* CoinsViewCacheCursor::NextAndMaybeErase(current), acting on the child C:
     Assume(TrySub(m_dirty_count, current.second.IsDirty()));
     if (!m_will_erase) {
         if (current.second.coin.IsSpent()) { assert(usage == 0); m_map.erase(current.first); }
         else current.second.SetClean(); } *)
Definition cursor_next (C : layer) (k : outpoint) (ce : entry) (will_erase : bool) : layer :=
  let d1 := try_sub (l_dirty C) (entry_dirtyz ce) in
  if will_erase then with_map C (l_map C) (l_usage C) d1
  else if is_unspent ce then with_map C (m_set k (mkEntry (e_coin ce) (e_cap ce) false false) (l_map C)) (l_usage C) d1
  else with_map C (m_del k (l_map C)) (l_usage C) d1.

(* the cursor walks the linked list of flagged (DIRTY or FRESH) entries *)
Definition flagged (m : list (outpoint * entry)) : list (outpoint * entry) :=
  filter (fun kv => entry_flagged (snd kv)) m.

Fixpoint batch_loop (items : list (outpoint * entry)) (will_erase : bool) (C P : layer)
  : result (layer * layer) :=
  match items with
  | [] => Ok (C, P)
  | (k, ce) :: r =>
      match bw_parent P k ce will_erase with
      | Throw e => Throw e
      | Ok P' => batch_loop r will_erase (cursor_next C k ce will_erase) P'
      end
  end.

Fixpoint batch_loop_db (items : list (outpoint * entry)) (will_erase : bool) (C : layer) (db : dbmap)
  : layer * dbmap :=
  match items with
  | [] => (C, db)
  | (k, ce) :: r => batch_loop_db r will_erase (cursor_next C k ce will_erase) (bw_db db k ce)
  end.

(* void CCoinsViewCache::Flush(bool) { cursor(will_erase=true); base->BatchWrite(cursor, m_block_hash);
     Assume(m_dirty_count == 0); cacheCoins.clear(); cachedCoinsUsage = 0; }
   (m_dirty_count is NOT assigned: it is whatever the cursor left.)
   void CCoinsViewCache::Sync() { cursor(will_erase=false); base->BatchWrite(cursor, m_block_hash);
     Assume(m_dirty_count == 0); if (list not empty) throw ...; } *)
Definition after_write (C : layer) (will_erase : bool) : layer :=
  if will_erase then with_map C [] 0 (l_dirty C) else C.

(* Flush (will_erase = true) / Sync (false) of the top cache of the stack C :: ps *)
Definition flush_top (will_erase : bool) (ls : list layer) (db : dbmap) : result (list layer * dbmap) :=
  match ls with
  | [] => Throw ErrBadLayer
  | [C] =>
      let '(C', db') := batch_loop_db (flagged (l_map C)) will_erase C db in
      Ok ([after_write C' will_erase], db')
  | C :: P :: gs =>
      match batch_loop (flagged (l_map C)) will_erase C P with
      | Throw e => Throw e
      | Ok (C', P') => Ok (after_write C' will_erase :: P' :: gs, db)
      end
  end.

(* ------------------------------------------------------------------------------------------- *)
(* Operations on a stack                                                                        *)

Inductive op :=
| OpAdd (d : nat) (k : outpoint) (c : coin) (ow : bool)
| OpSpend (d : nat) (k : outpoint)
| OpGet (d : nat) (k : outpoint)
| OpHave (d : nat) (k : outpoint)
| OpAccess (d : nat) (k : outpoint)
| OpPeek (d : nat) (k : outpoint)
| OpUncache (d : nat) (k : outpoint)
| OpFlush (d : nat)
| OpSync (d : nat)
| OpReset (d : nat)
| OpPush (overlay : bool)
| OpPop.

(* what the caller observes *)
Inductive obs :=
| ObUnit
| ObCoin (c : option coin)                 (* GetCoin / PeekCoin / AccessCoin (empty coin = None) *)
| ObBool (b : bool)                        (* HaveCoin *)
| ObSpend (b : bool) (moved : option coin) (* SpendCoin return value and *moveout *).

Definition sres := result (list layer * dbmap * obs).

(* run f on the sub-stack that starts at depth d *)
Fixpoint at_depth (d : nat) (f : list layer -> dbmap -> sres) (ls : list layer) (db : dbmap) : sres :=
  match d with
  | O => f ls db
  | S d' =>
      match ls with
      | [] => Throw ErrBadLayer
      | L :: ps =>
          match at_depth d' f ps db with
          | Ok (ps', db', a) => Ok (L :: ps', db', a)
          | Throw e => Throw e
          end
      end
  end.

Definition top_add (k : outpoint) (c : coin) (ow : bool) (ls : list layer) (db : dbmap) : sres :=
  match ls with
  | [] => Throw ErrBadLayer
  | L :: ps => match add_coin L k c ow with
               | Ok L' => Ok (L' :: ps, db, ObUnit)
               | Throw e => Throw e
               end
  end.

Definition top_spend (k : outpoint) (ls : list layer) (db : dbmap) : sres :=
  match ls with
  | [] => Throw ErrBadLayer
  | L :: ps => let '(L', ps', (b, mv)) := spend_coin L ps db k in Ok (L' :: ps', db, ObSpend b mv)
  end.

Definition top_get (k : outpoint) (ls : list layer) (db : dbmap) : sres :=
  match ls with
  | [] => Throw ErrBadLayer
  | _ :: _ => let '(ls', r) := view_get ls db k in Ok (ls', db, ObCoin r)
  end.

(* bool CCoinsViewCache::HaveCoin(o) const { it = FetchCoin(o); return it != end && !it->second.coin.IsSpent(); } *)
Definition top_have (k : outpoint) (ls : list layer) (db : dbmap) : sres :=
  match ls with
  | [] => Throw ErrBadLayer
  | L :: ps => let '(L', ps', it) := fetch_coin L ps db k in
               Ok (L' :: ps', db, ObBool (match it with Some e => is_unspent e | None => false end))
  end.

(* const Coin& CCoinsViewCache::AccessCoin(o) const { it = FetchCoin(o); return it == end ? coinEmpty : it->second.coin; } *)
Definition top_access (k : outpoint) (ls : list layer) (db : dbmap) : sres :=
  match ls with
  | [] => Throw ErrBadLayer
  | L :: ps => let '(L', ps', it) := fetch_coin L ps db k in
               Ok (L' :: ps', db, ObCoin (match it with Some e => e_coin e | None => None end))
  end.

Definition top_peek (k : outpoint) (ls : list layer) (db : dbmap) : sres :=
  match ls with
  | [] => Throw ErrBadLayer
  | _ :: _ => Ok (ls, db, ObCoin (view_peek ls db k))
  end.

Definition top_uncache (k : outpoint) (ls : list layer) (db : dbmap) : sres :=
  match ls with
  | [] => Throw ErrBadLayer
  | L :: ps => Ok (uncache L k :: ps, db, ObUnit)
  end.

Definition top_flush (will_erase : bool) (ls : list layer) (db : dbmap) : sres :=
  match flush_top will_erase ls db with
  | Ok (ls', db') => Ok (ls', db', ObUnit)
  | Throw e => Throw e
  end.

Definition top_reset (ls : list layer) (db : dbmap) : sres :=
  match ls with
  | [] => Throw ErrBadLayer
  | L :: ps => Ok (reset_layer L :: ps, db, ObUnit)
  end.

Definition step (ls : list layer) (db : dbmap) (o : op) : sres :=
  match o with
  | OpAdd d k c ow => at_depth d (top_add k c ow) ls db
  | OpSpend d k => at_depth d (top_spend k) ls db
  | OpGet d k => at_depth d (top_get k) ls db
  | OpHave d k => at_depth d (top_have k) ls db
  | OpAccess d k => at_depth d (top_access k) ls db
  | OpPeek d k => at_depth d (top_peek k) ls db
  | OpUncache d k => at_depth d (top_uncache k) ls db
  | OpFlush d => at_depth d (top_flush true) ls db
  | OpSync d => at_depth d (top_flush false) ls db
  | OpReset d => at_depth d top_reset ls db
  | OpPush ov => Ok (empty_layer ov :: ls, db, ObUnit)
  | OpPop => match ls with
             | _ :: (_ :: _) as ps => Ok (ps, db, ObUnit)   (* destroying the top cache discards it *)
             | _ => Throw ErrBadLayer                      (* the driver keeps at least one cache *)
             end
  end.

(* a whole script: the observations up to the first throw, and the final state or the throw *)
Fixpoint run (ls : list layer) (db : dbmap) (ops : list op) : list obs * result (list layer * dbmap) :=
  match ops with
  | [] => ([], Ok (ls, db))
  | o :: r =>
      match step ls db o with
      | Throw e => ([], Throw e)
      | Ok (ls', db', ob) => let '(t, fin) := run ls' db' r in (ob :: t, fin)
      end
  end.

(* the specification run on a whole script: final views and expected observations, None as soon
   as an operation is outside the domain (SMisuse / SBadLayer) -- defined after spec_step below *)

(* what every view answers for the outpoints U: the top cache first, the database last *)
Fixpoint stack_views (U : list outpoint) (ls : list layer) (db : dbmap) : list (list (option coin)) :=
  map (fun k => view_peek ls db k) U ::
  match ls with
  | [] => []
  | _ :: ps => stack_views U ps db
  end.

(* what SanityCheck recomputes, for the dump: (size, dirty entries, sum of usages) *)
Definition layer_recount (L : layer) : Z * Z * Z :=
  (Z.of_nat (length (l_map L)), m_sum entry_dirtyz (l_map L), m_sum entry_usage (l_map L)).

(* ------------------------------------------------------------------------------------------- *)
(* The specification: one flat map per view                                                     *)

(* Spec state: a list of flat maps outpoint -> coin, one per cache (head = top) and a last one for
   the database; element i is "what view i answers".  This is the `simple map model` of the
   statement.  An operation that the real code treats as a caller error gives SMisuse:
     - AddCoin(possible_overwrite = false) while the view has an unspent coin there,
     - AddCoin / SpendCoin / Reset on a cache that is not the top of the stack (a cache must not be
       modified behind the back of the caches stacked on it),
   and SBadLayer when the depth does not name a cache. *)
Definition fmap := list (outpoint * coin).

Inductive sobs :=
| SUnit
| SCoin (c : option coin)
| SBool (b : bool)
| SSpend (c : option coin).   (* the coin that was spent; None = there was none (return value unconstrained) *)

Inductive spec_result := SOk (vs : list fmap) (o : sobs) | SMisuse | SBadLayer.

Definition obs_match (s : sobs) (o : obs) : bool :=
  match s, o with
  | SUnit, ObUnit => true
  | SCoin a, ObCoin b => ocoin_eqb a b
  | SBool a, ObBool b => Bool.eqb a b
  | SSpend (Some c), ObSpend b mv => b && ocoin_eqb (Some c) mv
  | SSpend None, ObSpend _ mv => ocoin_eqb None mv
  | _, _ => false
  end.

(* the view at depth d, provided it is a cache (not the database element at the end) *)
Fixpoint spec_view (d : nat) (vs : list fmap) : option fmap :=
  match vs with
  | v :: (_ :: _) as r => match d with O => Some v | S d' => spec_view d' r end
  | _ => None
  end.

(* Flush/Sync of cache d: its parent's view becomes its own view *)
Fixpoint spec_flush (d : nat) (vs : list fmap) : option (list fmap) :=
  match vs with
  | v :: ((p :: rest) as r) =>
      match d with
      | O => Some (v :: v :: rest)
      | S d' => match spec_flush d' r with Some r' => Some (v :: r') | None => None end
      end
  | _ => None
  end.

Definition spec_read (d : nat) (k : outpoint) (vs : list fmap) (mk : option coin -> sobs) : spec_result :=
  match spec_view d vs with
  | Some v => SOk vs (mk (m_get k v))
  | None => SBadLayer
  end.

Definition spec_step (vs : list fmap) (o : op) : spec_result :=
  match o with
  | OpAdd d k c ow =>
      match spec_view d vs with
      | None => SBadLayer
      | Some _ =>
          match d, vs with
          | O, v :: rest =>
              if c_unsp c then SOk vs SUnit
              else if negb ow && (match m_get k v with Some _ => true | None => false end) then SMisuse
              else SOk (m_set k c v :: rest) SUnit
          | _, _ => SMisuse
          end
      end
  | OpSpend d k =>
      match spec_view d vs with
      | None => SBadLayer
      | Some _ =>
          match d, vs with
          | O, v :: rest => SOk (m_del k v :: rest) (SSpend (m_get k v))
          | _, _ => SMisuse
          end
      end
  | OpGet d k => spec_read d k vs SCoin
  | OpHave d k => spec_read d k vs (fun c => SBool (match c with Some _ => true | None => false end))
  | OpAccess d k => spec_read d k vs SCoin
  | OpPeek d k => spec_read d k vs SCoin
  | OpUncache d k => match spec_view d vs with Some _ => SOk vs SUnit | None => SBadLayer end
  | OpFlush d | OpSync d => match spec_flush d vs with Some vs' => SOk vs' SUnit | None => SBadLayer end
  | OpReset d =>
      match spec_view d vs with
      | None => SBadLayer
      | Some _ =>
          match d, vs with
          | O, _ :: ((p :: _) as rest) => SOk (p :: rest) SUnit
          | _, _ => SMisuse
          end
      end
  | OpPush _ => match vs with v :: _ => SOk (v :: vs) SUnit | [] => SBadLayer end
  | OpPop => match vs with _ :: ((_ :: _ :: _) as rest) => SOk rest SUnit | _ => SBadLayer end
  end.

Fixpoint spec_run (vs : list fmap) (ops : list op) : option (list fmap * list sobs) :=
  match ops with
  | [] => Some (vs, [])
  | o :: r =>
      match spec_step vs o with
      | SOk vs' so => match spec_run vs' r with
                      | Some (vf, t) => Some (vf, so :: t)
                      | None => None
                      end
      | _ => None
      end
  end.

(* ------------------------------------------------------------------------------------------- *)
(* The executable predicate of C15, evaluated on what the IMPLEMENTATION printed                *)

(* After each operation the driver reports the observation and, for every view (each cache from the
   top down, then the database) and every outpoint of the universe U, the coin PeekCoin returns. *)
Fixpoint olist_eqb (a b : list (option coin)) : bool :=
  match a, b with
  | [], [] => true
  | x :: a', y :: b' => ocoin_eqb x y && olist_eqb a' b'
  | _, _ => false
  end.
Fixpoint views_eqb (a b : list (list (option coin))) : bool :=
  match a, b with
  | [], [] => true
  | x :: a', y :: b' => olist_eqb x y && views_eqb a' b'
  | _, _ => false
  end.
Definition spec_views (U : list outpoint) (vs : list fmap) : list (list (option coin)) :=
  map (fun v => map (fun k => m_get k v) U) vs.

Inductive verdict := VOk (vs : list fmap) | VFailObs | VFailViews | VNa.

Definition holds_step (U : list outpoint) (vs : list fmap) (o : op) (impl_ob : obs)
           (impl_views : list (list (option coin))) : verdict :=
  match spec_step vs o with
  | SOk vs' so =>
      if obs_match so impl_ob then
        if views_eqb (spec_views U vs') impl_views then VOk vs' else VFailViews
      else VFailObs
  | _ => VNa
  end.

(* accounting clause: per cache the driver reports (GetCacheSize, number of entries),
   (GetDirtyCount, recounted DIRTY entries), (cachedCoinsUsage, recomputed sum of DynamicMemoryUsage) *)
Definition holds_acct (reported recounted : Z * Z * Z) : bool :=
  let '(s1, d1, u1) := reported in
  let '(s2, d2, u2) := recounted in
  (s1 =? s2) && (d1 =? d2) && (u1 =? u2).

(* the flag combinations SanityCheck asserts for one entry:
     if (entry.coin.IsSpent()) assert(entry.IsDirty() && !entry.IsFresh());
     else assert(entry.IsDirty() || !entry.IsFresh()); *)
Definition entry_sane (e : entry) : bool :=
  if is_unspent e then e_dirty e || negb (e_fresh e) else e_dirty e && negb (e_fresh e).

(* the meaning of the flags, checked on a dumped entry against what the view BELOW its cache answers
   for the same outpoint: FRESH => the base has no unspent coin; not DIRTY => the entry equals the
   base view; plus SanityCheck's combinations *)
Definition entry_check (below : option coin) (e : entry) : bool :=
  entry_sane e &&
  (negb (e_fresh e) || match below with Some _ => false | None => true end) &&
  (e_dirty e || ocoin_eqb (e_coin e) below).

(* initial states *)
Definition init_layers (kinds : list bool) : list layer := map empty_layer kinds.
Definition init_spec (n : nat) (db : fmap) : list fmap := repeat db (S n).
