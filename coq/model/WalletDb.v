(* C43 (family walletdb): what a wallet records, how it writes it to its key-value database (one record per fact,
   some updates bracketed in a database transaction) and how LoadWallet rebuilds the state from the records.
   Executable transcription of
     src/wallet/wallet.cpp    SetAddressBookWithDB, DelAddressBook(WithDB), SetAddressPreviouslySpent,
                              SetAddressReceiveRequest, EraseAddressReceiveRequest, LockCoin, UnlockCoin, UnlockAllCoins,
                              AddToWallet (new transaction), RemoveTxs, SetWalletFlag, AddWalletDescriptor,
                              GetNewDestination / GetNewChangeDestination (fault free), LoadExisting
     src/wallet/walletdb.cpp  the record writers, RunWithinTxn, LoadWallet and its per-record-type loaders
     src/wallet/sqlite.cpp    TxnBegin / TxnCommit / TxnAbort (atomicity and durability of a committed SQLite
                              transaction are a premise: the database is a map that a commit replaces at once)
   No proofs here.  Maps are functions (key -> option value) so that "the reloaded wallet answers every getter like
   the running one" is a pointwise statement. *)
From Coq Require Import ZArith List Bool Lia.
From BV Require Import lib.Ints.
Import ListNotations.
Open Scope Z_scope.

Inductive addr := AMine (s : nat) (i : Z) | AFor (k : Z).
Definition addr_eqb (a b : addr) : bool :=
  match a, b with
  | AMine s i, AMine s' i' => Nat.eqb s s' && (i =? i')
  | AFor k, AFor k' => k =? k'
  | _, _ => false
  end.

Inductive purpose := PRecv | PSend.

(* database keys (DBKeys::...) and values *)
Inductive key :=
| KDesc (s : nat)            (* walletdescriptor of the active descriptor in slot s *)
| KName (a : addr)           (* name *)
| KPurpose (a : addr)        (* purpose *)
| KUsed (a : addr)           (* destdata <a> "used" *)
| KRr (a : addr) (id : Z)    (* destdata <a> "rr<id>" *)
| KLock (n : Z)              (* lockedutxo *)
| KTx (k : Z)                (* tx *)
| KTxVar (k : Z)             (* wtxvariant <txid> <wtxid> *)
| KOrderPos                  (* orderposnext *)
| KFlags                     (* flags *)
| KImpKey (k : Z)            (* walletdescriptorkey of an imported descriptor *)
| KImpCache (k : Z)          (* walletdescriptorcache of an imported descriptor *)
| KImpDesc (k : Z).          (* walletdescriptor of an imported descriptor *)

Definition key_eqb (x y : key) : bool :=
  match x, y with
  | KDesc s, KDesc s' => Nat.eqb s s'
  | KName a, KName b | KPurpose a, KPurpose b | KUsed a, KUsed b => addr_eqb a b
  | KRr a i, KRr b j => addr_eqb a b && (i =? j)
  | KLock n, KLock m | KTx n, KTx m | KTxVar n, KTxVar m
  | KImpKey n, KImpKey m | KImpCache n, KImpCache m | KImpDesc n, KImpDesc m => n =? m
  | KOrderPos, KOrderPos | KFlags, KFlags => true
  | _, _ => false
  end.

Inductive value :=
| VDesc (next rend : Z)
| VZ (z : Z)
| VPurpose (p : purpose)
| VUnit
| VTx (pos : Z).

Definition db := key -> option value.
Definition db_set (d : db) (k : key) (v : option value) : db := fun k' => if key_eqb k' k then v else d k'.

(* one mutating call on a WalletBatch *)
Inductive call :=
| CBegin | CCommit | CAbort
| CWrite (k : key) (v : value)
| CErase (k : key)
| CErasePrefixDest (a : addr)    (* EraseAddressData: every destdata record of the address *)
| CErasePrefixTxVar (k : Z).     (* EraseTx: every witness variant of the transaction *)

(* the database connection: committed contents, and the working copy of an open transaction *)
Record dbst := mkDb { committed : db; pending : option db }.

Definition db_apply (d : db) (c : call) : db :=
  match c with
  | CWrite k v => db_set d k (Some v)
  | CErase k => db_set d k None
  | CErasePrefixDest a =>
    fun k' => match k' with
              | KUsed b | KRr b _ => if addr_eqb b a then None else d k'
              | _ => d k'
              end
  | CErasePrefixTxVar k => db_set d (KTxVar k) None
  | _ => d
  end.

Definition apply_call (s : dbst) (c : call) : dbst :=
  match c with
  | CBegin => mkDb (committed s) (Some (committed s))
  | CCommit => match pending s with Some p => mkDb p None | None => s end
  | CAbort => mkDb (committed s) None
  | _ => match pending s with
         | Some p => mkDb (committed s) (Some (db_apply p c))
         | None => mkDb (db_apply (committed s) c) None
         end
  end.
Definition apply_calls (s : dbst) (cs : list call) : dbst := fold_left apply_call cs s.

(* what a killed process leaves behind: the committed contents *)
Definition crash (s : dbst) : db := committed s.

(* ---------------------------------------------------------------------------------------------- *)
(* the running wallet *)
Record mem := mkMem {
  m_desc : nat -> Z * Z;              (* per active descriptor: next_index, range_end *)
  m_imp : Z -> option bool;           (* imported descriptor k present; bool = its private key is there *)
  m_label : addr -> option Z;         (* CAddressBookData::label (0 = the empty string) *)
  m_purpose : addr -> option purpose;
  m_used : addr -> bool;              (* previously_spent *)
  m_rr : addr -> Z -> option Z;       (* receive_requests *)
  m_locks : Z -> option bool;         (* m_locked_coins: outpoint -> persistent *)
  m_lk : list Z;                      (* a superset of the keys of m_locked_coins (to enumerate it) *)
  m_tx : Z -> option Z;               (* mapWallet: transaction -> nOrderPos *)
  m_opn : Z;                          (* nOrderPosNext *)
  m_flag : bool                       (* WALLET_FLAG_AVOID_REUSE *)
}.

Definition fset {B} (f : addr -> B) (a : addr) (v : B) : addr -> B := fun a' => if addr_eqb a' a then v else f a'.
Definition zset {B} (f : Z -> B) (k : Z) (v : B) : Z -> B := fun k' => if k' =? k then v else f k'.
Definition nset {B} (f : nat -> B) (k : nat) (v : B) : nat -> B := fun k' => if Nat.eqb k' k then v else f k'.

(* IsMine(address): the script of index i of descriptor s is in the wallet's script map iff i < range_end *)
Definition is_mine (m : mem) (a : addr) : bool :=
  match a with AMine s i => (0 <=? i) && (i <? snd (m_desc m s)) | AFor _ => false end.

Inductive op :=
| ONew (s : nat)                       (* GetNewDestination: slot s < 4 (address book entry), GetNewChangeDestination: slot >= 4 *)
| OLabel (a : addr) (name : Z) (p : option purpose)
| ODel (a : addr)
| OSpent (a : addr) (u : bool)
| ORr (a : addr) (id v : Z)
| ORrDel (a : addr) (id : Z)
| OLock (n : Z) (persist : bool)
| OUnlock (n : Z)
| OUnlockAll
| OTx (k : Z)
| ORmTx (ks : list Z)
| OTop (s : nat) (n : Z)
| OFlag
| OImport (k : Z)
| OReload | OCrash.

(* TopUp of one descriptor (fault free): range_end := max(next + target, range_end), written inside a transaction *)
Definition topup_calls (kp : Z) (s : nat) (d : Z * Z) (n : Z) : (Z * Z) * list call :=
  let target := if 0 <? n then n else kp in
  let r := Z.max (fst d + target) (snd d) in
  ((fst d, r), [CBegin; CWrite (KDesc s) (VDesc (fst d) r); CCommit]).

(* bool CWallet::LockCoin(const COutPoint& output, bool persist)
   {
       auto [it, inserted] = m_locked_coins.emplace(output, persist);   // does not overwrite an existing entry
       // A coin that is already locked in memory only becomes persistently locked, so that
       // UnlockCoin() also erases the database record written below.
       if (!inserted && persist) it->second = true;
       if (persist) { WalletBatch batch(GetDatabase()); return batch.WriteLockedUTXO(output); }
       return true;
   }
   `upgrade` = true is this code.  `upgrade` = false is the code before /repo a3617e9 (LoadLockedCoin(output, persist):
   a bare emplace, so a persistent request on a coin locked in memory only wrote the record but left the in-memory flag
   false), kept so that the theorem showing why the upgrade is needed stays stated about a transcription. *)
Definition lock_mem (upgrade : bool) (f : Z -> option bool) (n : Z) (persist : bool) : Z -> option bool :=
  match f n with
  | None => zset f n (Some persist)
  | Some p => if upgrade && persist && negb p then zset f n (Some true) else f
  end.
Definition lk_add (n : Z) (l : list Z) : list Z := if existsb (Z.eqb n) l then l else n :: l.

(* UnlockAllCoins: for (const auto& [coin, persistent] : m_locked_coins) if (persistent) EraseLockedUTXO(coin); clear() *)
Definition unlock_all_calls (f : Z -> option bool) (lk : list Z) : list call :=
  flat_map (fun n => match f n with Some true => [CErase (KLock n)] | _ => [] end) lk.

(* RemoveTxs(batch, txs): for each id in order: unknown -> error (the caller aborts the transaction), else EraseTx.
   Result: the calls made, and whether every id was known. *)
Fixpoint rm_calls (m : mem) (ks : list Z) : list call * bool :=
  match ks with
  | [] => ([], true)
  | k :: r =>
    match m_tx m k with
    | None => ([], false)                           (* "Transaction %s does not belong to this wallet" *)
    | Some _ => let '(cs, ok) := rm_calls m r in (CErase (KTx k) :: CErasePrefixTxVar k :: cs, ok)
    end
  end.
Fixpoint tx_remove (f : Z -> option Z) (ks : list Z) : Z -> option Z :=
  match ks with [] => f | k :: r => tx_remove (zset f k None) r end.

(* the calls an operation makes, in order, and its effect on the memory; `res` = the boolean the call returns *)
Definition op_effect (upgrade : bool) (kp : Z) (m : mem) (o : op) : mem * list call * bool :=
  match o with
  | ONew s =>
    let '(d1, cs) := topup_calls kp s (m_desc m s) 0 in
    let d2 := (fst d1 + 1, snd d1) in
    let a := AMine s (fst d1) in
    let w := CWrite (KDesc s) (VDesc (fst d2) (snd d2)) in
    if Nat.ltb s 4
    then (mkMem (nset (m_desc m) s d2) (m_imp m) (fset (m_label m) a (Some 0)) (fset (m_purpose m) a (Some PRecv))
                (m_used m) (m_rr m) (m_locks m) (m_lk m) (m_tx m) (m_opn m) (m_flag m),
          cs ++ [w; CWrite (KPurpose a) (VPurpose PRecv); CWrite (KName a) (VZ 0)], true)
    else (mkMem (nset (m_desc m) s d2) (m_imp m) (m_label m) (m_purpose m) (m_used m) (m_rr m) (m_locks m) (m_lk m) (m_tx m) (m_opn m) (m_flag m),
          cs ++ [w], true)
  | OLabel a name p =>
    (mkMem (m_desc m) (m_imp m) (fset (m_label m) a (Some name))
           (match p with Some _ => fset (m_purpose m) a p | None => m_purpose m end)
           (m_used m) (m_rr m) (m_locks m) (m_lk m) (m_tx m) (m_opn m) (m_flag m),
     (match p with Some q => [CWrite (KPurpose a) (VPurpose q)] | None => [] end) ++ [CWrite (KName a) (VZ name)], true)
  | ODel a =>
    if is_mine m a then (m, [CBegin; CAbort], false)
    else (mkMem (m_desc m) (m_imp m) (fset (m_label m) a None) (fset (m_purpose m) a None) (fset (m_used m) a false)
                (fset (m_rr m) a (fun _ => None)) (m_locks m) (m_lk m) (m_tx m) (m_opn m) (m_flag m),
          [CBegin; CErasePrefixDest a; CErase (KPurpose a); CErase (KName a); CCommit], true)
  | OSpent a u =>
    (mkMem (m_desc m) (m_imp m) (m_label m) (m_purpose m) (fset (m_used m) a u) (m_rr m) (m_locks m) (m_lk m) (m_tx m) (m_opn m) (m_flag m),
     [if u then CWrite (KUsed a) VUnit else CErase (KUsed a)], true)
  | ORr a id v =>
    (mkMem (m_desc m) (m_imp m) (m_label m) (m_purpose m) (m_used m) (fset (m_rr m) a (zset (m_rr m a) id (Some v)))
           (m_locks m) (m_lk m) (m_tx m) (m_opn m) (m_flag m),
     [CWrite (KRr a id) (VZ v)], true)
  | ORrDel a id =>
    (mkMem (m_desc m) (m_imp m) (m_label m) (m_purpose m) (m_used m) (fset (m_rr m) a (zset (m_rr m a) id None))
           (m_locks m) (m_lk m) (m_tx m) (m_opn m) (m_flag m),
     [CErase (KRr a id)], true)
  | OLock n persist =>
    (mkMem (m_desc m) (m_imp m) (m_label m) (m_purpose m) (m_used m) (m_rr m) (lock_mem upgrade (m_locks m) n persist)
           (lk_add n (m_lk m)) (m_tx m) (m_opn m) (m_flag m),
     if persist then [CWrite (KLock n) VUnit] else [], true)
  | OUnlock n =>
    (* auto it = m_locked_coins.find(output); if found { persisted = it->second; erase; if (persisted) EraseLockedUTXO } *)
    (mkMem (m_desc m) (m_imp m) (m_label m) (m_purpose m) (m_used m) (m_rr m) (zset (m_locks m) n None) (m_lk m) (m_tx m) (m_opn m) (m_flag m),
     match m_locks m n with Some true => [CErase (KLock n)] | _ => [] end, true)
  | OUnlockAll =>
    (mkMem (m_desc m) (m_imp m) (m_label m) (m_purpose m) (m_used m) (m_rr m) (fun _ => None) (m_lk m) (m_tx m) (m_opn m) (m_flag m),
     unlock_all_calls (m_locks m) (m_lk m), true)
  | OTx k =>
    match m_tx m k with
    | Some _ => (m, [], true)                         (* already in mapWallet, nothing new: no write *)
    | None =>
      (* nOrderPos = IncOrderPosNext(&batch): writes orderposnext; WriteTx: the witness variant, then the tx record *)
      (mkMem (m_desc m) (m_imp m) (m_label m) (m_purpose m) (m_used m) (m_rr m) (m_locks m) (m_lk m) (zset (m_tx m) k (Some (m_opn m)))
             (m_opn m + 1) (m_flag m),
       [CWrite KOrderPos (VZ (m_opn m + 1)); CWrite (KTxVar k) VUnit; CWrite (KTx k) (VTx (m_opn m))], true)
    end
  | ORmTx ks =>
    let '(cs, ok) := rm_calls m ks in
    if ok
    then (mkMem (m_desc m) (m_imp m) (m_label m) (m_purpose m) (m_used m) (m_rr m) (m_locks m) (m_lk m) (tx_remove (m_tx m) ks) (m_opn m) (m_flag m),
          CBegin :: cs ++ [CCommit], true)
    else (m, CBegin :: cs ++ [CAbort], false)         (* the erases made before the unknown id are rolled back *)
  | OTop s n =>
    let '(d1, cs) := topup_calls kp s (m_desc m s) n in
    (mkMem (nset (m_desc m) s d1) (m_imp m) (m_label m) (m_purpose m) (m_used m) (m_rr m) (m_locks m) (m_lk m) (m_tx m) (m_opn m) (m_flag m), cs, true)
  | OFlag =>
    (mkMem (m_desc m) (m_imp m) (m_label m) (m_purpose m) (m_used m) (m_rr m) (m_locks m) (m_lk m) (m_tx m) (m_opn m) true,
     [CWrite KFlags VUnit], true)
  | OImport k =>
    (* CreateFromImport: key record(s), then the cache items, then WriteDescriptor (twice): the descriptor record last *)
    (mkMem (m_desc m) (zset (m_imp m) k (Some true)) (m_label m) (m_purpose m) (m_used m) (m_rr m) (m_locks m) (m_lk m) (m_tx m) (m_opn m) (m_flag m),
     [CWrite (KImpKey k) VUnit; CWrite (KImpCache k) VUnit; CWrite (KImpDesc k) VUnit; CWrite (KImpDesc k) VUnit], true)
  | OReload | OCrash => (m, [], true)
  end.

(* ---------------------------------------------------------------------------------------------- *)
(* LoadWallet: rebuild the memory from the records; None = the wallet does not load (DBErrors::CORRUPT):
   a descriptor record whose cache record is missing ("Unable to expand wallet descriptor from cache") *)
Definition load_ok_at (d : db) (k : Z) : bool :=
  match d (KImpDesc k) with Some _ => match d (KImpCache k) with Some _ => true | None => false end | None => true end.

Definition load_mem (d : db) (locks_keys : list Z) : mem :=
  mkMem (fun s => match d (KDesc s) with Some (VDesc n r) => (n, r) | _ => (0, 0) end)
        (fun k => match d (KImpDesc k) with Some _ => Some (match d (KImpKey k) with Some _ => true | None => false end) | None => None end)
        (fun a => match d (KName a) with Some (VZ z) => Some z | _ => None end)
        (fun a => match d (KPurpose a) with Some (VPurpose p) => Some p | _ => None end)
        (fun a => match d (KUsed a) with Some _ => true | None => false end)
        (fun a id => match d (KRr a id) with Some (VZ z) => Some z | _ => None end)
        (fun n => match d (KLock n) with Some _ => Some true | None => None end)
        locks_keys
        (fun k => match d (KTx k) with Some (VTx p) => Some p | _ => None end)
        (match d KOrderPos with Some (VZ z) => z | _ => 0 end)
        (match d KFlags with Some _ => true | None => false end).

(* LoadExisting then tops the eight active descriptors up (one transaction each, fault free) *)
Fixpoint load_topup (kp : Z) (n : nat) (m : mem) (s : dbst) : mem * dbst :=
  match n with
  | O => (m, s)
  | S n' =>
    let '(m1, s1) := load_topup kp n' m s in
    let '(d1, cs) := topup_calls kp n' (m_desc m1 n') 0 in
    (mkMem (nset (m_desc m1) n' d1) (m_imp m1) (m_label m1) (m_purpose m1) (m_used m1) (m_rr m1) (m_locks m1) (m_lk m1) (m_tx m1) (m_opn m1) (m_flag m1),
     apply_calls s1 cs)
  end.

(* the whole state: memory, database connection, keypool size *)
Record wst := mkW { w_mem : mem; w_db : dbst; w_kp : Z }.

Definition reopen (st : wst) : wst :=
  let d := crash (w_db st) in
  let '(m1, s1) := load_topup (w_kp st) 8 (load_mem d (m_lk (w_mem st))) (mkDb d None) in
  mkW m1 s1 (w_kp st).

Definition step (upgrade : bool) (st : wst) (o : op) : wst * bool :=
  match o with
  | OReload | OCrash => (reopen st, true)
  | _ =>
    let '(m1, cs, r) := op_effect upgrade (w_kp st) (w_mem st) o in
    (mkW m1 (apply_calls (w_db st) cs) (w_kp st), r)
  end.

Fixpoint run (upgrade : bool) (st : wst) (ops : list op) : list bool * wst :=
  match ops with
  | [] => ([], st)
  | o :: r => let '(st1, x) := step upgrade st o in let '(xs, st2) := run upgrade st1 r in (x :: xs, st2)
  end.

(* the state of the wallet when the process is killed just before the j-th database call of operation o *)
Definition crash_in (upgrade : bool) (st : wst) (o : op) (j : nat) : db :=
  let '(_, cs, _) := op_effect upgrade (w_kp st) (w_mem st) o in
  crash (apply_calls (w_db st) (firstn j cs)).

(* a freshly created wallet *)
Definition init_db (kp : Z) : db :=
  fun k => match k with KDesc _ => Some (VDesc 0 kp) | _ => None end.
Definition init (kp : Z) : wst :=
  mkW (mkMem (fun _ => (0, kp)) (fun _ => None) (fun _ => None) (fun _ => None) (fun _ => false) (fun _ _ => None) (fun _ => None) [] (fun _ => None) 0 false)
      (mkDb (init_db kp) None) kp.

(* this tree's CWallet::LockCoin *)
Definition code_lock_upgrade : bool := true.
