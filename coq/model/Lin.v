(* Cluster linearization: chunking, diagrams and the validators used to check the outputs of the
   real Linearize / PostLinearize (translation validation).  Transcribed from
     src/cluster_linearize.h   ChunkLinearization, ChunkLinearizationInfo
   plus declarative definitions (topological validity, connectedness) and executable validators
   whose soundness is proved in proofs/LinLemmas.v.
   A cluster is given as: n transactions 0..n-1, fr : list FF (FeeRate(i) = nth i fr), and the
   direct dependencies deps : list (parent, child). *)
From Coq Require Import QArith.
From BV Require Import lib.Ints model.Fee.
Local Open Scope Z_scope.

(* ------------------------------------------------------------------------------------------- *)
(* template<typename SetType>
   std::vector<FeeFrac> ChunkLinearization(const DepGraph<SetType>& depgraph, std::span<const DepGraphIndex> linearization) noexcept
   {
       std::vector<FeeFrac> ret;
       for (DepGraphIndex i : linearization) {
           auto new_chunk = depgraph.FeeRate(i);
           // As long as the new chunk has a higher feerate than the last chunk so far, absorb it.
           while (!ret.empty() && ByRatio{new_chunk} > ByRatio{ret.back()}) {
               new_chunk += ret.back();
               ret.pop_back();
           }
           ret.push_back(std::move(new_chunk));
       }
       return ret;
   }
   `ret` is kept with back() at the head of the list. *)
Fixpoint absorb (new_chunk : FF) (ret : list FF) : list FF :=
  match ret with
  | [] => [new_chunk]
  | back :: rest =>
      if byratio_gt new_chunk back then absorb (ff_add new_chunk back) rest
      else new_chunk :: ret
  end.

(* the argument is the list of depgraph.FeeRate(i) for i in linearization *)
Definition chunking (l : list FF) : list FF :=
  rev (fold_left (fun ret x => absorb x ret) l []).

(* ChunkLinearizationInfo: the same loop on SetInfo = (transactions, feerate);
     new_chunk |= ret.back()  :  transactions |= other.transactions; feerate += other.feerate
   The transaction set of a chunk is kept as the list of its members in linearization order
   (generic in the member type so that the proofs can also carry the members' feerates). *)
Fixpoint absorb_info {A : Type} (new_chunk : list A * FF) (ret : list (list A * FF)) : list (list A * FF) :=
  match ret with
  | [] => [new_chunk]
  | back :: rest =>
      if byratio_gt (snd new_chunk) (snd back)
      then absorb_info (fst back ++ fst new_chunk, ff_add (snd new_chunk) (snd back)) rest
      else new_chunk :: ret
  end.

Definition chunking_info {A : Type} (feeof : A -> FF) (l : list A) : list (list A * FF) :=
  rev (fold_left (fun ret x => absorb_info ([x], feeof x) ret) l []).

(* FeeRate(i) for every i of a linearization; None if an index is out of range *)
Fixpoint lin_feerates (fr : list FF) (lin : list nat) : option (list FF) :=
  match lin with
  | [] => Some []
  | i :: r =>
      match nth_error fr i, lin_feerates fr r with
      | Some f, Some l => Some (f :: l)
      | _, _ => None
      end
  end.

(* ------------------------------------------------------------------------------------------- *)
(* Declarative notions *)

(* p occurs strictly before c in lin *)
Definition before (p c : nat) (lin : list nat) : Prop :=
  exists l1 l2 l3, lin = l1 ++ p :: l2 ++ c :: l3.

(* lin is a linearization of the cluster: every transaction exactly once, parents before children *)
Definition topo_valid (n : nat) (deps : list (nat * nat)) (lin : list nat) : Prop :=
  NoDup lin /\ (forall i, In i lin <-> (i < n)%nat) /\
  (forall p c, In (p, c) deps -> before p c lin).

(* a and b are linked by dependencies (in either direction) through members of M only *)
Inductive linked (deps : list (nat * nat)) (M : list nat) : nat -> nat -> Prop :=
| linked_refl a : In a M -> linked deps M a a
| linked_step a b c : linked deps M a b -> In c M -> (In (b, c) deps \/ In (c, b) deps) -> linked deps M a c.
Definition connected (deps : list (nat * nat)) (M : list nat) : Prop :=
  forall a b, In a M -> In b M -> linked deps M a b.

(* sums of a group of feerates, without wrap (specification level) *)
Definition fsum (g : list FF) : FF := fold_right (fun c a => (fst c + fst a, snd c + snd a)) (0, 0) g.

(* ------------------------------------------------------------------------------------------- *)
(* Executable validators *)
Definition memn (x : nat) (l : list nat) : bool := existsb (Nat.eqb x) l.

(* all direct parents of x have been placed *)
Definition ready (deps : list (nat * nat)) (placed : list nat) (x : nat) : bool :=
  forallb (fun d => negb (Nat.eqb (snd d) x) || memn (fst d) placed) deps.

Fixpoint topo_walk (deps : list (nat * nat)) (seen : list nat) (lin : list nat) : bool :=
  match lin with
  | [] => true
  | x :: r => negb (memn x seen) && ready deps seen x && topo_walk deps (x :: seen) r
  end.

Definition is_topological (n : nat) (deps : list (nat * nat)) (lin : list nat) : bool :=
  Nat.eqb (length lin) n && forallb (fun i => Nat.ltb i n) lin &&
  forallb (fun d => Nat.ltb (fst d) n && Nat.ltb (snd d) n) deps && topo_walk deps [] lin.

(* range condition under which no FeeFrac sum can overflow and C30's CompareChunks theorem applies:
   positive sizes, sum of |fee| < 2^62, sum of sizes <= INT32_MAX *)
Definition abs_fee_sum (l : list FF) : Z := fold_right (fun c a => Z.abs (fst c) + a) 0 l.
Definition size_sum (l : list FF) : Z := fold_right (fun c a => snd c + a) 0 l.
Definition feerates_in_range (l : list FF) : bool :=
  forallb (fun c => 0 <? snd c) l && (abs_fee_sum l <? 4611686018427387904) && (size_sum l <=? INT32_MAX).

(* new's diagram is nowhere below old's (CompareChunks(new, old) is equivalent or greater) *)
Definition diagram_not_worse (new_chunks old_chunks : list FF) : bool :=
  match compare_chunks new_chunks old_chunks with
  | Some PEquiv | Some PGreater => true
  | _ => false
  end.

(* linearization `new` is not worse than linearization `old` of the same cluster *)
Definition lin_not_worse (fr : list FF) (old new : list nat) : bool :=
  match lin_feerates fr old, lin_feerates fr new with
  | Some lo, Some ln => feerates_in_range lo && feerates_in_range ln && diagram_not_worse (chunking ln) (chunking lo)
  | _, _ => false
  end.

(* The check applied to every output of Linearize / PostLinearize: `new` is a linearization of the
   cluster, and if `old` was one then new's diagram is at least as good everywhere. *)
Definition valid_and_not_worse (n : nat) (fr : list FF) (deps : list (nat * nat)) (old new : list nat) : bool :=
  Nat.eqb (length fr) n && is_topological n deps new &&
  (if is_topological n deps old then lin_not_worse fr old new else true).

(* chunk feerates are non-increasing: no chunk has a strictly higher feerate than its predecessor *)
Fixpoint feerates_nonincreasing (l : list FF) : bool :=
  match l with
  | a :: ((b :: _) as r) => negb (byratio_gt b a) && feerates_nonincreasing r
  | _ => true
  end.

(* connectivity of a chunk: grow the set reached from the first member through dependencies whose
   both ends are members, |S| rounds *)
Definition neighbours (deps : list (nat * nat)) (M reached : list nat) : list nat :=
  filter (fun x => negb (memn x reached) &&
                   existsb (fun d => (Nat.eqb (fst d) x && memn (snd d) reached) || (Nat.eqb (snd d) x && memn (fst d) reached)) deps) M.
Fixpoint grow (fuel : nat) (deps : list (nat * nat)) (M reached : list nat) : list nat :=
  match fuel with
  | O => reached
  | S k => match neighbours deps M reached with
           | [] => reached
           | x :: _ => grow k deps M (x :: reached)
           end
  end.
Definition is_connected (deps : list (nat * nat)) (M : list nat) : bool :=
  match M with
  | [] => true
  | a :: _ => forallb (fun x => memn x (grow (length M) deps M [a])) M
  end.

(* every chunk of the linearization (as ChunkLinearizationInfo computes them) is connected *)
Definition chunks_connected (fr : list FF) (deps : list (nat * nat)) (lin : list nat) : bool :=
  forallb (fun c => is_connected deps (fst c))
          (chunking_info (fun i => nth i fr (0, 0)) lin).

(* exhaustive comparison for small clusters: every topological order, by extending a placed
   prefix with any ready remaining transaction *)
Fixpoint remove_nat (x : nat) (l : list nat) : list nat :=
  match l with [] => [] | y :: r => if Nat.eqb x y then remove_nat x r else y :: remove_nat x r end.

Fixpoint topo_orders (fuel : nat) (deps : list (nat * nat)) (placed remaining : list nat) : list (list nat) :=
  match remaining with
  | [] => [[]]
  | _ =>
    match fuel with
    | O => []
    | S k =>
        flat_map (fun x => if ready deps placed x
                           then map (cons x) (topo_orders k deps (x :: placed) (remove_nat x remaining))
                           else []) remaining
    end
  end.

Definition all_topo_orders (n : nat) (deps : list (nat * nat)) : list (list nat) :=
  topo_orders n deps [] (seq 0 n).

(* lin's diagram is at least as good as that of every linearization of the cluster *)
Definition dominates_all_topo (n : nat) (fr : list FF) (deps : list (nat * nat)) (lin : list nat) : bool :=
  forallb (fun t => lin_not_worse fr t lin) (all_topo_orders n deps).
