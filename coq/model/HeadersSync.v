(* Headers pre-synchronisation with an unproven peer.  Transcribed from
     src/headerssync.h     CompressedHeader, HeadersSyncState
     src/headerssync.cpp   HeadersSyncState::{HeadersSyncState, Finalize, ProcessNextHeaders,
                           ValidateAndStoreHeadersCommitments, ValidateAndProcessSingleHeader,
                           ValidateAndStoreRedownloadedHeader, PopHeadersReadyForAcceptance}
     src/chain.cpp         GetBlockProof
   Executable definitions only (proofs are in proofs/HeadersSync*.v).

   A header is (hash, hashPrevBlock, nBits, commitment bit): the hash is part of the data (the
   correspondence driver builds real headers and translates hashes), the commitment bit
   m_hasher(hash) & 1 is a field because the salt is private to the object (the driver grinds the
   nonce until the real salted bit has this value).  PermittedDifficultyTransition and
   GetBlockProof are parameters of the section: the theorems hold for any such functions; the
   extracted instance uses the pow family's model with the main chain parameters. *)
From BV Require Import lib.Ints lib.ChainParams gen.Params_gen model.Pow.
Local Open Scope Z_scope.

Record hdr := mkHdr { h_id : Z; h_prev : Z; h_bits : Z; h_cbit : bool }.

(* HeadersSyncParams + the constructor arguments that stay fixed + m_commit_offset, m_max_commitments *)
Record hs_params := mkHsParams {
  p_period : Z;              (* m_params.commitment_period, > 0 *)
  p_offset : Z;              (* m_commit_offset, in [0, period) *)
  p_buffer : Z;              (* m_params.redownload_buffer_size *)
  p_max_commitments : Z;     (* m_max_commitments *)
  p_min_work : Z;            (* m_minimum_required_work *)
  p_start_hash : Z;          (* m_chain_start.GetBlockHash() *)
  p_start_bits : Z;          (* m_chain_start.nBits *)
  p_start_height : Z;        (* m_chain_start.nHeight *)
  p_start_work : Z           (* m_chain_start.nChainWork *)
}.

(* m_max_commitments = 6 * max_seconds_since_start / m_params.commitment_period  (int64 / size_t: unsigned division) *)
Definition max_commitments_of (max_seconds_since_start period : Z) : Z :=
  wrapu64 (6 * max_seconds_since_start) / period.

Inductive sync_state := PRESYNC | REDOWNLOAD | FINAL.

Record hss := mkHss {
  s_state : sync_state;          (* m_download_state *)
  s_work : Z;                    (* m_current_chain_work *)
  s_commitments : list bool;     (* m_header_commitments (bitdeque) *)
  s_last_hash : Z;               (* m_last_header_received.GetHash() *)
  s_last_bits : Z;               (* m_last_header_received.nBits *)
  s_height : Z;                  (* m_current_height *)
  s_buf : list hdr;              (* m_redownloaded_headers; CompressedHeader has no prevhash: h_prev is
                                    kept only to model GetFullHeader(prev).GetHash(), see [release] *)
  s_rlast_height : Z;            (* m_redownload_buffer_last_height *)
  s_rlast_hash : Z;              (* m_redownload_buffer_last_hash *)
  s_rfirst_prev : Z;             (* m_redownload_buffer_first_prev_hash *)
  s_rwork : Z;                   (* m_redownload_chain_work *)
  s_all : bool                   (* m_process_all_remaining_headers *)
}.

(* struct ProcessingResult { std::vector<CBlockHeader> pow_validated_headers; bool success; bool request_more; } *)
Record result := mkResult { r_headers : list hdr; r_success : bool; r_request_more : bool }.

(* arith_uint256 GetBlockProof(const CBlockHeader& header)
   {
       bnTarget.SetCompact(header.nBits, &fNegative, &fOverflow);
       if (fNegative || fOverflow || bnTarget == 0) return 0;
       return (~bnTarget / (bnTarget + 1)) + 1;
   } *)
Definition block_proof (bits : Z) : Z :=
  let d := set_compact bits in
  if cd_negative d || cd_overflow d || (cd_value d =? 0) then 0
  else wrap256 ((2 ^ 256 - 1 - cd_value d) / (cd_value d + 1) + 1).

Section HeadersSync.
  Variable permitted : Z -> Z -> Z -> bool.   (* PermittedDifficultyTransition(m_consensus_params, height, old_nbits, new_nbits) *)
  Variable proof_of : Z -> Z.                 (* GetBlockProof of a header with these nBits *)
  Variable p : hs_params.

  (* the constructor *)
  Definition hs_init : hss :=
    mkHss PRESYNC (p_start_work p) [] (p_start_hash p) (p_start_bits p) (p_start_height p) [] 0 0 0 0 false.

  (* void HeadersSyncState::Finalize(): everything cleared, state FINAL *)
  Definition finalize (s : hss) : hss :=
    mkHss FINAL (s_work s) [] 0 0 0 [] (s_rlast_height s) 0 0 (s_rwork s) false.

  (* next_height % m_params.commitment_period == m_commit_offset *)
  Definition is_commitment_height (height : Z) : bool := cmod height (p_period p) =? p_offset p.

  (* bool HeadersSyncState::ValidateAndProcessSingleHeader(const CBlockHeader& current)
     {
         if (m_download_state != State::PRESYNC) return false;
         int next_height = m_current_height + 1;
         if (!PermittedDifficultyTransition(m_consensus_params, next_height, m_last_header_received.nBits, current.nBits)) return false;
         if (next_height % m_params.commitment_period == m_commit_offset) {
             m_header_commitments.push_back(m_hasher(current.GetHash()) & 1);
             if (m_header_commitments.size() > m_max_commitments) return false;
         }
         m_current_chain_work += GetBlockProof(current);
         m_last_header_received = current;
         m_current_height = next_height;
         return true;
     }
     returns (ok, state) *)
  Definition process_single (s : hss) (current : hdr) : bool * hss :=
    match s_state s with
    | PRESYNC =>
      let next_height := wrap32 (s_height s + 1) in
      if negb (permitted next_height (s_last_bits s) (h_bits current)) then (false, s)
      else
        let commitments :=
          if is_commitment_height next_height then s_commitments s ++ [h_cbit current] else s_commitments s in
        let s1 := mkHss (s_state s) (s_work s) commitments (s_last_hash s) (s_last_bits s) (s_height s) (s_buf s)
                        (s_rlast_height s) (s_rlast_hash s) (s_rfirst_prev s) (s_rwork s) (s_all s) in
        if is_commitment_height next_height && (p_max_commitments p <? Z.of_nat (length commitments)) then (false, s1)
        else (true, mkHss (s_state s) (wrap256 (s_work s + proof_of (h_bits current))) commitments
                          (h_id current) (h_bits current) next_height (s_buf s)
                          (s_rlast_height s) (s_rlast_hash s) (s_rfirst_prev s) (s_rwork s) (s_all s))
    | _ => (false, s)
    end.

  Fixpoint process_all_single (s : hss) (headers : list hdr) : bool * hss :=
    match headers with
    | [] => (true, s)
    | h :: rest =>
      match process_single s h with
      | (true, s') => process_all_single s' rest
      | (false, s') => (false, s')
      end
    end.

  (* bool HeadersSyncState::ValidateAndStoreHeadersCommitments(std::span<const CBlockHeader> headers)
     {
         if (headers.size() == 0) return true;
         if (m_download_state != State::PRESYNC) return false;
         if (headers[0].hashPrevBlock != m_last_header_received.GetHash()) return false;
         for (const auto& hdr : headers) if (!ValidateAndProcessSingleHeader(hdr)) return false;
         if (m_current_chain_work >= m_minimum_required_work) {
             m_redownloaded_headers.clear();
             m_redownload_buffer_last_height = m_chain_start.nHeight;
             m_redownload_buffer_first_prev_hash = m_chain_start.GetBlockHash();
             m_redownload_buffer_last_hash = m_chain_start.GetBlockHash();
             m_redownload_chain_work = m_chain_start.nChainWork;
             m_download_state = State::REDOWNLOAD;
         }
         return true;
     } *)
  Definition validate_and_store_commitments (s : hss) (headers : list hdr) : bool * hss :=
    match headers with
    | [] => (true, s)
    | first :: _ =>
      match s_state s with
      | PRESYNC =>
        if negb (h_prev first =? s_last_hash s) then (false, s)
        else match process_all_single s headers with
             | (false, s') => (false, s')
             | (true, s') =>
               if p_min_work p <=? s_work s' then
                 (true, mkHss REDOWNLOAD (s_work s') (s_commitments s') (s_last_hash s') (s_last_bits s') (s_height s')
                              [] (p_start_height p) (p_start_hash p) (p_start_hash p) (p_start_work p) (s_all s'))
               else (true, s')
             end
      | _ => (false, s)
      end
    end.

  (* bool HeadersSyncState::ValidateAndStoreRedownloadedHeader(const CBlockHeader& header)
     {
         if (m_download_state != State::REDOWNLOAD) return false;
         int64_t next_height = m_redownload_buffer_last_height + 1;
         if (header.hashPrevBlock != m_redownload_buffer_last_hash) return false;
         uint32_t previous_nBits = !m_redownloaded_headers.empty() ? m_redownloaded_headers.back().nBits : m_chain_start.nBits;
         if (!PermittedDifficultyTransition(m_consensus_params, next_height, previous_nBits, header.nBits)) return false;
         m_redownload_chain_work += GetBlockProof(header);
         if (m_redownload_chain_work >= m_minimum_required_work) m_process_all_remaining_headers = true;
         if (!m_process_all_remaining_headers && next_height % m_params.commitment_period == m_commit_offset) {
             if (m_header_commitments.size() == 0) return false;                  // commitment overrun
             bool commitment = m_hasher(header.GetHash()) & 1;
             bool expected_commitment = m_header_commitments.front();
             m_header_commitments.pop_front();
             if (commitment != expected_commitment) return false;                 // commitment mismatch
         }
         m_redownloaded_headers.emplace_back(header);
         m_redownload_buffer_last_height = next_height;
         m_redownload_buffer_last_hash = header.GetHash();
         return true;
     } *)
  Definition previous_bits (s : hss) : Z :=
    match rev (s_buf s) with
    | last :: _ => h_bits last
    | [] => p_start_bits p
    end.

  Definition store_redownloaded (s : hss) (header : hdr) : bool * hss :=
    match s_state s with
    | REDOWNLOAD =>
      let next_height := wrap64 (s_rlast_height s + 1) in
      if negb (h_prev header =? s_rlast_hash s) then (false, s)
      else if negb (permitted next_height (previous_bits s) (h_bits header)) then (false, s)
      else
        let rwork := wrap256 (s_rwork s + proof_of (h_bits header)) in
        let all := if p_min_work p <=? rwork then true else s_all s in
        let s1 := mkHss (s_state s) (s_work s) (s_commitments s) (s_last_hash s) (s_last_bits s) (s_height s) (s_buf s)
                        (s_rlast_height s) (s_rlast_hash s) (s_rfirst_prev s) rwork all in
        let accept (commitments : list bool) :=
          (true, mkHss (s_state s) (s_work s) commitments (s_last_hash s) (s_last_bits s) (s_height s)
                       (s_buf s ++ [header]) next_height (h_id header) (s_rfirst_prev s) rwork all) in
        if negb all && is_commitment_height next_height then
          match s_commitments s with
          | [] => (false, s1)
          | expected :: remaining =>
            let s2 := mkHss (s_state s) (s_work s) remaining (s_last_hash s) (s_last_bits s) (s_height s) (s_buf s)
                            (s_rlast_height s) (s_rlast_hash s) (s_rfirst_prev s) rwork all in
            if negb (Bool.eqb (h_cbit header) expected) then (false, s2)
            else accept remaining
          end
        else accept (s_commitments s)
    | _ => (false, s)
    end.

  Fixpoint store_all_redownloaded (s : hss) (headers : list hdr) : bool * hss :=
    match headers with
    | [] => (true, s)
    | h :: rest =>
      match store_redownloaded s h with
      | (true, s') => store_all_redownloaded s' rest
      | (false, s') => (false, s')
      end
    end.

  (* CompressedHeader::GetFullHeader(prev).GetHash(): the stored header with the given prevhash; its
     hash is the received header's hash when the prevhash is the received one (always, by
     buffer_linked in the proofs), otherwise some other value (-1 stands for it) *)
  Definition release (front : hdr) (first_prev : Z) : hdr :=
    mkHdr (if h_prev front =? first_prev then h_id front else -1) first_prev (h_bits front) (h_cbit front).

  (* std::vector<CBlockHeader> HeadersSyncState::PopHeadersReadyForAcceptance()
     {
         if (m_download_state != State::REDOWNLOAD) return ret;
         while (m_redownloaded_headers.size() > m_params.redownload_buffer_size ||
                 (m_redownloaded_headers.size() > 0 && m_process_all_remaining_headers)) {
             ret.emplace_back(m_redownloaded_headers.front().GetFullHeader(m_redownload_buffer_first_prev_hash));
             m_redownloaded_headers.pop_front();
             m_redownload_buffer_first_prev_hash = ret.back().GetHash();
         }
         return ret;
     }
     structural on the buffer: (released so far reversed is not needed: returns released ++ ..) *)
  Fixpoint pop_loop (buffer : Z) (all : bool) (buf : list hdr) (first_prev : Z) : list hdr * list hdr * Z :=
    match buf with
    | [] => ([], [], first_prev)
    | front :: rest =>
      if (buffer <? Z.of_nat (length buf)) || all then
        let r := release front first_prev in
        let '(released, buf', fp') := pop_loop buffer all rest (h_id r) in
        (r :: released, buf', fp')
      else ([], buf, first_prev)
    end.

  Definition pop_ready (s : hss) : list hdr * hss :=
    match s_state s with
    | REDOWNLOAD =>
      let '(released, buf', fp') := pop_loop (p_buffer p) (s_all s) (s_buf s) (s_rfirst_prev s) in
      (released, mkHss (s_state s) (s_work s) (s_commitments s) (s_last_hash s) (s_last_bits s) (s_height s) buf'
                       (s_rlast_height s) (s_rlast_hash s) fp' (s_rwork s) (s_all s))
    | _ => ([], s)
    end.

  (* ProcessingResult HeadersSyncState::ProcessNextHeaders(std::span<const CBlockHeader> received_headers, bool full_headers_message)
     {
         if (received_headers.empty()) return ret;
         if (m_download_state == State::FINAL) return ret;
         if (m_download_state == State::PRESYNC) {
             ret.success = ValidateAndStoreHeadersCommitments(received_headers);
             if (ret.success) { if (full_headers_message || m_download_state == State::REDOWNLOAD) ret.request_more = true; }
         } else if (m_download_state == State::REDOWNLOAD) {
             ret.success = true;
             for (const auto& hdr : received_headers) if (!ValidateAndStoreRedownloadedHeader(hdr)) { ret.success = false; break; }
             if (ret.success) {
                 ret.pow_validated_headers = PopHeadersReadyForAcceptance();
                 if (m_redownloaded_headers.empty() && m_process_all_remaining_headers) { /* complete */ }
                 else if (full_headers_message) ret.request_more = true;
             }
         }
         if (!(ret.success && ret.request_more)) Finalize();
         return ret;
     } *)
  Definition is_redownload (s : hss) : bool := match s_state s with REDOWNLOAD => true | _ => false end.

  Definition process_next_headers (s : hss) (received : list hdr) (full : bool) : hss * result :=
    match received with
    | [] => (s, mkResult [] false false)
    | _ =>
      match s_state s with
      | FINAL => (s, mkResult [] false false)
      | PRESYNC =>
        let '(ok, s1) := validate_and_store_commitments s received in
        let more := ok && (full || is_redownload s1) in
        (if ok && more then s1 else finalize s1, mkResult [] ok more)
      | REDOWNLOAD =>
        let '(ok, s1) := store_all_redownloaded s received in
        if ok then
          let '(released, s2) := pop_ready s1 in
          let complete := match s_buf s2 with [] => s_all s2 | _ => false end in
          let more := negb complete && full in
          (if more then s2 else finalize s2, mkResult released true more)
        else (finalize s1, mkResult [] false false)
      end
    end.

  (* a peer's whole behaviour: the sequence of headers messages it answers with *)
  Fixpoint run (s : hss) (calls : list (list hdr * bool)) : list result :=
    match calls with
    | [] => []
    | (hs, full) :: rest => let '(s', r) := process_next_headers s hs full in r :: run s' rest
    end.
  Fixpoint run_state (s : hss) (calls : list (list hdr * bool)) : hss :=
    match calls with
    | [] => s
    | (hs, full) :: rest => run_state (fst (process_next_headers s hs full)) rest
    end.
End HeadersSync.

(* ---------------------------------------------------------------------------------------------- *)
(* Specification side: the commitment clause of the property, as an executable predicate on what an
   implementation REPORTED for a peer history.

   [cv p h0 l]: the commitment bits of a run of headers [l] whose predecessor has height [h0]: the
   bits of the headers at the heights with height % commitment_period = commit_offset. *)
Fixpoint cv (p : hs_params) (h0 : Z) (l : list hdr) : list bool :=
  match l with
  | [] => []
  | x :: t => (if is_commitment_height p (h0 + 1) then [h_cbit x] else []) ++ cv p (h0 + 1) t
  end.

Fixpoint bits_prefix (a b : list bool) : bool :=
  match a, b with
  | [], _ => true
  | x :: a', y :: b' => Bool.eqb x y && bits_prefix a' b'
  | _ :: _, [] => false
  end.

Definition is_presync (st : sync_state) : bool := match st with PRESYNC => true | _ => false end.
Definition is_redl (st : sync_state) : bool := match st with REDOWNLOAD => true | _ => false end.

(* [outs]: per call, (success, state after the call) as reported.  [a] / [b]: the headers of the
   successful calls made in PRESYNC / REDOWNLOAD so far.  Whenever the sync is reported to go on in
   REDOWNLOAD (so the re-downloaded chain has not reached the minimum work: otherwise everything
   is released and the sync ends), every re-downloaded header accepted so far that sits at a
   commitment height must carry the bit the first pass committed to at that height, and in
   particular the first pass must HAVE a commitment for that height: cv b is a prefix of cv a. *)
Fixpoint holds_commit (p : hs_params) (st : sync_state) (a b : list hdr)
         (calls : list (list hdr * bool)) (outs : list (bool * sync_state)) : bool :=
  match calls, outs with
  | (hs, _) :: calls', (ok, st') :: outs' =>
    let a' := a ++ (if ok && is_presync st then hs else []) in
    let b' := b ++ (if ok && is_redl st then hs else []) in
    (if is_redl st' then bits_prefix (cv p (p_start_height p) b') (cv p (p_start_height p) a') else true)
    && holds_commit p st' a' b' calls' outs'
  | _, _ => true
  end.

(* heights must stay representable (int in the first pass): outside that range nothing is claimed *)
Definition holds_commitments (p : hs_params) (calls : list (list hdr * bool)) (outs : list (bool * sync_state)) : bool :=
  if (0 <=? p_start_height p) && (p_start_height p + Z.of_nat (length (concat (map fst calls))) <=? INT32_MAX)
  then holds_commit p PRESYNC [] [] calls outs
  else true.

(* the instance run by the correspondence: main chain rules *)
Definition permitted_main (height old_bits new_bits : Z) : bool :=
  match permitted_transition chain_main height old_bits new_bits with Some b => b | None => false end.
Definition hs_run_main (p : hs_params) (calls : list (list hdr * bool)) : list result :=
  run permitted_main block_proof p (hs_init p) calls.
Definition hs_states_main (p : hs_params) (calls : list (list hdr * bool)) : hss :=
  run_state permitted_main block_proof p (hs_init p) calls.
