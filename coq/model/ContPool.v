(* PoolResource<MAX_BLOCK_SIZE_BYTES, ALIGN_BYTES>  (src/support/allocators/pool.h): model of the
   REPRESENTATION over abstract integer addresses.
   C++ fields                                         model
     const size_t m_chunk_size_bytes                    p_cs
     std::list<std::byte*> m_allocated_chunks           p_chunks   base address of every chunk, oldest first
     std::array<ListNode*, MAX/ELEM_ALIGN + 1>          p_free     p_free[n] = the addresses linked in free list n,
         m_free_lists                                              head first (the in-place ListNode chain)
     std::byte* m_available_memory_it / _end            p_it / p_end
   `chunk_base k` is the address ::operator new(m_chunk_size_bytes, align_val_t{ELEM_ALIGN_BYTES}) returns
   for the k-th chunk: the theorems assume only that these are aligned and that chunks do not overlap.
   Requests that cannot use the pool go to ::operator new / ::operator delete (`External`).
   Executable definitions only; proofs are in proofs/ContPoolLemmas.v. *)
From Coq Require Import List Arith Bool ZArith.
From BV Require Import model.ContBuf.
Import ListNotations.
Local Open Scope Z_scope.

Section Pool.
  Variables MAXB ALIGN_BYTES : Z.       (* template parameters *)
  Variable chunk_base : nat -> Z.

  (* static constexpr std::size_t ELEM_ALIGN_BYTES = std::max(alignof(ListNode), ALIGN_BYTES);
     alignof(ListNode) = alignof(void* ) = 8 on the 64-bit targets the tie runs on *)
  Definition EA : Z := Z.max 8 ALIGN_BYTES.
  (* std::array<ListNode*, MAX_BLOCK_SIZE_BYTES / ELEM_ALIGN_BYTES + 1> *)
  Definition NFL : nat := Z.to_nat (MAXB / EA + 1).

  Record pool := mkpool { p_cs : Z; p_chunks : list Z; p_free : list (list Z); p_it : Z; p_end : Z }.

  (* static constexpr std::size_t NumElemAlignBytes(std::size_t bytes)
     { return CeilDiv(bytes, ELEM_ALIGN_BYTES) + (bytes == 0); } *)
  Definition num_elem_align_bytes (bytes : Z) : Z :=
    (bytes + EA - 1) / EA + (if bytes =? 0 then 1 else 0).

  (* static constexpr bool IsFreeListUsable(std::size_t bytes, std::size_t alignment)
     { return alignment <= ELEM_ALIGN_BYTES && bytes <= MAX_BLOCK_SIZE_BYTES; } *)
  Definition is_free_list_usable (bytes alignment : Z) : bool :=
    (alignment <=? EA) && (bytes <=? MAXB).

  (* void PlacementAddToList(void* p, ListNode*& node) { node = new (p) ListNode{node}; }
     applied to m_free_lists[k]; k outside the array is an out-of-bounds access (None) *)
  Definition fl_push (fl : list (list Z)) (k : nat) (p : Z) : option (list (list Z)) :=
    match nth_error fl k with
    | Some l => Some (firstn k fl ++ (p :: l) :: skipn (S k) fl)
    | None => None
    end.
  Definition fl_set (fl : list (list Z)) (k : nat) (l : list Z) : list (list Z) :=
    firstn k fl ++ l :: skipn (S k) fl.

  (* void AllocateChunk() {
         size_t remaining_available_bytes = m_available_memory_end - m_available_memory_it;
         if (0 != remaining_available_bytes) {
             PlacementAddToList(m_available_memory_it, m_free_lists[remaining_available_bytes / ELEM_ALIGN_BYTES]);
         }
         void* storage = ::operator new (m_chunk_size_bytes, std::align_val_t{ELEM_ALIGN_BYTES});
         m_available_memory_it = new (storage) std::byte[m_chunk_size_bytes];
         m_available_memory_end = m_available_memory_it + m_chunk_size_bytes;
         m_allocated_chunks.emplace_back(m_available_memory_it); } *)
  Definition allocate_chunk (s : pool) : option pool :=
    let remaining := p_end s - p_it s in
    fl <- (if remaining =? 0 then Some (p_free s)
           else fl_push (p_free s) (Z.to_nat (remaining / EA)) (p_it s)) ;;
    let base := chunk_base (length (p_chunks s)) in
    Some (mkpool (p_cs s) (p_chunks s ++ [base]) fl base (base + p_cs s)).

  (* explicit PoolResource(std::size_t chunk_size_bytes)
         : m_chunk_size_bytes(NumElemAlignBytes(chunk_size_bytes) * ELEM_ALIGN_BYTES)
     { assert(m_chunk_size_bytes >= MAX_BLOCK_SIZE_BYTES); AllocateChunk(); } *)
  Definition pool_new (chunk_size_bytes : Z) : option pool :=
    let cs := num_elem_align_bytes chunk_size_bytes * EA in
    if MAXB <=? cs then allocate_chunk (mkpool cs [] (repeat [] NFL) 0 0) else None.

  Inductive alloc_result := Pooled (a : Z) | External.

  (* void* Allocate(std::size_t bytes, std::size_t alignment) {
         if (IsFreeListUsable(bytes, alignment)) {
             const std::size_t num_alignments = NumElemAlignBytes(bytes);
             if (nullptr != m_free_lists[num_alignments]) {
                 auto* next{m_free_lists[num_alignments]->m_next};
                 return std::exchange(m_free_lists[num_alignments], next);
             }
             const std::ptrdiff_t round_bytes = static_cast<std::ptrdiff_t>(num_alignments * ELEM_ALIGN_BYTES);
             if (round_bytes > m_available_memory_end - m_available_memory_it) AllocateChunk();
             return std::exchange(m_available_memory_it, m_available_memory_it + round_bytes);
         }
         return ::operator new (bytes, std::align_val_t{alignment}); } *)
  Definition allocate (s : pool) (bytes alignment : Z) : option (alloc_result * pool) :=
    if is_free_list_usable bytes alignment then
      let num_alignments := Z.to_nat (num_elem_align_bytes bytes) in
      match nth_error (p_free s) num_alignments with
      | None => None
      | Some (a :: next) =>
          Some (Pooled a, mkpool (p_cs s) (p_chunks s) (fl_set (p_free s) num_alignments next) (p_it s) (p_end s))
      | Some [] =>
          let round_bytes := num_elem_align_bytes bytes * EA in
          s1 <- (if p_end s - p_it s <? round_bytes then allocate_chunk s else Some s) ;;
          Some (Pooled (p_it s1),
                mkpool (p_cs s1) (p_chunks s1) (p_free s1) (p_it s1 + round_bytes) (p_end s1))
      end
    else Some (External, s).

  (* void Deallocate(void* p, std::size_t bytes, std::size_t alignment) noexcept {
         if (IsFreeListUsable(bytes, alignment)) {
             const std::size_t num_alignments = NumElemAlignBytes(bytes);
             PlacementAddToList(p, m_free_lists[num_alignments]);
         } else { ::operator delete (p, std::align_val_t{alignment}); } } *)
  Definition deallocate (s : pool) (p : alloc_result) (bytes alignment : Z) : option pool :=
    if is_free_list_usable bytes alignment then
      match p with
      | Pooled a =>
          fl <- fl_push (p_free s) (Z.to_nat (num_elem_align_bytes bytes)) a ;;
          Some (mkpool (p_cs s) (p_chunks s) fl (p_it s) (p_end s))
      | External => None      (* a pointer that did not come from the pool under a pooled size: client error *)
      end
    else Some s.

  (* ---------------------------------------------------------------------------------------------
     Scripts: the client (the reference allocator view) keeps the multiset of live allocations
     (result, bytes, alignment) and frees one of them with the same bytes/alignment it asked for. *)
  Definition live_entry : Type := alloc_result * Z * Z.
  Inductive pop := PAlloc (bytes alignment : Z) | PFree (i : nat).

  Definition pool_step (st : pool * list live_entry) (o : pop) : option (pool * list live_entry) :=
    let (s, live) := st in
    match o with
    | PAlloc bytes alignment =>
        if (0 <=? bytes) && (1 <=? alignment) then
          r <- allocate s bytes alignment ;;
          Some (snd r, live ++ [(fst r, bytes, alignment)])
        else None
    | PFree i =>
        match nth_error live i with
        | Some (p, bytes, alignment) =>
            s' <- deallocate s p bytes alignment ;;
            Some (s', firstn i live ++ skipn (S i) live)
        | None => None
        end
    end.

  Fixpoint pool_run (st : pool * list live_entry) (ops : list pop) : option (pool * list live_entry) :=
    match ops with [] => Some st | o :: r => st' <- pool_step st o ;; pool_run st' r end.

  Fixpoint pool_trace (st : pool * list live_entry) (ops : list pop) : list (option (pool * list live_entry)) :=
    match ops with
    | [] => []
    | o :: r => match pool_step st o with
                | Some st' => Some st' :: pool_trace st' r
                | None => [None]
                end
    end.

  (* ---------------------------------------------------------------------------------------------
     Blocks (address, size in bytes) that the representation accounts for *)
  Fixpoint free_blocks_from (k : nat) (fl : list (list Z)) : list (Z * Z) :=
    match fl with
    | [] => []
    | l :: r => map (fun a => (a, Z.of_nat k * EA)) l ++ free_blocks_from (S k) r
    end.
  Definition free_blocks (s : pool) : list (Z * Z) := free_blocks_from 0 (p_free s).
  (* the block the pool reserved for a live pooled allocation: its size class rounded up *)
  Fixpoint live_blocks (live : list live_entry) : list (Z * Z) :=
    match live with
    | [] => []
    | (Pooled a, bytes, alignment) :: r =>
        if is_free_list_usable bytes alignment then (a, num_elem_align_bytes bytes * EA) :: live_blocks r
        else live_blocks r
    | (External, _, _) :: r => live_blocks r
    end.
  Definition idisj (x y : Z * Z) : Prop := fst x + snd x <= fst y \/ fst y + snd y <= fst x.
  Definition idisjb (x y : Z * Z) : bool := (fst x + snd x <=? fst y) || (fst y + snd y <=? fst x).
End Pool.
