(* C49 — AES-256 and AES-256-CBC.
   (a) Specification of the AES-256 block cipher written from FIPS 197 (sections 4.2 GF(2^8)
       arithmetic, 5.1 Cipher, 5.2 KeyExpansion with Nk = 8, 5.3 InvCipher), independent of the C++
       text.  The S-box is NOT copied from anywhere: it is computed (Eval vm_compute) from its
       definition in 5.1.1 — multiplicative inverse in GF(2^8) followed by the affine transformation —
       and the inverse S-box is computed from the S-box by search.
   (b) CBC mode from NIST SP 800-38A section 6.2 and the padding of RFC 5652 section 6.3 (PKCS#7).
   (c) Model of the C++ wrappers of src/crypto/aes.cpp: the static helpers CBCEncrypt / CBCDecrypt
       (called by AES256CBCEncrypt::Encrypt / AES256CBCDecrypt::Decrypt) transcribed statement by
       statement.

   The bitsliced constant-time block cipher itself (src/crypto/ctaes/ctaes.c: AES256_init,
   AES256_encrypt, AES256_decrypt, reached through AES256Encrypt::Encrypt / AES256Decrypt::Decrypt) is
   NOT modelled: the model calls the FIPS 197 block functions below where the C++ calls
   enc.Encrypt(out, in) / dec.Decrypt(out, in).  That ctaes computes exactly these functions is what
   the correspondence run checks (case lines aes256_enc / aes256_dec, and every CBC case).

   Domain of the model of CBCEncrypt / CBCDecrypt: `data` and `out` non-null, 0 <= size and
   size + 16 <= INT_MAX (`size` is an int; for a negative size with pad = true the loop
   `for (int i = 0; i != padsize; i++)` of the C++ would run off the 16-byte array `mixed`),
   iv of 16 bytes, key of 32 bytes.  Sizes are `nat` here (= length of the data list).

   A byte is an N below 256.  The AES state is the list of its 16 bytes in the FIPS 197 input order
   (3.4: s[r, c] = in[r + 4c]), i.e. column after column.
   Executable definitions only. *)
From Coq Require Import NArith.
From BV Require Import lib.Ints model.CryptoBase.
Local Open Scope N_scope.

(* all byte values 0 .. 255 in order *)
Definition all_bytes : list N := map N.of_nat (seq 0 256).

(* ======================= FIPS 197, 4: GF(2^8) ======================= *)
(* 4.1 addition is XOR (N.lxor).
   4.2.1 xtime(): multiplication by x = {02}: "left shift and a subsequent conditional bitwise XOR
   with {1b}" (the XOR happens when b7 = 1; the result is again a byte) *)
Definition xtime (b : N) : N :=
  N.lxor (N.land (N.shiftl b 1) 255) (if N.testbit b 7 then 0x1b else 0).

(* 4.2 / 4.2.1 multiplication c • s: "multiplication by higher powers of x can be implemented by
   repeated application of xtime(); by adding intermediate results, multiplication by any constant
   can be implemented".  The bits of c are consumed from the least significant; 8 steps. *)
Fixpoint gmul_aux (fuel : nat) (c s : N) : N :=
  match fuel with
  | O => 0
  | S f => N.lxor (if N.odd c then s else 0) (gmul_aux f (N.div2 c) (xtime s))
  end.
Definition gmul (c s : N) : N := gmul_aux 8 c s.

(* 4.2: the multiplicative inverse b^-1 of a non-zero byte is the byte with b • b^-1 = {01};
   5.1.1: "the element {00} is mapped to itself".  Found by search over all bytes. *)
Definition ginv (b : N) : N :=
  match find (fun x => N.eqb (gmul b x) 1) all_bytes with Some x => x | None => 0 end.

(* ======================= FIPS 197, 5.1.1: SubBytes ======================= *)
(* (5.1)  b'_i = b_i + b_(i+4) mod 8 + b_(i+5) mod 8 + b_(i+6) mod 8 + b_(i+7) mod 8 + c_i,  c = {63} *)
Definition affine_bit (b : N) (i : N) : bool :=
  xorb (xorb (xorb (xorb (xorb (N.testbit b i) (N.testbit b ((i + 4) mod 8))) (N.testbit b ((i + 5) mod 8)))
                   (N.testbit b ((i + 6) mod 8))) (N.testbit b ((i + 7) mod 8))) (N.testbit 0x63 i).
(* the byte with bits [b0; b1; ...] (least significant first) *)
Fixpoint bits_value (l : list bool) : N :=
  match l with [] => 0 | b :: r => (if b then 1 else 0) + 2 * bits_value r end.
Definition affine (b : N) : N := bits_value (map (affine_bit b) [0; 1; 2; 3; 4; 5; 6; 7]).

(* the S-box by its definition *)
Definition sbox_def (b : N) : N := affine (ginv b).

(* ... tabulated for b = 0 .. 255 (figure 7 of FIPS 197 is this table; computed here, not copied) *)
Definition sbox_table : list N := Eval vm_compute in map sbox_def all_bytes.

(* table lookup; outside the table (never the case for a byte) the definition itself is used, so
   sub_byte b = sbox_def b for every b (proofs/CryptoAESLemmas.v: sub_byte_is_def) *)
Definition sub_byte (b : N) : N :=
  match nth_error sbox_table (N.to_nat b) with Some v => v | None => sbox_def b end.

(* 5.3.2 InvSubBytes: "the inverse of the byte substitution transformation, in which the inverse
   S-box is applied to each byte": the byte x with S(x) = y, by search (S through its table: sub_byte = sbox_def);
   {00} if there were none
   (there is one for every byte: inv_sub_sub / sub_inv_sub in the lemma file) *)
Definition inv_sbox_def (y : N) : N :=
  match find (fun x => N.eqb (sub_byte x) y) all_bytes with Some x => x | None => 0 end.
Definition inv_sbox_table : list N := Eval vm_compute in map inv_sbox_def all_bytes.
Definition inv_sub_byte (b : N) : N :=
  match nth_error inv_sbox_table (N.to_nat b) with Some v => v | None => inv_sbox_def b end.

Definition sub_bytes (s : list N) : list N := map sub_byte s.
Definition inv_sub_bytes (s : list N) : list N := map inv_sub_byte s.

(* ======================= 5.1.2 ShiftRows / 5.3.1 InvShiftRows ======================= *)
(* (5.3) s'[r, c] = s[r, (c + shift(r, 4)) mod 4] with shift(r, 4) = r; position of s[r, c] in the
   list: r + 4c.  So out[r + 4c] = in[r + 4 ((c + r) mod 4)]  (shift_rows_formula in the lemma file
   checks the permutation below against this index formula). *)
Definition shift_rows (s : list N) : list N :=
  match s with
  | [s0; s1; s2; s3; s4; s5; s6; s7; s8; s9; s10; s11; s12; s13; s14; s15] =>
    [s0; s5; s10; s15;  s4; s9; s14; s3;  s8; s13; s2; s7;  s12; s1; s6; s11]
  | _ => []   (* not a state *)
  end.
(* (5.8) s'[r, (c + shift(r, 4)) mod 4] = s[r, c], i.e. out[r + 4c] = in[r + 4 ((c - r) mod 4)] *)
Definition inv_shift_rows (s : list N) : list N :=
  match s with
  | [s0; s1; s2; s3; s4; s5; s6; s7; s8; s9; s10; s11; s12; s13; s14; s15] =>
    [s0; s13; s10; s7;  s4; s1; s14; s11;  s8; s5; s2; s15;  s12; s9; s6; s3]
  | _ => []
  end.

(* ======================= 5.1.3 MixColumns / 5.3.3 InvMixColumns ======================= *)
(* (5.6)  s'0 = ({02} • s0) + ({03} • s1) + s2 + s3
          s'1 = s0 + ({02} • s1) + ({03} • s2) + s3
          s'2 = s0 + s1 + ({02} • s2) + ({03} • s3)
          s'3 = ({03} • s0) + s1 + s2 + ({02} • s3) *)
Definition mix_column (s0 s1 s2 s3 : N) : list N :=
  [ N.lxor (N.lxor (N.lxor (gmul 2 s0) (gmul 3 s1)) s2) s3;
    N.lxor (N.lxor (N.lxor s0 (gmul 2 s1)) (gmul 3 s2)) s3;
    N.lxor (N.lxor (N.lxor s0 s1) (gmul 2 s2)) (gmul 3 s3);
    N.lxor (N.lxor (N.lxor (gmul 3 s0) s1) s2) (gmul 2 s3) ].
(* (5.10) s'0 = ({0e} • s0) + ({0b} • s1) + ({0d} • s2) + ({09} • s3)
          s'1 = ({09} • s0) + ({0e} • s1) + ({0b} • s2) + ({0d} • s3)
          s'2 = ({0d} • s0) + ({09} • s1) + ({0e} • s2) + ({0b} • s3)
          s'3 = ({0b} • s0) + ({0d} • s1) + ({09} • s2) + ({0e} • s3) *)
Definition inv_mix_column (s0 s1 s2 s3 : N) : list N :=
  [ N.lxor (N.lxor (N.lxor (gmul 0x0e s0) (gmul 0x0b s1)) (gmul 0x0d s2)) (gmul 0x09 s3);
    N.lxor (N.lxor (N.lxor (gmul 0x09 s0) (gmul 0x0e s1)) (gmul 0x0b s2)) (gmul 0x0d s3);
    N.lxor (N.lxor (N.lxor (gmul 0x0d s0) (gmul 0x09 s1)) (gmul 0x0e s2)) (gmul 0x0b s3);
    N.lxor (N.lxor (N.lxor (gmul 0x0b s0) (gmul 0x0d s1)) (gmul 0x09 s2)) (gmul 0x0e s3) ].
(* column by column (a column is 4 consecutive bytes of the list) *)
Fixpoint mix_columns (s : list N) : list N :=
  match s with s0 :: s1 :: s2 :: s3 :: r => mix_column s0 s1 s2 s3 ++ mix_columns r | _ => [] end.
Fixpoint inv_mix_columns (s : list N) : list N :=
  match s with s0 :: s1 :: s2 :: s3 :: r => inv_mix_column s0 s1 s2 s3 ++ inv_mix_columns r | _ => [] end.

(* ======================= 5.1.4 AddRoundKey ======================= *)
(* (5.7) [s'0c, s'1c, s'2c, s'3c] = [s0c, s1c, s2c, s3c] + [w(round*Nb + c)]: column c is XORed with
   the word w[4 round + c]; in the column-after-column list this is the byte-wise XOR with the 16
   bytes of the four words. *)
Definition add_round_key (s rk : list N) : list N := xor_bytes s rk.

(* ======================= 5.2 KeyExpansion, Nk = 8, Nb = 4, Nr = 14 ======================= *)
Definition Nk : nat := 8.
Definition Nr : nat := 14.
(* a word is the list of its 4 bytes [a0; a1; a2; a3] *)
Notation word := (list N) (only parsing).
Definition sub_word (w : word) : word := map sub_byte w.
(* RotWord([a0, a1, a2, a3]) = [a1, a2, a3, a0] *)
Definition rot_word (w : word) : word := match w with [a0; a1; a2; a3] => [a1; a2; a3; a0] | _ => [] end.
(* Rcon[i] = [x^(i-1), {00}, {00}, {00}], x^(i-1) being powers of x = {02} in GF(2^8), i from 1 *)
Fixpoint xpow (n : nat) : N := match n with O => 1 | S k => xtime (xpow k) end.
Definition rcon (i : nat) : word := [xpow (i - 1); 0; 0; 0].

(* the key as Nk words *)
Fixpoint words4 (l : list N) : list word :=
  match l with a :: b :: c :: d :: r => [a; b; c; d] :: words4 r | _ => [] end.

(* one iteration of the while loop of figure 11 for index i; rev_w = [w[i-1]; w[i-2]; ...; w[0]]:
     temp = w[i-1]
     if (i mod Nk = 0)  temp = SubWord(RotWord(temp)) xor Rcon[i/Nk]
     else if (Nk > 6 and i mod Nk = 4)  temp = SubWord(temp)
     w[i] = w[i-Nk] xor temp *)
Definition key_expansion_step (i : nat) (rev_w : list word) : list word :=
  match rev_w with
  | w1 :: _ :: _ :: _ :: _ :: _ :: _ :: w8 :: _ =>
    let temp :=
      if (i mod Nk =? 0)%nat then xor_bytes (sub_word (rot_word w1)) (rcon (i / Nk))
      else if (i mod Nk =? 4)%nat then sub_word w1
      else w1 in
    xor_bytes w8 temp :: rev_w
  | _ => rev_w   (* fewer than Nk words: the key did not have 32 bytes *)
  end.
Fixpoint key_expansion_loop (n i : nat) (rev_w : list word) : list word :=
  match n with O => rev_w | S n' => key_expansion_loop n' (S i) (key_expansion_step i rev_w) end.
(* w[0 .. Nb*(Nr+1) - 1] = w[0 .. 59]: i runs from Nk = 8 to 59 *)
Definition key_expansion (key : list N) : list word :=
  rev (key_expansion_loop (4 * (Nr + 1) - Nk) Nk (rev (words4 key))).

(* w[4 round .. 4 round + 3] as 16 bytes *)
Definition round_key (w : list word) (round : nat) : list N := concat (firstn 4 (skipn (4 * round) w)).

(* ======================= 5.1 Cipher / 5.3 InvCipher ======================= *)
(* figure 5:  state = in
              AddRoundKey(state, w[0, Nb-1])
              for round = 1 step 1 to Nr-1
                SubBytes(state); ShiftRows(state); MixColumns(state); AddRoundKey(state, w[round*Nb, (round+1)*Nb-1])
              SubBytes(state); ShiftRows(state); AddRoundKey(state, w[Nr*Nb, (Nr+1)*Nb-1])
              out = state *)
Definition cipher_round (w : list word) (st : list N) (round : nat) : list N :=
  add_round_key (mix_columns (shift_rows (sub_bytes st))) (round_key w round).
Definition cipher (w : list word) (inp : list N) : list N :=
  let st0 := add_round_key inp (round_key w 0) in
  let st := fold_left (cipher_round w) (seq 1 (Nr - 1)) st0 in
  add_round_key (shift_rows (sub_bytes st)) (round_key w Nr).

(* figure 12: state = in
              AddRoundKey(state, w[Nr*Nb, (Nr+1)*Nb-1])
              for round = Nr-1 step -1 downto 1
                InvShiftRows(state); InvSubBytes(state); AddRoundKey(state, w[round*Nb, (round+1)*Nb-1]); InvMixColumns(state)
              InvShiftRows(state); InvSubBytes(state); AddRoundKey(state, w[0, Nb-1])
              out = state *)
Definition inv_cipher_round (w : list word) (st : list N) (round : nat) : list N :=
  inv_mix_columns (add_round_key (inv_sub_bytes (inv_shift_rows st)) (round_key w round)).
Definition inv_cipher (w : list word) (inp : list N) : list N :=
  let st0 := add_round_key inp (round_key w Nr) in
  let st := fold_left (inv_cipher_round w) (rev (seq 1 (Nr - 1))) st0 in
  add_round_key (inv_sub_bytes (inv_shift_rows st)) (round_key w 0).

(* AES-256 on one block: key of 32 bytes, block of 16 bytes *)
Definition aes256_encrypt_block_spec (key : list N) (block : list N) : list N := cipher (key_expansion key) block.
Definition aes256_decrypt_block_spec (key : list N) (block : list N) : list N := inv_cipher (key_expansion key) block.

(* ======================= NIST SP 800-38A, 6.2: CBC ======================= *)
(* the data as a sequence of 16-byte blocks (the last one shorter if the length is not a multiple of 16) *)
Definition blocks16 (data : list N) : list (list N) := chunks_of (length data) 16 data.

(* CBC encryption:  C_1 = CIPH_K(P_1 xor IV);  C_j = CIPH_K(P_j xor C_(j-1))  for j = 2 ... n *)
Fixpoint cbc_encrypt_blocks (E : list N -> list N) (prev : list N) (blocks : list (list N)) : list (list N) :=
  match blocks with
  | [] => []
  | p :: r => let c := E (xor_bytes p prev) in c :: cbc_encrypt_blocks E c r
  end.
(* CBC decryption:  P_1 = CIPHINV_K(C_1) xor IV;  P_j = CIPHINV_K(C_j) xor C_(j-1)  for j = 2 ... n *)
Fixpoint cbc_decrypt_blocks (D : list N -> list N) (prev : list N) (blocks : list (list N)) : list (list N) :=
  match blocks with
  | [] => []
  | c :: r => xor_bytes (D c) prev :: cbc_decrypt_blocks D c r
  end.
Definition cbc_encrypt_spec (key iv data : list N) : list N :=
  concat (cbc_encrypt_blocks (aes256_encrypt_block_spec key) iv (blocks16 data)).
Definition cbc_decrypt_spec (key iv data : list N) : list N :=
  concat (cbc_decrypt_blocks (aes256_decrypt_block_spec key) iv (blocks16 data)).

(* ======================= RFC 5652, 6.3: padding for block size k = 16 ======================= *)
Local Open Scope nat_scope.
(* "pad at the trailing end with k - (lth mod k) octets all having value k - (lth mod k)" *)
Definition pkcs7_padlen (len : nat) : nat := 16 - len mod 16.
Definition pkcs7_pad (data : list N) : list N :=
  data ++ repeat (N.of_nat (pkcs7_padlen (length data))) (pkcs7_padlen (length data)).
(* "the padding can be removed unambiguously since all input is padded, including input values that
   are already a multiple of the block size": the last octet p says how many octets to remove.
   Well-formed: 1 <= p <= 16, there are at least p octets and the last p octets all have value p. *)
Definition pkcs7_unpad (padded : list N) : option (list N) :=
  match rev padded with
  | [] => None
  | p :: _ =>
    let k := N.to_nat p in
    if (1 <=? k)%nat && (k <=? 16)%nat && (k <=? length padded)%nat
       && forallb (N.eqb p) (skipn (length padded - k) padded)
    then Some (firstn (length padded - k) padded) else None
  end.

(* ======================= src/crypto/aes.cpp ======================= *)

(* template <typename T>
   static int CBCEncrypt(const T& enc, const unsigned char iv[AES_BLOCKSIZE], const unsigned char* data, int size, bool pad, unsigned char* out)

       // Write all but the last block
       while (written + AES_BLOCKSIZE <= size) {
           for (int i = 0; i != AES_BLOCKSIZE; i++)
               mixed[i] ^= *data++;
           enc.Encrypt(out + written, mixed);
           memcpy(mixed, out + written, AES_BLOCKSIZE);
           written += AES_BLOCKSIZE;
       }
   State: written, mixed, the bytes from the moving pointer `data` to the end of the input, and out[0 .. written).
   fuel: an upper bound on the number of iterations (the callers give size / 16 + 1). *)
Fixpoint cbc_encrypt_loop (fuel : nat) (E : list N -> list N) (size written : nat) (mixed data out : list N)
  : nat * list N * list N * list N :=
  match fuel with
  | O => (written, mixed, data, out)
  | S f =>
    if written + 16 <=? size then
      let mixed1 := xor_bytes mixed (firstn 16 data) in     (* mixed[i] ^= *data++, 16 times *)
      let data1 := skipn 16 data in
      let c := E mixed1 in                                  (* enc.Encrypt(out + written, mixed) *)
      let out1 := out ++ c in
      let mixed2 := c in                                    (* memcpy(mixed, out + written, 16) *)
      cbc_encrypt_loop f E size (written + 16) mixed2 data1 out1
    else (written, mixed, data, out)
  end.

(* {
       int written = 0;
       int padsize = size % AES_BLOCKSIZE;
       unsigned char mixed[AES_BLOCKSIZE];

       if (!data || !size || !out)
           return 0;

       if (!pad && padsize != 0)
           return 0;

       memcpy(mixed, iv, AES_BLOCKSIZE);

       [the while loop above]
       if (pad) {
           // For all that remains, pad each byte with the value of the remaining
           // space. If there is none, pad by a full block.
           for (int i = 0; i != padsize; i++)
               mixed[i] ^= *data++;
           for (int i = padsize; i != AES_BLOCKSIZE; i++)
               mixed[i] ^= AES_BLOCKSIZE - padsize;
           enc.Encrypt(out + written, mixed);
           written += AES_BLOCKSIZE;
       }
       return written;
   }
   The result is out[0 .. written) (so its length is the returned int, [] when 0 is returned). *)
Definition cbc_encrypt_with (E : list N -> list N) (iv data : list N) (pad : bool) : list N :=
  let size := length data in
  let padsize := size mod 16 in
  if size =? 0 then []
  else if negb pad && negb (padsize =? 0) then []
  else
    let mixed := iv in
    let '(written, mixed, data, out) := cbc_encrypt_loop (size / 16 + 1) E size 0 mixed data [] in
    if pad then
      let mixed := xor_bytes mixed (firstn padsize data ++ repeat (N.of_nat (16 - padsize)) (16 - padsize)) in
      let out := out ++ E mixed in
      let written := written + 16 in
      firstn written out
    else firstn written out.

(* AES256CBCEncrypt(key, ivIn, padIn) : enc(key), pad(padIn) { memcpy(iv, ivIn, AES_BLOCKSIZE); }
   int AES256CBCEncrypt::Encrypt(data, size, out) const { return CBCEncrypt(enc, iv, data, size, pad, out); } *)
Definition cbc_encrypt (key iv data : list N) (pad : bool) : list N :=
  cbc_encrypt_with (aes256_encrypt_block_spec key) iv data pad.

(* static int CBCDecrypt(const T& dec, const unsigned char iv[AES_BLOCKSIZE], const unsigned char* data, int size, bool pad, unsigned char* out)

       // Decrypt all data. Padding will be checked in the output.
       while (written != size) {
           dec.Decrypt(out, data + written);
           for (int i = 0; i != AES_BLOCKSIZE; i++)
               *out++ ^= prev[i];
           prev = data + written;
           written += AES_BLOCKSIZE;
       }
   State: written, the 16 bytes `prev` points to, and everything written so far ([start of out .. moving pointer out)).
   `data` is not advanced in this function. *)
Fixpoint cbc_decrypt_loop (fuel : nat) (D : list N -> list N) (size written : nat) (prev data out : list N)
  : nat * list N :=
  match fuel with
  | O => (written, out)
  | S f =>
    if negb (written =? size) then
      let c := firstn 16 (skipn written data) in
      let p := xor_bytes (D c) prev in        (* dec.Decrypt(out, data + written); *out++ ^= prev[i], 16 times *)
      cbc_decrypt_loop f D size (written + 16) c data (out ++ p)
    else (written, out)
  end.

(*         // All padding must equal the last byte otherwise it's not well-formed
           for (int i = AES_BLOCKSIZE; i != 0; i--)
               fail |= ((i > AES_BLOCKSIZE - padsize) & ( *out-- != padsize));
   rout: the bytes at out, out-1, out-2, ... (the output read backwards from its last byte) *)
Fixpoint cbc_padcheck_loop (i : nat) (padsize : N) (rout : list N) (fail : bool) : bool :=
  match i with
  | O => fail
  | S i' =>
    match rout with
    | [] => fail   (* not reached: at least 16 bytes were written *)
    | b :: r =>
      cbc_padcheck_loop i' padsize r
        (fail || ((16 - Z.of_N padsize <? Z.of_nat i)%Z && negb (N.eqb b padsize)))
    end
  end.

(* {
       int written = 0;
       bool fail = false;
       const unsigned char* prev = iv;

       if (!data || !size || !out)
           return 0;

       if (size % AES_BLOCKSIZE != 0)
           return 0;

       [the while loop above]

       // When decrypting padding, attempt to run in constant-time
       if (pad) {
           // If used, padding size is the value of the last decrypted byte. For
           // it to be valid, It must be between 1 and AES_BLOCKSIZE.
           unsigned char padsize = *--out;
           fail = !padsize | (padsize > AES_BLOCKSIZE);

           // If not well-formed, treat it as though there's no padding.
           padsize *= !fail;

           [the for loop above]

           written -= padsize;
       }
       return written * !fail;
   }
   The result is the first `return value` bytes of the output buffer ([] when 0 is returned; the
   C++ has nevertheless written all `size` decrypted bytes to the buffer). *)
Definition cbc_decrypt_with (D : list N -> list N) (iv data : list N) (pad : bool) : list N :=
  let size := length data in
  if size =? 0 then []
  else if negb (size mod 16 =? 0) then []
  else
    let '(written, out) := cbc_decrypt_loop (size / 16 + 1) D size 0 iv data [] in
    if pad then
      match rev out with
      | [] => []   (* not reached: size >= 16 *)
      | padsize :: _ =>
        let fail := N.eqb padsize 0 || (16 <? padsize)%N in
        let padsize := if fail then 0%N else padsize in
        let fail := cbc_padcheck_loop 16 padsize (rev out) fail in
        let written := written - N.to_nat padsize in
        if fail then [] else firstn written out
      end
    else firstn written out.

Definition cbc_decrypt (key iv data : list N) (pad : bool) : list N :=
  cbc_decrypt_with (aes256_decrypt_block_spec key) iv data pad.

(* what the two functions return as `int` *)
Definition cbc_encrypt_ret (key iv data : list N) (pad : bool) : nat := length (cbc_encrypt key iv data pad).
Definition cbc_decrypt_ret (key iv data : list N) (pad : bool) : nat := length (cbc_decrypt key iv data pad).
