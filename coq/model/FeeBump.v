(* C56 (family walletspend): executable validator of what feebumper::CreateRateBumpTransaction (src/wallet/feebumper.cpp)
   produces, plus transcriptions of the parts of feebumper.cpp that decide WHAT is asked of CreateTransaction
   (PreconditionChecks, the recipient / change split, EstimateFeeRate, CheckFeeRate).  The replacement itself is created
   by wallet::CreateTransaction, so the C41 checker valid_funding is reused on it. *)
From BV Require Import lib.Ints model.WalletSpend.
From Coq Require Import NArith.
Local Open Scope Z_scope.

(* ---------------------------------------------------------------------------------------------- *)
(* PreconditionChecks.  feebumper.cpp:
     if (wallet.HasWalletSpend(wtx.GetTx())) { "Transaction has descendants in the wallet"; return INVALID_PARAMETER; }
     if (wallet.chain().hasDescendantsInMempool(wtx.GetHash())) { "Transaction has descendants in the mempool"; return INVALID_PARAMETER; }
     if (wallet.GetTxDepthInMainChain(wtx) != 0) { "Transaction has been mined, or is conflicted with a mined transaction"; return WALLET_ERROR; }
     if (wtx.m_replaced_by_txid) { "Cannot bump transaction %s which was already bumped by transaction %s"; return WALLET_ERROR; }
     if (require_mine) { if (!AllInputsMine(wallet, *wtx.GetTx())) { "Transaction contains inputs that don't belong to this wallet"; return WALLET_ERROR; } }
     return OK; *)
Record facts := mkFacts {
  f_wallet_spend : bool;   (* CWallet::HasWalletSpend *)
  f_mempool_desc : bool;   (* chain().hasDescendantsInMempool *)
  f_depth : Z;             (* GetTxDepthInMainChain *)
  f_replaced : bool;       (* m_replaced_by_txid set *)
  f_all_mine : bool;       (* AllInputsMine *)
  f_inputs_unspent : bool  (* chain().findCoins finds a coin for every input of the original *)
}.

Inductive refusal := RWalletDesc | RMempoolDesc | RMined | RAlreadyBumped | RNotMine | RNoRecipient | ROptions | ROciRange | RInputsSpent.

Definition precondition (f : facts) (require_mine : bool) : option refusal :=
  if f_wallet_spend f then Some RWalletDesc
  else if f_mempool_desc f then Some RMempoolDesc
  else if negb (f_depth f =? 0) then Some RMined
  else if f_replaced f then Some RAlreadyBumped
  else if require_mine && negb (f_all_mine f) then Some RNotMine
  else None.

(* ---------------------------------------------------------------------------------------------- *)
(* The original transaction and the bump options *)

Record oout := mkOOut { oo_out : txout; oo_change : bool }.   (* oo_change: OutputIsChange(wallet, output) *)

Record otx := mkOtx {
  o_ins : list txin;       (* its inputs with the values of the coins they spend *)
  o_outs : list oout;
  o_vsize : Z
}.

Record bump_opts := mkBOpts {
  b_feerate : option Z;          (* coin_control.m_feerate *)
  b_new_outs : list oout;        (* `outputs` (empty: keep the original ones) *)
  b_oci : option nat;            (* original_change_index *)
  b_require_mine : bool
}.

Definition o_fee (o : otx) : Z := zsum (map ti_value (o_ins o)) - zsum (map (fun x => to_value (oo_out x)) (o_outs o)).

(* CreateRateBumpTransaction:
     const auto& txouts = outputs.empty() ? tx->vout : outputs;
     for (size_t i = 0; i < txouts.size(); ++i) {
         const CTxOut& output = txouts.at(i);
         CTxDestination dest;  ExtractDestination(output.scriptPubKey, dest);
         if (original_change_index.has_value() ?  original_change_index.value() == i : OutputIsChange(wallet, output)) {
             new_coin_control.destChange = dest;
         } else {
             CRecipient recipient = {dest, output.nValue, false};
             recipients.push_back(recipient);
         }
         new_outputs_value += output.nValue;
     } *)
Definition base_outs (o : otx) (b : bump_opts) : list oout :=
  match b_new_outs b with [] => o_outs o | l => l end.

Fixpoint split_outs (k : nat) (oci : option nat) (outs : list oout) (dest : option script)
  : option script * list recipient :=
  match outs with
  | [] => (dest, [])
  | x :: t =>
      if (match oci with Some i => Nat.eqb i k | None => oo_change x end)
      then split_outs (S k) oci t (Some (to_spk (oo_out x)))
      else let r := split_outs (S k) oci t dest in
           (fst r, mkRcp (to_spk (oo_out x)) (to_value (oo_out x)) false :: snd r)
  end.

(*   if (recipients.empty()) {
         if (std::get_if<CNoDestination>(&new_coin_control.destChange)) { "Unable to create transaction. Transaction must have at least one recipient"; return INVALID_PARAMETER; }
         recipients.emplace_back(CRecipient{new_coin_control.destChange, new_outputs_value, /*fSubtractFeeFromAmount=*/true});
         new_coin_control.destChange = CNoDestination(); } *)
Definition bump_split (o : otx) (b : bump_opts) : option (option script * list recipient) :=
  let outs := base_outs o b in
  let r := split_outs 0 (b_oci b) outs None in
  match snd r with
  | [] => match fst r with
          | None => None
          | Some d => Some (None, [mkRcp d (zsum (map (fun x => to_value (oo_out x)) outs)) true])
          end
  | _ => Some r
  end.

(* argument checks at the top of CreateRateBumpTransaction:
     if (!outputs.empty() && original_change_index.has_value()) -> INVALID_PARAMETER (incompatible options)
     if (original_change_index.has_value() && original_change_index.value() >= tx->vout.size()) -> INVALID_PARAMETER *)
Definition option_error (o : otx) (b : bump_opts) : option refusal :=
  match b_new_outs b, b_oci b with
  | _ :: _, Some _ => Some ROptions
  | _, Some i => if (length (o_outs o) <=? i)%nat then Some ROciRange else None
  | _, None => None
  end.

(* which refusal (if any) the code reaches before it asks CreateTransaction, in the code's order: option checks, then
     if (coin.out.IsNull()) { "%s:%u is already spent"; return Result::MISC_ERROR; }
   for each input, then PreconditionChecks, then the recipient split *)
Definition expected_refusal (o : otx) (b : bump_opts) (f : facts) : option refusal :=
  match option_error o b with
  | Some r => Some r
  | None =>
      if negb (f_inputs_unspent f) then Some RInputsSpent else
      match precondition f (b_require_mine b) with
      | Some r => Some r
      | None => match bump_split o b with None => Some RNoRecipient | Some _ => None end
      end
  end.

(* ---------------------------------------------------------------------------------------------- *)
(* Feerate of the replacement.  feebumper.cpp EstimateFeeRate:
     int64_t txSize = GetVirtualTransactionSize( *(wtx.GetTx()));
     CFeeRate feerate(old_fee, txSize);
     feerate += CFeeRate(1);                  // operator+=: FeePerVSize(GetFeePerK() + a.GetFeePerK(), 1000); GetFeePerK rounds down
     CFeeRate node_incremental_relay_fee = wallet.chain().relayIncrementalFee();
     CFeeRate wallet_incremental_relay_fee = CFeeRate(WALLET_INCREMENTAL_RELAY_FEE);
     feerate += std::max(node_incremental_relay_fee, wallet_incremental_relay_fee);
     CFeeRate min_feerate(GetMinimumFeeRate(wallet, coin_control).fee_rate);
     return std::max(feerate, min_feerate); *)
Definition WALLET_INCREMENTAL_RELAY_FEE : Z := 5000.
Definition estimate_rate (e : env) (incr old_fee old_vsize : Z) (rq0 : request) : Z :=
  Z.max (old_fee * 1000 / old_vsize + 1 + Z.max incr WALLET_INCREMENTAL_RELAY_FEE) (effective_rate e rq0).

(* CheckFeeRate (only with an explicit feerate), on maxTxSize = maximum signed size of the ORIGINAL inputs with the new outputs:
     if (newFeerate.GetFeePerK() < minMempoolFeeRate.GetFeePerK()) -> WALLET_ERROR
     CAmount new_total_fee = newFeerate.GetFee(maxTxSize) + combined_bump_fee.value();
     CAmount minTotalFee = old_fee + incrementalRelayFee.GetFee(maxTxSize);
     if (new_total_fee < minTotalFee) -> INVALID_PARAMETER "Insufficient total fee"
     CAmount requiredFee = GetRequiredFee(wallet, maxTxSize);
     if (new_total_fee < requiredFee) -> INVALID_PARAMETER
     if (new_total_fee > max_tx_fee) -> WALLET_ERROR *)
Inductive feerate_verdict := FrOk | FrBelowMempoolMin | FrInsufficient | FrBelowRequired | FrAboveMax.
Definition check_fee_rate (e : env) (incr new_rate max_size old_fee bump : Z) : feerate_verdict :=
  if new_rate <? e_mempool_min e then FrBelowMempoolMin
  else let new_total := get_fee new_rate max_size + bump in
       if new_total <? old_fee + get_fee incr max_size then FrInsufficient
       else if new_total <? get_fee (required_rate e) max_size then FrBelowRequired
       else if e_max_fee e <? new_total then FrAboveMax
       else FrOk.

(* ---------------------------------------------------------------------------------------------- *)
(* The request CreateRateBumpTransaction hands to CreateTransaction:
     for (const auto& inputs : tx->vin) new_coin_control.Select(COutPoint(inputs.prevout));
     new_coin_control.m_allow_other_inputs = true;
     new_coin_control.m_min_depth = 1;        // We cannot source new unconfirmed inputs(bip125 rule 2)
     CreateTransaction(wallet, recipients, /*change_pos=*/std::nullopt, new_coin_control, false); *)
Definition bump_request (o : otx) (rate : Z) (dest : option script) (rcps : list recipient) : request :=
  mkReq rcps (map ti_id (o_ins o)) true false 1 9999999 (Some rate) false dest.

Definition new_rate (e : env) (incr : Z) (o : otx) (b : bump_opts) (dest : option script) (rcps : list recipient) : Z :=
  match b_feerate b with
  | Some r => r
  | None => estimate_rate e incr (o_fee o) (o_vsize o)
              (mkReq rcps (map ti_id (o_ins o)) true false 0 9999999 None false dest)
  end.

(* the replacement as reported (no change position is returned by CreateRateBumpTransaction: the checker looks for one) *)
Record bumped := mkBumped {
  n_ins : list txin; n_outs : list txout;
  n_fee : Z;        (* new_fee as returned *)
  n_old_fee : Z;    (* old_fee as returned *)
  n_vsize : Z; n_max_vsize : Z; n_bump : Z
}.

Definition as_result (n : bumped) (cp : option nat) : result :=
  mkRes (n_ins n) (n_outs n) (n_fee n) cp (n_vsize n) (n_max_vsize n) (n_bump n) true.

Definition cp_candidates (n : bumped) : list (option nat) :=
  None :: map Some (seq 0 (length (n_outs n))).

(* every input of the original is an input of the replacement, spending the same coin value *)
Definition ck_inputs_kept (o : otx) (n : bumped) : bool :=
  forallb (fun i => existsb (fun j => (ti_id i =? ti_id j) && (ti_value i =? ti_value j)) (n_ins n)) (o_ins o).

(* BIP125 rules 3 and 4 on the replacement's real size: it pays at least the old fee plus the incremental relay fee for its own size *)
Definition ck_pays_increment (incr : Z) (o : otx) (n : bumped) : bool :=
  (n_old_fee n =? o_fee o) && (o_fee o + get_fee incr (n_vsize n) <=? n_fee n) && (0 <=? incr).

Definition valid_bump (w : list wcoin) (e : env) (incr : Z) (o : otx) (b : bump_opts) (f : facts) (n : bumped) : bool :=
  match expected_refusal o b f with
  | Some _ => false
  | None =>
      match bump_split o b with
      | None => false
      | Some (dest, rcps) =>
          let rate := new_rate e incr o b dest rcps in
          let rq := bump_request o rate dest rcps in
          ck_inputs_kept o n && ck_pays_increment incr o n &&
          existsb (fun cp => valid_funding w e rq (as_result n cp)) (cp_candidates n)
      end
  end.
