(* C36: who is punished for what (src/net_processing.cpp: Misbehaving, MaybePunishNodeForBlock, MaybeDiscourageAndDisconnect,
   ProcessInvalidTx).  BlockValidationResult / TxValidationResult values are the integers of the compiled enum (gen/Params_gen.v). *)
From BV Require Import lib.Ints gen.Params_gen.
Local Open Scope Z_scope.

(* void PeerManagerImpl::MaybePunishNodeForBlock(nodeid, state, via_compact_block, message): is Misbehaving(peer) called?
     case BLOCK_RESULT_UNSET: break;                      case BLOCK_HEADER_LOW_WORK: break;
     case BLOCK_CONSENSUS: case BLOCK_MUTATED:            if (!via_compact_block) { Misbehaving; return; } break;
     case BLOCK_CACHED_INVALID:                           if (peer && !via_compact_block && !peer->m_is_inbound) { Misbehaving; return; } break;
     case BLOCK_INVALID_HEADER: case BLOCK_INVALID_PREV:  Misbehaving; return;
     case BLOCK_MISSING_PREV:                             Misbehaving; return;
     case BLOCK_TIME_FUTURE: break; *)
Definition punish_block (result : Z) (via_compact_block inbound : bool) : bool :=
  if result =? BVR_UNSET then false
  else if result =? BVR_HEADER_LOW_WORK then false
  else if (result =? BVR_CONSENSUS) || (result =? BVR_MUTATED) then negb via_compact_block
  else if result =? BVR_CACHED_INVALID then negb via_compact_block && negb inbound
  else if (result =? BVR_INVALID_HEADER) || (result =? BVR_INVALID_PREV) then true
  else if result =? BVR_MISSING_PREV then true
  else if result =? BVR_TIME_FUTURE then false
  else false.   (* not a value of the enum *)

(* ProcessInvalidTx(nodeid, tx, state, first_time_failure) and the rest of the "tx" message handler contain no call of Misbehaving:
   whatever the TxValidationResult, the sender's m_should_discourage flag is left alone. *)
Definition punish_tx (result : Z) : bool := false.

Record outcome := mkOutcome { o_disconnect : bool; o_discourage : bool }.

(* bool PeerManagerImpl::MaybeDiscourageAndDisconnect(CNode& pnode, Peer& peer)
     if (!peer.m_should_discourage) return false;  peer.m_should_discourage = false;
     if (pnode.HasPermission(NetPermissionFlags::NoBan)) return false;
     if (pnode.IsManualConn()) return false;
     if (pnode.addr.IsLocal()) { pnode.fDisconnect = true; return true; }
     if (m_banman) m_banman->Discourage(pnode.addr);  m_connman.DisconnectNode(pnode.addr);  return true; *)
Definition discourage_and_disconnect (should_discourage noban manual local : bool) : outcome :=
  if negb should_discourage then mkOutcome false false
  else if noban then mkOutcome false false
  else if manual then mkOutcome false false
  else if local then mkOutcome true false
  else mkOutcome true true.

(* the two steps together: what happens to the peer a block verdict is attributed to *)
Definition block_outcome (result : Z) (via_compact_block inbound noban manual local : bool) : outcome :=
  discourage_and_disconnect (punish_block result via_compact_block inbound) noban manual local.
Definition tx_outcome (result : Z) (noban manual local : bool) : outcome :=
  discourage_and_disconnect (punish_tx result) noban manual local.
