(* Transaction download bookkeeping under witness malleation (property C64).  Transcribed from
     src/node/txdownloadman_impl.cpp  TxDownloadManagerImpl::{ActiveTipChange, BlockConnected, BlockDisconnected,
                                      AlreadyHaveTx, ConnectedPeer, DisconnectedPeer, AddTxAnnouncement,
                                      MaybeAddOrphanResolutionCandidate, GetRequestsToSend, ReceivedNotFound,
                                      MempoolAcceptedTx, MempoolRejectedTx, ReceivedTx}
     src/net_processing.cpp           the TX message handling around it (ReceivedTx -> ProcessTransaction ->
                                      ProcessValidTx / ProcessInvalidTx, ProcessOrphanTx)
   Executable definitions only.

   Abstractions (each of a component that has its own property, not of the code above):
   - the three rolling bloom filters are exact sets (lists) of hashes: no false positives, no forgetting;
   - the orphanage is a list of (transaction, announcers) keyed by wtxid, without its size limits (C35);
   - the request tracker keeps, per (peer, hash), CANDIDATE / REQUESTED / COMPLETED; time is abstracted to a
     `poll` step at which every delay has elapsed and every outstanding request has expired, and which asks
     every peer in turn (C34 has the scheduling);
   - mempool validation is a parameter V : mempool -> confirmed txids -> tx -> verdict;
   - every peer is a wtxid-relay, preferred peer below its announcement limits; 1p1c package validation and
     the extra-compact-block bookkeeping are left out. *)
From BV Require Import lib.Ints.
Local Open Scope Z_scope.

Definition mem (h : Z) (l : list Z) : bool := existsb (Z.eqb h) l.

(* a transaction as this code sees it: its two hashes and the txids of its inputs (GetUniqueParents) *)
Record tx := mkTx { txid : Z; wtxid : Z; parents : list Z }.
Definition has_witness (t : tx) : bool := negb (txid t =? wtxid t).     (* HasWitness(): txid <> wtxid *)

(* TxValidationResult classes MempoolRejectedTx distinguishes *)
Inductive verdict := VOk | VMissingInputs | VWitnessStripped | VInputsNotStandard | VReconsiderable | VOther.

Inductive astate := ACand | AReq | ADone.
Record ann := mkAnn { a_peer : Z; a_hash : Z; a_wtx : bool; a_st : astate }.

Record dl := mkDl {
  rej : list Z;                    (* RecentRejectsFilter *)
  recf : list Z;                   (* RecentRejectsReconsiderableFilter *)
  conf : list Z;                   (* RecentConfirmedTransactionsFilter *)
  orph : list (tx * list Z);       (* m_orphanage: orphan, announcers *)
  pool : list tx;                  (* m_opts.m_mempool *)
  chain : list Z;                  (* txids confirmed in the active chain *)
  track : list ann;                (* m_txrequest *)
  peers : list Z                   (* m_peer_info *)
}.
Definition dl_empty : dl := mkDl [] [] [] [] [] [] [] [].

Definition set_rej s v := mkDl v (recf s) (conf s) (orph s) (pool s) (chain s) (track s) (peers s).
Definition set_recf s v := mkDl (rej s) v (conf s) (orph s) (pool s) (chain s) (track s) (peers s).
Definition set_conf s v := mkDl (rej s) (recf s) v (orph s) (pool s) (chain s) (track s) (peers s).
Definition set_orph s v := mkDl (rej s) (recf s) (conf s) v (pool s) (chain s) (track s) (peers s).
Definition set_pool s v := mkDl (rej s) (recf s) (conf s) (orph s) v (chain s) (track s) (peers s).
Definition set_chain s v := mkDl (rej s) (recf s) (conf s) (orph s) (pool s) v (track s) (peers s).
Definition set_track s v := mkDl (rej s) (recf s) (conf s) (orph s) (pool s) (chain s) v (peers s).
Definition set_peers s v := mkDl (rej s) (recf s) (conf s) (orph s) (pool s) (chain s) (track s) v.

(* ---- orphanage (by wtxid) ---- *)
Definition orph_find (s : dl) (w : Z) : option (tx * list Z) := find (fun o => wtxid (fst o) =? w) (orph s).
Definition orph_have (s : dl) (w : Z) : bool := match orph_find s w with Some _ => true | None => false end.
Definition orph_erase (s : dl) (w : Z) : dl := set_orph s (filter (fun o => negb (wtxid (fst o) =? w)) (orph s)).
(* AddTx(ptx, peer): new entry, or the peer becomes one more announcer *)
Definition orph_add (s : dl) (t : tx) (p : Z) : dl :=
  if orph_have s (wtxid t) then
    set_orph s (map (fun o => if wtxid (fst o) =? wtxid t then (fst o, if mem p (snd o) then snd o else snd o ++ [p]) else o) (orph s))
  else set_orph s (orph s ++ [(t, [p])]).
Definition orph_from_peer (s : dl) (w p : Z) : bool :=
  match orph_find s w with Some (_, a) => mem p a | None => false end.

(* ---- mempool lookups: exists(Txid) / exists(Wtxid) ---- *)
Definition pool_has_txid (s : dl) (h : Z) : bool := existsb (fun t => txid t =? h) (pool s).
Definition pool_has_wtxid (s : dl) (h : Z) : bool := existsb (fun t => wtxid t =? h) (pool s).

(* ---- request tracker ---- *)
Definition tr_find (s : dl) (p h : Z) : option ann := find (fun a => (a_peer a =? p) && (a_hash a =? h)) (track s).
(* ReceivedInv: no-op when (peer, hash) is already tracked *)
Definition tr_inv (s : dl) (p h : Z) (w : bool) : dl :=
  match tr_find s p h with Some _ => s | None => set_track s (track s ++ [mkAnn p h w ACand]) end.
(* ForgetTxHash *)
Definition tr_forget (s : dl) (h : Z) : dl := set_track s (filter (fun a => negb (a_hash a =? h)) (track s)).
(* a hash whose announcements are all COMPLETED is dropped entirely *)
Definition tr_live (l : list ann) (h : Z) : bool :=
  existsb (fun a => (a_hash a =? h) && match a_st a with ADone => false | _ => true end) l.
Definition tr_gc (l : list ann) : list ann := filter (fun a => tr_live l (a_hash a)) l.
(* ReceivedResponse(peer, hash): that announcement becomes COMPLETED *)
Definition tr_response (s : dl) (p h : Z) : dl :=
  set_track s (tr_gc (map (fun a => if (a_peer a =? p) && (a_hash a =? h) then mkAnn (a_peer a) (a_hash a) (a_wtx a) ADone else a) (track s))).
(* DisconnectedPeer *)
Definition tr_disconnect (s : dl) (p : Z) : dl := set_track s (tr_gc (filter (fun a => negb (a_peer a =? p)) (track s))).
(* GetCandidatePeers(hash): peers with a non-COMPLETED announcement *)
Definition tr_candidates (s : dl) (h : Z) : list Z :=
  map a_peer (filter (fun a => (a_hash a =? h) && match a_st a with ADone => false | _ => true end) (track s)).

(* ---- bool TxDownloadManagerImpl::AlreadyHaveTx(const GenTxid& gtxid, bool include_reconsiderable):
        if (m_orphanage->HaveTx(Wtxid::FromUint256(hash))) return true;          (the hash "cast" to a wtxid)
        if (include_reconsiderable && RecentRejectsReconsiderableFilter().contains(hash)) return true;
        if (RecentConfirmedTransactionsFilter().contains(hash)) return true;
        return RecentRejectsFilter().contains(hash) || m_opts.m_mempool.exists(gtxid);                         *)
Definition already_have (s : dl) (is_wtx : bool) (h : Z) (include_rec : bool) : bool :=
  orph_have s h || (include_rec && mem h (recf s)) || mem h (conf s) || mem h (rej s)
  || (if is_wtx then pool_has_wtxid s h else pool_has_txid s h).

(* ---- MaybeAddOrphanResolutionCandidate(unique_parents, wtxid, nodeid, now):
        unknown peer -> false; HaveTxFromPeer -> false; ReceivedInv(nodeid, parent_txid) for every parent; true *)
Definition maybe_add_candidate (s : dl) (ups : list Z) (w p : Z) : dl * bool :=
  if negb (mem p (peers s)) then (s, false)
  else if orph_from_peer s w p then (s, false)
  else (fold_left (fun st par => tr_inv st p par false) ups s, true).

(* ---- AddTxAnnouncement(peer, gtxid, now) ---- *)
Definition add_announcement (s : dl) (p : Z) (is_wtx : bool) (h : Z) : dl :=
  match (if is_wtx then orph_find s h else None) with
  | Some (o, _) =>
      let ups := filter (fun par => negb (already_have s false par false)) (parents o) in
      match ups with
      | [] => s
      | _ => let (s1, ok) := maybe_add_candidate s ups h p in
             if ok then orph_add s1 o p else s1                  (* AddAnnouncer *)
      end
  | None =>
      if already_have s is_wtx h true then s
      else if negb (mem p (peers s)) then s
      else tr_inv s p h is_wtx
  end.

(* ---- the poll: SetTimePoint far in the future (requests expire, candidates become ready), then for every hash
        that has a candidate: GetRequestsToSend asks one of them unless AlreadyHaveTx, in which case ForgetTxHash.
        Returns the hashes asked for (in announcement order). *)
Definition tr_expire (l : list ann) : list ann :=
  tr_gc (map (fun a => match a_st a with AReq => mkAnn (a_peer a) (a_hash a) (a_wtx a) ADone | _ => a end) l).
Fixpoint poll_loop (todo : list ann) (s : dl) (asked : list Z) : dl * list Z :=
  match todo with
  | [] => (s, asked)
  | a :: r =>
      match tr_find s (a_peer a) (a_hash a) with
      | Some a' =>
          match a_st a' with
          | ACand =>
              if existsb (fun b => (a_hash b =? a_hash a) && match a_st b with AReq => true | _ => false end) (track s)
              then poll_loop r s asked          (* another peer was already asked in this poll *)
              else if already_have s (a_wtx a) (a_hash a) false then poll_loop r (tr_forget s (a_hash a)) asked
              else poll_loop r (set_track s (map (fun b => if (a_peer b =? a_peer a) && (a_hash b =? a_hash a)
                                                            then mkAnn (a_peer b) (a_hash b) (a_wtx b) AReq else b) (track s)))
                             (asked ++ [a_hash a])
          | _ => poll_loop r s asked
          end
      | None => poll_loop r s asked
      end
  end.
Definition poll (s : dl) : dl * list Z :=
  let s1 := set_track s (tr_expire (track s)) in
  poll_loop (track s1) s1 [].

Section Validation.
  Variable V : list tx -> list Z -> tx -> verdict.      (* m_chainman.ProcessTransaction on the current mempool / chain *)

  (* ---- MempoolAcceptedTx(tx): ForgetTxHash(txid), ForgetTxHash(wtxid); AddChildrenToWorkSet; EraseTx(wtxid) ---- *)
  Definition mempool_accepted (s : dl) (t : tx) : dl :=
    let s := tr_forget (tr_forget s (txid t)) (wtxid t) in
    set_pool (orph_erase s (wtxid t)) (pool s ++ [t]).

  (* ---- MempoolRejectedTx(ptx, state, nodeid, first_time_failure) ---- *)
  Definition mempool_rejected (s : dl) (t : tx) (r : verdict) (p : Z) (first : bool) : dl :=
    let s1 :=
      match r with
      | VMissingInputs =>
          if first && negb (mem (wtxid t) (rej s)) then
            (* fRejectedParents: a parent in recent rejects, or more than one in the reconsiderable filter and not in the mempool *)
            let rejected := existsb (fun par => mem par (rej s)) (parents t)
                            || (2 <=? Z.of_nat (length (filter (fun par => negb (mem par (rej s)) && mem par (recf s) && negb (pool_has_txid s par)) (parents t)))) in
            if negb rejected then
              let ups := filter (fun par => negb (already_have s false par false)) (parents t) in
              let cands := p :: tr_candidates s (txid t) ++ (if has_witness t then tr_candidates s (wtxid t) else []) in
              let s2 := fold_left (fun st q => let (st', ok) := maybe_add_candidate st ups (wtxid t) q in
                                               if ok then orph_add st' t q else st') cands s in
              tr_forget (tr_forget s2 (txid t)) (wtxid t)
            else
              let s2 := set_rej s (rej s ++ [txid t; wtxid t]) in
              tr_forget (tr_forget s2 (txid t)) (wtxid t)
          else s
      | VWitnessStripped => s
      | VOk => s          (* not called with a valid result *)
      | _ =>
          let s2 := match r with
                    | VReconsiderable => set_recf s (recf s ++ [wtxid t])
                    | _ => set_rej s (rej s ++ [wtxid t])
                    end in
          let s3 := tr_forget s2 (wtxid t) in
          match r with
          | VInputsNotStandard => if has_witness t then tr_forget (set_rej s3 (rej s3 ++ [txid t])) (txid t) else s3
          | _ => s3
          end
      end in
    match r with
    | VMissingInputs => s1
    | _ => orph_erase s1 (wtxid t)           (* EraseTx unless still missing inputs *)
    end.

  (* orphans are reconsidered peer by peer (ProcessOrphanTx runs per peer, here in ascending NodeId), each peer's
     in the order they were announced: a stable insertion sort on the announcer *)
  Definition first_announcer (o : tx * list Z) : Z := match snd o with q :: _ => q | [] => 0 end.
  Fixpoint insert_by_peer (o : tx * list Z) (l : list (tx * list Z)) : list (tx * list Z) :=
    match l with
    | [] => [o]
    | x :: r => if first_announcer o <? first_announcer x then o :: l else x :: insert_by_peer o r
    end.
  Definition order_by_peer (l : list (tx * list Z)) : list (tx * list Z) := fold_left (fun acc o => insert_by_peer o acc) l [].

  (* ---- validation of a transaction and, after an acceptance, of the orphans that spend it (ProcessOrphanTx
          drained for every peer): depth-first with fuel ---- *)
  Fixpoint validate_and_apply (fuel : nat) (s : dl) (p : Z) (t : tx) (first : bool) : dl :=
    match V (pool s) (chain s) t with
    | VOk =>
        let s1 := mempool_accepted s t in
        match fuel with
        | O => s1
        | S f =>
            fold_left (fun st o =>
                         if orph_have st (wtxid (fst o)) then
                           validate_and_apply f st (match snd o with q :: _ => q | [] => p end) (fst o) false
                         else st)
                      (order_by_peer (filter (fun o => mem (txid t) (parents (fst o))) (orph s1))) s1
        end
    | r => mempool_rejected s t r p first
    end.

  (* ---- ReceivedTx(nodeid, ptx) followed by validation when it says so ---- *)
  Definition received_tx (s : dl) (p : Z) (t : tx) : dl :=
    let s := tr_response s p (txid t) in
    let s := if has_witness t then tr_response s p (wtxid t) else s in
    if already_have s true (wtxid t) false then s
    else if mem (wtxid t) (recf s) then s
    else validate_and_apply (length (orph s)) s p t true.

  (* ---- BlockConnected(pblock) then ActiveTipChange(): the block's transactions leave the mempool and become
          spendable; orphans included in the block are erased; their children are reconsidered ---- *)
  Definition block_connected (s : dl) (txs : list tx) : dl :=
    (* EraseForBlock: orphans included in the block or conflicting with it (same txid = same inputs) *)
    let s := set_orph s (filter (fun o => negb (existsb (fun b => (wtxid b =? wtxid (fst o)) || (txid b =? txid (fst o))) txs)) (orph s)) in
    let s := set_conf s (conf s ++ flat_map (fun b => if has_witness b then [txid b; wtxid b] else [txid b]) txs) in
    let s := fold_left (fun st b => tr_forget (tr_forget st (txid b)) (wtxid b)) txs s in
    let s := set_pool s (filter (fun t => negb (existsb (fun b => txid b =? txid t) txs)) (pool s)) in
    let s := set_chain s (chain s ++ map txid txs) in
    let s := set_recf (set_rej s []) [] in
    fold_left (fun st o =>
                 if orph_have st (wtxid (fst o)) then
                   validate_and_apply (length (orph st)) st (match snd o with q :: _ => q | [] => 0 end) (fst o) false
                 else st)
              (order_by_peer (filter (fun o => existsb (fun b => mem (txid b) (parents (fst o))) txs) (orph s))) s.

  Inductive event :=
  | EConnect (p : Z)
  | EDisconnect (p : Z)
  | EInv (p : Z) (is_wtx : bool) (h : Z)
  | ETx (p : Z) (t : tx)
  | ENotFound (p : Z) (h : Z)
  | EPoll
  | EBlock (txs : list tx)
  | EReorg.

  Definition step (s : dl) (e : event) : dl * list Z :=
    match e with
    | EConnect p => (if mem p (peers s) then s else set_peers s (peers s ++ [p]), [])
    | EDisconnect p =>
        (* m_orphanage->EraseForPeer; m_txrequest.DisconnectedPeer; m_peer_info.erase *)
        let s := set_orph s (filter (fun o => match snd o with [] => false | _ => true end)
                               (map (fun o => (fst o, filter (fun q => negb (q =? p)) (snd o))) (orph s))) in
        (set_peers (tr_disconnect s p) (filter (fun q => negb (q =? p)) (peers s)), [])
    | EInv p w h => (add_announcement s p w h, [])
    | ETx p t => (received_tx s p t, [])
    | ENotFound p h => (tr_response s p h, [])
    | EPoll => poll s
    | EBlock txs => (block_connected s txs, [])
    | EReorg => (set_recf (set_rej (set_conf s []) []) [], [])     (* BlockDisconnected, then the tip change *)
    end.

  Fixpoint run (s : dl) (evs : list event) (asked : list (list Z)) : dl * list (list Z) :=
    match evs with
    | [] => (s, asked)
    | e :: r => let (s', a) := step s e in
                run s' r (match e with EPoll => asked ++ [a] | _ => asked end)
    end.
End Validation.

(* ---- the property's predicate on one observed history: the genuine transaction (txid t, wtxid w) is never
        "already have" by its wtxid before it is delivered, it is asked for at the first poll after an honest
        announcement, and it is in the mempool at the end when validation accepts it ---- *)
Definition holds_c64 (ah_before_delivery : bool) (asked_after_announcement : bool) (valid_at_delivery : bool)
                     (in_pool_at_end : bool) : bool :=
  negb ah_before_delivery && asked_after_announcement && (negb valid_at_delivery || in_pool_at_end).
