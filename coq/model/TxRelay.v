(* C39 (relay part): which unconfirmed transactions a peer can obtain with GETDATA.

   src/net_processing.cpp  PeerManagerImpl::FindTxForGetData:
       txinfo = m_mempool.info_for_relay(id, tx_relay.m_last_inv_sequence);   if (txinfo.tx) return it;
       if (m_most_recent_block_txs has gtxid) return it;   return {};
   src/txmempool.h  CTxMemPool::info_for_relay(id, last_sequence):
       return (i.has_value() && i.value()->GetSequence() < last_sequence) ? GetInfo(it) : TxMempoolInfo{};
   src/validation.cpp  MemPoolAccept::PreChecks:  entry_sequence = bypass_limits ? 0 : m_pool.GetSequence();
                       after acceptance: TransactionAddedToMempool(.., m_pool.GetAndIncrementSequence())
   src/net_processing.cpp  SendMessages: when it announces transactions to the peer (m_tx_inventory_to_send not empty at a trickle,
                       or the answer to a BIP35 "mempool" request):  tx_relay->m_last_inv_sequence = m_mempool.GetSequence();
                       initial value: uint64_t m_last_inv_sequence{1};  CTxMemPool: m_sequence_number{1}.

   The state carries two ghost fields (a logical clock, and per entry / per peer the clock value of the admission / of the last
   announcement snapshot) so that "entered the mempool before the node last sent that peer announcements" can be stated. *)
From BV Require Import lib.Ints.
Local Open Scope Z_scope.

Record mentry := mkMentry { m_tx : Z; m_seq : Z; m_time : Z }.
Record rpeer := mkRpeer { pr_id : Z; pr_last_inv : Z; pr_snap : option Z }.
Record rst := mkRst {
  r_seq : Z;               (* CTxMemPool::m_sequence_number *)
  r_pool : list mentry;    (* mempool entries *)
  r_recent : list Z;       (* m_most_recent_block_txs *)
  r_peers : list rpeer;    (* peers with a TxRelay *)
  r_clock : Z              (* ghost: number of events so far *)
}.
(* m_sequence_number starts at 1; [rinit_at s0] is the state of a node whose mempool is empty after s0 - 1 earlier sequence steps *)
Definition rinit_at (s0 : Z) : rst := mkRst s0 [] [] [] 0.
Definition rinit : rst := rinit_at 1.

Inductive revent : Type :=
| EAdd (tx : Z) (bypass_limits : bool)   (* a transaction is accepted into the mempool (bypass_limits: re-added from a disconnected block) *)
| ERemove (tx : Z)                       (* removed for any reason other than a block (expiry, eviction, replacement, conflict) *)
| EBlock (txs : list Z)                  (* a block is connected: its transactions leave the mempool (CTxMemPool::removeUnchecked bumps the
                                            sequence once per removed entry) and become the most recent block *)
| EPeer (p : Z)                          (* a peer with transaction relay is initialised *)
| ESnapshot (p : Z)                      (* SendMessages announces transactions to p (or answers its "mempool" request) *)
| EPrivate (tx : Z).                     (* BroadcastTransaction(NO_MEMPOOL_PRIVATE_BROADCAST): the transaction goes to the private-broadcast queue only *)

Fixpoint find_entry (tx : Z) (l : list mentry) : option mentry :=
  match l with [] => None | e :: r => if m_tx e =? tx then Some e else find_entry tx r end.
Fixpoint find_peer (p : Z) (l : list rpeer) : option rpeer :=
  match l with [] => None | x :: r => if pr_id x =? p then Some x else find_peer p r end.
Definition mem (x : Z) (l : list Z) : bool := existsb (Z.eqb x) l.

Definition rstep (s : rst) (e : revent) : rst :=
  let clk := r_clock s + 1 in
  match e with
  | EAdd tx bypass =>
    match find_entry tx (r_pool s) with
    | Some _ => mkRst (r_seq s) (r_pool s) (r_recent s) (r_peers s) clk     (* already in the mempool: rejected, nothing changes *)
    | None => mkRst (wrapu64 (r_seq s + 1)) (mkMentry tx (if bypass then 0 else r_seq s) (r_clock s) :: r_pool s) (r_recent s) (r_peers s) clk
    end
  | ERemove tx =>
    mkRst (match find_entry tx (r_pool s) with Some _ => wrapu64 (r_seq s + 1) | None => r_seq s end)
          (filter (fun x => negb (m_tx x =? tx)) (r_pool s)) (r_recent s) (r_peers s) clk
  | EBlock txs =>
    mkRst (wrapu64 (r_seq s + Z.of_nat (length (filter (fun x => mem (m_tx x) txs) (r_pool s)))))
          (filter (fun x => negb (mem (m_tx x) txs)) (r_pool s)) txs (r_peers s) clk
  | EPeer p =>
    match find_peer p (r_peers s) with
    | Some _ => mkRst (r_seq s) (r_pool s) (r_recent s) (r_peers s) clk
    | None => mkRst (r_seq s) (r_pool s) (r_recent s) (mkRpeer p 1 None :: r_peers s) clk
    end
  | ESnapshot p =>
    mkRst (r_seq s) (r_pool s) (r_recent s)
          (map (fun x => if pr_id x =? p then mkRpeer p (r_seq s) (Some (r_clock s)) else x) (r_peers s)) clk
  | EPrivate tx => mkRst (r_seq s) (r_pool s) (r_recent s) (r_peers s) clk
  end.

(* FindTxForGetData: is the GETDATA of peer p for tx answered with the transaction? *)
Definition serve_getdata (s : rst) (p tx : Z) : bool :=
  match find_peer p (r_peers s) with
  | None => false   (* tx_relay == nullptr: the request is ignored *)
  | Some x =>
    (match find_entry tx (r_pool s) with Some e => m_seq e <? pr_last_inv x | None => false end) || mem tx (r_recent s)
  end.
