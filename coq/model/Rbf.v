(* Replace-by-fee rules.  Transcribed from
     src/policy/rbf.cpp        PaysForRBF, GetEntriesForConflicts (what it computes), EntriesAndTxidsDisjoint
     src/validation.cpp        MemPoolAccept::PreChecks (conflict collection, TRUC sibling), ReplacementChecks
     src/policy/truc_policy.cpp SingleTRUCChecks (the part that selects a sibling for eviction)
   plus the declarative notions the property talks about and the executable check applied to every
   accepted replacement observed on the real node (soundness in proofs/RbfLemmas.v).

   A mempool is the list of its entries in the order they were accepted (so every in-mempool parent
   precedes its children).  An outpoint is (0, k) for the k-th confirmed coin, (S t, i) for output i of
   the mempool transaction with id t. *)
From BV Require Import lib.Ints gen.Params_gen model.Fee model.Lin.
Local Open Scope Z_scope.

Record entry := mk_entry {
  e_id : nat;
  e_fee : Z;        (* GetModifiedFee() *)
  e_vsize : Z;      (* GetTxSize() *)
  e_ver : Z;        (* tx.version *)
  e_ins : list (nat * nat)
}.

Definition ids (pool : list entry) : list nat := map e_id pool.

(* ------------------------------------------------------------------------------------------- *)
(* std::optional<std::string> PaysForRBF(CAmount original_fees, CAmount replacement_fees,
                                         size_t replacement_vsize, CFeeRate relay_fee, const Txid& txid)
   {
       if (replacement_fees < original_fees) return "... less fees than conflicting txs";
       CAmount additional_fees = replacement_fees - original_fees;
       if (additional_fees < relay_fee.GetFee(replacement_vsize)) return "... not enough additional fees to relay";
       return std::nullopt;
   }
   relay_fee = m_pool.m_opts.incremental_relay_feerate = CFeeRate(incr) = FeePerVSize(incr, 1000);
   true = std::nullopt (pays). *)
Definition pays_for_rbf (original_fees replacement_fees replacement_vsize incr : Z) : bool :=
  if replacement_fees <? original_fees then false
  else
    let additional_fees := wrap64 (replacement_fees - original_fees) in
    if additional_fees <? get_fee (incr, 1000) (wrap32 replacement_vsize) then false
    else true.

(* ------------------------------------------------------------------------------------------- *)
(* PreChecks: for (const CTxIn &txin : tx.vin) if (ptxConflicting = m_pool.GetConflictTx(txin.prevout)) m_conflicts.insert(...) *)
Definition op_eqb (a b : nat * nat) : bool := Nat.eqb (fst a) (fst b) && Nat.eqb (snd a) (snd b).
Definition shares_input (a b : list (nat * nat)) : bool := existsb (fun op => existsb (op_eqb op) b) a.
Definition input_conflicts (pool : list entry) (cand_ins : list (nat * nat)) : list nat :=
  map e_id (filter (fun e => shares_input (e_ins e) cand_ins) pool).

(* transactions whose outputs are spent *)
Fixpoint tx_parents (ins : list (nat * nat)) : list nat :=
  match ins with
  | [] => []
  | (S t, _) :: r => t :: tx_parents r
  | (O, _) :: r => tx_parents r
  end.

Definition has_parent_in (marked : list nat) (ins : list (nat * nat)) : bool :=
  existsb (fun t => memn t marked) (tx_parents ins).

(* GetEntriesForConflicts: for each direct conflict, pool.CalculateDescendants(it, all_conflicts).
   One pass in acceptance order suffices because parents precede children. *)
Definition mark_step (marked : list nat) (e : entry) : list nat :=
  if memn (e_id e) marked then marked
  else if has_parent_in marked (e_ins e) then e_id e :: marked
  else marked.
Definition mark_desc (pool : list entry) (start : list nat) : list nat := fold_left mark_step pool start.

(* in-mempool ancestors of an input list (for the sibling rule): parents, then their ancestors; one pass
   in reverse acceptance order *)
Definition anc_step (marked : list nat) (e : entry) : list nat :=
  if memn (e_id e) marked then filter (fun t => negb (memn t marked)) (tx_parents (e_ins e)) ++ marked else marked.
Definition mark_anc (pool : list entry) (start : list nat) : list nat := fold_left anc_step (rev pool) start.

Fixpoint dedup (l : list nat) : list nat :=
  match l with [] => [] | x :: r => if memn x r then dedup r else x :: dedup r end.

Definition find_entry (pool : list entry) (t : nat) : option entry := find (fun e => Nat.eqb (e_id e) t) pool.

(* SingleTRUCChecks, as used by PreChecks with m_allow_sibling_eviction: the sibling that is added to
   the conflicts.  ptx->version == TRUC_VERSION, exactly one in-mempool parent P, P has descendants none
   of which is a direct conflict, GetDescendantCount(P) == 2 and the descendant's GetAncestorCount == 2. *)
Definition truc_sibling (pool : list entry) (cand_ver : Z) (cand_ins : list (nat * nat)) (dc : list nat) : option nat :=
  if negb (cand_ver =? RBF_TRUC_VERSION) then None
  else
    match dedup (filter (fun t => memn t (ids pool)) (tx_parents cand_ins)) with
    | [p] =>
        let desc := filter (fun t => negb (Nat.eqb t p)) (mark_desc pool [p]) in
        match desc with
        | [s] =>
            if memn s dc then None
            else if Nat.eqb (length (dedup (mark_anc pool [s]))) 2 then Some s
            else None
        | _ => None
        end
    | _ => None
    end.

(* the set handed to ReplacementChecks: m_iters_conflicting (incl. the sibling), and what it evicts *)
Definition direct_conflicts (pool : list entry) (cand_ver : Z) (cand_ins : list (nat * nat)) : list nat :=
  let dc0 := input_conflicts pool cand_ins in
  match truc_sibling pool cand_ver cand_ins dc0 with
  | Some s => dc0 ++ [s]
  | None => dc0
  end.
Definition evicted (pool : list entry) (cand_ver : Z) (cand_ins : list (nat * nat)) : list nat :=
  mark_desc pool (direct_conflicts pool cand_ver cand_ins).

Definition fee_of (pool : list entry) (t : nat) : Z :=
  match find_entry pool t with Some e => e_fee e | None => 0 end.
Definition fees_of (pool : list entry) (l : list nat) : Z := fold_right (fun t a => fee_of pool t + a) 0 l.

(* ------------------------------------------------------------------------------------------- *)
(* Declarative notions *)

(* x is a's descendant (or a itself) through spent outputs of mempool transactions *)
Inductive desc (pool : list entry) : nat -> nat -> Prop :=
| desc_refl a : In a (ids pool) -> desc pool a a
| desc_step a p e : desc pool a p -> In e pool -> In p (tx_parents (e_ins e)) -> desc pool a (e_id e).

(* acceptance order: ids distinct, and every spent mempool output belongs to an earlier entry *)
Fixpoint wf_pool (pool : list entry) (earlier : list nat) : Prop :=
  match pool with
  | [] => True
  | e :: r => ~ In (e_id e) earlier /\ (forall t, In t (tx_parents (e_ins e)) -> In t earlier) /\ wf_pool r (e_id e :: earlier)
  end.
Fixpoint wf_pool_b (pool : list entry) (earlier : list nat) : bool :=
  match pool with
  | [] => true
  | e :: r => negb (memn (e_id e) earlier) && forallb (fun t => memn t earlier) (tx_parents (e_ins e)) && wf_pool_b r (e_id e :: earlier)
  end.

(* dependency edges of the mempool graph (parent, child), for cluster membership *)
Definition pool_edges (pool : list entry) : list (nat * nat) :=
  flat_map (fun e => map (fun p => (p, e_id e)) (tx_parents (e_ins e))) pool.
(* same cluster = linked through dependencies (Lin.linked over all mempool transactions) *)
Definition same_cluster (pool : list entry) (a b : nat) : Prop := linked (pool_edges pool) (ids pool) a b.

(* ------------------------------------------------------------------------------------------- *)
(* Executable checks *)
Definition subset_b (a b : list nat) : bool := forallb (fun x => memn x b) a.
Definition same_set (a b : list nat) : bool := subset_b a b && subset_b b a.

(* greedy choice of cluster representatives among the direct conflicts: d joins an existing
   representative r when r reaches d through dependencies (Lin.grow is sound for `linked`) *)
Definition reaches (pool : list entry) (r d : nat) : bool :=
  memn d (grow (length pool) (pool_edges pool) (ids pool) [r]).
Fixpoint cluster_reps (pool : list entry) (dc reps : list nat) : list nat :=
  match dc with
  | [] => reps
  | d :: r => if existsb (fun p => reaches pool p d) reps then cluster_reps pool r reps
              else cluster_reps pool r (d :: reps)
  end.

Fixpoint within_b (c : list FF) (af asz : Z) : bool :=
  match c with
  | [] => true
  | (f, s) :: r =>
      (0 <? s) && (-4611686018427387904 <=? af + f) && (af + f <? 4611686018427387904) &&
      (0 <=? asz + s) && (asz + s <=? INT32_MAX) && within_b r (af + f) (asz + s)
  end.

(* The check applied to every replacement the real node ACCEPTED (cand_ids: the new transaction, or
   the two transactions of a package, whose fees / vsizes are summed and whose inputs are the outpoints
   spent from outside the package; a package is passed a non-TRUC version: no sibling eviction there):
     repl    m_replaced_transactions, after: mempool contents afterwards,
     diag_before / diag_after: chunks of CTxMemPool::GetFeerateDiagram() before / after. *)
Definition rbf_accept_ok (pool : list entry) (cand_ids : list nat) (cand_fee cand_vsize cand_ver : Z)
           (cand_ins : list (nat * nat)) (repl after : list nat) (diag_before diag_after : list FF) : bool :=
  let dc := direct_conflicts pool cand_ver cand_ins in
  let ev := mark_desc pool dc in
  wf_pool_b pool [] && forallb (fun c => negb (memn c (ids pool))) cand_ids &&
  forallb (fun t => memn t (ids pool)) (tx_parents cand_ins) &&
  same_set repl ev &&
  same_set after (cand_ids ++ filter (fun t => negb (memn t ev)) (ids pool)) &&
  match dc with
  | [] => true
  | _ =>
      in_i64 cand_fee && in_i64 (fees_of pool ev) && in_i64 (cand_fee - fees_of pool ev) && (0 <=? cand_vsize) && (cand_vsize <=? INT32_MAX) &&
      pays_for_rbf (fees_of pool ev) cand_fee cand_vsize RBF_INCREMENTAL_RELAY_FEE &&
      forallb (fun t => negb (memn t ev)) (tx_parents cand_ins) &&
      (Z.of_nat (length (cluster_reps pool dc [])) <=? RBF_MAX_REPLACEMENT_CANDIDATES) &&
      within_b diag_before 0 0 && within_b diag_after 0 0 &&
      match compare_chunks diag_after diag_before with Some PGreater => true | _ => false end
  end.
