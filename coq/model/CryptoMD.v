(* C49 — Merkle–Damgård hashing, generic in block size and compression function.

   Part 1 (specification): the padding and iteration of FIPS 180-4 section 5.1 / 6.x (SHA-1, SHA-256,
   SHA-512) and of the RIPEMD-160 paper (same scheme, little endian length): the message is followed
   by the byte 0x80, k zero bytes and the L-byte encoding of the BIT length, k the least number that
   makes the total a multiple of the block size B; the blocks are then fed one after the other to
   the compression function starting from the initial value.

   Part 2 (model of the C++): the streaming objects CSHA256 / CSHA1 / CRIPEMD160 (B = 64) and
   CSHA512 (B = 128) of src/crypto/*.cpp, which all have the same text:

     CSHA256& CSHA256::Write(const unsigned char* data, size_t len)
     {
         const unsigned char* end = data + len;
         size_t bufsize = bytes % 64;
         if (bufsize && bufsize + len >= 64) {
             // Fill the buffer, and process it.
             memcpy(buf + bufsize, data, 64 - bufsize);
             bytes += 64 - bufsize;
             data += 64 - bufsize;
             Transform(s, buf, 1);
             bufsize = 0;
         }
         if (end - data >= 64) {
             size_t blocks = (end - data) / 64;
             Transform(s, data, blocks);
             data += 64 * blocks;
             bytes += 64 * blocks;
         }
         if (end > data) {
             // Fill the buffer with what remains.
             memcpy(buf + bufsize, data, end - data);
             bytes += end - data;
         }
         return *this;
     }
     void CSHA256::Finalize(unsigned char hash[OUTPUT_SIZE])
     {
         static const unsigned char pad[64] = {0x80};
         unsigned char sizedesc[8];
         WriteBE64(sizedesc, bytes << 3);
         Write(pad, 1 + ((119 - (bytes % 64)) % 64));
         Write(sizedesc, 8);
         WriteBE32(hash, s[0]); ... WriteBE32(hash + 28, s[7]);
     }

   (CSHA1 / CSHA512 / CRIPEMD160 have `while (end - data >= B) { Transform(s, data); data += B;
   bytes += B; }` for the middle phase: the same number of iterations, (end - data) / B.)
   The object state is (s, buf[B], bytes); `bytes` is a uint64_t, so each update is an explicit
   wrapu64.  The buffer has B bytes whose initial contents are indeterminate (the constructor does
   not initialise it): the initial contents are an argument of h_init and the theorems quantify
   over them.

   Executable definitions only; proofs in proofs/CryptoMDLemmas.v. *)
From Coq Require Import NArith.
From BV Require Import lib.Ints model.CryptoBase.
Local Open Scope Z_scope.

Section MD.
  Variable State : Type.
  Variable B : nat.                                  (* block size in bytes: 64 or 128 *)
  Variable compress : State -> list N -> State.     (* one application of the compression function to a B-byte block *)
  Variable iv : State.
  Variable out : State -> list N.                   (* digest bytes of the final chaining value *)

  (* ---------------- specification ---------------- *)
  Variable L : nat.                                  (* size of the length field in bytes: 8 or 16 *)
  Variable lenfield : Z -> list N.                  (* encoding of the bit length in L bytes *)

  (* H(i) = compress(H(i-1), M(i)) for the first n blocks of data *)
  Fixpoint process (n : nat) (s : State) (data : list N) : State :=
    match n with
    | O => s
    | S k => process k (compress s (firstn B data)) (skipn B data)
    end.

  (* number of zero bytes: least k >= 0 with  len + 1 + k + L = 0 (mod B) *)
  Definition md_zeros (len : nat) : nat :=
    Z.to_nat ((- (Z.of_nat len + 1 + Z.of_nat L)) mod Z.of_nat B).
  Definition md_pad (len : nat) : list N :=
    128%N :: zeros (md_zeros len) ++ lenfield (8 * Z.of_nat len).
  Definition md_padded (msg : list N) : list N := msg ++ md_pad (length msg).
  Definition md_spec (msg : list N) : list N :=
    let p := md_padded msg in out (process (length p / B) iv p).

  (* ---------------- model of the C++ object ---------------- *)
  Variable padconst : Z.                             (* 119 (B = 64) or 239 (B = 128) in Finalize *)
  Variable sizedesc : Z -> list N.                  (* the bytes Finalize writes for the uint64_t `bytes << 3` *)

  Record hasher : Type := { h_s : State; h_buf : list N; h_bytes : Z }.

  Definition h_init (uninitialised_buf : list N) : hasher :=
    {| h_s := iv; h_buf := uninitialised_buf; h_bytes := 0 |}.

  (* the last two phases of Write, entered with the local `bufsize` and the not yet consumed data *)
  Definition h_write_tail (h : hasher) (bufsize : nat) (data : list N) : hasher :=
    (* if (end - data >= B) { blocks = (end - data) / B; Transform(s, data, blocks); data += B*blocks; bytes += B*blocks; } *)
    let '(h2, data2) :=
      if (B <=? length data)%nat then
        let blocks := (length data / B)%nat in
        ({| h_s := process blocks (h_s h) data; h_buf := h_buf h;
            h_bytes := wrapu64 (h_bytes h + Z.of_nat (B * blocks)) |},
         skipn (B * blocks) data)
      else (h, data) in
    (* if (end > data) { memcpy(buf + bufsize, data, end - data); bytes += end - data; } *)
    if (0 <? length data2)%nat then
      {| h_s := h_s h2; h_buf := memcpy (h_buf h2) bufsize data2;
         h_bytes := wrapu64 (h_bytes h2 + Z.of_nat (length data2)) |}
    else h2.

  Definition h_write (h : hasher) (data : list N) : hasher :=
    let len := length data in
    (* size_t bufsize = bytes % B; *)
    let bufsize := Z.to_nat (h_bytes h mod Z.of_nat B) in
    (* if (bufsize && bufsize + len >= B) *)
    if negb (bufsize =? 0)%nat && (B <=? bufsize + len)%nat then
      (* memcpy(buf + bufsize, data, B - bufsize); bytes += B - bufsize; data += B - bufsize;
         Transform(s, buf, 1); bufsize = 0; *)
      let buf' := memcpy (h_buf h) bufsize (firstn (B - bufsize) data) in
      h_write_tail {| h_s := compress (h_s h) buf'; h_buf := buf';
                      h_bytes := wrapu64 (h_bytes h + Z.of_nat (B - bufsize)) |}
                   0%nat (skipn (B - bufsize) data)
    else h_write_tail h bufsize data.

  (* static const unsigned char pad[B] = {0x80}; *)
  Definition pad_array : list N := 128%N :: zeros (B - 1).

  Definition h_finalize (h : hasher) : list N :=
    (* WriteBE64(sizedesc, bytes << 3);   -- computed before the padding is written *)
    let sd := sizedesc (wrapu64 (Z.shiftl (h_bytes h) 3)) in
    (* Write(pad, 1 + ((119 - (bytes % 64)) % 64)); *)
    let padlen := 1 + ((padconst - (h_bytes h mod Z.of_nat B)) mod Z.of_nat B) in
    let h1 := h_write h (firstn (Z.to_nat padlen) pad_array) in
    (* Write(sizedesc, 8); *)
    let h2 := h_write h1 sd in
    out (h_s h2).

  (* Hasher().Write(c1).Write(c2)....Finalize() *)
  Definition h_stream (uninitialised_buf : list N) (chunks : list (list N)) : list N :=
    h_finalize (fold_left h_write chunks (h_init uninitialised_buf)).
End MD.

Arguments h_s {State}.
Arguments h_buf {State}.
Arguments h_bytes {State}.
