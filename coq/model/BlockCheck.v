(* Block structure and resource limits (C06).  Transcribed from
     src/validation.cpp            CheckBlock (size limits, coinbase position, legacy sigops), ContextualCheckBlock
                                   (BIP34 coinbase height, block weight), ConnectBlock (running sigop cost)
     src/consensus/validation.h    GetBlockWeight
     src/script/script.h           CScript::push_int64, CScriptNum::serialize, CScript::operator<<(vector)
   Executable definitions only (proofs are in proofs/BlockCheckLemmas.v).
   The block is abstracted to what these rules read: per transaction whether it is a coinbase, its legacy sigop count
   (GetLegacySigOpCount) and its sigop cost (GetTransactionSigOpCost) - both modelled in model/SigOps.v -, the
   serialized sizes without and with witness data, and the scriptSig of the first transaction's first input. *)
From BV Require Import lib.Ints gen.Params_gen model.SigOps.
Local Open Scope Z_scope.

Record btx := { bt_coinbase : bool; bt_legacy_sigops : Z; bt_cost : Z }.
Record blk := { b_txs : list btx; b_stripped_size : Z; b_total_size : Z; b_cb_script_sig : script }.

Inductive breason :=
| bad_blk_length | bad_cb_missing | bad_cb_multiple | bad_blk_sigops | bad_cb_height | bad_blk_weight.

(* ------------------------------------------------------------------------------------------ *)
(* CScript() << nHeight *)

(* static std::vector<unsigned char> CScriptNum::serialize(const int64_t& value)
   { if(value == 0) return {};
     std::vector<unsigned char> result; const bool neg = value < 0;
     uint64_t absvalue = neg ? ~static_cast<uint64_t>(value) + 1 : static_cast<uint64_t>(value);
     while(absvalue) { result.push_back(absvalue & 0xff); absvalue >>= 8; }
     if (result.back() & 0x80) result.push_back(neg ? 0x80 : 0);
     else if (neg) result.back() |= 0x80;
     return result; } *)
Fixpoint le_bytes (fuel : nat) (a : Z) : list Z :=
  match fuel with
  | O => []
  | S f => if a =? 0 then [] else (a mod 256) :: le_bytes f (a / 256)
  end.
Definition scriptnum_serialize (value : Z) : list Z :=
  if value =? 0 then []
  else
    let neg := value <? 0 in
    let absvalue := wrapu64 (if neg then - value else value) in
    let result := le_bytes 8 absvalue in
    match rev result with
    | [] => []
    | top :: r =>
      if 128 <=? top then result ++ [if neg then 128 else 0]
      else if neg then rev ((top + 128) :: r)
      else result
    end.

(* CScript& operator<<(std::span<const std::byte> b) { AppendDataSize(b.size()); AppendData(b); }
   AppendDataSize: size < OP_PUSHDATA1 -> one length byte; <= 0xff -> OP_PUSHDATA1 len; <= 0xffff -> OP_PUSHDATA2 len16; else OP_PUSHDATA4 len32 *)
Definition push_data (b : list Z) : script :=
  let n := zlen b in
  if n <? SIGOPS_OP_PUSHDATA1 then n :: b
  else if n <=? 255 then SIGOPS_OP_PUSHDATA1 :: n :: b
  else if n <=? 65535 then SIGOPS_OP_PUSHDATA2 :: (n mod 256) :: (n / 256) :: b
  else SIGOPS_OP_PUSHDATA4 :: (n mod 256) :: ((n / 256) mod 256) :: ((n / 65536) mod 256) :: (n / 16777216) :: b.

(* CScript& push_int64(int64_t n)
   { if (n == -1 || (n >= 1 && n <= 16)) push_back(n + (OP_1 - 1));
     else if (n == 0) push_back(OP_0);
     else *this << CScriptNum::serialize(n); } *)
Definition script_push_int64 (n : Z) : script :=
  if (n =? -1) || ((1 <=? n) && (n <=? 16)) then [n + (SIGOPS_OP_1 - 1)]
  else if n =? 0 then [SIGOPS_OP_0]
  else push_data (scriptnum_serialize n).

(* if (block.vtx[0]->vin[0].scriptSig.size() < expect.size() ||
       !std::equal(expect.begin(), expect.end(), block.vtx[0]->vin[0].scriptSig.begin())) -> "bad-cb-height" *)
Fixpoint starts_with (expect s : script) : bool :=
  match expect, s with
  | [], _ => true
  | e :: er, b :: sr => (e =? b) && starts_with er sr
  | _ :: _, [] => false
  end.
Definition bip34_ok (nHeight : Z) (cb_script_sig : script) : bool :=
  let expect := script_push_int64 nHeight in
  negb (zlen cb_script_sig <? zlen expect) && starts_with expect cb_script_sig.

(* ------------------------------------------------------------------------------------------ *)
(* static inline int64_t GetBlockWeight(const CBlock& block)
   { return ::GetSerializeSize(TX_NO_WITNESS(block)) * (WITNESS_SCALE_FACTOR - 1) + ::GetSerializeSize(TX_WITH_WITNESS(block)); }
   (size_t arithmetic, converted to int64_t) *)
Definition get_block_weight (stripped total : Z) : Z :=
  wrap64 (wrapu64 (wrapu64 (stripped * (WITNESS_SCALE_FACTOR - 1)) + total)).

(* CheckBlock:
     if (block.vtx.empty() || block.vtx.size() * WITNESS_SCALE_FACTOR > MAX_BLOCK_WEIGHT ||
         ::GetSerializeSize(TX_NO_WITNESS(block)) * WITNESS_SCALE_FACTOR > MAX_BLOCK_WEIGHT)      -> "bad-blk-length"
     if (block.vtx.empty() || !block.vtx[0]->IsCoinBase())                                       -> "bad-cb-missing"
     for (i = 1 ..) if (block.vtx[i]->IsCoinBase())                                              -> "bad-cb-multiple"
     [CheckTransaction on every transaction: C03]
     unsigned int nSigOps = 0; for (tx) nSigOps += GetLegacySigOpCount( *tx);
     if (nSigOps * WITNESS_SCALE_FACTOR > MAX_BLOCK_SIGOPS_COST)                                  -> "bad-blk-sigops" *)
Definition check_block (b : blk) : option breason :=
  let ntx := zlen (b_txs b) in
  if (ntx =? 0) || (wrapu64 (ntx * WITNESS_SCALE_FACTOR) >? MAX_BLOCK_WEIGHT)
     || (wrapu64 (b_stripped_size b * WITNESS_SCALE_FACTOR) >? MAX_BLOCK_WEIGHT) then Some bad_blk_length
  else match b_txs b with
       | [] => Some bad_cb_missing
       | t0 :: r =>
         if negb (bt_coinbase t0) then Some bad_cb_missing
         else if existsb bt_coinbase r then Some bad_cb_multiple
         else
           let nSigOps := fold_left (fun n t => wrapu32 (n + bt_legacy_sigops t)) (b_txs b) 0 in
           if wrapu32 (nSigOps * WITNESS_SCALE_FACTOR) >? MAX_BLOCK_SIGOPS_COST then Some bad_blk_sigops else None
       end.

(* ContextualCheckBlock (after the finality rule, C05):
     if (DeploymentActiveAfter(pindexPrev, chainman, DEPLOYMENT_HEIGHTINCB)) { ... "bad-cb-height" }
     [witness commitment]
     if (GetBlockWeight(block) > MAX_BLOCK_WEIGHT)                                                -> "bad-blk-weight" *)
Definition contextual_check_block (bip34_active : bool) (nHeight : Z) (b : blk) : option breason :=
  if bip34_active && negb (bip34_ok nHeight (b_cb_script_sig b)) then Some bad_cb_height
  else if get_block_weight (b_stripped_size b) (b_total_size b) >? MAX_BLOCK_WEIGHT then Some bad_blk_weight
  else None.

(* ConnectBlock:  int64_t nSigOpsCost = 0;
     for (tx) { ... nSigOpsCost += GetTransactionSigOpCost(tx, view, flags);
                if (nSigOpsCost > MAX_BLOCK_SIGOPS_COST) -> "bad-blk-sigops" } *)
Fixpoint connect_sigops (txs : list btx) (nSigOpsCost : Z) : option breason :=
  match txs with
  | [] => None
  | t :: r =>
    let c := wrap64 (nSigOpsCost + bt_cost t) in
    if c >? MAX_BLOCK_SIGOPS_COST then Some bad_blk_sigops else connect_sigops r c
  end.

(* the three in the order a new block meets them *)
Definition block_limits_verdict (bip34_active : bool) (nHeight : Z) (b : blk) : option breason :=
  match check_block b with
  | Some r => Some r
  | None =>
    match contextual_check_block bip34_active nHeight b with
    | Some r => Some r
    | None => connect_sigops (b_txs b) 0
    end
  end.

(* ------------------------------------------------------------------------------------------ *)
(* specification side *)

(* the minimal little-endian sign-magnitude encoding of a positive height as the first push of the script *)
Fixpoint is_prefix (p s : script) : Prop :=
  match p, s with
  | [], _ => True
  | e :: er, b :: sr => e = b /\ is_prefix er sr
  | _ :: _, [] => False
  end.

Definition spec_block_ok_b (bip34_active : bool) (nHeight : Z) (b : blk) : bool :=
  let ntx := zlen (b_txs b) in
  (1 <=? ntx) && (4 * ntx <=? 4000000) && (4 * b_stripped_size b <=? 4000000)
  && (match b_txs b with t0 :: r => bt_coinbase t0 && negb (existsb bt_coinbase r) | [] => false end)
  && (4 * zsum (map bt_legacy_sigops (b_txs b)) <=? 80000)
  && (negb bip34_active || bip34_ok nHeight (b_cb_script_sig b))
  && (3 * b_stripped_size b + b_total_size b <=? 4000000)
  && (zsum (map bt_cost (b_txs b)) <=? 80000).

(* a block as it can arise: sizes are sizes, a transaction's cost is at least 4 * its legacy count, counts are >= 0;
   the numbers are far below the integer widths (a block that passes the size rule has at most 1,000,000 stripped
   bytes, and a script byte adds at most 20 sigops) *)
Definition wf_blk (b : blk) : Prop :=
  0 <= b_stripped_size b <= 4000000000 /\ 0 <= b_total_size b <= 4000000000 /\
  zlen (b_txs b) <= 4000000000 /\
  (forall t, In t (b_txs b) -> 0 <= bt_legacy_sigops t /\ 0 <= bt_cost t) /\
  zsum (map bt_legacy_sigops (b_txs b)) <= 1000000000 /\
  zsum (map bt_cost (b_txs b)) <= 1000000000000.
