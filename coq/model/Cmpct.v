(* Compact block reconstruction: PartiallyDownloadedBlock::InitData (slot bookkeeping) and FillBlock.
   Transcribed from src/blockencodings.cpp.  Executable definitions only.
   T is the type of (non-null) transactions; the final mutation check is model/Merkle.v's
   is_block_mutated on the view of the reconstructed block. *)
From BV Require Import lib.Ints gen.Params_gen model.Merkle.
Local Open Scope Z_scope.

Inductive read_status := READ_STATUS_OK | READ_STATUS_INVALID | READ_STATUS_FAILED.

Section Cmpct.
Variable T : Type.

(* ---------------------------------------------------------------------------------------------
   InitData, first part.  cmpctblock.prefilledtxn[i] = (index : uint16_t (differentially encoded), tx);
   tx->IsNull() is modelled by None.

       int32_t lastprefilledindex = -1;
       for (size_t i = 0; i < cmpctblock.prefilledtxn.size(); i++) {
           if (cmpctblock.prefilledtxn[i].tx->IsNull()) return READ_STATUS_INVALID;
           lastprefilledindex += cmpctblock.prefilledtxn[i].index + 1; //index is a uint16_t, so can't overflow here
           if (lastprefilledindex > std::numeric_limits<uint16_t>::max()) return READ_STATUS_INVALID;
           if ((uint32_t)lastprefilledindex > cmpctblock.shorttxids.size() + i) return READ_STATUS_INVALID;
           txn_available[lastprefilledindex] = cmpctblock.prefilledtxn[i].tx;
       }
   Result: the absolute slot of every prefilled transaction, or None for READ_STATUS_INVALID. *)
Fixpoint place_prefilled (nshort : Z) (i : Z) (last : Z) (pre : list (Z * option T)) : option (list (Z * T)) :=
  match pre with
  | [] => Some []
  | (index, otx) :: rest =>
    match otx with
    | None => None
    | Some tx =>
      let last1 := wrap32 (last + wrapu16 index + 1) in
      if last1 >? 65535 then None
      else if wrapu32 last1 >? nshort + i then None
      else match place_prefilled nshort (i + 1) last1 rest with
           | None => None
           | Some l => Some ((last1, tx) :: l)
           end
    end
  end.

(* txn_available.resize(BlockTxCount()) then the writes above: slot k holds the prefilled tx placed there *)
Definition slot_of (placed : list (Z * T)) (k : Z) : option T :=
  match find (fun p => fst p =? k) placed with Some (_, tx) => Some tx | None => None end.

Fixpoint zrange (a : Z) (n : nat) : list Z := match n with O => [] | S m => a :: zrange (a + 1) m end.

Definition prefilled_slots (nshort : Z) (pre : list (Z * option T)) : option (list (option T)) :=
  match place_prefilled nshort 0 (-1) pre with
  | None => None
  | Some placed => Some (map (slot_of placed) (zrange 0 (Z.to_nat (nshort + Z.of_nat (length pre)))))
  end.

(*     uint16_t index_offset = 0;
       for (size_t i = 0; i < cmpctblock.shorttxids.size(); i++) {
           while (txn_available[i + index_offset]) index_offset++;
           shorttxids[cmpctblock.shorttxids[i]] = i + index_offset;
           ...
       }
   the slot of the i-th short id is the i-th slot that is not prefilled *)
Fixpoint free_slots (slots : list (option T)) (k : Z) : list Z :=
  match slots with
  | [] => []
  | None :: r => k :: free_slots r (k + 1)
  | Some _ :: r => free_slots r (k + 1)
  end.

(* the first checks of InitData:
       if (cmpctblock.header.IsNull() || (cmpctblock.shorttxids.empty() && cmpctblock.prefilledtxn.empty())) return INVALID;
       if (shorttxids.size() + prefilledtxn.size() > MAX_BLOCK_WEIGHT / MIN_SERIALIZABLE_TRANSACTION_WEIGHT) return INVALID;
       if (!header.IsNull() || !txn_available.empty()) return INVALID;   // object already used
   MIN_SERIALIZABLE_TRANSACTION_WEIGHT = WITNESS_SCALE_FACTOR * 10 *)
Definition init_checks (header_null : bool) (nshort npre : Z) (already_used : bool) : bool :=
  negb (header_null || ((nshort =? 0) && (npre =? 0))) &&
  negb (nshort + npre >? cdiv MAX_BLOCK_WEIGHT (WITNESS_SCALE_FACTOR * 10)) &&
  negb already_used.

(* ---------------------------------------------------------------------------------------------
   ReadStatus FillBlock(CBlock& block, const std::vector<CTransactionRef>& vtx_missing, bool segwit_active)
   {
       if (header.IsNull()) return READ_STATUS_INVALID;
       block = header; block.vtx.resize(txn_available.size());
       size_t tx_missing_offset = 0;
       for (size_t i = 0; i < txn_available.size(); i++) {
           if (!txn_available[i]) {
               if (tx_missing_offset >= vtx_missing.size()) return READ_STATUS_INVALID;
               block.vtx[i] = vtx_missing[tx_missing_offset++];
           } else block.vtx[i] = std::move(txn_available[i]);
       }
       header.SetNull(); txn_available.clear();
       if (vtx_missing.size() != tx_missing_offset) return READ_STATUS_INVALID;
       if (check_mutated(block, segwit_active)) return READ_STATUS_FAILED;
       return READ_STATUS_OK;
   } *)
Fixpoint fill_loop (avail : list (option T)) (missing : list T) : option (list T * list T) :=
  match avail with
  | [] => Some ([], missing)
  | Some tx :: r =>
    match fill_loop r missing with Some (vtx, rest) => Some (tx :: vtx, rest) | None => None end
  | None :: r =>
    match missing with
    | [] => None
    | m :: ms => match fill_loop r ms with Some (vtx, rest) => Some (m :: vtx, rest) | None => None end
    end
  end.

(* is_mutated: IsBlockMutated(block, segwit_active) of the block with the announced header and the given vtx *)
Definition fill_block (header_null : bool) (avail : list (option T)) (missing : list T)
                      (is_mutated : list T -> option bool) : read_status * option (list T) :=
  if header_null then (READ_STATUS_INVALID, None) else
  match fill_loop avail missing with
  | None => (READ_STATUS_INVALID, None)
  | Some (vtx, rest) =>
    match rest with
    | _ :: _ => (READ_STATUS_INVALID, None)
    | [] =>
      match is_mutated vtx with
      | Some false => (READ_STATUS_OK, Some vtx)
      | _ => (READ_STATUS_FAILED, None)
      end
    end
  end.

End Cmpct.
