(* Script parsing and signature-operation counting (C06).  Transcribed from
     src/script/script.cpp        GetScriptOp, CScript::GetSigOpCount(bool), CScript::GetSigOpCount(const CScript&),
                                  IsPayToScriptHash, IsWitnessProgram, IsPushOnly
     src/script/script.h          DecodeOP_N
     src/script/interpreter.cpp   WitnessSigOps, CountWitnessSigOps
     src/consensus/tx_verify.cpp  GetLegacySigOpCount, GetP2SHSigOpCount, GetTransactionSigOpCost
   Executable definitions only (proofs are in proofs/SigOpsLemmas.v).
   A script is the list of its bytes (each 0..255). *)
From BV Require Import lib.Ints gen.Params_gen.
Local Open Scope Z_scope.

Definition script := list Z.
Record op := { op_code : Z; op_data : list Z }.

Definition zlen {A} (l : list A) : Z := Z.of_nat (length l).

(* bool GetScriptOp(CScriptBase::const_iterator& pc, CScriptBase::const_iterator end, opcodetype& opcodeRet, std::vector<unsigned char>* pvchRet)
   {
       opcodeRet = OP_INVALIDOPCODE;
       if (pvchRet) pvchRet->clear();
       if (pc >= end) return false;
       if (end - pc < 1) return false;
       unsigned int opcode = *pc++;
       if (opcode <= OP_PUSHDATA4) {
           unsigned int nSize = 0;
           if (opcode < OP_PUSHDATA1) { nSize = opcode; }
           else if (opcode == OP_PUSHDATA1) { if (end - pc < 1) return false; nSize = *pc++; }
           else if (opcode == OP_PUSHDATA2) { if (end - pc < 2) return false; nSize = ReadLE16(&pc[0]); pc += 2; }
           else if (opcode == OP_PUSHDATA4) { if (end - pc < 4) return false; nSize = ReadLE32(&pc[0]); pc += 4; }
           if (end - pc < 0 || (unsigned int)(end - pc) < nSize) return false;
           if (pvchRet) pvchRet->assign(pc, pc + nSize);
           pc += nSize;
       }
       opcodeRet = static_cast<opcodetype>(opcode);
       return true;
   }
   Result: the operation read and the rest of the script (the new pc); None = false. *)
Definition read_push_size (opcode : Z) (r : script) : option (Z * script) :=
  if opcode <? SIGOPS_OP_PUSHDATA1 then Some (opcode, r)
  else if opcode =? SIGOPS_OP_PUSHDATA1 then
    match r with b0 :: r1 => Some (b0, r1) | _ => None end
  else if opcode =? SIGOPS_OP_PUSHDATA2 then
    match r with b0 :: b1 :: r1 => Some (b0 + 256 * b1, r1) | _ => None end
  else
    match r with b0 :: b1 :: b2 :: b3 :: r1 => Some (b0 + 256 * b1 + 65536 * b2 + 16777216 * b3, r1) | _ => None end.

Definition get_op (s : script) : option (op * script) :=
  match s with
  | [] => None
  | opcode :: r =>
    if opcode <=? SIGOPS_OP_PUSHDATA4 then
      match read_push_size opcode r with
      | None => None
      | Some (nSize, r1) =>
        if zlen r1 <? nSize then None
        else Some ({| op_code := opcode; op_data := firstn (Z.to_nat nSize) r1 |}, skipn (Z.to_nat nSize) r1)
      end
    else Some ({| op_code := opcode; op_data := [] |}, r)
  end.

(* static int DecodeOP_N(opcodetype opcode) { if (opcode == OP_0) return 0; assert(opcode >= OP_1 && opcode <= OP_16); return (int)opcode - (int)(OP_1 - 1); } *)
Definition decode_op_n (opcode : Z) : Z := if opcode =? SIGOPS_OP_0 then 0 else opcode - (SIGOPS_OP_1 - 1).

(* unsigned int CScript::GetSigOpCount(bool fAccurate) const
   {
       unsigned int n = 0;
       const_iterator pc = begin();
       opcodetype lastOpcode = OP_INVALIDOPCODE;
       while (pc < end()) {
           opcodetype opcode;
           if (!GetOp(pc, opcode)) break;
           if (opcode == OP_CHECKSIG || opcode == OP_CHECKSIGVERIFY) n++;
           else if (opcode == OP_CHECKMULTISIG || opcode == OP_CHECKMULTISIGVERIFY) {
               if (fAccurate && lastOpcode >= OP_1 && lastOpcode <= OP_16) n += DecodeOP_N(lastOpcode);
               else n += MAX_PUBKEYS_PER_MULTISIG;
           }
           lastOpcode = opcode;
       }
       return n;
   }
   fuel: every successful GetOp consumes at least one byte, so length s iterations suffice. *)
Fixpoint sigop_loop (fuel : nat) (fAccurate : bool) (s : script) (lastOpcode n : Z) : Z :=
  match fuel with
  | O => n
  | S f =>
    match s with
    | [] => n
    | _ =>
      match get_op s with
      | None => n
      | Some (o, rest) =>
        let opcode := op_code o in
        let n' :=
          if (opcode =? SIGOPS_OP_CHECKSIG) || (opcode =? SIGOPS_OP_CHECKSIGVERIFY) then wrapu32 (n + 1)
          else if (opcode =? SIGOPS_OP_CHECKMULTISIG) || (opcode =? SIGOPS_OP_CHECKMULTISIGVERIFY) then
            (if fAccurate && (lastOpcode >=? SIGOPS_OP_1) && (lastOpcode <=? SIGOPS_OP_16)
             then wrapu32 (n + decode_op_n lastOpcode)
             else wrapu32 (n + MAX_PUBKEYS_PER_MULTISIG))
          else n in
        sigop_loop f fAccurate rest opcode n'
      end
    end
  end.
Definition get_sigop_count (fAccurate : bool) (s : script) : Z :=
  sigop_loop (length s) fAccurate s SIGOPS_OP_INVALIDOPCODE 0.

(* bool CScript::IsPayToScriptHash() const
   { return (this->size() == 23 && ( *this)[0] == OP_HASH160 && ( *this)[1] == 0x14 && ( *this)[22] == OP_EQUAL); } *)
Definition byte_is (s : script) (i : nat) (v : Z) : bool :=
  match nth_error s i with Some b => b =? v | None => false end.
Definition is_p2sh (s : script) : bool :=
  (zlen s =? 23) && byte_is s 0 SIGOPS_OP_HASH160 && byte_is s 1 20 && byte_is s 22 SIGOPS_OP_EQUAL.

(* unsigned int CScript::GetSigOpCount(const CScript& scriptSig) const
   {
       if (!IsPayToScriptHash()) return GetSigOpCount(true);
       const_iterator pc = scriptSig.begin();
       std::vector<unsigned char> vData;
       while (pc < scriptSig.end()) {
           opcodetype opcode;
           if (!scriptSig.GetOp(pc, opcode, vData)) return 0;
           if (opcode > OP_16) return 0;
       }
       CScript subscript(vData.begin(), vData.end());
       return subscript.GetSigOpCount(true);
   }
   the loop: None = "return 0", Some vData = fell out of the loop *)
Fixpoint last_push_loop (fuel : nat) (s : script) (vData : list Z) : option (list Z) :=
  match fuel with
  | O => Some vData
  | S f =>
    match s with
    | [] => Some vData
    | _ =>
      match get_op s with
      | None => None
      | Some (o, rest) => if op_code o >? SIGOPS_OP_16 then None else last_push_loop f rest (op_data o)
      end
    end
  end.
Definition p2sh_sigop_count (scriptPubKey scriptSig : script) : Z :=
  if negb (is_p2sh scriptPubKey) then get_sigop_count true scriptPubKey
  else match last_push_loop (length scriptSig) scriptSig [] with
       | None => 0
       | Some vData => get_sigop_count true vData
       end.

(* bool CScript::IsPushOnly(const_iterator pc) const
   { while (pc < end()) { opcodetype opcode; if (!GetOp(pc, opcode)) return false; if (opcode > OP_16) return false; } return true; } *)
Definition is_push_only (s : script) : bool :=
  match last_push_loop (length s) s [] with Some _ => true | None => false end.

(* bool CScript::IsWitnessProgram(int& version, std::vector<unsigned char>& program) const
   {
       if (this->size() < 4 || this->size() > 42) return false;
       if (( *this)[0] != OP_0 && (( *this)[0] < OP_1 || ( *this)[0] > OP_16)) return false;
       if ((size_t)(( *this)[1] + 2) == this->size()) {
           version = DecodeOP_N((opcodetype)( *this)[0]);
           program = std::vector<unsigned char>(this->begin() + 2, this->end());
           return true;
       }
       return false;
   } *)
Definition is_witness_program (s : script) : option (Z * list Z) :=
  if (zlen s <? 4) || (zlen s >? 42) then None
  else match s with
       | b0 :: b1 :: program =>
         if negb (b0 =? SIGOPS_OP_0) && ((b0 <? SIGOPS_OP_1) || (b0 >? SIGOPS_OP_16)) then None
         else if b1 + 2 =? zlen s then Some (decode_op_n b0, program)
         else None
       | _ => None
       end.

(* size_t static WitnessSigOps(int witversion, const std::vector<unsigned char>& witprogram, const CScriptWitness& witness)
   {
       if (witversion == 0) {
           if (witprogram.size() == WITNESS_V0_KEYHASH_SIZE) return 1;
           if (witprogram.size() == WITNESS_V0_SCRIPTHASH_SIZE && witness.stack.size() > 0) {
               CScript subscript(witness.stack.back().begin(), witness.stack.back().end());
               return subscript.GetSigOpCount(true);
           }
       }
       return 0;
   } *)
Definition witness_sigops (witversion : Z) (witprogram : list Z) (stack : list (list Z)) : Z :=
  if witversion =? 0 then
    if zlen witprogram =? SIGOPS_WITNESS_V0_KEYHASH_SIZE then 1
    else if zlen witprogram =? SIGOPS_WITNESS_V0_SCRIPTHASH_SIZE then
      match rev stack with
      | [] => 0
      | top :: _ => get_sigop_count true top
      end
    else 0
  else 0.

(* size_t CountWitnessSigOps(const CScript& scriptSig, const CScript& scriptPubKey, const CScriptWitness& witness, script_verify_flags flags)
   {
       if ((flags & SCRIPT_VERIFY_WITNESS) == 0) return 0;
       assert((flags & SCRIPT_VERIFY_P2SH) != 0);
       int witnessversion; std::vector<unsigned char> witnessprogram;
       if (scriptPubKey.IsWitnessProgram(witnessversion, witnessprogram)) return WitnessSigOps(witnessversion, witnessprogram, witness);
       if (scriptPubKey.IsPayToScriptHash() && scriptSig.IsPushOnly()) {
           CScript::const_iterator pc = scriptSig.begin();
           std::vector<unsigned char> data;
           while (pc < scriptSig.end()) { opcodetype opcode; scriptSig.GetOp(pc, opcode, data); }
           CScript subscript(data.begin(), data.end());
           if (subscript.IsWitnessProgram(witnessversion, witnessprogram)) return WitnessSigOps(witnessversion, witnessprogram, witness);
       }
       return 0;
   }
   None = the assert fails.  After IsPushOnly() the second loop reads the same operations, all successfully, so its
   `data` is the vData of last_push_loop. *)
Definition count_witness_sigops (flag_p2sh flag_witness : bool) (scriptSig scriptPubKey : script) (stack : list (list Z)) : option Z :=
  if negb flag_witness then Some 0
  else if negb flag_p2sh then None
  else match is_witness_program scriptPubKey with
       | Some (v, p) => Some (witness_sigops v p stack)
       | None =>
         if is_p2sh scriptPubKey then
           match last_push_loop (length scriptSig) scriptSig [] with
           | Some data =>
             match is_witness_program data with
             | Some (v, p) => Some (witness_sigops v p stack)
             | None => Some 0
             end
           | None => Some 0
           end
         else Some 0
       end.

(* ------------------------------------------------------------------------------------------ *)
(* Transactions: what the counters read.  An input carries its scriptSig, the scriptPubKey of the coin it spends
   and its witness stack; st_coinbase = CTransaction::IsCoinBase(). *)
Record sin := { si_script_sig : script; si_prev_spk : script; si_witness : list (list Z) }.
Record stx := { st_coinbase : bool; st_ins : list sin; st_outs : list script }.

(* unsigned int GetLegacySigOpCount(const CTransaction& tx)
   { unsigned int nSigOps = 0;
     for (txin : tx.vin) nSigOps += txin.scriptSig.GetSigOpCount(false);
     for (txout : tx.vout) nSigOps += txout.scriptPubKey.GetSigOpCount(false);
     return nSigOps; } *)
Definition legacy_sigop_count (t : stx) : Z :=
  let n1 := fold_left (fun n i => wrapu32 (n + get_sigop_count false (si_script_sig i))) (st_ins t) 0 in
  fold_left (fun n o => wrapu32 (n + get_sigop_count false o)) (st_outs t) n1.

(* unsigned int GetP2SHSigOpCount(const CTransaction& tx, const CCoinsViewCache& inputs)
   { if (tx.IsCoinBase()) return 0;
     unsigned int nSigOps = 0;
     for (i ...) { const CTxOut &prevout = coin.out; if (prevout.scriptPubKey.IsPayToScriptHash()) nSigOps += prevout.scriptPubKey.GetSigOpCount(tx.vin[i].scriptSig); }
     return nSigOps; } *)
Definition p2sh_sigop_count_tx (t : stx) : Z :=
  if st_coinbase t then 0
  else fold_left (fun n i => if is_p2sh (si_prev_spk i) then wrapu32 (n + p2sh_sigop_count (si_prev_spk i) (si_script_sig i)) else n) (st_ins t) 0.

(* int64_t GetTransactionSigOpCost(const CTransaction& tx, const CCoinsViewCache& inputs, script_verify_flags flags)
   {
       int64_t nSigOps = GetLegacySigOpCount(tx) * WITNESS_SCALE_FACTOR;          // unsigned int * int: 32-bit
       if (tx.IsCoinBase()) return nSigOps;
       if (flags & SCRIPT_VERIFY_P2SH) nSigOps += GetP2SHSigOpCount(tx, inputs) * WITNESS_SCALE_FACTOR;
       for (i ...) nSigOps += CountWitnessSigOps(tx.vin[i].scriptSig, prevout.scriptPubKey, tx.vin[i].scriptWitness, flags);
       return nSigOps;
   }
   None = the assert in CountWitnessSigOps fails (WITNESS without P2SH). *)
Fixpoint witness_cost_loop (flag_p2sh flag_witness : bool) (ins : list sin) (n : Z) : option Z :=
  match ins with
  | [] => Some n
  | i :: r =>
    match count_witness_sigops flag_p2sh flag_witness (si_script_sig i) (si_prev_spk i) (si_witness i) with
    | None => None
    | Some c => witness_cost_loop flag_p2sh flag_witness r (wrap64 (n + c))
    end
  end.
Definition tx_sigop_cost (flag_p2sh flag_witness : bool) (t : stx) : option Z :=
  let n0 := wrapu32 (legacy_sigop_count t * WITNESS_SCALE_FACTOR) in
  if st_coinbase t then Some n0
  else
    let n1 := if flag_p2sh then wrap64 (n0 + wrapu32 (p2sh_sigop_count_tx t * WITNESS_SCALE_FACTOR)) else n0 in
    witness_cost_loop flag_p2sh flag_witness (st_ins t) n1.

(* ------------------------------------------------------------------------------------------ *)
(* The specification side: the parsed operation list and a declarative count over it. *)

(* the operations of a script up to the first one that cannot be read; the flag tells whether the end was reached *)
Fixpoint parse_ops (fuel : nat) (s : script) : list op * bool :=
  match fuel with
  | O => ([], match s with [] => true | _ => false end)
  | S f =>
    match s with
    | [] => ([], true)
    | _ => match get_op s with
           | None => ([], false)
           | Some (o, rest) => let (l, ok) := parse_ops f rest in (o :: l, ok)
           end
    end
  end.
Definition parse (s : script) : list op * bool := parse_ops (length s) s.

(* what one operation adds, given the opcode before it: CHECKSIG(VERIFY) = 1; CHECKMULTISIG(VERIFY) = the value of a
   directly preceding OP_1..OP_16 when counting accurately, 20 otherwise *)
Definition op_weight (accurate : bool) (prev cur : Z) : Z :=
  if (cur =? 172) || (cur =? 173) then 1
  else if (cur =? 174) || (cur =? 175) then
    (if accurate && (81 <=? prev) && (prev <=? 96) then prev - 80 else 20)
  else 0.
Fixpoint count_ops (accurate : bool) (prev : Z) (ops : list op) : Z :=
  match ops with
  | [] => 0
  | o :: r => op_weight accurate prev (op_code o) + count_ops accurate (op_code o) r
  end.
Definition spec_sigops (accurate : bool) (s : script) : Z := count_ops accurate 255 (fst (parse s)).

(* the script a P2SH / P2SH-wrapped input commits to: the data of the last operation of a scriptSig that parses to
   the end and contains only push operations (opcode <= OP_16 = 96); [] for an empty scriptSig *)
Definition last_data (ops : list op) : list Z := match rev ops with [] => [] | o :: _ => op_data o end.
Definition redeem_script (scriptSig : script) : option (list Z) :=
  let (ops, ok) := parse scriptSig in
  if ok && forallb (fun o => op_code o <=? 96) ops then Some (last_data ops) else None.
Definition spec_is_p2sh (s : script) : bool :=
  match s with
  | a :: b :: r => (length r =? 21)%nat && (a =? 169) && (b =? 20) && byte_is r 20 135      (* HASH160 <20 bytes> EQUAL *)
  | _ => false
  end.
Definition spec_p2sh_sigops (scriptPubKey scriptSig : script) : Z :=
  if spec_is_p2sh scriptPubKey then
    match redeem_script scriptSig with Some rs => spec_sigops true rs | None => 0 end
  else spec_sigops true scriptPubKey.

(* version and program of a witness program: 4..42 bytes, a version opcode (0, or 81..96 for 1..16) and one direct
   push of all the remaining 2..40 bytes *)
Definition spec_witness_program (s : script) : option (Z * list Z) :=
  match s with
  | v :: n :: prog =>
    if ((v =? 0) || ((81 <=? v) && (v <=? 96))) && (n =? zlen prog) && (2 <=? n) && (n <=? 40)
    then Some ((if v =? 0 then 0 else v - 80), prog) else None
  | _ => None
  end.
Definition spec_program_sigops (vp : Z * list Z) (stack : list (list Z)) : Z :=
  let (v, p) := vp in
  if (v =? 0) && (zlen p =? 20) then 1
  else if (v =? 0) && (zlen p =? 32) then match rev stack with [] => 0 | top :: _ => spec_sigops true top end
  else 0.
Definition spec_witness_sigops (scriptSig scriptPubKey : script) (stack : list (list Z)) : Z :=
  match spec_witness_program scriptPubKey with
  | Some vp => spec_program_sigops vp stack
  | None =>
    if spec_is_p2sh scriptPubKey then
      match redeem_script scriptSig with
      | Some rs => match spec_witness_program rs with Some vp => spec_program_sigops vp stack | None => 0 end
      | None => 0
      end
    else 0
  end.

(* cost of a transaction: 4 per legacy sigop (scriptSigs and outputs, inaccurate count), and for non-coinbase
   transactions 4 per P2SH redeem-script sigop (accurate) when P2SH is enforced and 1 per witness sigop when
   segwit is enforced *)
Definition spec_legacy (t : stx) : Z :=
  zsum (map (fun i => spec_sigops false (si_script_sig i)) (st_ins t)) + zsum (map (spec_sigops false) (st_outs t)).
Definition spec_p2sh_tx (t : stx) : Z :=
  zsum (map (fun i => if spec_is_p2sh (si_prev_spk i) then spec_p2sh_sigops (si_prev_spk i) (si_script_sig i) else 0) (st_ins t)).
Definition spec_witness_tx (t : stx) : Z :=
  zsum (map (fun i => spec_witness_sigops (si_script_sig i) (si_prev_spk i) (si_witness i)) (st_ins t)).
Definition spec_tx_cost (flag_p2sh flag_witness : bool) (t : stx) : Z :=
  4 * spec_legacy t +
  (if st_coinbase t then 0
   else (if flag_p2sh then 4 * spec_p2sh_tx t else 0) + (if flag_witness then spec_witness_tx t else 0)).

(* sizes: the theorems are for scripts as they occur in blocks (a block is at most 4,000,000 bytes) *)
Definition script_bytes_ok (s : script) : Prop := Forall (fun b => 0 <= b <= 255) s.
(* the serialized form of an operation (any of the push forms may be used for any length that fits it) and the
   operations that have one: used to state that parse inverts it *)
Definition encode_op (o : op) : script :=
  let c := op_code o in
  let n := zlen (op_data o) in
  c :: (if c <? 76 then []
        else if c =? 76 then [n]
        else if c =? 77 then [n mod 256; n / 256]
        else if c =? 78 then [n mod 256; (n / 256) mod 256; (n / 65536) mod 256; n / 16777216]
        else []) ++ op_data o.
Definition wf_op (o : op) : Prop :=
  let c := op_code o in
  let n := zlen (op_data o) in
  0 <= c <= 255 /\
  (c < 76 -> n = c) /\ (c = 76 -> n <= 255) /\ (c = 77 -> n <= 65535) /\ (c = 78 -> n <= 4294967295) /\
  (78 < c -> op_data o = []).
Definition encode_ops (ops : list op) : script := concat (map encode_op ops).

Definition tx_script_bytes (t : stx) : Z :=
  zsum (map (fun i => zlen (si_script_sig i) + zlen (si_prev_spk i) + zsum (map zlen (si_witness i))) (st_ins t)) +
  zsum (map zlen (st_outs t)).
