(* Signature / public-key encoding rules and the transaction signature checkers (C10).
   Transcribed from src/script/interpreter.cpp:
     IsValidSignatureEncoding, IsLowDERSignature, IsDefinedHashtypeSignature, CheckSignatureEncoding,
     IsCompressedOrUncompressedPubKey, IsCompressedPubKey, CheckPubKeyEncoding,
     GenericTransactionSignatureChecker::CheckECDSASignature / CheckSchnorrSignature
   and from src/pubkey.h: CPubKey::GetLen / Set / IsValid.
   The curve is an oracle: CPubKey::Verify, XOnlyPubKey::VerifySchnorr and CPubKey::CheckLowS are
   Section variables.  Executable definitions only (proofs: proofs/SigEncLemmas.v). *)
From Coq Require Import NArith.
From BV Require Import lib.Ints gen.Params_gen model.SerBase model.SerTx model.SigHash.
Local Open Scope Z_scope.

(* sig[i] on a std::vector<unsigned char>: None is a read outside the vector (undefined behaviour
   in C++; sigenc_no_oob proves the guards exclude it) *)
Definition byte_at (sig : list N) (i : Z) : option Z :=
  if i <? 0 then None else option_map Z.of_N (nth_error sig (Z.to_nat i)).
Definition rd {A} (sig : list N) (i : Z) (k : Z -> option A) : option A :=
  match byte_at sig i with Some b => k b | None => None end.

(* bool static IsValidSignatureEncoding(const std::vector<unsigned char> &sig) {
       if (sig.size() < 9) return false;
       if (sig.size() > 73) return false;
       if (sig[0] != 0x30) return false;
       if (sig[1] != sig.size() - 3) return false;
       unsigned int lenR = sig[3];
       if (5 + lenR >= sig.size()) return false;
       unsigned int lenS = sig[5 + lenR];
       if ((size_t)(lenR + lenS + 7) != sig.size()) return false;
       if (sig[2] != 0x02) return false;
       if (lenR == 0) return false;
       if (sig[4] & 0x80) return false;
       if (lenR > 1 && (sig[4] == 0x00) && !(sig[5] & 0x80)) return false;
       if (sig[lenR + 4] != 0x02) return false;
       if (lenS == 0) return false;
       if (sig[lenR + 6] & 0x80) return false;
       if (lenS > 1 && (sig[lenR + 6] == 0x00) && !(sig[lenR + 7] & 0x80)) return false;
       return true;
   }
   Same order of tests and of reads; && short-circuits, so sig[5] / sig[lenR+7] are read only when
   the two conditions before them hold. *)
Definition is_valid_signature_encoding (sig : list N) : option bool :=
  let n := Z.of_nat (length sig) in
  if n <? 9 then Some false else
  if n >? 73 then Some false else
  rd sig 0 (fun b0 => if negb (b0 =? 48) then Some false else
  rd sig 1 (fun b1 => if negb (b1 =? n - 3) then Some false else
  rd sig 3 (fun lenR => if 5 + lenR >=? n then Some false else
  rd sig (5 + lenR) (fun lenS => if negb (lenR + lenS + 7 =? n) then Some false else
  rd sig 2 (fun b2 => if negb (b2 =? 2) then Some false else
  if lenR =? 0 then Some false else
  rd sig 4 (fun r0 => if negb (Z.land r0 128 =? 0) then Some false else
  match (if (lenR >? 1) && (r0 =? 0) then rd sig 5 (fun r1 => Some (Z.land r1 128 =? 0)) else Some false) with
  | None => None
  | Some true => Some false
  | Some false =>
  rd sig (lenR + 4) (fun m2 => if negb (m2 =? 2) then Some false else
  if lenS =? 0 then Some false else
  rd sig (lenR + 6) (fun s0 => if negb (Z.land s0 128 =? 0) then Some false else
  match (if (lenS >? 1) && (s0 =? 0) then rd sig (lenR + 7) (fun s1 => Some (Z.land s1 128 =? 0)) else Some false) with
  | None => None
  | Some true => Some false
  | Some false => Some true
  end))
  end)))))).

(* bool static IsDefinedHashtypeSignature(const valtype &vchSig) {
       if (vchSig.size() == 0) return false;
       unsigned char nHashType = vchSig[vchSig.size() - 1] & (~(SIGHASH_ANYONECANPAY));
       if (nHashType < SIGHASH_ALL || nHashType > SIGHASH_SINGLE) return false;
       return true; }
   ~(SIGHASH_ANYONECANPAY) is the int -129; the conversion back to unsigned char keeps bits 0..6. *)
Definition is_defined_hashtype_signature (sig : list N) : bool :=
  match rev sig with
  | [] => false
  | last :: _ =>
    let nht := wrapu8 (Z.land (Z.of_N last) (Z.lnot SIGHASH_ANYONECANPAY)) in
    if (nht <? SIGHASH_ALL) || (nht >? SIGHASH_SINGLE) then false else true
  end.

(* ScriptError values these functions can set *)
Inductive enc_err : Set :=
| E_SIG_DER | E_SIG_HIGH_S | E_SIG_HASHTYPE | E_PUBKEYTYPE | E_WITNESS_PUBKEYTYPE
| E_SCHNORR_SIG_SIZE | E_SCHNORR_SIG_HASHTYPE | E_SCHNORR_SIG
| E_OOB.      (* a read outside a vector: never happens (sigenc_no_oob) *)

Definition flag_set (flags mask : Z) : bool := negb (Z.land flags mask =? 0).

(* all but the last element: vchSig.begin() .. vchSig.begin() + vchSig.size() - 1 *)
Definition drop_last {A} (l : list A) : list A := removelast l.

Section Oracles.
(* CPubKey::CheckLowS on the DER part (lax parse + !secp256k1_ecdsa_signature_normalize) *)
Variable low_s : list N -> bool.

(* bool static IsLowDERSignature(const valtype &vchSig, ScriptError* serror) {
       if (!IsValidSignatureEncoding(vchSig)) return set_error(serror, SCRIPT_ERR_SIG_DER);
       std::vector<unsigned char> vchSigCopy(vchSig.begin(), vchSig.begin() + vchSig.size() - 1);
       if (!CPubKey::CheckLowS(vchSigCopy)) return set_error(serror, SCRIPT_ERR_SIG_HIGH_S);
       return true; }
   bool CheckSignatureEncoding(const std::vector<unsigned char> &vchSig, script_verify_flags flags, ScriptError* serror) {
       if (vchSig.size() == 0) return true;
       if ((flags & (DERSIG | LOW_S | STRICTENC)) != 0 && !IsValidSignatureEncoding(vchSig)) return set_error(serror, SCRIPT_ERR_SIG_DER);
       else if ((flags & LOW_S) != 0 && !IsLowDERSignature(vchSig, serror)) return false;
       else if ((flags & STRICTENC) != 0 && !IsDefinedHashtypeSignature(vchSig)) return set_error(serror, SCRIPT_ERR_SIG_HASHTYPE);
       return true; } *)
Definition is_low_der_signature (sig : list N) : option enc_err :=
  match is_valid_signature_encoding sig with
  | None => Some E_OOB
  | Some false => Some E_SIG_DER
  | Some true => if negb (low_s (drop_last sig)) then Some E_SIG_HIGH_S else None
  end.

(* None = true (no error) *)
Definition check_signature_encoding (flags : Z) (sig : list N) : option enc_err :=
  match sig with
  | [] => None
  | _ :: _ =>
    let der := flag_set flags (Z.lor SH_FLAG_DERSIG (Z.lor SH_FLAG_LOW_S SH_FLAG_STRICTENC)) in
    match (if der then is_valid_signature_encoding sig else Some true) with
    | None => Some E_OOB
    | Some false => Some E_SIG_DER
    | Some true =>
      match (if flag_set flags SH_FLAG_LOW_S then is_low_der_signature sig else None) with
      | Some e => Some e
      | None =>
        if flag_set flags SH_FLAG_STRICTENC && negb (is_defined_hashtype_signature sig) then Some E_SIG_HASHTYPE
        else None
      end
    end
  end.

(* bool static IsCompressedOrUncompressedPubKey(const valtype &vchPubKey) {
       if (vchPubKey.size() < CPubKey::COMPRESSED_SIZE) return false;
       if (vchPubKey[0] == 0x04) { if (vchPubKey.size() != CPubKey::SIZE) return false; }
       else if (vchPubKey[0] == 0x02 || vchPubKey[0] == 0x03) { if (vchPubKey.size() != CPubKey::COMPRESSED_SIZE) return false; }
       else return false;
       return true; } *)
Definition is_compressed_or_uncompressed_pubkey (pk : list N) : option bool :=
  let n := Z.of_nat (length pk) in
  if n <? SH_PUBKEY_COMPRESSED_SIZE then Some false else
  rd pk 0 (fun p0 =>
    if p0 =? 4 then (if negb (n =? SH_PUBKEY_SIZE) then Some false else Some true)
    else if (p0 =? 2) || (p0 =? 3) then (if negb (n =? SH_PUBKEY_COMPRESSED_SIZE) then Some false else Some true)
    else Some false).
(* bool static IsCompressedPubKey(const valtype &vchPubKey) {
       if (vchPubKey.size() != CPubKey::COMPRESSED_SIZE) return false;
       if (vchPubKey[0] != 0x02 && vchPubKey[0] != 0x03) return false;
       return true; } *)
Definition is_compressed_pubkey (pk : list N) : option bool :=
  let n := Z.of_nat (length pk) in
  if negb (n =? SH_PUBKEY_COMPRESSED_SIZE) then Some false else
  rd pk 0 (fun p0 => if negb (p0 =? 2) && negb (p0 =? 3) then Some false else Some true).

Inductive sigversion : Set := SV_BASE | SV_WITNESS_V0 | SV_TAPROOT | SV_TAPSCRIPT.

(* bool static CheckPubKeyEncoding(vchPubKey, flags, sigversion, serror) {
       if ((flags & SCRIPT_VERIFY_STRICTENC) != 0 && !IsCompressedOrUncompressedPubKey(vchPubKey)) return set_error(serror, SCRIPT_ERR_PUBKEYTYPE);
       if ((flags & SCRIPT_VERIFY_WITNESS_PUBKEYTYPE) != 0 && sigversion == SigVersion::WITNESS_V0 && !IsCompressedPubKey(vchPubKey))
           return set_error(serror, SCRIPT_ERR_WITNESS_PUBKEYTYPE);
       return true; } *)
Definition check_pubkey_encoding (flags : Z) (sv : sigversion) (pk : list N) : option enc_err :=
  match (if flag_set flags SH_FLAG_STRICTENC then is_compressed_or_uncompressed_pubkey pk else Some true) with
  | None => Some E_OOB
  | Some false => Some E_PUBKEYTYPE
  | Some true =>
    match (if flag_set flags SH_FLAG_WITNESS_PUBKEYTYPE && (match sv with SV_WITNESS_V0 => true | _ => false end)
           then is_compressed_pubkey pk else Some true) with
    | None => Some E_OOB
    | Some false => Some E_WITNESS_PUBKEYTYPE
    | Some true => None
    end
  end.

(* CPubKey(vchPubKey).IsValid():
     GetLen(h) = (h == 2 || h == 3) ? 33 : (h == 4 || h == 6 || h == 7) ? 65 : 0
     Set(b, e): len = b == e ? 0 : GetLen(b[0]); if (len && len == e - b) copy else Invalidate()   (vch[0] = 0xFF)
     IsValid(): size() > 0 with size() = GetLen(vch[0]) *)
Definition pubkey_get_len (h : Z) : Z :=
  if (h =? 2) || (h =? 3) then SH_PUBKEY_COMPRESSED_SIZE
  else if (h =? 4) || (h =? 6) || (h =? 7) then SH_PUBKEY_SIZE else 0.
Definition pubkey_is_valid (pk : list N) : bool :=
  match pk with
  | [] => false
  | h :: _ => let len := pubkey_get_len (Z.of_N h) in negb (len =? 0) && (len =? Z.of_nat (length pk))
  end.

(* ---- the checkers ---- *)
Variable H : list N -> list N.
(* CPubKey::Verify(sighash, vchSig): pubkey bytes, 32-byte message, DER signature (hash type removed) *)
Variable ecdsa_verify : list N -> list N -> list N -> bool.
(* XOnlyPubKey::VerifySchnorr(sighash, sig): 32-byte key, 32-byte message, 64-byte signature *)
Variable schnorr_verify : list N -> list N -> list N -> bool.

Inductive chk_res : Set :=
| ChkTrue | ChkFalse
| ChkMissing           (* HandleMissingData *)
| ChkAssert            (* an assert would fail *)
| ChkErr (e : enc_err).

(* bool CheckECDSASignature(vchSigIn, vchPubKey, scriptCode, sigversion) const {
       CPubKey pubkey(vchPubKey);
       if (!pubkey.IsValid()) return false;
       std::vector<unsigned char> vchSig(vchSigIn);
       if (vchSig.empty()) return false;
       int nHashType = vchSig.back();
       vchSig.pop_back();
       if (sigversion == SigVersion::WITNESS_V0 && amount < 0) return HandleMissingData(m_mdb);
       uint256 sighash = SignatureHash(scriptCode, *txTo, nIn, nHashType, amount, sigversion, this->txdata, &m_sighash_cache);
       if (!VerifyECDSASignature(vchSig, pubkey, sighash)) return false;
       return true; }
   sigversion is BASE or WITNESS_V0 here (EvalChecksigPreTapscript). *)
Definition check_ecdsa_signature (witness_v0 : bool) (t : tx) (nIn : nat) (amount : Z)
           (sig pk sc : list N) : chk_res :=
  if negb (pubkey_is_valid pk) then ChkFalse else
  match rev sig with
  | [] => ChkFalse
  | last :: _ =>
    let ht := Z.of_N last in
    let der := drop_last sig in
    if witness_v0 && (amount <? 0) then ChkMissing else
    match (if witness_v0 then bip143_sighash H t nIn ht sc amount else legacy_sighash H t nIn ht sc) with
    | None => ChkAssert
    | Some d => if ecdsa_verify pk d der then ChkTrue else ChkFalse
    end
  end.

(* bool CheckSchnorrSignature(sig, pubkey_in, sigversion, execdata, serror) const {
       assert(sigversion == SigVersion::TAPROOT || sigversion == SigVersion::TAPSCRIPT);
       assert(pubkey_in.size() == 32);
       if (sig.size() != 64 && sig.size() != 65) return set_error(serror, SCRIPT_ERR_SCHNORR_SIG_SIZE);
       XOnlyPubKey pubkey{pubkey_in};
       uint8_t hashtype = SIGHASH_DEFAULT;
       if (sig.size() == 65) {
           hashtype = SpanPopBack(sig);
           if (hashtype == SIGHASH_DEFAULT) return set_error(serror, SCRIPT_ERR_SCHNORR_SIG_HASHTYPE);
       }
       uint256 sighash;
       if (!this->txdata) return HandleMissingData(m_mdb);
       if (!SignatureHashSchnorr(sighash, execdata, *txTo, nIn, hashtype, sigversion, *this->txdata, m_mdb))
           return set_error(serror, SCRIPT_ERR_SCHNORR_SIG_HASHTYPE);
       if (!VerifySchnorrSignature(sig, pubkey, sighash)) return set_error(serror, SCRIPT_ERR_SCHNORR_SIG);
       return true; }
   (the sigversion is carried by tc_leaf of the context: Some = TAPSCRIPT) *)
Definition check_schnorr_signature (t : tx) (nIn : nat) (c : tap_ctx) (sig pk : list N) : chk_res :=
  if negb (length pk =? 32)%nat then ChkAssert else
  let n := length sig in
  if negb (n =? 64)%nat && negb (n =? 65)%nat then ChkErr E_SCHNORR_SIG_SIZE else
  let '(ht, sig64, bad0) :=
    if (n =? 65)%nat then
      match rev sig with
      | last :: _ => (Z.of_N last, drop_last sig, Z.of_N last =? SIGHASH_DEFAULT)
      | [] => (SIGHASH_DEFAULT, sig, false)
      end
    else (SIGHASH_DEFAULT, sig, false) in
  if bad0 then ChkErr E_SCHNORR_SIG_HASHTYPE else
  match taproot_sighash H t nIn ht c with
  | ShAssert => ChkAssert
  | ShMissing => ChkMissing
  | ShFail => ChkErr E_SCHNORR_SIG_HASHTYPE
  | ShOne => ChkAssert
  | ShPre d => if schnorr_verify pk d sig64 then ChkTrue else ChkErr E_SCHNORR_SIG
  end.

End Oracles.

(* ---- a concrete reading of CPubKey::CheckLowS, used as the oracle in the correspondence ----
   ecdsa_signature_parse_der_lax on a strictly DER-encoded signature reads R and S as the big-endian
   integers of the two INTEGER bodies; a value that does not fit 32 bytes or is >= the group order
   makes the parsed signature (0,0); secp256k1_ecdsa_signature_normalize returns 1 iff S > order/2.
   Only defined through the strict-DER layout, which IsLowDERSignature has established before calling it. *)
Definition SECP256K1_ORDER : Z := 0xFFFFFFFFFFFFFFFFFFFFFFFFFFFFFFFEBAAEDCE6AF48A03BBFD25E8CD0364141.
Fixpoint be_value_acc (acc : Z) (l : list N) : Z :=
  match l with [] => acc | b :: r => be_value_acc (256 * acc + Z.of_N b) r end.
Definition be_value (l : list N) : Z := be_value_acc 0 l.
(* der = 30 len 02 lenR R 02 lenS S *)
Definition low_s_arith (der : list N) : bool :=
  match der with
  | _ :: _ :: _ :: lenR :: t4 =>
    let vR := firstn (N.to_nat lenR) t4 in
    match skipn (N.to_nat lenR) t4 with
    | _ :: lenS :: t6 =>
      let vS := firstn (N.to_nat lenS) t6 in
      let r := be_value vR in let s := be_value vS in
      if (r >=? SECP256K1_ORDER) || (s >=? SECP256K1_ORDER) then true
      else s <=? SECP256K1_ORDER / 2
    | _ => false
    end
  | _ => false
  end.
