(* The ledger: UTXO set, CheckTxInputs, UpdateCoins, ConnectBlock, DisconnectBlock and the
   connect/disconnect/reorg state machine (properties C01, C02, C09).  Transcribed from
     src/consensus/tx_verify.cpp   Consensus::CheckTxInputs
     src/coins.cpp                 CCoinsViewCache::HaveInputs / AddCoin / SpendCoin, AddCoins, AccessByTxid
     src/primitives/transaction.cpp CTransaction::GetValueOut
     src/validation.cpp            CheckBlock (transaction part), UpdateCoins, Chainstate::ConnectBlock,
                                   ApplyTxInUndo, Chainstate::DisconnectBlock, ConnectTip, DisconnectTip
   CheckTransaction is the model of C03 (model/TxCheck.v), GetBlockSubsidy the one of C31
   (model/Amount.v); both are imported, not copied.
   Executable definitions only (proofs are in proofs/Ledger*.v).

   Not modelled (outside C01/C02/C09): script execution (each input carries the verdict of the
   interpreter as a bit), sequence locks, sigop counting, block size/merkle/PoW checks, the cache
   layering of CCoinsViewCache (family `coins`).  Transaction ids are abstract numbers. *)
From BV Require Import lib.Ints lib.ChainParams gen.Params_gen model.Amount.
From BV Require model.TxCheck.
Local Open Scope Z_scope.

(* ------------------------------------------------------------------------------------------ *)
(* Data *)

(* COutPoint { Txid hash; uint32_t n; } *)
Definition outpoint := (Z * Z)%type.
(* class Coin { CTxOut out; unsigned int fCoinBase : 1; uint32_t nHeight : 31; } *)
Record coin := { c_value : Z; c_height : Z; c_cb : bool }.
(* CTxIn: prevout + (scriptSig, witness), of which only the interpreter's verdict is kept *)
Record lin := { i_prev : outpoint; i_script_ok : bool }.
(* CTxOut: nValue + scriptPubKey, of which only !IsUnspendable() is kept:
     bool IsUnspendable() const { return (size() > 0 && *begin() == OP_RETURN) || (size() > MAX_SCRIPT_SIZE); } *)
Record lout := { o_value : Z; o_spendable : bool }.
Record ltx := { t_id : Z; t_in : list lin; t_out : list lout }.
Definition block := list ltx.

Inductive reason :=
| r_tx (r : TxCheck.reason)            (* CheckBlock -> CheckTransaction *)
| bad_blk_length | bad_cb_missing | bad_cb_multiple
| bad_txns_BIP30
| bad_txns_inputs_missingorspent | bad_txns_premature_spend_of_coinbase
| bad_txns_inputvalues_outofrange | bad_txns_in_belowout | bad_txns_fee_outofrange
| bad_txns_accumulated_fee_outofrange
| script_verify_flag_failed
| bad_cb_amount
| abort_input_missing       (* assert(!coin.IsSpent()) in CheckTxInputs *)
| abort_spend_failed        (* assert(is_spent) in UpdateCoins *)
| abort_overwrite           (* std::logic_error thrown by AddCoin(possible_overwrite = false) *)
| abort_value_out.          (* std::runtime_error thrown by GetValueOut *)

Inductive result (A : Type) := Ok (a : A) | Err (e : reason).
Arguments Ok {A} a.
Arguments Err {A} e.

(* ------------------------------------------------------------------------------------------ *)
(* The UTXO set: a finite map outpoint -> coin, kept as a list strictly sorted by key, so that
   equal maps are equal terms. *)
Definition utxo := list (outpoint * coin).

Definition ocmp (a b : outpoint) : comparison :=
  match fst a ?= fst b with Eq => snd a ?= snd b | c => c end.
Definition oeqb (a b : outpoint) : bool := (fst a =? fst b) && (snd a =? snd b).

Fixpoint lookup (u : utxo) (o : outpoint) : option coin :=
  match u with
  | [] => None
  | (k, c) :: r => if oeqb o k then Some c else lookup r o
  end.
Fixpoint add (u : utxo) (o : outpoint) (c : coin) : utxo :=
  match u with
  | [] => [(o, c)]
  | (k, d) :: r => match ocmp o k with
                   | Lt => (o, c) :: u
                   | Eq => (o, c) :: r
                   | Gt => (k, d) :: add r o c
                   end
  end.
Fixpoint remove (u : utxo) (o : outpoint) : utxo :=
  match u with
  | [] => []
  | (k, d) :: r => if oeqb o k then r else (k, d) :: remove r o
  end.
Definition is_some {A} (x : option A) : bool := match x with Some _ => true | None => false end.
(* bool HaveCoin(outpoint): exists and is unspent *)
Definition have_coin (u : utxo) (o : outpoint) : bool := is_some (lookup u o).
(* sum of the values (what kernel/coinstats reports as total_amount) *)
Definition total (u : utxo) : Z := zsum (map (fun kc => c_value (snd kc)) u).

(* ------------------------------------------------------------------------------------------ *)
(* CheckBlock: the part about transactions *)

Definition to_txcheck (t : ltx) : TxCheck.tx :=
  {| TxCheck.vin := map (fun i => {| TxCheck.prev_hash := fst (i_prev i); TxCheck.prev_n := snd (i_prev i);
                                     TxCheck.script_sig_len := 2 |}) (t_in t);
     TxCheck.vout := map (fun o => {| TxCheck.value := o_value o; TxCheck.spk_len := 1 |}) (t_out t) |}.

(* bool IsCoinBase() const { return (vin.size() == 1 && vin[0].prevout.IsNull()); } *)
Definition is_null (o : outpoint) : bool := (fst o =? 0) && (snd o =? TxCheck.NULL_INDEX).
Definition is_cb (t : ltx) : bool := match t_in t with [i] => is_null (i_prev i) | _ => false end.

Fixpoint first_tx_error (l : list ltx) : option reason :=
  match l with
  | [] => None
  | t :: r => match TxCheck.check_transaction (to_txcheck t) with
              | Some e => Some (r_tx e)
              | None => first_tx_error r
              end
  end.

(* if (block.vtx.empty() || ...size limits...) return "bad-blk-length";
   if (block.vtx.empty() || !block.vtx[0]->IsCoinBase()) return "bad-cb-missing";
   for (i = 1; i < block.vtx.size(); i++) if (block.vtx[i]->IsCoinBase()) return "bad-cb-multiple";
   for (const auto& tx : block.vtx) if (!CheckTransaction( *tx, tx_state)) return tx_state.GetRejectReason(); *)
Definition check_block (b : block) : option reason :=
  match b with
  | [] => Some bad_blk_length
  | cbt :: rest =>
    if negb (is_cb cbt) then Some bad_cb_missing
    else if existsb is_cb rest then Some bad_cb_multiple
    else first_tx_error b
  end.

(* ------------------------------------------------------------------------------------------ *)
(* CAmount CTransaction::GetValueOut() const {
       CAmount nValueOut = 0;
       for (const auto& tx_out : vout) {
           if (!MoneyRange(tx_out.nValue) || !MoneyRange(nValueOut + tx_out.nValue)) throw std::runtime_error(...);
           nValueOut += tx_out.nValue; }
       return nValueOut; } *)
Fixpoint value_out_from (acc : Z) (outs : list lout) : option Z :=
  match outs with
  | [] => Some acc
  | o :: r => if negb (money_range (o_value o)) || negb (money_range (wrap64 (acc + o_value o))) then None
              else value_out_from (wrap64 (acc + o_value o)) r
  end.
Definition get_value_out (t : ltx) : option Z := value_out_from 0 (t_out t).

(* bool CCoinsViewCache::HaveInputs(const CTransaction& tx) const {
       if (!tx.IsCoinBase()) for (i...) if (!HaveCoin(tx.vin[i].prevout)) return false;
       return true; } *)
Definition have_inputs (u : utxo) (t : ltx) : bool :=
  if is_cb t then true else forallb (fun i => have_coin u (i_prev i)) (t_in t).

(* for (i...) { const Coin& coin = inputs.AccessCoin(prevout); assert(!coin.IsSpent());
       if (coin.IsCoinBase() && nSpendHeight - coin.nHeight < COINBASE_MATURITY) return "bad-txns-premature-spend-of-coinbase";
       nValueIn += coin.out.nValue;                                    // int64 addition, before the range test
       if (!MoneyRange(coin.out.nValue) || !MoneyRange(nValueIn)) return "bad-txns-inputvalues-outofrange"; } *)
Fixpoint inputs_loop (u : utxo) (h : Z) (acc : Z) (ins : list lin) : result Z :=
  match ins with
  | [] => Ok acc
  | i :: r =>
    match lookup u (i_prev i) with
    | None => Err abort_input_missing
    | Some c =>
      if c_cb c && (wrap32 (h - c_height c) <? COINBASE_MATURITY) then Err bad_txns_premature_spend_of_coinbase
      else let acc' := wrap64 (acc + c_value c) in
           if negb (money_range (c_value c)) || negb (money_range acc') then Err bad_txns_inputvalues_outofrange
           else inputs_loop u h acc' r
    end
  end.

(* bool Consensus::CheckTxInputs(tx, state, inputs, nSpendHeight, txfee): returns the fee *)
Definition check_tx_inputs (u : utxo) (t : ltx) (h : Z) : result Z :=
  if negb (have_inputs u t) then Err bad_txns_inputs_missingorspent else
  match inputs_loop u h 0 (t_in t) with
  | Err e => Err e
  | Ok value_in =>
    match get_value_out t with
    | None => Err abort_value_out
    | Some value_out =>
      if value_in <? value_out then Err bad_txns_in_belowout
      else let fee := wrap64 (value_in - value_out) in
           if negb (money_range fee) then Err bad_txns_fee_outofrange else Ok fee
    end
  end.

(* ------------------------------------------------------------------------------------------ *)
(* UpdateCoins *)

(* for (const CTxIn &txin : tx.vin) { txundo.vprevout.emplace_back();
       bool is_spent = inputs.SpendCoin(txin.prevout, &txundo.vprevout.back()); assert(is_spent); } *)
Fixpoint spend_inputs (u : utxo) (ins : list lin) : option (utxo * list coin) :=
  match ins with
  | [] => Some (u, [])
  | i :: r =>
    match lookup u (i_prev i) with
    | None => None
    | Some c => match spend_inputs (remove u (i_prev i)) r with
                | None => None
                | Some (u', cs) => Some (u', c :: cs)
                end
    end
  end.

Definition mk_coin (o : lout) (h : Z) (cb : bool) : coin := {| c_value := o_value o; c_height := h; c_cb := cb |}.

(* void AddCoins(cache, tx, nHeight, check_for_overwrite = false) {
       bool fCoinbase = tx.IsCoinBase();
       for (size_t i = 0; i < tx.vout.size(); ++i) {
           bool overwrite = check_for_overwrite ? cache.HaveCoin(COutPoint(txid, i)) : fCoinbase;
           cache.AddCoin(COutPoint(txid, i), Coin(tx.vout[i], nHeight, fCoinbase), overwrite); } }
   void CCoinsViewCache::AddCoin(outpoint, coin, possible_overwrite) {
       if (coin.out.scriptPubKey.IsUnspendable()) return;
       if (!possible_overwrite) { if (!it->second.coin.IsSpent()) throw std::logic_error("Attempted to overwrite an unspent coin ..."); }
       it->second.coin = std::move(coin); }
   None = the exception.  (The output index is a uint32; a transaction has far fewer outputs.) *)
Fixpoint add_outputs (u : utxo) (txid h : Z) (cb : bool) (n : Z) (outs : list lout) : option utxo :=
  match outs with
  | [] => Some u
  | o :: r =>
    if negb (o_spendable o) then add_outputs u txid h cb (n + 1) r
    else if have_coin u (txid, n) && negb cb then None
    else add_outputs (add u (txid, n) (mk_coin o h cb)) txid h cb (n + 1) r
  end.

(* void UpdateCoins(tx, inputs, txundo, nHeight) { if (!tx.IsCoinBase()) {spend...}  AddCoins(inputs, tx, nHeight); } *)
Definition update_coins (u : utxo) (t : ltx) (h : Z) : result (utxo * list coin) :=
  match (if is_cb t then Some (u, []) else spend_inputs u (t_in t)) with
  | None => Err abort_spend_failed
  | Some (u1, spent) =>
    match add_outputs u1 (t_id t) h (is_cb t) 0 (t_out t) with
    | None => Err abort_overwrite
    | Some u2 => Ok (u2, spent)
    end
  end.

(* ------------------------------------------------------------------------------------------ *)
(* ConnectBlock *)

Record config := {
  cf_interval : Z;            (* consensusParams.nSubsidyHalvingInterval *)
  cf_bip30 : bool;            (* fEnforceBIP30 || pindex->nHeight >= BIP34_IMPLIES_BIP30_LIMIT, for the blocks in play *)
  cf_script_checks : bool;    (* fScriptChecks (false below an assumevalid block) *)
  cf_par : bool;              (* a script check queue with worker threads is in use: verdicts arrive at control->Complete() *)
  cf_disc_bip30_exception : bool  (* DisconnectBlock's !fEnforceBIP30 (the two historical blocks) *)
}.

(* for (const auto& tx : block.vtx) for (size_t o = 0; o < tx->vout.size(); o++)
       if (view.HaveCoin(COutPoint(tx->GetHash(), o))) state.Invalid(..., "bad-txns-BIP30", ...);
   (every output index, spendable or not) *)
Fixpoint any_output_exists (u : utxo) (txid : Z) (n : Z) (outs : list lout) : bool :=
  match outs with
  | [] => false
  | _ :: r => have_coin u (txid, n) || any_output_exists u txid (n + 1) r
  end.
Definition bip30_violated (u : utxo) (b : block) : bool :=
  existsb (fun t => any_output_exists u (t_id t) 0 (t_out t)) b.

(* The per-transaction loop.  `first` is i == 0; fees is nFees; sf records that a queued script check
   will fail; the undo records of the transactions after the first are returned in block order.
     if (!state.IsValid()) break;
     if (!tx.IsCoinBase()) {
         if (!Consensus::CheckTxInputs(tx, tx_state, view, pindex->nHeight, txfee)) { state.Invalid(reason of tx_state); break; }
         nFees += txfee;
         if (!MoneyRange(nFees)) { state.Invalid("bad-txns-accumulated-fee-outofrange"); break; }
         ... SequenceLocks (not modelled) }
     ... sigops (not modelled)
     if (!tx.IsCoinBase() && fScriptChecks) {
         if (control) { tx_ok = CheckInputScripts(..., &vChecks) [queues the checks, true]; control->Add(vChecks); }
         else tx_ok = CheckInputScripts(...);
         if (!tx_ok) { state.Invalid(reason); break; } }
     if (i > 0) blockundo.vtxundo.emplace_back();
     UpdateCoins(tx, view, i == 0 ? undoDummy : blockundo.vtxundo.back(), pindex->nHeight);
   A `break` with an invalid state ends in `return false` with that state (the later tests are all
   guarded by state.IsValid()), which is what Err is. *)
Definition tx_fees (u : utxo) (t : ltx) (h : Z) (fees : Z) : result Z :=
  if is_cb t then Ok fees else
  match check_tx_inputs u t h with
  | Err e => Err e
  | Ok fee => let fees' := wrap64 (fees + fee) in
              if negb (money_range fees') then Err bad_txns_accumulated_fee_outofrange else Ok fees'
  end.
Definition scripts_ok (cf : config) (t : ltx) : bool :=
  is_cb t || negb (cf_script_checks cf) || forallb i_script_ok (t_in t).

Fixpoint tx_loop (cf : config) (h : Z) (first : bool) (u : utxo) (fees : Z) (sf : bool) (txs : list ltx)
  : result (utxo * Z * bool * list (list coin)) :=
  match txs with
  | [] => Ok (u, fees, sf, [])
  | t :: r =>
    match tx_fees u t h fees with
    | Err e => Err e
    | Ok fees' =>
      if negb (scripts_ok cf t) && negb (cf_par cf) then Err script_verify_flag_failed else
      match update_coins u t h with
      | Err e => Err e
      | Ok (u', spent) =>
        match tx_loop cf h false u' fees' (sf || negb (scripts_ok cf t)) r with
        | Err e => Err e
        | Ok (u'', f, s, undo) => Ok (u'', f, s, if first then undo else spent :: undo)
        end
      end
    end
  end.

(* bool Chainstate::ConnectBlock(block, state, pindex, view, fJustCheck = false):
     CheckBlock; [genesis: nothing to do, not modelled]; BIP30 (sets the state invalid and goes on: the loop
     then breaks at once and nothing below overrides the reason); the loop;
     CAmount blockReward = nFees + GetBlockSubsidy(pindex->nHeight, params.GetConsensus());
     if (block.vtx[0]->GetValueOut() > blockReward && state.IsValid()) state.Invalid("bad-cb-amount");
     if (control) { auto r = control->Complete(); if (r.has_value() && state.IsValid()) state.Invalid("block-script-verify-flag-failed (..)"); }
     if (!state.IsValid()) return false;
   Ok carries the new view and the CBlockUndo. *)
Definition connect_block (cf : config) (u : utxo) (b : block) (h : Z) : result (utxo * list (list coin)) :=
  match check_block b with
  | Some e => Err e
  | None =>
    if cf_bip30 cf && bip30_violated u b then Err bad_txns_BIP30 else
    match tx_loop cf h true u 0 false b with
    | Err e => Err e
    | Ok (u', fees, sf, undo) =>
      let reward := wrap64 (fees + get_block_subsidy (cf_interval cf) h) in
      match (match b with cbt :: _ => get_value_out cbt | [] => None end) with
      | None => Err abort_value_out
      | Some cb_out =>
        if cb_out >? reward then Err bad_cb_amount
        else if sf then Err script_verify_flag_failed
        else Ok (u', undo)
      end
    end
  end.

(* ------------------------------------------------------------------------------------------ *)
(* DisconnectBlock *)

(* static const uint64_t MAX_OUTPUTS_PER_BLOCK{MAX_BLOCK_WEIGHT / MIN_TRANSACTION_OUTPUT_WEIGHT};
   MIN_TRANSACTION_OUTPUT_WEIGHT = WITNESS_SCALE_FACTOR * GetSerializeSize(CTxOut()) = 4 * 9 *)
Definition MAX_OUTPUTS_PER_BLOCK : Z := MAX_BLOCK_WEIGHT / (WITNESS_SCALE_FACTOR * 9).
(* const Coin& AccessByTxid(view, txid): the unspent output of txid with the lowest index below
   MAX_OUTPUTS_PER_BLOCK (the list is sorted by (txid, n)) *)
Definition access_by_txid (u : utxo) (txid : Z) : option coin :=
  match find (fun kc => (fst (fst kc) =? txid) && (snd (fst kc) <? MAX_OUTPUTS_PER_BLOCK)) u with
  | Some kc => Some (snd kc)
  | None => None
  end.

(* int ApplyTxInUndo(Coin&& undo, CCoinsViewCache& view, const COutPoint& out) {
       bool fClean = true;
       if (view.HaveCoin(out)) fClean = false;
       if (undo.nHeight == 0) { alternate = AccessByTxid(view, out.hash);
           if (!alternate.IsSpent()) { undo.nHeight = alternate.nHeight; undo.fCoinBase = alternate.fCoinBase; } else return DISCONNECT_FAILED; }
       view.AddCoin(out, std::move(undo), !fClean);
       return fClean ? DISCONNECT_OK : DISCONNECT_UNCLEAN; }
   None = DISCONNECT_FAILED; the bit is fClean. *)
Definition apply_txin_undo (u : utxo) (o : outpoint) (c : coin) : option (utxo * bool) :=
  let clean := negb (have_coin u o) in
  if c_height c =? 0 then
    match access_by_txid u (fst o) with
    | Some alt => Some (add u o {| c_value := c_value c; c_height := c_height alt; c_cb := c_cb alt |}, clean)
    | None => None
    end
  else Some (add u o c, clean).

(* for (unsigned int j = tx.vin.size(); j > 0;) { --j; res = ApplyTxInUndo(std::move(txundo.vprevout[j]), view, tx.vin[j].prevout);
       if (res == DISCONNECT_FAILED) return DISCONNECT_FAILED; fClean = fClean && res != DISCONNECT_UNCLEAN; }
   (last input first: the recursion restores the tail before the head);
   txundo.vprevout.size() != tx.vin.size() is DISCONNECT_FAILED *)
Fixpoint restore_inputs (u : utxo) (ins : list lin) (coins : list coin) : option (utxo * bool) :=
  match ins, coins with
  | [], [] => Some (u, true)
  | i :: ri, c :: rc =>
    match restore_inputs u ri rc with
    | None => None
    | Some (u1, cl1) => match apply_txin_undo u1 (i_prev i) c with
                        | None => None
                        | Some (u2, cl2) => Some (u2, cl1 && cl2)
                        end
    end
  | _, _ => None
  end.

(* for (size_t o = 0; o < tx.vout.size(); o++) if (!tx.vout[o].scriptPubKey.IsUnspendable()) {
       COutPoint out(hash, o); Coin coin; bool is_spent = view.SpendCoin(out, &coin);
       if (!is_spent || tx.vout[o] != coin.out || pindex->nHeight != coin.nHeight || is_coinbase != coin.IsCoinBase())
           if (!is_bip30_exception) fClean = false; } *)
Fixpoint remove_outputs (exc : bool) (u : utxo) (txid h : Z) (cb : bool) (n : Z) (outs : list lout) : utxo * bool :=
  match outs with
  | [] => (u, true)
  | o :: r =>
    if negb (o_spendable o) then remove_outputs exc u txid h cb (n + 1) r else
    let matches := match lookup u (txid, n) with
                   | None => false
                   | Some c => (c_value c =? o_value o) && (c_height c =? h) && Bool.eqb (c_cb c) cb
                   end in
    let '(u', cl) := remove_outputs exc (remove u (txid, n)) txid h cb (n + 1) r in
    (u', (matches || exc) && cl)
  end.

(* one transaction of the block, i > 0: outputs removed, then inputs restored *)
Definition disconnect_tx (cf : config) (u : utxo) (t : ltx) (spent : list coin) (h : Z) : option (utxo * bool) :=
  let '(u1, cl1) := remove_outputs (is_cb t && cf_disc_bip30_exception cf) u (t_id t) h (is_cb t) 0 (t_out t) in
  match restore_inputs u1 (t_in t) spent with
  | None => None
  | Some (u2, cl2) => Some (u2, cl1 && cl2)
  end.

(* for (int i = block.vtx.size() - 1; i >= 0; i--): last transaction first (the recursion undoes the tail first) *)
Fixpoint disconnect_txs (cf : config) (u : utxo) (txs : list ltx) (undo : list (list coin)) (h : Z) : option (utxo * bool) :=
  match txs, undo with
  | [], [] => Some (u, true)
  | t :: rt, s :: ru =>
    match disconnect_txs cf u rt ru h with
    | None => None
    | Some (u1, cl1) => match disconnect_tx cf u1 t s h with
                        | None => None
                        | Some (u2, cl2) => Some (u2, cl1 && cl2)
                        end
    end
  | _, _ => None
  end.

Inductive dresult := dr_ok (u : utxo) | dr_unclean (u : utxo) | dr_failed.

(* DisconnectResult Chainstate::DisconnectBlock(block, pindex, view):
     if (blockUndo.vtxundo.size() + 1 != block.vtx.size()) return DISCONNECT_FAILED;
     transactions in reverse; for i == 0 only the outputs are removed;
     return fClean ? DISCONNECT_OK : DISCONNECT_UNCLEAN; *)
Definition disconnect_block (cf : config) (u : utxo) (b : block) (undo : list (list coin)) (h : Z) : dresult :=
  match b with
  | [] => dr_failed
  | cbt :: rest =>
    if negb (Nat.eqb (length undo) (length rest)) then dr_failed else
    match disconnect_txs cf u rest undo h with
    | None => dr_failed
    | Some (u1, cl1) =>
      let '(u2, cl2) := remove_outputs (is_cb cbt && cf_disc_bip30_exception cf) u1 (t_id cbt) h (is_cb cbt) 0 (t_out cbt) in
      if cl1 && cl2 then dr_ok u2 else dr_unclean u2
    end
  end.

(* ------------------------------------------------------------------------------------------ *)
(* The chain state: the coins view at the tip and the active chain above genesis, tip first, each block
   with the undo data written when it was connected (genesis has height 0 and adds no coins). *)
Record chainstate := { cs_utxo : utxo; cs_chain : list (block * list (list coin)) }.
Definition genesis_state : chainstate := {| cs_utxo := []; cs_chain := [] |}.
Definition cs_height (s : chainstate) : Z := Z.of_nat (length (cs_chain s)).

(* Chainstate::ConnectTip: ConnectBlock on a view layered over the tip's; only flushed on success
   (otherwise InvalidBlockFound and the view is reset) *)
Definition connect_tip (cf : config) (s : chainstate) (b : block) : chainstate * option reason :=
  match connect_block cf (cs_utxo s) b (cs_height s + 1) with
  | Ok (u', undo) => ({| cs_utxo := u'; cs_chain := (b, undo) :: cs_chain s |}, None)
  | Err e => (s, Some e)
  end.

(* Chainstate::DisconnectTip: if (DisconnectBlock(block, pindexDelete, view) != DISCONNECT_OK) return false;
   the genesis block is never disconnected (assert(pindexDelete->pprev)) *)
Definition disconnect_tip (cf : config) (s : chainstate) : chainstate * bool :=
  match cs_chain s with
  | [] => (s, false)
  | (b, undo) :: rest =>
    match disconnect_block cf (cs_utxo s) b undo (cs_height s) with
    | dr_ok u => ({| cs_utxo := u; cs_chain := rest |}, true)
    | _ => (s, false)
    end
  end.

(* what ActivateBestChainStep does to the ledger: disconnect some tips, then connect blocks one by
   one, stopping at the first that fails *)
Inductive op := op_connect (b : block) | op_disconnect | op_reorg (depth : nat) (bs : list block).

Fixpoint disconnect_n (cf : config) (s : chainstate) (n : nat) : chainstate * bool :=
  match n with
  | O => (s, true)
  | S m => match disconnect_tip cf s with
           | (s', true) => disconnect_n cf s' m
           | (s', false) => (s', false)
           end
  end.
Fixpoint connect_all (cf : config) (s : chainstate) (bs : list block) : chainstate :=
  match bs with
  | [] => s
  | b :: r => match connect_tip cf s b with
              | (s', None) => connect_all cf s' r
              | (s', Some _) => s'
              end
  end.
Definition step (cf : config) (s : chainstate) (o : op) : chainstate :=
  match o with
  | op_connect b => fst (connect_tip cf s b)
  | op_disconnect => fst (disconnect_tip cf s)
  | op_reorg d bs => match disconnect_n cf s d with
                     | (s', true) => connect_all cf s' bs
                     | (s', false) => s'
                     end
  end.
Definition run (cf : config) (s : chainstate) (ops : list op) : chainstate := fold_left (step cf) ops s.

(* the blocks of the active chain, oldest first *)
Definition chain_blocks (s : chainstate) : list block := rev (map fst (cs_chain s)).
(* connecting a chain from genesis in order; None if some block is refused *)
Fixpoint replay_from (cf : config) (s : chainstate) (bs : list block) : option chainstate :=
  match bs with
  | [] => Some s
  | b :: r => match connect_tip cf s b with
              | (s', None) => replay_from cf s' r
              | (_, Some _) => None
              end
  end.
Definition replay (cf : config) (bs : list block) : option chainstate := replay_from cf genesis_state bs.

(* sum of the subsidies of the heights 1 .. n *)
Fixpoint subsidy_sum (interval : Z) (n : nat) : Z :=
  match n with O => 0 | S m => subsidy_sum interval m + get_block_subsidy interval (Z.of_nat (S m)) end.

(* ------------------------------------------------------------------------------------------ *)
(* Specification-level notions used in the statements *)

(* the outpoints a block consumes, in order (coinbase has none) *)
Definition tx_spends (t : ltx) : list outpoint := if is_cb t then [] else map i_prev (t_in t).
Definition block_spends (b : block) : list outpoint := concat (map tx_spends b).
(* the coins a transaction creates at height h: its spendable outputs *)
Fixpoint new_coins (txid h : Z) (cb : bool) (n : Z) (outs : list lout) : list (outpoint * coin) :=
  match outs with
  | [] => []
  | o :: r => (if o_spendable o then [((txid, n), mk_coin o h cb)] else []) ++ new_coins txid h cb (n + 1) r
  end.
Definition tx_creates (t : ltx) (h : Z) : list (outpoint * coin) := new_coins (t_id t) h (is_cb t) 0 (t_out t).
Definition block_creates (b : block) (h : Z) : list (outpoint * coin) := concat (map (fun t => tx_creates t h) b).
(* every outpoint a transaction names as an output, spendable or not *)
Fixpoint out_points (txid : Z) (n : Z) (outs : list lout) : list outpoint :=
  match outs with [] => [] | _ :: r => (txid, n) :: out_points txid (n + 1) r end.
Definition tx_outpoints (t : ltx) : list outpoint := out_points (t_id t) 0 (t_out t).
Definition sum_out (t : ltx) : Z := zsum (map o_value (t_out t)).
Definition in_dom (u : utxo) (o : outpoint) : Prop := lookup u o <> None.
Definition val_of (x : option coin) : Z := match x with Some c => c_value c | None => 0 end.
(* the value a transaction's inputs have in a view, and the fees of a list of transactions applied
   in order from a view (a coinbase pays none) *)
Definition value_in (u : utxo) (t : ltx) : Z := zsum (map (fun i => val_of (lookup u (i_prev i))) (t_in t)).
Fixpoint fees_of (u : utxo) (txs : list ltx) (h : Z) : Z :=
  match txs with
  | [] => 0
  | t :: r => (if is_cb t then 0 else value_in u t - sum_out t) +
              match update_coins u t h with Ok (u', _) => fees_of u' r h | Err _ => 0 end
  end.

(* the state of the view after the first transactions of a block have been applied (no checks) *)
Fixpoint apply_txs (u : utxo) (txs : list ltx) (h : Z) : option utxo :=
  match txs with
  | [] => Some u
  | t :: r => match update_coins u t h with
              | Ok (u', _) => apply_txs u' r h
              | Err _ => None
              end
  end.

(* the same over transactions that each carry the height of their block: a whole chain flattened *)
Definition htx := (ltx * Z)%type.
Fixpoint apply_htxs (u : utxo) (l : list htx) : option utxo :=
  match l with
  | [] => Some u
  | (t, h) :: r => match update_coins u t h with
                   | Ok (u', _) => apply_htxs u' r
                   | Err _ => None
                   end
  end.
Fixpoint chain_htxs (bs : list block) (h : Z) : list htx :=
  match bs with [] => [] | b :: r => map (fun t => (t, h)) b ++ chain_htxs r (h + 1) end.
Definition hspends (l : list htx) : list outpoint := concat (map (fun th => tx_spends (fst th)) l).
Definition hcreates (l : list htx) : list (outpoint * coin) := concat (map (fun th => tx_creates (fst th) (snd th)) l).

(* ------------------------------------------------------------------------------------------ *)
(* Executable predicates evaluated on what the implementation reported (violation search).
   A reported chain is the list of blocks (oldest first) of the active chain the implementation
   announced; a reported set is its UTXO dump. *)

(* declarative scan of a chain: `avail` is the list of unspent outputs with their coin *)
Fixpoint scan_inputs (avail : utxo) (ins : list outpoint) : option (utxo * Z) :=
  match ins with
  | [] => Some (avail, 0)
  | o :: r => match lookup avail o with
              | None => None                          (* dangling, already spent, or unspendable *)
              | Some c => match scan_inputs (remove avail o) r with
                          | None => None
                          | Some (a, v) => Some (a, v + c_value c)
                          end
              end
  end.
Fixpoint scan_adds (avail : utxo) (l : list (outpoint * coin)) : option utxo :=
  match l with
  | [] => Some avail
  | (k, c) :: r => if have_coin avail k then None (* re-creates an unspent output *) else scan_adds (add avail k c) r
  end.
(* one non-coinbase transaction: returns the new set and its fee; None if it spends something
   unavailable, creates more than it spends, or overwrites *)
Definition scan_tx (avail : utxo) (t : ltx) (h : Z) : option (utxo * Z) :=
  match scan_inputs avail (map i_prev (t_in t)) with
  | None => None
  | Some (a, vin) => if vin <? sum_out t then None else
                     match scan_adds a (tx_creates t h) with
                     | None => None
                     | Some a' => Some (a', vin - sum_out t)
                     end
  end.
Fixpoint scan_txs (avail : utxo) (txs : list ltx) (h : Z) : option (utxo * Z) :=
  match txs with
  | [] => Some (avail, 0)
  | t :: r => match scan_tx avail t h with
              | None => None
              | Some (a, f) => match scan_txs a r h with
                               | None => None
                               | Some (a', f') => Some (a', f + f')
                               end
              end
  end.
(* one block: coinbase outputs added first (they may not overwrite), then the transactions; the
   coinbase may claim at most subsidy + fees *)
Definition scan_block (interval : Z) (avail : utxo) (b : block) (h : Z) : option utxo :=
  match b with
  | [] => None
  | cbt :: rest =>
    match scan_adds avail (tx_creates cbt h) with
    | None => None
    | Some a => match scan_txs a rest h with
                | None => None
                | Some (a', fees) => if sum_out cbt >? get_block_subsidy interval h + fees then None else Some a'
                end
    end
  end.
Fixpoint scan_chain (interval : Z) (avail : utxo) (bs : list block) (h : Z) : option utxo :=
  match bs with
  | [] => Some avail
  | b :: r => match scan_block interval avail b h with
              | None => None
              | Some a => scan_chain interval a r (h + 1)
              end
  end.

Fixpoint utxo_eqb (a b : utxo) : bool :=
  match a, b with
  | [], [] => true
  | (k, c) :: ra, (k', c') :: rb =>
    oeqb k k' && (c_value c =? c_value c') && (c_height c =? c_height c') && Bool.eqb (c_cb c) (c_cb c') && utxo_eqb ra rb
  | _, _ => false
  end.
(* canonical form of a reported set (the report may come in any order) *)
Definition canon (l : list (outpoint * coin)) : utxo := fold_left (fun u kc => add u (fst kc) (snd kc)) l [].

(* C01 on a report: the chain scans (every transaction spends existing outputs worth at least what it
   creates, every coinbase within subsidy + fees) and the reported total is within the subsidies *)
Definition holds_C01 (interval : Z) (chain : list block) (reported : list (outpoint * coin)) : bool :=
  is_some (scan_chain interval [] chain 1) &&
  (total (canon reported) <=? subsidy_sum interval (length chain)).
(* C02 on a report: the chain scans and the reported set is exactly created minus spent *)
Definition holds_C02 (interval : Z) (chain : list block) (reported : list (outpoint * coin)) : bool :=
  match scan_chain interval [] chain 1 with
  | None => false
  | Some a => utxo_eqb a (canon reported)
  end.
(* C09 on a report: the reported set is the one obtained by connecting the chain from genesis *)
Definition holds_C09 (cf : config) (chain : list block) (reported : list (outpoint * coin)) : bool :=
  match replay cf chain with
  | None => false
  | Some s => utxo_eqb (cs_utxo s) (canon reported)
  end.
