(* C49 — the HMAC / HKDF objects of the tree: CHMAC_SHA256, CHMAC_SHA512, CHKDF_HMAC_SHA256_L32,
   as instances of model/CryptoHMAC.v over the streaming hasher models. *)
From Coq Require Import NArith.
From BV Require Import lib.Ints model.CryptoBase model.CryptoMD model.CryptoSHA256 model.CryptoSHA512 model.CryptoHMAC.
Local Open Scope Z_scope.

Definition hmac_sha256_spec : list N -> list N -> list N := hmac_spec sha256_spec 64.
Definition hmac_sha512_spec : list N -> list N -> list N := hmac_spec sha512_spec 128.
Definition hkdf_sha256_spec (salt ikm info : list N) (L : nat) : list N := hkdf_spec sha256_spec 64 32 salt ikm info L.

(* `ubuf`: the indeterminate initial contents of the buffers of the CSHA256 objects involved *)
Definition chmac_sha256_stream (ubuf : list N) (key : list N) (chunks : list (list N)) : list N :=
  chmac_stream csha256 (csha256_init ubuf) csha256_write csha256_finalize 64 32 key chunks.
Definition chmac_sha512_stream (ubuf : list N) (key : list N) (chunks : list (list N)) : list N :=
  chmac_stream csha512 (csha512_init ubuf) csha512_write csha512_finalize 128 64 key chunks.
Definition chkdf_sha256_l32 (ubuf : list N) (ikm salt info : list N) : list N :=
  chkdf csha256 (csha256_init ubuf) csha256_write csha256_finalize 64 32 ikm salt info.
