(* C21 (part C): TxIndex — src/index/txindex.cpp, src/index/txindex_key.h.
   Rows are ['x', hash prefix, block seq, tx offset] -> (empty), ['s', seq] -> block hash,
   ['h', block hash] -> seq, "next_block_seq".  Abstractions: the 5-byte SipHash prefix of a txid is
   represented by the txid itself (prefix collisions only add candidates that FindTx discards after
   reading the transaction and comparing its hash), and the byte offset of a transaction in its block
   by its position in vtx.  Executable definitions only. *)
From Coq Require Import NArith.
From BV Require Import lib.Ints model.Index.
Local Open Scope Z_scope.

Record tx_index : Type := {
  tx_next_seq : Z;                        (* "next_block_seq" (uint32_t; 0 when absent) *)
  tx_seq_of_hash : list (bytes * Z);      (* BlockHashKey{hash} -> seq *)
  tx_hash_of_seq : list (Z * bytes);      (* BlockSeqKey{seq} -> hash *)
  tx_rows : list (bytes * Z * Z)          (* DBKey{prefix(txid), {seq, offset}} *)
}.
Definition tx_index0 : tx_index := {| tx_next_seq := 0; tx_seq_of_hash := []; tx_hash_of_seq := []; tx_rows := [] |}.

Fixpoint seq_of_hash (l : list (bytes * Z)) (h : bytes) : option Z :=
  match l with [] => None | (k, v) :: r => if bytes_eqb k h then Some v else seq_of_hash r h end.
Fixpoint hash_of_seq (l : list (Z * bytes)) (s : Z) : option bytes :=
  match l with [] => None | (k, v) :: r => if k =? s then Some v else hash_of_seq r s end.

Fixpoint rows_of (seq : Z) (pos : Z) (txs : list tx) : list (bytes * Z * Z) :=
  match txs with [] => [] | t :: r => (t_txid t, seq, pos) :: rows_of seq (pos + 1) r end.

(* bool TxIndex::CustomAppend(block): if (block.height == 0) return true; m_db->WriteTxs(block);
   void TxIndex::DB::WriteTxs(block):
     if (Exists(txindex::BlockHashKey{block.hash})) return;      // re-submitted block keeps its sequence number
     uint32_t block_seq{0}; Read(DB_NEXT_BLOCK_SEQ, block_seq);
     batch.Write(BlockHashKey{hash}, block_seq); batch.Write(BlockSeqKey{block_seq}, hash); batch.Write(DB_NEXT_BLOCK_SEQ, block_seq + 1);
     for each tx: batch.Write(DBKey{prefix(txid), {block_seq, offset}}, EMPTY_VALUE); *)
Definition tx_append (x : tx_index) (b : block) : res tx_index :=
  if b_height b =? 0 then Ok x
  else match seq_of_hash (tx_seq_of_hash x) (b_hash b) with
       | Some _ => Ok x
       | None =>
         let seq := tx_next_seq x in
         Ok {| tx_next_seq := wrapu32 (seq + 1);
               tx_seq_of_hash := (b_hash b, seq) :: tx_seq_of_hash x;
               tx_hash_of_seq := (seq, b_hash b) :: tx_hash_of_seq x;
               tx_rows := rows_of seq 0 (b_txs b) ++ tx_rows x |}
       end.
(* BaseIndex::CustomRemove default: return true;  CustomCommit / CustomInit defaults *)
Definition tx_remove (x : tx_index) (b : block) : res tx_index := Ok x.
Definition tx_commit (x : tx_index) : tx_index := x.
Definition tx_custom_init (db : tx_index) (best : option (bytes * Z)) : res tx_index := Ok db.

(* std::optional<TxIndexResult> TxIndex::FindTx(const Txid& tx_hash) const
     candidates: rows with the prefix whose block seq resolves to a known block with data;
     sort by (in_active_chain, block_seq) descending; the first whose transaction at the position has the txid *)
Record candidate : Type := { cd_hash : bytes; cd_seq : Z; cd_active : bool; cd_pos : Z }.
Definition cand_before (a b : candidate) : bool :=   (* a sorts before b under std::greater on (in_active_chain, seq) *)
  match cd_active a, cd_active b with
  | true, false => true
  | false, true => false
  | _, _ => cd_seq b <? cd_seq a
  end.
Fixpoint insert_cand (c : candidate) (l : list candidate) : list candidate :=
  match l with
  | [] => [c]
  | d :: r => if cand_before d c then d :: insert_cand c r else c :: l
  end.
Definition sort_cands (l : list candidate) : list candidate := fold_right insert_cand [] l.

Definition tx_candidates (nv : node_view) (x : tx_index) (txid : bytes) : list candidate :=
  let tip := match nv_tip nv with Some th => find_block (nv_blocks nv) th | None => None end in
  fold_right (fun (row : bytes * Z * Z) acc =>
    let '(k, seq, pos) := row in
    if bytes_eqb k txid then
      match hash_of_seq (tx_hash_of_seq x) seq with
      | None => acc                                    (* "Block sequence %u not found" *)
      | Some bh =>
        match find_block (nv_blocks nv) bh with
        | None => acc                                  (* "Block index entry %s not found" *)
        | Some b =>
          {| cd_hash := bh; cd_seq := seq;
             cd_active := match tip with Some t => chain_contains nv t b | None => false end; cd_pos := pos |} :: acc
        end
      end
    else acc) [] (tx_rows x).

Definition tx_at (nv : node_view) (c : candidate) : option tx :=
  match find_block (nv_blocks nv) (cd_hash c) with
  | Some b => nth_error (b_txs b) (Z.to_nat (cd_pos c))
  | None => None
  end.
Fixpoint first_match (nv : node_view) (txid : bytes) (l : list candidate) : option bytes :=
  match l with
  | [] => None
  | c :: r => match tx_at nv c with
              | Some t => if bytes_eqb (t_txid t) txid then Some (cd_hash c) else first_match nv txid r
              | None => first_match nv txid r
              end
  end.
Definition tx_find (nv : node_view) (x : tx_index) (txid : bytes) : option bytes :=
  first_match nv txid (sort_cands (tx_candidates nv x txid)).

(* recomputation from the active chain: the block of the active chain (excluding genesis) that contains txid *)
Fixpoint chain_find_tx (chain : list block) (txid : bytes) : option bytes :=
  match chain with
  | [] => None
  | b :: r => if (0 <? b_height b) && existsb (fun t => bytes_eqb (t_txid t) txid) (b_txs b) then Some (b_hash b)
              else chain_find_tx r txid
  end.
