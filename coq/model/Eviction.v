(* Inbound peer eviction.  Transcribed function by function from
     src/node/eviction.h     NodeEvictionCandidate
     src/node/eviction.cpp   the comparators, EraseLastKElements, ProtectNoBanConnections,
                             ProtectOutboundConnections, ProtectEvictionCandidatesByRatio, SelectNodeToEvict
   Executable definitions only (proofs are in proofs/EvictionLemmas.v).

   std::sort is unstable: which of several comparator-equivalent elements ends up where is up to the
   library.  The pipeline is therefore parametrised by the sorting function [srt]; the theorems
   quantify over EVERY [srt] that returns a permutation of its input that is sorted w.r.t. the
   comparator ([sort_spec]), and the executable instance used by the correspondence is the stable
   insertion sort [stable_sort]. *)
From BV Require Import lib.Ints gen.Params_gen.
From Coq Require Import Sorting.Permutation Sorting.Sorted.
Local Open Scope Z_scope.

(* struct NodeEvictionCandidate {
       NodeId id;                                   int64_t
       NodeClock::time_point m_connected;           tick count of the time point
       NodeClock::duration m_min_ping_time;         tick count
       std::chrono::seconds m_last_block_time;
       std::chrono::seconds m_last_tx_time;
       bool fRelevantServices; bool m_relay_txs; bool fBloomFilter;
       uint64_t nKeyedNetGroup; bool prefer_evict; bool m_is_local;
       Network m_network; bool m_noban; ConnectionType m_conn_type; };  *)
Record cand := mkCand {
  c_id : Z;
  c_connected : Z;
  c_min_ping : Z;
  c_last_block : Z;
  c_last_tx : Z;
  c_relevant : bool;
  c_relay_txs : bool;
  c_bloom : bool;
  c_netgroup : Z;
  c_prefer_evict : bool;
  c_is_local : bool;
  c_network : Z;
  c_noban : bool;
  c_conn_type : Z
}.

(* ---------------------------------------------------------------------------------------------- *)
(* Comparators: [cmp a b = true] is the C++ comparator returning true, "a goes before b".          *)

(* static bool ReverseCompareNodeMinPingTime(a, b) { return a.m_min_ping_time > b.m_min_ping_time; } *)
Definition cmp_rev_min_ping (a b : cand) : bool := c_min_ping b <? c_min_ping a.

(* static bool ReverseCompareNodeTimeConnected(a, b) { return a.m_connected > b.m_connected; } *)
Definition cmp_rev_connected (a b : cand) : bool := c_connected b <? c_connected a.

(* static bool CompareNetGroupKeyed(a, b) { return a.nKeyedNetGroup < b.nKeyedNetGroup; } *)
Definition cmp_netgroup (a b : cand) : bool := c_netgroup a <? c_netgroup b.

(* static bool CompareNodeBlockTime(a, b) {
       if (a.m_last_block_time != b.m_last_block_time) return a.m_last_block_time < b.m_last_block_time;
       if (a.fRelevantServices != b.fRelevantServices) return b.fRelevantServices;
       return a.m_connected > b.m_connected; } *)
Definition cmp_block_time (a b : cand) : bool :=
  if negb (c_last_block a =? c_last_block b) then c_last_block a <? c_last_block b
  else if negb (Bool.eqb (c_relevant a) (c_relevant b)) then c_relevant b
  else c_connected b <? c_connected a.

(* static bool CompareNodeTXTime(a, b) {
       if (a.m_last_tx_time != b.m_last_tx_time) return a.m_last_tx_time < b.m_last_tx_time;
       if (a.m_relay_txs != b.m_relay_txs) return b.m_relay_txs;
       if (a.fBloomFilter != b.fBloomFilter) return a.fBloomFilter;
       return a.m_connected > b.m_connected; } *)
Definition cmp_tx_time (a b : cand) : bool :=
  if negb (c_last_tx a =? c_last_tx b) then c_last_tx a <? c_last_tx b
  else if negb (Bool.eqb (c_relay_txs a) (c_relay_txs b)) then c_relay_txs b
  else if negb (Bool.eqb (c_bloom a) (c_bloom b)) then c_bloom a
  else c_connected b <? c_connected a.

(* static bool CompareNodeBlockRelayOnlyTime(a, b) {
       if (a.m_relay_txs != b.m_relay_txs) return a.m_relay_txs;
       if (a.m_last_block_time != b.m_last_block_time) return a.m_last_block_time < b.m_last_block_time;
       if (a.fRelevantServices != b.fRelevantServices) return b.fRelevantServices;
       return a.m_connected > b.m_connected; } *)
Definition cmp_block_relay_only_time (a b : cand) : bool :=
  if negb (Bool.eqb (c_relay_txs a) (c_relay_txs b)) then c_relay_txs a
  else if negb (c_last_block a =? c_last_block b) then c_last_block a <? c_last_block b
  else if negb (Bool.eqb (c_relevant a) (c_relevant b)) then c_relevant b
  else c_connected b <? c_connected a.

(* struct CompareNodeNetworkTime { const bool m_is_local; const Network m_network;
       bool operator()(a, b) const {
           if (m_is_local && a.m_is_local != b.m_is_local) return b.m_is_local;
           if ((a.m_network == m_network) != (b.m_network == m_network)) return b.m_network == m_network;
           return a.m_connected > b.m_connected; }; }; *)
Definition cmp_network_time (is_local : bool) (network : Z) (a b : cand) : bool :=
  if is_local && negb (Bool.eqb (c_is_local a) (c_is_local b)) then c_is_local b
  else if negb (Bool.eqb (c_network a =? network) (c_network b =? network)) then (c_network b =? network)
  else c_connected b <? c_connected a.

(* ---------------------------------------------------------------------------------------------- *)
(* size_t subtraction a - b.  Equal to wrapu64 (a - b) for 0 <= a, b < 2^64 (lemma usub64_wrapu64);
   written with the comparison so that "no underflow" is exactly the branch b <= a. *)
Definition usub64 (a b : Z) : Z := if b <=? a then a - b else a - b + 2 ^ 64.

Definition zlen {A} (l : list A) : Z := Z.of_nat (length l).
(* std::count_if *)
Definition count_if {A} (f : A -> bool) (l : list A) : Z := zlen (filter f l).

(* template <typename T, typename Comparator>
   static void EraseLastKElements(std::vector<T>& elements, Comparator comparator, size_t k,
       std::function<bool(const NodeEvictionCandidate&)> predicate = [](const NodeEvictionCandidate& n) { return true; })
   {
       std::sort(elements.begin(), elements.end(), comparator);
       size_t eraseSize = std::min(k, elements.size());
       elements.erase(std::remove_if(elements.end() - eraseSize, elements.end(), predicate), elements.end());
   }
   [erase_last_k_sorted] is everything after the sort: [s] is the sorted vector. *)
Definition erase_last_k_sorted (s : list cand) (k : Z) (pred : cand -> bool) : list cand :=
  let n := length s in
  let erase_size := Z.to_nat (Z.min k (Z.of_nat n)) in
  firstn (n - erase_size) s ++ filter (fun c => negb (pred c)) (skipn (n - erase_size) s).

Definition sorter := (cand -> cand -> bool) -> list cand -> list cand.
Definition eraser := (cand -> cand -> bool) -> Z -> (cand -> bool) -> list cand -> list cand.

Definition erase_last_k (srt : sorter) : eraser :=
  fun cmp k pred l => erase_last_k_sorted (srt cmp l) k pred.

Definition pred_all (_ : cand) : bool := true.

(* A stable insertion sort: the executable instance of the sorter, also the model of the
   std::stable_sort of the four-element [networks] array. *)
Fixpoint insert_by {A} (lt : A -> A -> bool) (x : A) (s : list A) : list A :=
  match s with
  | [] => [x]
  | y :: r => if lt y x then y :: insert_by lt x r else x :: y :: r
  end.
Definition stable_sort {A} (lt : A -> A -> bool) (l : list A) : list A := fold_right (insert_by lt) [] l.

(* ---------------------------------------------------------------------------------------------- *)
(* ProtectEvictionCandidatesByRatio *)

(* struct Net { bool is_local; Network id; size_t count; }; *)
Record net := mkNet { n_is_local : bool; n_id : Z; n_count : Z }.
Definition set_count (n : net) (c : Z) : net := mkNet (n_is_local n) (n_id n) c.

(* std::array<Net, 4> networks{
       {{false, NET_CJDNS, 0}, {false, NET_I2P, 0}, {/*localhost=*/true, NET_MAX, 0}, {false, NET_ONION, 0}}}; *)
Definition initial_networks : list net :=
  [ mkNet false EVICT_NET_CJDNS 0; mkNet false EVICT_NET_I2P 0; mkNet true EVICT_NET_MAX 0; mkNet false EVICT_NET_ONION 0 ].

(* [&n](const NodeEvictionCandidate& c) { return n.is_local ? c.m_is_local : c.m_network == n.id; } *)
Definition net_pred (n : net) (c : cand) : bool :=
  if n_is_local n then c_is_local c else c_network c =? n_id n.

Inductive stuck := OutOfFuel | AssertFailed | EmptyFront.
Inductive result (A : Type) := Ok (a : A) | Stuck (s : stuck).
Arguments Ok {A}. Arguments Stuck {A}.

Section Pipeline.
  Variable elk : eraser.

  (* for (Net& n : networks) {
         if (n.count == 0) continue;
         const size_t before = eviction_candidates.size();
         EraseLastKElements(eviction_candidates, CompareNodeNetworkTime(n.is_local, n.id),
                            protect_per_network, [&n](c) { return n.is_local ? c.m_is_local : c.m_network == n.id; });
         const size_t after = eviction_candidates.size();
         if (before > after) {
             protected_at_least_one = true;
             const size_t delta{before - after};
             num_protected += delta;
             if (num_protected >= max_protect_by_network) { break; }
             n.count -= delta;
         }
     }
     returns (networks, eviction_candidates, num_protected, protected_at_least_one) *)
  Fixpoint ratio_for (ppn maxp : Z) (nets : list net) (cands : list cand) (num : Z) (any : bool)
    : list net * list cand * Z * bool :=
    match nets with
    | [] => ([], cands, num, any)
    | n :: rest =>
      if n_count n =? 0 then
        let '(r, c, p, a) := ratio_for ppn maxp rest cands num any in (n :: r, c, p, a)
      else
        let before := zlen cands in
        let cands' := elk (cmp_network_time (n_is_local n) (n_id n)) ppn (net_pred n) cands in
        let after := zlen cands' in
        if after <? before then
          let delta := usub64 before after in
          let num' := num + delta in
          if maxp <=? num' then (n :: rest, cands', num', true)
          else
            let n' := set_count n (usub64 (n_count n) delta) in
            let '(r, c, p, a) := ratio_for ppn maxp rest cands' num' true in (n' :: r, c, p, a)
        else
          let '(r, c, p, a) := ratio_for ppn maxp rest cands' num any in (n :: r, c, p, a)
    end.

  (* while (num_protected < max_protect_by_network) {
         auto num_networks = std::count_if(networks.begin(), networks.end(), [](const Net& n) { return n.count; });
         if (num_networks == 0) break;
         const size_t disadvantaged_to_protect{max_protect_by_network - num_protected};
         const size_t protect_per_network{std::max(disadvantaged_to_protect / num_networks, static_cast<size_t>(1))};
         bool protected_at_least_one{false};
         for (...) {...}
         if (!protected_at_least_one) break;
     }
     The loop is run with explicit fuel; ratio_while_fuel (proofs) shows S (length cands) suffices. *)
  Fixpoint ratio_while (fuel : nat) (maxp : Z) (nets : list net) (cands : list cand) (num : Z)
    : result (list cand * Z) :=
    match fuel with
    | O => Stuck OutOfFuel
    | S f =>
      if num <? maxp then
        let num_networks := count_if (fun n => negb (n_count n =? 0)) nets in
        if num_networks =? 0 then Ok (cands, num)
        else
          let disadvantaged_to_protect := usub64 maxp num in
          let ppn := Z.max (disadvantaged_to_protect / num_networks) 1 in
          let '(nets', cands', num', any) := ratio_for ppn maxp nets cands num false in
          if negb any then Ok (cands', num') else ratio_while f maxp nets' cands' num'
      else Ok (cands, num)
    end.

  (* void ProtectEvictionCandidatesByRatio(std::vector<NodeEvictionCandidate>& eviction_candidates) {
         const size_t initial_size = eviction_candidates.size();
         const size_t total_protect_size{initial_size / 2};
         ... networks ... n.count = std::count_if(..., [&n](c) { return n.is_local ? c.m_is_local : c.m_network == n.id; });
         std::stable_sort(networks.begin(), networks.end(), [](Net a, Net b) { return a.count < b.count; });
         const size_t max_protect_by_network{total_protect_size / 2};
         size_t num_protected{0};
         while ...
         assert(num_protected == initial_size - eviction_candidates.size());
         const size_t remaining_to_protect{total_protect_size - num_protected};
         EraseLastKElements(eviction_candidates, ReverseCompareNodeTimeConnected, remaining_to_protect);
     } *)
  Definition protect_by_ratio (l : list cand) : result (list cand) :=
    let initial_size := zlen l in
    let total_protect_size := initial_size / 2 in
    let nets0 := map (fun n => set_count n (count_if (net_pred n) l)) initial_networks in
    let nets := stable_sort (fun a b => n_count a <? n_count b) nets0 in
    let max_protect_by_network := total_protect_size / 2 in
    match ratio_while (S (length l)) max_protect_by_network nets l 0 with
    | Stuck s => Stuck s
    | Ok (cands, num_protected) =>
      if negb (num_protected =? usub64 initial_size (zlen cands)) then Stuck AssertFailed
      else
        let remaining_to_protect := usub64 total_protect_size num_protected in
        Ok (elk cmp_rev_connected remaining_to_protect pred_all cands)
    end.

  (* void ProtectNoBanConnections(v)   { erase(remove_if(..., n.m_noban)) }
     void ProtectOutboundConnections(v) { erase(remove_if(..., n.m_conn_type != ConnectionType::INBOUND)) } *)
  Definition protect_noban (l : list cand) : list cand := filter (fun n => negb (c_noban n)) l.
  Definition protect_outbound (l : list cand) : list cand :=
    filter (fun n => negb (negb (c_conn_type n =? EVICT_CONN_INBOUND))) l.

  (* [](const NodeEvictionCandidate& n) { return !n.m_relay_txs && n.fRelevantServices; } *)
  Definition pred_block_relay_only (n : cand) : bool := negb (c_relay_txs n) && c_relevant n.

  (* The five fixed protections of SelectNodeToEvict, in the code's order:
       EraseLastKElements(v, CompareNetGroupKeyed, 4);
       EraseLastKElements(v, ReverseCompareNodeMinPingTime, 8);
       EraseLastKElements(v, CompareNodeTXTime, 4);
       EraseLastKElements(v, CompareNodeBlockRelayOnlyTime, 8, [](n) { return !n.m_relay_txs && n.fRelevantServices; });
       EraseLastKElements(v, CompareNodeBlockTime, 4); *)
  Definition stage_netgroup (l : list cand) := elk cmp_netgroup 4 pred_all l.
  Definition stage_ping (l : list cand) := elk cmp_rev_min_ping 8 pred_all l.
  Definition stage_tx (l : list cand) := elk cmp_tx_time 4 pred_all l.
  Definition stage_block_relay_only (l : list cand) := elk cmp_block_relay_only_time 8 pred_block_relay_only l.
  Definition stage_block (l : list cand) := elk cmp_block_time 4 pred_all l.

  Definition protect_fixed (l : list cand) : list cand :=
    stage_block (stage_block_relay_only (stage_tx (stage_ping (stage_netgroup
      (protect_outbound (protect_noban l)))))).

  (* everything up to "if (vEvictionCandidates.empty()) return std::nullopt;" *)
  Definition protect_all (l : list cand) : result (list cand) := protect_by_ratio (protect_fixed l).
End Pipeline.

(* ---------------------------------------------------------------------------------------------- *)
(* The selection among what is left.

     uint64_t naMostConnections;  unsigned int nMostConnections = 0;
     NodeClock::time_point nMostConnectionsTime{NodeClock::epoch};
     std::map<uint64_t, std::vector<NodeEvictionCandidate> > mapNetGroupNodes;
     for (const NodeEvictionCandidate &node : vEvictionCandidates) {
         std::vector<NodeEvictionCandidate> &group = mapNetGroupNodes[node.nKeyedNetGroup];
         group.push_back(node);
         const auto grouptime{group[0].m_connected};
         if (group.size() > nMostConnections || (group.size() == nMostConnections && grouptime > nMostConnectionsTime)) {
             nMostConnections = group.size(); nMostConnectionsTime = grouptime; naMostConnections = node.nKeyedNetGroup;
         }
     }
   [pre] is the part of the vector already visited (mapNetGroupNodes[g] = the members of [pre] with
   net group g, in order); the state is (nMostConnections, nMostConnectionsTime, naMostConnections),
   the last one [None] while still uninitialised. *)
Definition same_group (g : Z) (c : cand) : bool := c_netgroup c =? g.

Fixpoint pick_loop (pre rest : list cand) (n_most : Z) (most_time : Z) (na_most : option Z)
  : Z * Z * option Z :=
  match rest with
  | [] => (n_most, most_time, na_most)
  | node :: r =>
    let g := c_netgroup node in
    let earlier := filter (same_group g) pre in
    let group_size := zlen earlier + 1 in                 (* after push_back *)
    let group0 := match earlier with [] => node | g0 :: _ => g0 end in   (* group[0] *)
    let grouptime := c_connected group0 in
    if (n_most <? group_size) || ((group_size =? n_most) && (most_time <? grouptime))
    then pick_loop (pre ++ [node]) r group_size grouptime (Some g)
    else pick_loop (pre ++ [node]) r n_most most_time na_most
  end.

(*   if (vEvictionCandidates.empty()) return std::nullopt;
     if (std::any_of(..., n.prefer_evict)) { erase(remove_if(..., !n.prefer_evict)) }
     ... loop ...
     vEvictionCandidates = std::move(mapNetGroupNodes[naMostConnections]);
     return vEvictionCandidates.front().id;
   Ok None = std::nullopt, Ok (Some c) = the candidate whose id is returned. *)
Definition pick (l : list cand) : result (option cand) :=
  match l with
  | [] => Ok None
  | _ =>
    let l' := if existsb c_prefer_evict l then filter (fun n => negb (negb (c_prefer_evict n))) l else l in
    match pick_loop [] l' 0 0 None with
    | (_, _, Some g) =>
      match filter (same_group g) l' with
      | c :: _ => Ok (Some c)
      | [] => Stuck EmptyFront
      end
    | (_, _, None) => Stuck EmptyFront
    end
  end.

Definition select_gen (elk : eraser) (l : list cand) : result (option cand) :=
  match protect_all elk l with
  | Stuck s => Stuck s
  | Ok rem => pick rem
  end.

(* std::optional<NodeId> SelectNodeToEvict(std::vector<NodeEvictionCandidate>&&), for a given std::sort *)
Definition select_node_to_evict (srt : sorter) (l : list cand) : result (option cand) :=
  select_gen (erase_last_k srt) l.

(* the executable instance: stable insertion sort *)
Definition stable_sorter : sorter := fun cmp l => stable_sort cmp l.
Definition select_node_to_evict_stable (l : list cand) : result (option cand) :=
  select_node_to_evict stable_sorter l.
Definition protect_by_ratio_stable (l : list cand) : result (list cand) :=
  protect_by_ratio (erase_last_k stable_sorter) l.

(* ---------------------------------------------------------------------------------------------- *)
(* Specification side. *)

(* What std::sort promises for a comparator that is a strict weak ordering: the output is a
   permutation of the input in which no later element goes before an earlier one. *)
Definition swo (cmp : cand -> cand -> bool) : Prop :=
  (forall a b, cmp a b = true -> cmp b a = false) /\
  (forall a b c, cmp b a = false -> cmp c b = false -> cmp c a = false).
Definition sorted_wrt (cmp : cand -> cand -> bool) (s : list cand) : Prop :=
  StronglySorted (fun a b => cmp b a = false) s.
Definition sort_spec (srt : sorter) : Prop :=
  forall cmp l, swo cmp -> Permutation l (srt cmp l) /\ sorted_wrt cmp (srt cmp l).

(* the candidates that survive ProtectNoBanConnections and ProtectOutboundConnections *)
Definition eligible (c : cand) : bool := negb (c_noban c) && (c_conn_type c =? EVICT_CONN_INBOUND).

(* Number of candidates that SOME comparator-sorted order of [l] can place at or after [c]
   ([c] itself included): those x with not (x before c). *)
Definition not_before (cmp : cand -> cand -> bool) (c : cand) (l : list cand) : Z :=
  count_if (fun x => negb (cmp x c)) l.
(* [c] is among the last k of EVERY comparator-sorted order of l *)
Definition surely_last_k (cmp : cand -> cand -> bool) (k : Z) (c : cand) (l : list cand) : bool :=
  not_before cmp c l <=? k.

(* the plain-attribute readings used in the property text (ties counted against the peer) *)
Definition top_netgroup (c : cand) (l : list cand) : bool := count_if (fun x => c_netgroup c <=? c_netgroup x) l <=? 4.
Definition top_ping (c : cand) (l : list cand) : bool := count_if (fun x => c_min_ping x <=? c_min_ping c) l <=? 8.
Definition top_tx (c : cand) (l : list cand) : bool := count_if (fun x => c_last_tx c <=? c_last_tx x) l <=? 4.
Definition top_block (c : cand) (l : list cand) : bool := count_if (fun x => c_last_block c <=? c_last_block x) l <=? 4.

(* protected by one of the four rules the property names, computed on the eligible candidates *)
Definition protected_by_rule (c : cand) (l : list cand) : bool :=
  let e := filter eligible l in
  surely_last_k cmp_netgroup 4 c e || surely_last_k cmp_rev_min_ping 8 c e ||
  surely_last_k cmp_tx_time 4 c e || surely_last_k cmp_block_time 4 c e.
(* the block-relay-only rule *)
Definition protected_block_relay_only (c : cand) (l : list cand) : bool :=
  pred_block_relay_only c && surely_last_k cmp_block_relay_only_time 8 c (filter eligible l).

(* The property's predicate, evaluated on (candidates, what the implementation returned):
   - an id is returned only if it is the id of exactly one candidate, which is eligible and not
     protected by any rule, and more than 20 candidates were eligible (4+8+4+4 are always protected);
   - nullopt is returned only if at most 28 candidates were eligible. *)
Definition holds_C59 (l : list cand) (r : option Z) : bool :=
  let ne := count_if eligible l in
  match r with
  | None => ne <=? 28
  | Some i =>
    match filter (fun c => c_id c =? i) l with
    | [c] => eligible c && negb (protected_by_rule c l) && negb (protected_block_relay_only c l) && (20 <? ne)
    | _ => false
    end
  end.

Definition ids_unique (l : list cand) : bool :=
  forallb (fun c => count_if (fun x => c_id x =? c_id c) l =? 1) l.
