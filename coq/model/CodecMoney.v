(* Money strings.  Transcribed from src/util/moneystr.cpp (FormatMoney, ParseMoney), with
   TrimString (util/string.h), IsDigit (util/strencodings.h) and the decimal conversions they rely
   on (strprintf "%d" / "%08d", LocaleIndependentAtoi on a string of at most 10 digits).
   Definitions only. *)
From Coq Require Import NArith.
From BV Require Import lib.Ints gen.Params_gen model.SerBase model.Codec.
Local Open Scope Z_scope.

Definition is_digit (c : N) : bool := ((48 <=? c) && (c <=? 57))%N.
Definition digit_char (d : Z) : N := Z.to_N (48 + d).

(* "%d" of a non-negative number; the nat argument bounds the number of digits (20 suffice for int64:
   dec_str_fuel_enough) *)
Fixpoint dec_str (fuel : nat) (k : Z) : list N :=
  match fuel with
  | O => []
  | S f => if k <? 10 then [digit_char k] else dec_str f (k / 10) ++ [digit_char (k mod 10)]
  end.
(* "%0<w>d": at least w digits, zero padded on the left *)
Fixpoint dec_fixed (w : nat) (k : Z) : list N :=
  match w with O => [] | S j => dec_fixed j (k / 10) ++ [digit_char (k mod 10)] end.

(* std::string FormatMoney(const CAmount n)
   {
       int64_t quotient = n / COIN;  int64_t remainder = n % COIN;
       if (n < 0) { quotient = -quotient; remainder = -remainder; }
       std::string str = strprintf("%d.%08d", quotient, remainder);
       // Right-trim excess zeros before the decimal point:
       int nTrim = 0;
       for (int i = str.size()-1; (str[i] == '0' && IsDigit(str[i-2])); --i) ++nTrim;
       if (nTrim) str.erase(str.size()-nTrim, nTrim);
       if (n < 0) str.insert(uint32_t{0}, 1, '-');
       return str;
   }
   The trim loop looks at the decimals from the last one backwards and stops at the second decimal
   (str[i-2] is then the '.'), so at most 6 zeros go. *)
Fixpoint trim_zeros (k : nat) (rev_decimals : list N) : list N :=
  match k, rev_decimals with
  | S k', c :: r => if (c =? 48)%N then trim_zeros k' r else rev_decimals
  | _, _ => rev_decimals
  end.

Definition format_money (n : Z) : list N :=
  let q := cdiv n COIN in
  let r := cmod n COIN in
  let q := if n <? 0 then - q else q in
  let r := if n <? 0 then - r else r in
  let decimals := dec_fixed 8 r in
  let trimmed := rev (trim_zeros 6 (rev decimals)) in
  (if n <? 0 then [45%N] else []) ++ dec_str 20 q ++ [46%N] ++ trimmed.

(* TrimString(str, " \f\n\r\t\v") *)
Definition trim_string (s : list N) : list N :=
  rev (drop_while is_space (rev (drop_while is_space s))).

(* the for loop of ParseMoney up to and including the '.', None = return std::nullopt *)
Fixpoint pm_whole (s : list N) : option (list N * option (list N)) :=
  match s with
  | [] => Some ([], None)
  | c :: r =>
    if (c =? 46)%N then Some ([], Some r)
    else if is_space c then None
    else if negb (is_digit c) then None
    else match pm_whole r with Some (w, d) => Some (c :: w, d) | None => None end
  end.

(* int64_t nMult = COIN / 10; while (IsDigit( *p) && (nMult > 0)) { nUnits += nMult * ( *p++ - '0'); nMult /= 10; } *)
Fixpoint pm_units (s : list N) (mult units : Z) : Z * list N :=
  match s with
  | c :: r => if is_digit c && (mult >? 0) then pm_units r (cdiv mult 10) (units + mult * (Z.of_N c - 48))
              else (units, s)
  | [] => (units, [])
  end.

(* LocaleIndependentAtoi<int64_t> on a string of decimal digits (at most 10 of them here; the empty
   string gives 0) *)
Definition atoi_digits (s : list N) : Z := fold_left (fun a c => a * 10 + (Z.of_N c - 48)) s 0.

(* std::optional<CAmount> ParseMoney(const std::string& money_string)
   {
       if (!ContainsNoNUL(money_string)) return std::nullopt;
       const std::string str = TrimString(money_string);
       if (str.empty()) return std::nullopt;
       std::string strWhole; int64_t nUnits = 0; const char* p = str.c_str();
       for (; *p; p++) {
           if ( *p == '.') { p++; int64_t nMult = COIN / 10;
                             while (IsDigit( *p) && (nMult > 0)) { nUnits += nMult * ( *p++ - '0'); nMult /= 10; }
                             break; }
           if (IsSpace( *p)) return std::nullopt;
           if (!IsDigit( *p)) return std::nullopt;
           strWhole.insert(strWhole.end(), *p);
       }
       if ( *p) return std::nullopt;
       if (strWhole.size() > 10) return std::nullopt; // guard against 63 bit overflow
       if (nUnits < 0 || nUnits > COIN) return std::nullopt;
       int64_t nWhole = LocaleIndependentAtoi<int64_t>(strWhole);
       CAmount value = nWhole * COIN + nUnits;
       if (!MoneyRange(value)) return std::nullopt;
       return value;
   } *)
Definition parse_money (money_string : list N) : option Z :=
  if existsb (fun c => (c =? 0)%N) money_string then None
  else
    let str := trim_string money_string in
    match str with
    | [] => None
    | _ =>
      match pm_whole str with
      | None => None
      | Some (whole, dec) =>
        let '(units, rest) := match dec with Some d => pm_units d (cdiv COIN 10) 0 | None => (0, []) end in
        match rest with
        | _ :: _ => None
        | [] =>
          if (10 <? length whole)%nat then None
          else if (units <? 0) || (units >? COIN) then None
          else
            let value := wrap64 (wrap64 (atoi_digits whole * COIN) + units) in
            if (0 <=? value) && (value <=? MAX_MONEY) then Some value else None
        end
      end
    end.
