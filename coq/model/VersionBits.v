(* BIP9 deployment states.  Transcribed from
     src/versionbits.cpp     AbstractThresholdConditionChecker::GetStateFor / GetStateStatisticsFor /
                             GetStateSinceHeightFor
     src/versionbits_impl.h  VersionBitsConditionChecker::Condition / Mask
     src/chain.h             CBlockIndex::GetMedianTimePast
   Executable definitions only (proofs are in proofs/VersionBitsLemmas.v).

   A block tree is a list of nodes in insertion order, a block is its position; nullptr (the parent of
   the genesis block) is None.  GetAncestor(h) is modelled by the naive parent walk: that the skip
   list computes exactly that is property C54.  The cache (std::map<const CBlockIndex*, ThresholdState>)
   is an association list keyed by option position. *)
From BV Require Import lib.Ints gen.Params_gen.
Local Open Scope Z_scope.

Record vnode := { vn_parent : option nat; vn_height : Z; vn_time : Z; vn_version : Z }.
Definition vtree := list vnode.
Definition vnode_at (t : vtree) (i : nat) : option vnode := nth_error t i.

(* adding a block: pprev, nHeight = pprev->nHeight + 1 (0 for a block without parent) *)
Definition vadd (t : vtree) (parent : option nat) (time version : Z) : vtree :=
  match parent with
  | None => t ++ [{| vn_parent := None; vn_height := 0; vn_time := time; vn_version := version |}]
  | Some p => match vnode_at t p with
              | Some pn => t ++ [{| vn_parent := Some p; vn_height := vn_height pn + 1; vn_time := time; vn_version := version |}]
              | None => t
              end
  end.
Definition vbuild (blocks : list (option nat * Z * Z)) : vtree :=
  fold_left (fun t b => vadd t (fst (fst b)) (snd (fst b)) (snd b)) blocks [].

Definition key := option nat.

Fixpoint vwalk (t : vtree) (b : nat) (k : nat) : key :=
  match k with
  | O => Some b
  | S k' => match vnode_at t b with
            | Some nd => match vn_parent nd with Some p => vwalk t p k' | None => None end
            | None => None
            end
  end.

(* pindex->GetAncestor(h): nullptr outside 0..nHeight *)
Definition v_ancestor (t : vtree) (b : nat) (h : Z) : key :=
  match vnode_at t b with
  | Some nd => if (0 <=? h) && (h <=? vn_height nd) then vwalk t b (Z.to_nat (vn_height nd - h)) else None
  | None => None
  end.

(* GetMedianTimePast: the times of the block and up to 10 predecessors, sorted, middle element *)
Fixpoint times_back (t : vtree) (n : nat) (k : key) : list Z :=
  match n, k with
  | S n', Some b => match vnode_at t b with
                    | Some nd => vn_time nd :: times_back t n' (vn_parent nd)
                    | None => []
                    end
  | _, _ => []
  end.
Fixpoint vinsert (x : Z) (l : list Z) : list Z :=
  match l with [] => [x] | y :: r => if x <=? y then x :: l else y :: vinsert x r end.
Fixpoint vsort (l : list Z) : list Z := match l with [] => [] | x :: r => vinsert x (vsort r) end.
Definition v_mtp (t : vtree) (b : nat) : option Z :=
  let ts := vsort (times_back t (Z.to_nat MEDIAN_TIME_SPAN) (Some b)) in
  nth_error ts (Nat.div (length ts) 2).

(* deployment parameters: BeginTime, EndTime, MinActivationHeight, Period, Threshold, bit *)
Record vb_params := { vp_start : Z; vp_timeout : Z; vp_min_height : Z; vp_period : Z; vp_threshold : Z; vp_bit : Z }.

(* bool Condition(int32_t nVersion) const
   { return (((nVersion & VERSIONBITS_TOP_MASK) == VERSIONBITS_TOP_BITS) && (nVersion & Mask()) != 0); }
   uint32_t Mask() const { return (uint32_t{1}) << dep.bit; }
   versions are handled as their 32-bit patterns (0 .. 2^32-1) *)
Definition condition (P : vb_params) (version : Z) : bool :=
  (Z.land version VERSIONBITS_TOP_MASK =? VERSIONBITS_TOP_BITS)
  && negb (Z.land version (wrapu32 (Z.shiftl 1 (vp_bit P))) =? 0).

Inductive tstate := DEFINED | STARTED | LOCKED_IN | ACTIVE | FAILED.
Definition tstate_eqb (a b : tstate) : bool :=
  match a, b with
  | DEFINED, DEFINED | STARTED, STARTED | LOCKED_IN, LOCKED_IN | ACTIVE, ACTIVE | FAILED, FAILED => true
  | _, _ => false
  end.

(* const CBlockIndex* pindexCount = pindexPrev; int count = 0;
   for (int i = 0; i < nPeriod; i++) { if (Condition(pindexCount)) count++; pindexCount = pindexCount->pprev; }
   None = a nullptr would be dereferenced *)
Fixpoint count_signals (t : vtree) (P : vb_params) (n : nat) (k : key) : option Z :=
  match n with
  | O => Some 0
  | S n' => match k with
            | Some b => match vnode_at t b with
                        | Some nd => match count_signals t P n' (vn_parent nd) with
                                     | Some c => Some (c + (if condition P (vn_version nd) then 1 else 0))
                                     | None => None
                                     end
                        | None => None
                        end
            | None => None
            end
  end.

(* the switch in the forward loop of GetStateFor; None = a bug outcome *)
Definition transition (t : vtree) (P : vb_params) (state : tstate) (b : nat) : option tstate :=
  match state with
  | DEFINED => match v_mtp t b with
               | Some m => Some (if m >=? vp_start P then STARTED else DEFINED)
               | None => None
               end
  | STARTED => match count_signals t P (Z.to_nat (vp_period P)) (Some b), v_mtp t b with
               | Some count, Some m =>
                 Some (if count >=? vp_threshold P then LOCKED_IN
                       else if m >=? vp_timeout P then FAILED else STARTED)
               | _, _ => None
               end
  | LOCKED_IN => match vnode_at t b with
                 | Some nd => Some (if vn_height nd + 1 >=? vp_min_height P then ACTIVE else LOCKED_IN)
                 | None => None
                 end
  | ACTIVE => Some ACTIVE
  | FAILED => Some FAILED
  end.

(* ---- the cache ---- *)
Definition key_eqb (a b : key) : bool :=
  match a, b with Some x, Some y => Nat.eqb x y | None, None => true | _, _ => false end.
Definition cache := list (key * tstate).
Fixpoint cache_get (c : cache) (k : key) : option tstate :=
  match c with
  | [] => None
  | (k', s) :: r => if key_eqb k' k then Some s else cache_get r k
  end.
Definition cache_set (c : cache) (k : key) (s : tstate) : cache := (k, s) :: c.   (* newest binding wins *)

(* pindexPrev->GetAncestor(pindexPrev->nHeight - nPeriod) *)
Definition prev_boundary (t : vtree) (P : vb_params) (b : nat) : key :=
  match vnode_at t b with
  | Some nd => v_ancestor t b (vn_height nd - vp_period P)
  | None => None
  end.

(* if (pindexPrev != nullptr)
       pindexPrev = pindexPrev->GetAncestor(pindexPrev->nHeight - ((pindexPrev->nHeight + 1) % nPeriod)); *)
Definition align (t : vtree) (P : vb_params) (prev : key) : key :=
  match prev with
  | None => None
  | Some b => match vnode_at t b with
              | Some nd => v_ancestor t b (vn_height nd - cmod (vn_height nd + 1) (vp_period P))
              | None => None
              end
  end.

(* while (!cache.contains(pindexPrev)) {
       if (pindexPrev == nullptr) { cache[pindexPrev] = DEFINED; break; }
       if (pindexPrev->GetMedianTimePast() < nTimeStart) { cache[pindexPrev] = DEFINED; break; }
       vToCompute.push_back(pindexPrev);
       pindexPrev = pindexPrev->GetAncestor(pindexPrev->nHeight - nPeriod);
   }
   todo is vToCompute with its back at the head. *)
Fixpoint walk_back (t : vtree) (P : vb_params) (fuel : nat) (k : key) (c : cache) (todo : list nat)
  : option (key * cache * list nat) :=
  match fuel with
  | O => None
  | S f =>
    match cache_get c k with
    | Some _ => Some (k, c, todo)
    | None =>
      match k with
      | None => Some (None, cache_set c None DEFINED, todo)
      | Some b =>
        match v_mtp t b with
        | None => None
        | Some m =>
          if m <? vp_start P then Some (k, cache_set c k DEFINED, todo)
          else walk_back t P f (prev_boundary t P b) c (b :: todo)
        end
      end
    end
  end.

(* while (!vToCompute.empty()) { stateNext = state; pindexPrev = back; pop; switch...; cache[pindexPrev] = state = stateNext; } *)
Fixpoint forward (t : vtree) (P : vb_params) (todo : list nat) (state : tstate) (c : cache) : option (tstate * cache) :=
  match todo with
  | [] => Some (state, c)
  | b :: r => match transition t P state b with
              | Some s' => forward t P r s' (cache_set c (Some b) s')
              | None => None
              end
  end.

Definition key_height (t : vtree) (k : key) : Z :=
  match k with Some b => match vnode_at t b with Some nd => vn_height nd | None => 0 end | None => -1 end.

(* ThresholdState GetStateFor(const CBlockIndex* pindexPrev, ThresholdConditionCache& cache) const *)
Definition get_state_for (t : vtree) (P : vb_params) (prev : key) (c : cache) : option (tstate * cache) :=
  if vp_start P =? BIP9_ALWAYS_ACTIVE then Some (ACTIVE, c)
  else if vp_start P =? BIP9_NEVER_ACTIVE then Some (FAILED, c)
  else
    let k := align t P prev in
    match walk_back t P (S (S (Z.to_nat (key_height t k + 1)))) k c [] with
    | None => None
    | Some (k', c', todo) =>
      match cache_get c' k' with          (* assert(cache.contains(pindexPrev)) *)
      | None => None
      | Some state => forward t P todo state c'
      end
    end.

(* ---- specification: the state as a function of the ancestry alone ---- *)
(* the blocks at the period boundaries on the path from k down: k, k's boundary predecessor, ... *)
Fixpoint boundaries_fuel (t : vtree) (P : vb_params) (fuel : nat) (k : key) : list nat :=
  match fuel, k with
  | S f, Some b => b :: boundaries_fuel t P f (prev_boundary t P b)
  | _, _ => []
  end.
Definition boundaries (t : vtree) (P : vb_params) (k : key) : list nat :=
  boundaries_fuel t P (S (Z.to_nat (key_height t k + 1))) k.

(* one period step of the specification: below the start time the state is DEFINED whatever came
   before (this is the code's "optimization" branch; it agrees with BIP9 when median times do not
   decrease along the chain), otherwise the BIP9 transition from the previous period's state *)
Definition spec_step (t : vtree) (P : vb_params) (b : nat) (below : option tstate) : option tstate :=
  match v_mtp t b with
  | Some m => if m <? vp_start P then Some DEFINED
              else match below with Some s => transition t P s b | None => None end
  | None => None
  end.

Definition state_of_key (t : vtree) (P : vb_params) (k : key) : option tstate :=
  fold_right (spec_step t P) (Some DEFINED) (boundaries t P k).

(* the state of the block whose parent is prev *)
Definition state_after (t : vtree) (P : vb_params) (prev : key) : option tstate :=
  if vp_start P =? BIP9_ALWAYS_ACTIVE then Some ACTIVE
  else if vp_start P =? BIP9_NEVER_ACTIVE then Some FAILED
  else state_of_key t P (align t P prev).

(* ---- GetStateSinceHeightFor ---- *)
Fixpoint since_loop (t : vtree) (P : vb_params) (fuel : nat) (pindex_prev : nat) (initial : tstate) (c : cache)
  : option (Z * cache) :=
  match fuel with
  | O => None
  | S f =>
    match prev_boundary t P pindex_prev with
    | None => match vnode_at t pindex_prev with Some nd => Some (vn_height nd + 1, c) | None => None end
    | Some pp =>
      match get_state_for t P (Some pp) c with
      | None => None
      | Some (s, c') =>
        if tstate_eqb s initial then since_loop t P f pp initial c'
        else match vnode_at t pindex_prev with Some nd => Some (vn_height nd + 1, c') | None => None end
      end
    end
  end.

Definition get_state_since_height_for (t : vtree) (P : vb_params) (prev : key) (c : cache) : option (Z * cache) :=
  if (vp_start P =? BIP9_ALWAYS_ACTIVE) || (vp_start P =? BIP9_NEVER_ACTIVE) then Some (0, c)
  else
    match get_state_for t P prev c with
    | None => None
    | Some (initial, c1) =>
      if tstate_eqb initial DEFINED then Some (0, c1)
      else match align t P prev with
           | None => None                                   (* Assert(...) *)
           | Some b => since_loop t P (S (Z.to_nat (key_height t (Some b) + 1))) b initial c1
           end
    end.

(* ---- GetStateStatisticsFor: period, threshold, elapsed, count, possible ---- *)
Definition get_state_statistics_for (t : vtree) (P : vb_params) (pindex : key) : option (Z * Z * Z * Z * bool) :=
  let period := wrapu32 (vp_period P) in
  let threshold := wrapu32 (vp_threshold P) in
  match pindex with
  | None => Some (period, threshold, 0, 0, false)
  | Some b =>
    match vnode_at t b with
    | None => None
    | Some nd =>
      (* int blocks_in_period = 1 + (pindex->nHeight % stats.period);  -- unsigned arithmetic *)
      let blocks_in_period := wrap32 (1 + (wrapu32 (vn_height nd)) mod period) in
      match count_signals t P (Z.to_nat blocks_in_period) (Some b) with
      | None => None
      | Some count =>
        let elapsed := blocks_in_period in
        Some (period, threshold, elapsed, count,
              wrapu32 (period - threshold) >=? wrapu32 (elapsed - count))
      end
    end
  end.

(* executable predicate for the violation search: one GetStateFor answer against the specification *)
Definition tstate_name (s : tstate) : nat :=
  match s with DEFINED => 0 | STARTED => 1 | LOCKED_IN => 2 | ACTIVE => 3 | FAILED => 4 end%nat.
