(* CNetAddr / CSubNet  (src/netaddress.h, src/netaddress.cpp): addresses, validity, subnets and their
   matching, ADDRv1 and ADDRv2 (BIP155) serialisation.  Bytes are Z in [0,256).
   Executable definitions only; proofs are in proofs/NetAddrLemmas.v. *)
From Coq Require Import List Arith Bool ZArith.
Import ListNotations.
Local Open Scope Z_scope.

(* enum Network { NET_UNROUTABLE = 0, NET_IPV4, NET_IPV6, NET_ONION, NET_I2P, NET_CJDNS, NET_INTERNAL, NET_MAX }
   (m_net is never NET_UNROUTABLE / NET_MAX) *)
Inductive network := NET_IPV4 | NET_IPV6 | NET_ONION | NET_I2P | NET_CJDNS | NET_INTERNAL.
Definition network_eqb (a b : network) : bool :=
  match a, b with
  | NET_IPV4, NET_IPV4 | NET_IPV6, NET_IPV6 | NET_ONION, NET_ONION | NET_I2P, NET_I2P
  | NET_CJDNS, NET_CJDNS | NET_INTERNAL, NET_INTERNAL => true
  | _, _ => false
  end.

(* class CNetAddr { prevector<16, uint8_t> m_addr; Network m_net; uint32_t m_scope_id; } (scope id plays no role here) *)
Record netaddr := mkaddr { a_net : network; a_bytes : list Z }.

(* ADDR_IPV4_SIZE = 4, ADDR_IPV6_SIZE = 16, ADDR_TORV3_SIZE = 32, ADDR_I2P_SIZE = 32, ADDR_CJDNS_SIZE = 16, ADDR_INTERNAL_SIZE = 10 *)
Definition addr_size (n : network) : nat :=
  match n with NET_IPV4 => 4 | NET_IPV6 => 16 | NET_ONION => 32 | NET_I2P => 32 | NET_CJDNS => 16 | NET_INTERNAL => 10 end%nat.

Definition IPV4_IN_IPV6_PREFIX : list Z := [0;0;0;0;0;0;0;0;0;0;255;255].
Definition TORV2_IN_IPV6_PREFIX : list Z := [253;135;216;126;235;67].          (* FD 87 D8 7E EB 43 *)
Definition INTERNAL_IN_IPV6_PREFIX : list Z := [253;107;136;192;135;36].       (* FD 6B 88 C0 87 24 *)
Definition CJDNS_PREFIX : Z := 252.                                            (* 0xFC *)

Fixpoint bytes_eqb (a b : list Z) : bool :=
  match a, b with
  | [], [] => true
  | x :: r, y :: t => (x =? y) && bytes_eqb r t
  | _, _ => false
  end.
Fixpoint has_prefix (l p : list Z) : bool :=
  match p, l with
  | [], _ => true
  | y :: t, x :: r => (x =? y) && has_prefix r t
  | _ :: _, [] => false
  end.
Definition byte_ok (b : Z) : bool := (0 <=? b) && (b <? 256).
(* a well-formed object: m_addr has the size of its network (the class invariant asserted by SetIP) *)
Definition addr_wf (a : netaddr) : bool :=
  (length (a_bytes a) =? addr_size (a_net a))%nat && forallb byte_ok (a_bytes a).

(* CNetAddr::CNetAddr() = default;   m_addr{16 zero bytes}, m_net{NET_IPV6} *)
Definition addr_default : netaddr := mkaddr NET_IPV6 (repeat 0 16).

(* bool operator==(const CNetAddr& a, const CNetAddr& b) { return a.m_net == b.m_net && a.m_addr == b.m_addr; } *)
Definition addr_eqb (a b : netaddr) : bool := network_eqb (a_net a) (a_net b) && bytes_eqb (a_bytes a) (a_bytes b).

(* bool CNetAddr::IsValid() const {
       unsigned char ipNone6[16] = {};
       if (IsIPv6() && memcmp(m_addr.data(), ipNone6, sizeof(ipNone6)) == 0) return false;
       if (IsCJDNS() && !HasCJDNSPrefix()) return false;
       if (IsRFC3849()) return false;                 // IsIPv6() && HasPrefix(m_addr, {0x20, 0x01, 0x0D, 0xB8})
       if (IsInternal()) return false;
       if (IsIPv4()) { const uint32_t addr = ReadBE32(m_addr.data()); if (addr == INADDR_ANY || addr == INADDR_NONE) return false; }
       return true; } *)
Definition is_valid (a : netaddr) : bool :=
  let n := a_net a in let b := a_bytes a in
  if network_eqb n NET_IPV6 && bytes_eqb b (repeat 0 16) then false
  else if network_eqb n NET_CJDNS && negb (match b with x :: _ => x =? CJDNS_PREFIX | [] => false end) then false
  else if network_eqb n NET_IPV6 && has_prefix b [32; 1; 13; 184] then false
  else if network_eqb n NET_INTERNAL then false
  else if network_eqb n NET_IPV4 && (bytes_eqb b [0;0;0;0] || bytes_eqb b [255;255;255;255]) then false
  else true.

(* ------------------------------------------------------------------------------------------------
   class CSubNet { CNetAddr network; uint8_t netmask[16]; bool valid; } *)
Record subnet := mksub { s_network : netaddr; s_mask : list Z; s_valid : bool }.

(* CSubNet::CSubNet() : valid(false) { memset(netmask, 0, sizeof(netmask)); } *)
Definition subnet_default : subnet := mksub addr_default (repeat 0 16) false.

(* for (size_t i = 0; i < network.m_addr.size(); ++i) {
       const uint8_t bits = n < 8 ? n : 8;
       netmask[i] = (uint8_t)((uint8_t)0xFF << (8 - bits));
       network.m_addr[i] &= netmask[i];
       n -= bits; } *)
Definition mask_byte (bits : Z) : Z := Z.land (Z.shiftl 255 (8 - bits)) 255.
Fixpoint cidr_mask (size : nat) (n : Z) : list Z :=
  match size with
  | O => []
  | S k => let bits := if n <? 8 then n else 8 in mask_byte bits :: cidr_mask k (n - bits)
  end.
Fixpoint and_bytes (a m : list Z) : list Z :=
  match a, m with
  | x :: r, y :: t => Z.land x y :: and_bytes r t
  | _, _ => []
  end.
Definition pad16 (l : list Z) : list Z := l ++ repeat 0 (16 - length l).

(* CSubNet::CSubNet(const CNetAddr& addr, uint8_t mask) : CSubNet() {
       valid = (addr.IsIPv4() && mask <= ADDR_IPV4_SIZE * 8) || (addr.IsIPv6() && mask <= ADDR_IPV6_SIZE * 8);
       if (!valid) return;
       network = addr; ...loop above... } *)
Definition subnet_cidr (addr : netaddr) (mask : Z) : subnet :=
  let valid := (network_eqb (a_net addr) NET_IPV4 && (mask <=? 32)) || (network_eqb (a_net addr) NET_IPV6 && (mask <=? 128)) in
  if valid then
    let m := cidr_mask (length (a_bytes addr)) mask in
    mksub (mkaddr (a_net addr) (and_bytes (a_bytes addr) m)) (pad16 m) true
  else subnet_default.

(* static inline int NetmaskBits(uint8_t x): 0x00->0 0x80->1 0xc0->2 0xe0->3 0xf0->4 0xf8->5 0xfc->6 0xfe->7 0xff->8 else -1 *)
Definition netmask_bits (x : Z) : Z :=
  if x =? 0 then 0 else if x =? 128 then 1 else if x =? 192 then 2 else if x =? 224 then 3 else if x =? 240 then 4
  else if x =? 248 then 5 else if x =? 252 then 6 else if x =? 254 then 7 else if x =? 255 then 8 else -1.

(* bool zeros_found = false;
   for (auto b : mask.m_addr) {
       const int num_bits = NetmaskBits(b);
       if (num_bits == -1 || (zeros_found && num_bits != 0)) { valid = false; return; }
       if (num_bits < 8) zeros_found = true; } *)
Fixpoint mask_contiguous (zeros_found : bool) (m : list Z) : bool :=
  match m with
  | [] => true
  | b :: r =>
      let num_bits := netmask_bits b in
      if (num_bits =? -1) || (zeros_found && negb (num_bits =? 0)) then false
      else mask_contiguous (zeros_found || (num_bits <? 8)) r
  end.

(* CSubNet::CSubNet(const CNetAddr& addr, const CNetAddr& mask) : CSubNet() {
       valid = (addr.IsIPv4() || addr.IsIPv6()) && addr.m_net == mask.m_net;
       if (!valid) return;
       ...contiguity check...
       memcpy(netmask, mask.m_addr.data(), mask.m_addr.size());
       network = addr;
       for (size_t x = 0; x < network.m_addr.size(); ++x) network.m_addr[x] &= netmask[x]; } *)
Definition subnet_of_mask (addr mask : netaddr) : subnet :=
  let valid := (network_eqb (a_net addr) NET_IPV4 || network_eqb (a_net addr) NET_IPV6) && network_eqb (a_net addr) (a_net mask) in
  if valid then
    if mask_contiguous false (a_bytes mask) then
      mksub (mkaddr (a_net addr) (and_bytes (a_bytes addr) (a_bytes mask))) (pad16 (a_bytes mask)) true
    else subnet_default
  else subnet_default.

(* explicit CSubNet::CSubNet(const CNetAddr& addr) : CSubNet() {
       switch (addr.m_net) {
       case NET_IPV4: case NET_IPV6: valid = true; memset(netmask, 0xFF, addr.m_addr.size()); break;
       case NET_ONION: case NET_I2P: case NET_CJDNS: valid = true; break;
       case NET_INTERNAL: case NET_UNROUTABLE: case NET_MAX: return; }
       network = addr; } *)
Definition subnet_single (addr : netaddr) : subnet :=
  match a_net addr with
  | NET_IPV4 | NET_IPV6 => mksub addr (pad16 (repeat 255 (length (a_bytes addr)))) true
  | NET_ONION | NET_I2P | NET_CJDNS => mksub addr (repeat 0 16) true
  | NET_INTERNAL => subnet_default
  end.

(* for (size_t x = 0; x < addr.m_addr.size(); ++x) if ((addr.m_addr[x] & netmask[x]) != network.m_addr[x]) return false; return true; *)
Fixpoint match_bytes (a m n : list Z) : bool :=
  match a with
  | [] => true
  | x :: ar =>
      match m, n with
      | y :: mr, z :: nr => (Z.land x y =? z) && match_bytes ar mr nr
      | _, _ => false        (* reading netmask / network.m_addr out of range *)
      end
  end.

(* bool CSubNet::Match(const CNetAddr &addr) const {
       if (!valid || !addr.IsValid() || network.m_net != addr.m_net) return false;
       switch (network.m_net) {
       case NET_IPV4: case NET_IPV6: break;
       case NET_ONION: case NET_I2P: case NET_CJDNS: case NET_INTERNAL: return addr == network;
       case NET_UNROUTABLE: case NET_MAX: return false; }
       assert(network.m_addr.size() == addr.m_addr.size());
       ...loop above... } *)
Definition subnet_match (s : subnet) (addr : netaddr) : bool :=
  if negb (s_valid s) || negb (is_valid addr) || negb (network_eqb (a_net (s_network s)) (a_net addr)) then false
  else match a_net (s_network s) with
       | NET_IPV4 | NET_IPV6 => match_bytes (a_bytes addr) (s_mask s) (a_bytes (s_network s))
       | _ => addr_eqb addr (s_network s)
       end.

(* bool operator==(const CSubNet& a, const CSubNet& b) { return a.valid == b.valid && a.network == b.network && !memcmp(a.netmask, b.netmask, 16); } *)
Definition subnet_eqb (a b : subnet) : bool :=
  Bool.eqb (s_valid a) (s_valid b) && addr_eqb (s_network a) (s_network b) && bytes_eqb (s_mask a) (s_mask b).

(* the i-th bit (0 = most significant bit of byte 0) of an address *)
Definition addr_bit (bytes : list Z) (i : nat) : bool :=
  match nth_error bytes (i / 8) with
  | Some b => Z.testbit b (Z.of_nat (7 - i mod 8))
  | None => false
  end.

(* ------------------------------------------------------------------------------------------------
   Serialisation.  ADDRv1: 16 bytes.   ADDRv2 (BIP155): network id, compact-size length, address bytes. *)

(* void SerializeV1Array(uint8_t (&arr)[16]) const: IPv6 as is; IPv4 and INTERNAL behind their prefixes;
   ONION, I2P and CJDNS as all-zeros *)
Definition ser_v1 (a : netaddr) : list Z :=
  match a_net a with
  | NET_IPV6 => a_bytes a
  | NET_IPV4 => IPV4_IN_IPV6_PREFIX ++ a_bytes a
  | NET_INTERNAL => INTERNAL_IN_IPV6_PREFIX ++ a_bytes a
  | NET_ONION | NET_I2P | NET_CJDNS => repeat 0 16
  end.

(* void CNetAddr::SetLegacyIPv6(std::span<const uint8_t> ipv6) *)
Definition set_legacy_ipv6 (ipv6 : list Z) : netaddr :=
  if has_prefix ipv6 IPV4_IN_IPV6_PREFIX then mkaddr NET_IPV4 (skipn 12 ipv6)
  else if has_prefix ipv6 TORV2_IN_IPV6_PREFIX then addr_default
  else if has_prefix ipv6 INTERNAL_IN_IPV6_PREFIX then mkaddr NET_INTERNAL (skipn 6 ipv6)
  else mkaddr NET_IPV6 ipv6.

Inductive unser_result :=
| UOk (a : netaddr) (rest : list Z)
| UFail                 (* std::ios_base::failure thrown (also: end of data) *).

(* void UnserializeV1Stream(Stream& s) { uint8_t serialized[16]; s >> serialized; UnserializeV1Array(serialized); } *)
Definition unser_v1 (s : list Z) : unser_result :=
  if (16 <=? length s)%nat then UOk (set_legacy_ipv6 (firstn 16 s)) (skipn 16 s) else UFail.

(* enum BIP155Network : uint8_t { IPV4 = 1, IPV6 = 2, TORV2 = 3, TORV3 = 4, I2P = 5, CJDNS = 6 } *)
Definition bip155_id (n : network) : Z :=
  match n with NET_IPV4 => 1 | NET_IPV6 => 2 | NET_ONION => 4 | NET_I2P => 5 | NET_CJDNS => 6 | NET_INTERNAL => 2 end.

(* WriteCompactSize / ReadCompactSize (serialize.h), with the canonical-encoding and MAX_SIZE checks *)
Definition MAX_SIZE : Z := 33554432.     (* 0x02000000 *)
Definition le_bytes (n : nat) (v : Z) : list Z := map (fun i => Z.land (Z.shiftr v (8 * Z.of_nat i)) 255) (seq 0 n).
Fixpoint le_value (l : list Z) : Z := match l with [] => 0 | b :: r => b + 256 * le_value r end.
Definition write_compact_size (n : Z) : list Z :=
  if n <? 253 then [n]
  else if n <=? 65535 then 253 :: le_bytes 2 n
  else if n <=? 4294967295 then 254 :: le_bytes 4 n
  else 255 :: le_bytes 8 n.
Definition read_compact_size (s : list Z) : option (Z * list Z) :=
  match s with
  | [] => None
  | c :: r =>
      if c <? 253 then Some (c, r)
      else
        let k := if c =? 253 then 2%nat else if c =? 254 then 4%nat else 8%nat in
        let lo := if c =? 253 then 253 else if c =? 254 then 65536 else 4294967296 in
        if (k <=? length r)%nat then
          let v := le_value (firstn k r) in
          if v <? lo then None                        (* "non-canonical ReadCompactSize()" *)
          else if MAX_SIZE <? v then None             (* "ReadCompactSize(): size too large" *)
          else Some (v, skipn k r)
        else None
  end.

(* template <typename Stream> void SerializeV2Stream(Stream& s) const {
       if (IsInternal()) { s << uint8_t(BIP155Network::IPV6); s << COMPACTSIZE(ADDR_IPV6_SIZE); SerializeV1Stream(s); return; }
       s << static_cast<uint8_t>(GetBIP155Network());
       s << m_addr; }                                   (prevector: compact size + bytes) *)
Definition ser_v2 (a : netaddr) : list Z :=
  match a_net a with
  | NET_INTERNAL => [2; 16] ++ ser_v1 a
  | n => bip155_id n :: write_compact_size (Z.of_nat (length (a_bytes a))) ++ a_bytes a
  end.

(* bool CNetAddr::SetNetFromBIP155Network(uint8_t possible_bip155_net, size_t address_size):
   Some (Some net) = recognised with the right size; Some None = unknown id (ignored); None = known id, wrong size (throws) *)
Definition set_net_from_bip155 (id : Z) (address_size : Z) : option (option network) :=
  let chk (n : network) := if address_size =? Z.of_nat (addr_size n) then Some (Some n) else None in
  if id =? 1 then chk NET_IPV4 else if id =? 2 then chk NET_IPV6 else if id =? 4 then chk NET_ONION
  else if id =? 5 then chk NET_I2P else if id =? 6 then chk NET_CJDNS else Some None.

Definition MAX_ADDRV2_SIZE : Z := 512.

(* template <typename Stream> void UnserializeV2Stream(Stream& s)  (quoted in full in netaddress.h) *)
Definition unser_v2 (s : list Z) : unser_result :=
  match s with
  | [] => UFail
  | bip155_net :: s1 =>
      match read_compact_size s1 with
      | None => UFail
      | Some (address_size, s2) =>
          if MAX_ADDRV2_SIZE <? address_size then UFail
          else
            let n := Z.to_nat address_size in
            match set_net_from_bip155 bip155_net address_size with
            | None => UFail
            | Some (Some net) =>
                if (n <=? length s2)%nat then
                  let bytes := firstn n s2 in let rest := skipn n s2 in
                  match net with
                  | NET_IPV6 =>
                      if has_prefix bytes INTERNAL_IN_IPV6_PREFIX then UOk (mkaddr NET_INTERNAL (firstn 10 (skipn 6 bytes))) rest
                      else if negb (has_prefix bytes IPV4_IN_IPV6_PREFIX) && negb (has_prefix bytes TORV2_IN_IPV6_PREFIX)
                      then UOk (mkaddr NET_IPV6 bytes) rest
                      else UOk addr_default rest
                  | _ => UOk (mkaddr net bytes) rest
                  end
                else UFail
            | Some None =>
                if (n <=? length s2)%nat then UOk addr_default (skipn n s2) else UFail     (* s.ignore(address_size) *)
            end
      end
  end.
