(* C49 — SHA256D64: the batched double-SHA256 of 64-byte blocks (src/crypto/sha256.cpp).

   template<TransformType tr> void TransformD64Wrapper(unsigned char* out, const unsigned char* in)
   {
       uint32_t s[8];
       static const unsigned char padding1[64] = { 0x80, 0, ..., 0, 2, 0 };
       unsigned char buffer2[64] = { <32 bytes>, 0x80, 0, ..., 0, 1, 0 };
       sha256::Initialize(s);
       tr(s, in, 1);
       tr(s, padding1, 1);
       WriteBE32(buffer2 + 0, s[0]); ... WriteBE32(buffer2 + 28, s[7]);
       sha256::Initialize(s);
       tr(s, buffer2, 1);
       WriteBE32(out + 0, s[0]); ... WriteBE32(out + 28, s[7]);
   }

   void SHA256D64(unsigned char* out, const unsigned char* in, size_t blocks)
   {
       if (TransformD64_8way) { while (blocks >= 8) { TransformD64_8way(out, in); out += 256; in += 512; blocks -= 8; } }
       if (TransformD64_4way) { while (blocks >= 4) { TransformD64_4way(out, in); out += 128; in += 256; blocks -= 4; } }
       if (TransformD64_2way) { while (blocks >= 2) { TransformD64_2way(out, in); out += 64; in += 128; blocks -= 2; } }
       while (blocks) { TransformD64(out, in); out += 32; in += 64; --blocks; }
   }

   The N-way backends (SSE4.1, AVX2, SHA-NI, hand-unrolled C++) are not modelled at instruction level: an
   N-way transform is N applications of the wrapper above (equality with the real backends: correspondence).
   Executable definitions only. *)
From Coq Require Import NArith.
From BV Require Import lib.Ints model.CryptoBase model.CryptoMD model.CryptoSHA256.
Local Open Scope Z_scope.

Definition d64_padding1 : list N := 128%N :: zeros 61 ++ [2; 0]%N.
Definition d64_buffer2_tail : list N := 128%N :: zeros 29 ++ [1; 0]%N.

Definition transform_d64_wrapper (block : list N) : list N :=
  let s := sha256_compress (sha256_compress sha256_iv block) d64_padding1 in
  let buffer2 := sha256_out s ++ d64_buffer2_tail in
  sha256_out (sha256_compress sha256_iv buffer2).

(* TransformD64_Nway(out, in): N consecutive 64-byte blocks -> N consecutive 32-byte digests *)
Fixpoint transform_d64_nway (n : nat) (input : list N) : list N :=
  match n with
  | O => []
  | S k => transform_d64_wrapper (firstn 64 input) ++ transform_d64_nway k (skipn 64 input)
  end.

(* while (blocks >= way) { Nway(out, in); out += 32*way; in += 64*way; blocks -= way; }
   returns the bytes written, the remaining block count and the remaining input; fuel >= blocks *)
Fixpoint d64_phase (way fuel blocks : nat) (input : list N) : list N * nat * list N :=
  match fuel with
  | O => ([], blocks, input)
  | S f =>
    if (way <=? blocks)%nat then
      let '(o, b, i) := d64_phase way f (blocks - way) (skipn (64 * way) input) in
      (transform_d64_nway way input ++ o, b, i)
    else ([], blocks, input)
  end.

Definition sha256d64_dispatch (have8 have4 have2 : bool) (blocks : nat) (input : list N) : list N :=
  let '(o8, b8, i8) := if have8 then d64_phase 8 blocks blocks input else ([], blocks, input) in
  let '(o4, b4, i4) := if have4 then d64_phase 4 b8 b8 i8 else ([], b8, i8) in
  let '(o2, b2, i2) := if have2 then d64_phase 2 b4 b4 i4 else ([], b4, i4) in
  let '(o1, _, _) := d64_phase 1 b2 b2 i2 in
  o8 ++ o4 ++ o2 ++ o1.
