(* CPartialMerkleTree: build (TraverseAndBuild) and extract (TraverseAndExtract, ExtractMatches).
   Transcribed from src/merkleblock.{h,cpp}.  Executable definitions only.
   H is the inner-node hash (Section variable), as in model/Merkle.v. *)
From BV Require Import lib.Ints gen.Params_gen.
Local Open Scope Z_scope.

Section Pmt.
Variable D : Type.
Variable deq : D -> D -> bool.
Variable H : D -> D -> D.
Variable zero : D.

(* unsigned int CalcTreeWidth(int height) const { return (nTransactions+(1 << height)-1) >> height; }
   nTransactions is unsigned int: the sum wraps modulo 2^32 *)
Definition calc_tree_width (ntx : Z) (height : nat) : Z :=
  Z.shiftr (wrapu32 (ntx + 2 ^ Z.of_nat height - 1)) (Z.of_nat height).

(* int nHeight = 0; while (CalcTreeWidth(nHeight) > 1) nHeight++;
   fuel 32: nHeight < 32 for every unsigned nTransactions (`1 << 32` would be undefined: None) *)
Fixpoint tree_height_from (fuel : nat) (ntx : Z) (h : nat) : option nat :=
  match fuel with
  | O => None
  | S f => if calc_tree_width ntx h >? 1 then tree_height_from f ntx (S h) else Some h
  end.
Definition tree_height (ntx : Z) : option nat := tree_height_from 32 ntx 0.

(* uint256 CalcHash(int height, unsigned int pos, const std::vector<Txid> &vTxid) {
       if (height == 0) return vTxid[pos];
       uint256 left = CalcHash(height-1, pos*2, vTxid), right;
       if (pos*2+1 < CalcTreeWidth(height-1)) right = CalcHash(height-1, pos*2+1, vTxid);
       else right = left;
       return Hash(left, right);
   }
   vTxid[pos] out of range is undefined behaviour in C++: None *)
Fixpoint calc_hash (ntx : Z) (txids : list D) (height : nat) (pos : Z) : option D :=
  match height with
  | O => if pos <? 0 then None else nth_error txids (Z.to_nat pos)
  | S h =>
    match calc_hash ntx txids h (pos * 2) with
    | None => None
    | Some hl =>
      if pos * 2 + 1 <? calc_tree_width ntx h then
        match calc_hash ntx txids h (pos * 2 + 1) with
        | None => None
        | Some hr => Some (H hl hr)
        end
      else Some (H hl hl)
    end
  end.

(* for (unsigned int p = pos << height; p < (pos+1) << height && p < nTransactions; p++)
       fParentOfMatch |= vMatch[p];
   vMatch[p] beyond vMatch.size() is undefined; the constructor is only called with
   vMatch.size() == vTxid.size(); the model reads `false` there and the theorems require equal sizes *)
Definition parent_of_match (ntx : Z) (matches : list bool) (height : nat) (pos : Z) : bool :=
  let lo := pos * 2 ^ Z.of_nat height in
  let hi := Z.min ((pos + 1) * 2 ^ Z.of_nat height) ntx in
  existsb (fun b => b) (firstn (Z.to_nat (hi - lo)) (skipn (Z.to_nat lo) matches)).

(* void TraverseAndBuild(int height, unsigned int pos, vTxid, vMatch) {
       bool fParentOfMatch = ...;
       vBits.push_back(fParentOfMatch);
       if (height==0 || !fParentOfMatch) {
           vHash.push_back(CalcHash(height, pos, vTxid));
       } else {
           TraverseAndBuild(height-1, pos*2, vTxid, vMatch);
           if (pos*2+1 < CalcTreeWidth(height-1)) TraverseAndBuild(height-1, pos*2+1, vTxid, vMatch);
       }
   }
   returns the bits and hashes this call appends *)
Fixpoint traverse_and_build (ntx : Z) (txids : list D) (matches : list bool) (height : nat) (pos : Z)
  : option (list bool * list D) :=
  let f := parent_of_match ntx matches height pos in
  match height with
  | O => match calc_hash ntx txids O pos with Some x => Some ([f], [x]) | None => None end
  | S h =>
    if negb f then
      match calc_hash ntx txids height pos with Some x => Some ([f], [x]) | None => None end
    else
      match traverse_and_build ntx txids matches h (pos * 2) with
      | None => None
      | Some (b1, h1) =>
        if pos * 2 + 1 <? calc_tree_width ntx h then
          match traverse_and_build ntx txids matches h (pos * 2 + 1) with
          | None => None
          | Some (b2, h2) => Some (f :: b1 ++ b2, h1 ++ h2)
          end
        else Some (f :: b1, h1)
      end
  end.

(* the object: nTransactions, vBits, vHash, fBad *)
Record pmt := { pmt_ntx : Z; pmt_bits : list bool; pmt_hashes : list D; pmt_bad : bool }.

(* CPartialMerkleTree(const std::vector<Txid> &vTxid, const std::vector<bool> &vMatch)
     : nTransactions(vTxid.size()), fBad(false) { ...height...; TraverseAndBuild(nHeight, 0, vTxid, vMatch); } *)
Definition pmt_build (txids : list D) (matches : list bool) : option pmt :=
  let ntx := Z.of_nat (length txids) in
  match tree_height ntx with
  | None => None
  | Some h =>
    match traverse_and_build ntx txids matches h 0 with
    | None => None
    | Some (bits, hashes) => Some {| pmt_ntx := ntx; pmt_bits := bits; pmt_hashes := hashes; pmt_bad := false |}
    end
  end.

(* traversal state of TraverseAndExtract: the unread suffixes of vBits and vHash (nBitsUsed and
   nHashUsed are the lengths already consumed), fBad, and the outputs vMatch / vnIndex *)
Record xstate := { xs_bits : list bool; xs_hashes : list D; xs_bad : bool; xs_matches : list (D * Z) }.

(* uint256 TraverseAndExtract(int height, unsigned int pos, nBitsUsed, nHashUsed, vMatch, vnIndex) {
       if (nBitsUsed >= vBits.size()) { fBad = true; return uint256(); }
       bool fParentOfMatch = vBits[nBitsUsed++];
       if (height==0 || !fParentOfMatch) {
           if (nHashUsed >= vHash.size()) { fBad = true; return uint256(); }
           const uint256 &hash = vHash[nHashUsed++];
           if (height==0 && fParentOfMatch) { vMatch.push_back(hash); vnIndex.push_back(pos); }
           return hash;
       } else {
           uint256 left = TraverseAndExtract(height-1, pos*2, ...), right;
           if (pos*2+1 < CalcTreeWidth(height-1)) {
               right = TraverseAndExtract(height-1, pos*2+1, ...);
               if (right == left) fBad = true;
           } else right = left;
           return Hash(left, right);
       }
   }
   Note that a failure only sets fBad and the traversal goes on with a zero hash. *)
Fixpoint traverse_and_extract (ntx : Z) (height : nat) (pos : Z) (s : xstate) : D * xstate :=
  match xs_bits s with
  | [] => (zero, {| xs_bits := []; xs_hashes := xs_hashes s; xs_bad := true; xs_matches := xs_matches s |})
  | f :: bits' =>
    let leaf_case :=
      match xs_hashes s with
      | [] => (zero, {| xs_bits := bits'; xs_hashes := []; xs_bad := true; xs_matches := xs_matches s |})
      | hash :: hashes' =>
        (hash, {| xs_bits := bits'; xs_hashes := hashes'; xs_bad := xs_bad s;
                  xs_matches := match height with
                                | O => if f then xs_matches s ++ [(hash, pos)] else xs_matches s
                                | S _ => xs_matches s
                                end |})
      end in
    match height with
    | O => leaf_case
    | S h =>
      if negb f then leaf_case else
      let s0 := {| xs_bits := bits'; xs_hashes := xs_hashes s; xs_bad := xs_bad s; xs_matches := xs_matches s |} in
      let (hl, s1) := traverse_and_extract ntx h (pos * 2) s0 in
      if pos * 2 + 1 <? calc_tree_width ntx h then
        let (hr, s2) := traverse_and_extract ntx h (pos * 2 + 1) s1 in
        let s3 := if deq hr hl
                  then {| xs_bits := xs_bits s2; xs_hashes := xs_hashes s2; xs_bad := true; xs_matches := xs_matches s2 |}
                  else s2 in
        (H hl hr, s3)
      else (H hl hl, s1)
    end
  end.

Definition ceil_div8 (n : Z) : Z := (n + 7) / 8.

(* uint256 ExtractMatches(std::vector<Txid> &vMatch, std::vector<unsigned int> &vnIndex) {
       vMatch.clear();
       if (nTransactions == 0) return uint256();
       if (nTransactions > MAX_BLOCK_WEIGHT / MIN_TRANSACTION_WEIGHT) return uint256();
       if (vHash.size() > nTransactions) return uint256();
       if (vBits.size() < vHash.size()) return uint256();
       int nHeight = 0; while (CalcTreeWidth(nHeight) > 1) nHeight++;
       unsigned int nBitsUsed = 0, nHashUsed = 0;
       uint256 hashMerkleRoot = TraverseAndExtract(nHeight, 0, nBitsUsed, nHashUsed, vMatch, vnIndex);
       if (fBad) return uint256();
       if (CeilDiv(nBitsUsed, 8u) != CeilDiv(vBits.size(), 8u)) return uint256();
       if (nHashUsed != vHash.size()) return uint256();
       return hashMerkleRoot;
   }
   None = "returns uint256()" (failure); Some (root, matches with indices) otherwise.
   (A successful traversal whose root happens to be all-zero is indistinguishable from failure for
   the C++ caller; the model keeps them apart and the drivers print the root.) *)
Inductive extract_result := X_fail (why : nat) | X_ok (root : D) (matches : list (D * Z)) | X_model_error.

Definition pmt_extract (t : pmt) : extract_result :=
  let ntx := pmt_ntx t in
  let nbits := Z.of_nat (length (pmt_bits t)) in
  let nhash := Z.of_nat (length (pmt_hashes t)) in
  if ntx =? 0 then X_fail 1 else
  if ntx >? cdiv MAX_BLOCK_WEIGHT MIN_TRANSACTION_WEIGHT then X_fail 2 else
  if nhash >? ntx then X_fail 3 else
  if nbits <? nhash then X_fail 4 else
  match tree_height ntx with
  | None => X_model_error
  | Some h =>
    let (root, s) := traverse_and_extract ntx h 0
                       {| xs_bits := pmt_bits t; xs_hashes := pmt_hashes t; xs_bad := pmt_bad t; xs_matches := [] |} in
    let bits_used := nbits - Z.of_nat (length (xs_bits s)) in
    let hash_used := nhash - Z.of_nat (length (xs_hashes s)) in
    if xs_bad s then X_fail 5 else
    if negb (ceil_div8 bits_used =? ceil_div8 nbits) then X_fail 6 else
    if negb (hash_used =? nhash) then X_fail 7 else
    X_ok root s.(xs_matches)
  end.

(* what the property wants back: the matched txids with their positions, in order *)
Fixpoint matched_from (txids : list D) (matches : list bool) (i : Z) : list (D * Z) :=
  match txids, matches with
  | x :: xs, m :: ms => (if m then [(x, i)] else []) ++ matched_from xs ms (i + 1)
  | _, _ => []
  end.

End Pmt.
