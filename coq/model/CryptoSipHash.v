(* C49 — SipHash-2-4 (and the SipHash-1-3-UJ variant of src/crypto/siphash.h).

   Part 1 (specification), written from J.-P. Aumasson and D. J. Bernstein, "SipHash: a fast
   short-input PRF" (Indocrypt 2012), section 2, independent of the C++ text:

     Initialization.  v0 = k0 xor 736f6d6570736575     v1 = k1 xor 646f72616e646f6d
                      v2 = k0 xor 6c7967656e657261     v3 = k1 xor 7465646279746573
     Compression.     The b-byte string m is parsed as w = ceil((b+1)/8) > 0 64-bit little-endian words
                      m_0 ... m_{w-1} where m_{w-1} includes the last 0 through 7 bytes of m followed by
                      null bytes and ending with a byte encoding the positive integer b mod 256.
                      For each i: v3 ^= m_i; c iterations of SipRound; v0 ^= m_i.
     Finalization.    v2 ^= ff; d iterations of SipRound; return v0 xor v1 xor v2 xor v3.
     SipRound.        v0 += v1   v2 += v3   v1 <<<= 13   v3 <<<= 16   v1 ^= v0   v3 ^= v2   v0 <<<= 32
                      v2 += v1   v0 += v3   v1 <<<= 17   v3 <<<= 21   v1 ^= v2   v3 ^= v0   v2 <<<= 32
     SipHash-2-4: c = 2, d = 4.

   Part 2 (model of the C++): SipHashState, CSipHasher, PresaltedSipHasher and SipHasher13UJ of
   src/crypto/siphash.h / siphash.cpp, statement by statement.

   64-bit words are Z; every addition is followed by an explicit w64 (reduction mod 2^64); rotl64
   (CryptoBase.v) is a rotation on values in [0, 2^64) (proofs/CryptoSipHashLemmas.v shows that all
   state words stay in that range when the key words are).
   Executable definitions only; proofs in proofs/CryptoSipHashLemmas.v. *)
From Coq Require Import NArith.
From BV Require Import lib.Ints model.CryptoBase.
Local Open Scope Z_scope.

Definition sipstate : Type := (Z * Z * Z * Z)%type.   (* v0, v1, v2, v3 *)

(* ================= Part 1: specification (from the paper) ================= *)

Definition sip_init (k0 k1 : Z) : sipstate :=
  (Z.lxor k0 0x736f6d6570736575, Z.lxor k1 0x646f72616e646f6d,
   Z.lxor k0 0x6c7967656e657261, Z.lxor k1 0x7465646279746573).

(* SipRound, in the order of the paper (two columns of the ARX network at a time) *)
Definition sipround (v : sipstate) : sipstate :=
  let '(v0, v1, v2, v3) := v in
  let v0 := w64 (v0 + v1) in  let v2 := w64 (v2 + v3) in
  let v1 := rotl64 13 v1 in   let v3 := rotl64 16 v3 in
  let v1 := Z.lxor v1 v0 in   let v3 := Z.lxor v3 v2 in
  let v0 := rotl64 32 v0 in
  let v2 := w64 (v2 + v1) in  let v0 := w64 (v0 + v3) in
  let v1 := rotl64 17 v1 in   let v3 := rotl64 21 v3 in
  let v1 := Z.lxor v1 v2 in   let v3 := Z.lxor v3 v0 in
  let v2 := rotl64 32 v2 in
  (v0, v1, v2, v3).

Fixpoint sip_iter (n : nat) (v : sipstate) : sipstate :=
  match n with O => v | S k => sip_iter k (sipround v) end.

(* processing of one message word with c rounds *)
Definition sip_compress (c : nat) (v : sipstate) (m : Z) : sipstate :=
  let '(v0, v1, v2, v3) := v in
  let '(v0, v1, v2, v3) := sip_iter c (v0, v1, v2, Z.lxor v3 m) in
  (Z.lxor v0 m, v1, v2, v3).

(* finalization with d rounds *)
Definition sip_finalize (d : nat) (v : sipstate) : Z :=
  let '(v0, v1, v2, v3) := v in
  let '(v0, v1, v2, v3) := sip_iter d (v0, v1, Z.lxor v2 0xff, v3) in
  Z.lxor (Z.lxor (Z.lxor v0 v1) v2) v3.

(* the message followed by null bytes and a final byte b mod 256, a multiple of 8 bytes in total:
   the number of null bytes is 7 - (b mod 8) *)
Definition sip_padded (msg : list N) : list N :=
  msg ++ zeros (7 - length msg mod 8) ++ [N.of_nat (length msg mod 256)].

(* m_0 ... m_{w-1} *)
Definition sip_words (msg : list N) : list Z := le64_words (sip_padded msg).

Definition siphash_spec (c d : nat) (k0 k1 : Z) (msg : list N) : Z :=
  sip_finalize d (fold_left (sip_compress c) (sip_words msg) (sip_init k0 k1)).

Definition siphash24_spec (k0 k1 : Z) (msg : list N) : Z := siphash_spec 2 4 k0 k1 msg.

(* ================= Part 2: model of src/crypto/siphash.{h,cpp} ================= *)

(* class SipHashState { uint64_t m_v0, m_v1, m_v2, m_v3; ... }

     static constexpr uint64_t C0{0x736f6d6570736575}, C1{0x646f72616e646f6d}, C2{0x6c7967656e657261}, C3{0x7465646279746573};
     explicit SipHashState(uint64_t k0, uint64_t k1) noexcept : SipHashState{C0 ^ k0, C1 ^ k1, C2 ^ k0, C3 ^ k1} {} *)
Definition SIP_C0 : Z := 0x736f6d6570736575.
Definition SIP_C1 : Z := 0x646f72616e646f6d.
Definition SIP_C2 : Z := 0x6c7967656e657261.
Definition SIP_C3 : Z := 0x7465646279746573.
Definition SIP_FINALIZER : Z := 0xFF.
Definition SIP_FINALIZER_UNPADDED : Z := 0x6465646461706e75.

Definition sipstate_init (k0 k1 : Z) : sipstate :=
  (Z.lxor SIP_C0 k0, Z.lxor SIP_C1 k1, Z.lxor SIP_C2 k0, Z.lxor SIP_C3 k1).

(*   void SipRound() noexcept
     {
         m_v0 += m_v1; m_v1 = std::rotl(m_v1, 13); m_v1 ^= m_v0;
         m_v0 = std::rotl(m_v0, 32);
         m_v2 += m_v3; m_v3 = std::rotl(m_v3, 16); m_v3 ^= m_v2;
         m_v0 += m_v3; m_v3 = std::rotl(m_v3, 21); m_v3 ^= m_v0;
         m_v2 += m_v1; m_v1 = std::rotl(m_v1, 17); m_v1 ^= m_v2;
         m_v2 = std::rotl(m_v2, 32);
     } *)
Definition cpp_sipround (v : sipstate) : sipstate :=
  let '(v0, v1, v2, v3) := v in
  let v0 := w64 (v0 + v1) in let v1 := rotl64 13 v1 in let v1 := Z.lxor v1 v0 in
  let v0 := rotl64 32 v0 in
  let v2 := w64 (v2 + v3) in let v3 := rotl64 16 v3 in let v3 := Z.lxor v3 v2 in
  let v0 := w64 (v0 + v3) in let v3 := rotl64 21 v3 in let v3 := Z.lxor v3 v0 in
  let v2 := w64 (v2 + v1) in let v1 := rotl64 17 v1 in let v1 := Z.lxor v1 v2 in
  let v2 := rotl64 32 v2 in
  (v0, v1, v2, v3).

(*   SipHashState& Compress1(uint64_t data) noexcept { m_v3 ^= data; SipRound(); m_v0 ^= data; return *this; } *)
Definition cpp_compress1 (v : sipstate) (data : Z) : sipstate :=
  let '(v0, v1, v2, v3) := v in
  let '(v0, v1, v2, v3) := cpp_sipround (v0, v1, v2, Z.lxor v3 data) in
  (Z.lxor v0 data, v1, v2, v3).

(*   SipHashState& Compress2(uint64_t data) noexcept { m_v3 ^= data; SipRound(); SipRound(); m_v0 ^= data; return *this; } *)
Definition cpp_compress2 (v : sipstate) (data : Z) : sipstate :=
  let '(v0, v1, v2, v3) := v in
  let '(v0, v1, v2, v3) := cpp_sipround (cpp_sipround (v0, v1, v2, Z.lxor v3 data)) in
  (Z.lxor v0 data, v1, v2, v3).

(*   uint64_t Finalize4() noexcept
     { m_v2 ^= FINALIZER; SipRound(); SipRound(); SipRound(); SipRound(); return m_v0 ^ m_v1 ^ m_v2 ^ m_v3; } *)
Definition cpp_finalize4 (v : sipstate) : Z :=
  let '(v0, v1, v2, v3) := v in
  let '(v0, v1, v2, v3) :=
    cpp_sipround (cpp_sipround (cpp_sipround (cpp_sipround (v0, v1, Z.lxor v2 SIP_FINALIZER, v3)))) in
  Z.lxor (Z.lxor (Z.lxor v0 v1) v2) v3.

(*   uint64_t Finalize3U() noexcept
     { m_v2 ^= FINALIZER_UNPADDED; SipRound(); SipRound(); SipRound(); return m_v0 ^ m_v1 ^ m_v2 ^ m_v3; } *)
Definition cpp_finalize3u (v : sipstate) : Z :=
  let '(v0, v1, v2, v3) := v in
  let '(v0, v1, v2, v3) :=
    cpp_sipround (cpp_sipround (cpp_sipround (v0, v1, Z.lxor v2 SIP_FINALIZER_UNPADDED, v3))) in
  Z.lxor (Z.lxor (Z.lxor v0 v1) v2) v3.

(* uint256::GetUint64(pos) = ReadLE64(m_data.data() + pos * 8); a uint256 is the list of its 32 bytes *)
Definition u256_get64 (val : list N) (pos : nat) : Z := le_value (firstn 8 (skipn (pos * 8) val)).

(*   SipHashState& Compress1Jumbo(const uint256& data) noexcept
     {
         const uint64_t d0{data.GetUint64(0)}, d1{data.GetUint64(1)}, d2{data.GetUint64(2)}, d3{data.GetUint64(3)};
         m_v3 ^= d0; m_v0 ^= d1; m_v1 ^= d2; m_v2 ^= d3;
         SipRound();
         m_v0 ^= d0; m_v1 ^= d1; m_v2 ^= d2; m_v3 ^= d3;
         return *this;
     } *)
Definition cpp_compress1_jumbo_words (v : sipstate) (d0 d1 d2 d3 : Z) : sipstate :=
  let '(v0, v1, v2, v3) := v in
  let '(v0, v1, v2, v3) := cpp_sipround (Z.lxor v0 d1, Z.lxor v1 d2, Z.lxor v2 d3, Z.lxor v3 d0) in
  (Z.lxor v0 d0, Z.lxor v1 d1, Z.lxor v2 d2, Z.lxor v3 d3).
Definition cpp_compress1_jumbo (v : sipstate) (data : list N) : sipstate :=
  cpp_compress1_jumbo_words v (u256_get64 data 0) (u256_get64 data 1) (u256_get64 data 2) (u256_get64 data 3).

(* ---------------- class CSipHasher ----------------
     SipHashState m_state;
     uint64_t m_tmp{0};
     uint8_t m_count{0}; //!< Only the low 8 bits of the input size matter.                      *)
Record csiphasher : Type := { sh_state : sipstate; sh_tmp : Z; sh_count : Z }.

(*   CSipHasher::CSipHasher(uint64_t k0, uint64_t k1) : m_state{k0, k1} {} *)
Definition csiphasher_init (k0 k1 : Z) : csiphasher :=
  {| sh_state := sipstate_init k0 k1; sh_tmp := 0; sh_count := 0 |}.

(*   CSipHasher& CSipHasher::Write(uint64_t data)
     {
         assert(m_count % 8 == 0);
         m_state.Compress2(data);
         m_count += 8;
         return *this;
     }
   None = the assert fails.  m_count is a uint8_t: the addition wraps mod 256 (wrapu8). *)
Definition csiphasher_write_u64 (h : csiphasher) (data : Z) : option csiphasher :=
  if sh_count h mod 8 =? 0 then
    Some {| sh_state := cpp_compress2 (sh_state h) data; sh_tmp := sh_tmp h;
            sh_count := wrapu8 (sh_count h + 8) |}
  else None.

(*   CSipHasher& CSipHasher::Write(std::span<const unsigned char> data)
     {
         SipHashState state{m_state.Copy()};
         uint64_t t{m_tmp};
         uint8_t c{m_count};

         while (data.size() > 0) {
             t |= uint64_t{data.front()} << (8 * (c % 8));
             c++;
             if ((c & 7) == 0) {
                 state.Compress2(t);
                 t = 0;
             }
             data = data.subspan(1);
         }

         m_state = state;
         m_count = c;
         m_tmp = t;

         return *this;
     }
   One iteration of the loop on the locals (state, t, c); the shift is on a uint64_t (w64), c++ is on
   a uint8_t (wrapu8). *)
Definition csiphasher_step (stc : sipstate * Z * Z) (b : N) : sipstate * Z * Z :=
  let '(state, t, c) := stc in
  let t := Z.lor t (w64 (Z.shiftl (Z.of_N b) (8 * (c mod 8)))) in
  let c := wrapu8 (c + 1) in
  if Z.land c 7 =? 0 then (cpp_compress2 state t, 0, c) else (state, t, c).

Definition csiphasher_write_bytes (h : csiphasher) (data : list N) : csiphasher :=
  let '(state, t, c) := fold_left csiphasher_step data (sh_state h, sh_tmp h, sh_count h) in
  {| sh_state := state; sh_tmp := t; sh_count := c |}.

(*   uint64_t CSipHasher::Finalize() const
     {
         return m_state.Copy()
                       .Compress2(m_tmp | (uint64_t{m_count} << 56))
                       .Finalize4();
     } *)
Definition csiphasher_finalize (h : csiphasher) : Z :=
  cpp_finalize4 (cpp_compress2 (sh_state h) (Z.lor (sh_tmp h) (w64 (Z.shiftl (sh_count h) 56)))).

(* CSipHasher(k0, k1).Write(c1).Write(c2)....Finalize() *)
Definition csiphasher_stream (k0 k1 : Z) (chunks : list (list N)) : Z :=
  csiphasher_finalize (fold_left csiphasher_write_bytes chunks (csiphasher_init k0 k1)).

(* a sequence of calls of either overload of Write; None as soon as an assert fails *)
Inductive sip_op : Type := SipBytes (data : list N) | SipU64 (data : Z).
Definition csiphasher_apply (oh : option csiphasher) (op : sip_op) : option csiphasher :=
  match oh with
  | None => None
  | Some h => match op with
              | SipBytes data => Some (csiphasher_write_bytes h data)
              | SipU64 data => csiphasher_write_u64 h data
              end
  end.
Definition csiphasher_run (k0 k1 : Z) (ops : list sip_op) : option Z :=
  option_map csiphasher_finalize (fold_left csiphasher_apply ops (Some (csiphasher_init k0 k1))).
(* the bytes an operation stands for: Write(uint64_t) "is treated as if this was the little-endian
   interpretation of 8 bytes" (siphash.h) *)
Definition sip_op_bytes (op : sip_op) : list N :=
  match op with SipBytes data => data | SipU64 data => le_bytes 8 data end.

(* ---------------- class PresaltedSipHasher ----------------
     const SipHashState m_state;
     explicit PresaltedSipHasher(uint64_t k0, uint64_t k1) noexcept : m_state{k0, k1} {}

     uint64_t PresaltedSipHasher::operator()(const uint256& val) const noexcept
     {
         return m_state.Copy()
                       .Compress2(val.GetUint64(0))
                       .Compress2(val.GetUint64(1))
                       .Compress2(val.GetUint64(2))
                       .Compress2(val.GetUint64(3))
                       .Compress2(uint64_t{32} << 56)
                       .Finalize4();
     } *)
Definition presalted_u256_words (k0 k1 : Z) (val : list N) : sipstate :=
  cpp_compress2 (cpp_compress2 (cpp_compress2 (cpp_compress2 (sipstate_init k0 k1)
    (u256_get64 val 0)) (u256_get64 val 1)) (u256_get64 val 2)) (u256_get64 val 3).

Definition presalted_siphash_u256 (k0 k1 : Z) (val : list N) : Z :=
  cpp_finalize4 (cpp_compress2 (presalted_u256_words k0 k1 val) (w64 (Z.shiftl 32 56))).

(*   uint64_t PresaltedSipHasher::operator()(const uint256& val, uint32_t extra) const noexcept
     {
         return m_state.Copy()
                       .Compress2(val.GetUint64(0)) ... .Compress2(val.GetUint64(3))
                       .Compress2((uint64_t{36} << 56) | extra)
                       .Finalize4();
     } *)
Definition presalted_siphash_u256_extra (k0 k1 : Z) (val : list N) (extra : Z) : Z :=
  cpp_finalize4 (cpp_compress2 (presalted_u256_words k0 k1 val) (Z.lor (w64 (Z.shiftl 36 56)) extra)).

(* ---------------- class SipHasher13UJ ----------------
     SipHashState m_state;
     SipHasher13UJ(uint64_t k0, uint64_t k1) noexcept : m_state{k0, k1} {}
     SipHasher13UJ& Write(uint64_t data) noexcept        { m_state.Compress1(data); return *this; }
     SipHasher13UJ& WriteJumbo(const uint256& hash) noexcept { m_state.Compress1Jumbo(hash); return *this; }
     uint64_t Finalize() const noexcept                  { return m_state.Copy().Finalize3U(); }
     uint64_t Hash(const uint256& hash) const noexcept
     { return m_state.Copy().Compress1Jumbo(hash).Finalize3U(); }
     uint64_t Hash(const uint256& hash, uint64_t extra) const noexcept
     { return m_state.Copy().Compress1Jumbo(hash).Compress1(extra).Finalize3U(); }               *)
Inductive uj_block : Type := UJNormal (data : Z) | UJJumbo (hash : list N).

Definition uj_init (k0 k1 : Z) : sipstate := sipstate_init k0 k1.
Definition uj_write (v : sipstate) (data : Z) : sipstate := cpp_compress1 v data.
Definition uj_write_jumbo (v : sipstate) (hash : list N) : sipstate := cpp_compress1_jumbo v hash.
Definition uj_finalize (v : sipstate) : Z := cpp_finalize3u v.
Definition uj_hash (v : sipstate) (hash : list N) : Z := cpp_finalize3u (cpp_compress1_jumbo v hash).
Definition uj_hash_extra (v : sipstate) (hash : list N) (extra : Z) : Z :=
  cpp_finalize3u (cpp_compress1 (cpp_compress1_jumbo v hash) extra).

Definition uj_apply (v : sipstate) (b : uj_block) : sipstate :=
  match b with UJNormal d => uj_write v d | UJJumbo h => uj_write_jumbo v h end.
(* SipHasher13UJ(k0, k1).Write/WriteJumbo(...)....Finalize() *)
Definition uj_stream (k0 k1 : Z) (blocks : list uj_block) : Z :=
  uj_finalize (fold_left uj_apply blocks (uj_init k0 k1)).

(* What the header documents for SipHash-1-3-UJ, as a one-shot function of the block sequence:
   SipHash-1-3 rounds, no padding, finalizer constant "unpadded", a jumbo block (d0,d1,d2,d3) is
   XORed in before the round as (v0,v1,v2,v3) ^= (d1,d2,d3,d0) and after it as ^= (d0,d1,d2,d3). *)
Definition uj_block_spec (v : sipstate) (b : uj_block) : sipstate :=
  match b with
  | UJNormal d => sip_compress 1 v d
  | UJJumbo h =>
    let '(d0, d1, d2, d3) := (u256_get64 h 0, u256_get64 h 1, u256_get64 h 2, u256_get64 h 3) in
    let '(v0, v1, v2, v3) := v in
    let '(v0, v1, v2, v3) := sipround (Z.lxor v0 d1, Z.lxor v1 d2, Z.lxor v2 d3, Z.lxor v3 d0) in
    (Z.lxor v0 d0, Z.lxor v1 d1, Z.lxor v2 d2, Z.lxor v3 d3)
  end.
Definition siphash13uj_spec (k0 k1 : Z) (blocks : list uj_block) : Z :=
  let '(v0, v1, v2, v3) := fold_left uj_block_spec blocks (sip_init k0 k1) in
  let '(v0, v1, v2, v3) := sip_iter 3 (v0, v1, Z.lxor v2 0x6465646461706e75, v3) in
  Z.lxor (Z.lxor (Z.lxor v0 v1) v2) v3.
