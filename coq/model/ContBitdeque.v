(* bitdeque<BITS_PER_WORD>  (src/util/bitdeque.h): model of the REPRESENTATION.
   C++ fields                                  model
     std::deque<std::bitset<B>> m_deque          d_bits    all bits of all blocks, block after block
                                                 d_nb      m_deque.size()   (invariant: length d_bits = d_nb * B)
     int m_pad_begin                             d_pb      unused bits at the front of the first block
     int m_pad_end                               d_pe      unused bits at the back of the last block
   The std::deque of bitsets is the trusted standard container: inserting k value-initialised blocks at an
   end is appending/prepending k*B false bits, erasing k blocks is dropping k*B bits.
   Iterators are (block, bitpos) pairs; `iter_add` transcribes Iterator::operator+= and the lemmas show
   that begin() + i designates flat bit d_pb + i.  Element accesses below use that flat position.
   std::move / std::move_backward are modelled by their contract (result = the source range copied, allowed
   only when the destination start/end is outside the source range, as the standard requires).
   Executable definitions only; proofs are in proofs/ContBitdequeLemmas.v. *)
From Coq Require Import List Arith Bool ZArith.
From BV Require Import model.ContBuf.
Import ListNotations.

Section Bitdeque.
  Variable B : nat.      (* BITS_PER_WORD *)

  Record bd := mkbd { d_bits : list bool; d_nb : nat; d_pb : nat; d_pe : nat }.

  (* explicit bitdeque() : m_pad_begin{0}, m_pad_end{0} {} *)
  Definition bd_empty : bd := mkbd [] 0 0 0.

  (* size_type size() const noexcept { return m_deque.size() * BITS_PER_WORD - m_pad_begin - m_pad_end; } *)
  Definition size (s : bd) : nat := d_nb s * B - d_pb s - d_pe s.

  (* ---- Iterator arithmetic (Z: difference_type is signed) ----
     Iterator& operator+=(difference_type dist) {
         if (dist > 0) {
             if (dist + m_bitpos >= BITS_PER_WORD) { ++m_it; dist -= BITS_PER_WORD - m_bitpos; m_bitpos = 0; }
             auto jump = dist / BITS_PER_WORD; m_it += jump; m_bitpos += dist - jump * BITS_PER_WORD;
         } else if (dist < 0) {
             dist = -dist;
             if (dist > m_bitpos) { --m_it; dist -= m_bitpos + 1; m_bitpos = BITS_PER_WORD - 1; }
             auto jump = dist / BITS_PER_WORD; m_it -= jump; m_bitpos -= dist - jump * BITS_PER_WORD;
         }
         return *this; } *)
  Definition iter_add (it : Z * Z) (dist : Z) : Z * Z :=
    let W := Z.of_nat B in
    let '(m_it, m_bitpos) := it in
    if (0 <? dist)%Z then
      let '(m_it1, dist1, bp1) :=
        if (W <=? dist + m_bitpos)%Z then ((m_it + 1)%Z, (dist - (W - m_bitpos))%Z, 0%Z) else (m_it, dist, m_bitpos) in
      let jump := Z.quot dist1 W in
      ((m_it1 + jump)%Z, (bp1 + (dist1 - jump * W))%Z)
    else if (dist <? 0)%Z then
      let dist0 := (- dist)%Z in
      let '(m_it1, dist1, bp1) :=
        if (m_bitpos <? dist0)%Z then ((m_it - 1)%Z, (dist0 - (m_bitpos + 1))%Z, (W - 1)%Z) else (m_it, dist0, m_bitpos) in
      let jump := Z.quot dist1 W in
      ((m_it1 - jump)%Z, (bp1 - (dist1 - jump * W))%Z)
    else it.
  (* iterator begin() noexcept { return {m_deque.begin(), m_pad_begin}; }
     iterator end() noexcept { return iterator{m_deque.end(), 0} - m_pad_end; } *)
  Definition it_begin (s : bd) : Z * Z := (0%Z, Z.of_nat (d_pb s)).
  Definition it_end (s : bd) : Z * Z := iter_add (Z.of_nat (d_nb s), 0%Z) (- Z.of_nat (d_pe s))%Z.
  (* the flat bit an iterator designates *)
  Definition it_flat (it : Z * Z) : Z := (fst it * Z.of_nat B + snd it)%Z.

  (* ---- element access through begin()[i] : flat bit d_pb + i; i >= size() is out of range ---- *)
  Definition get (s : bd) (i : nat) : option bool :=
    if i <? size s then buf_get (d_bits s) (d_pb s + i) else None.
  Definition write_at (s : bd) (i : nat) (data : list bool) : option bd :=
    if i + length data <=? size s then
      b <- buf_write (d_bits s) (d_pb s + i) data ;; Some (mkbd b (d_nb s) (d_pb s) (d_pe s))
    else None.
  Definition read_at (s : bd) (i n : nat) : option (list bool) :=
    if i + n <=? size s then buf_read (d_bits s) (d_pb s + i) n else None.
  Definition set (s : bd) (i : nat) (v : bool) : option bd := write_at s i [v].

  (* std::move(first, last, d_first): precondition d_first not in [first, last).
     d_first == first (a self-move, formally outside that precondition) is what erase(p, p) and
     insert(p, 0, v) perform when the moved side is non-empty; every implementation executes it as the
     element-wise self-assignment it is, so it is modelled as allowed (it changes nothing). *)
  Definition std_move (s : bd) (first last d_first : nat) : option bd :=
    if first <=? last then
      if (first =? last) then Some s
      else if (d_first <=? first) || (last <=? d_first) then
        data <- read_at s first (last - first) ;; write_at s d_first data
      else None
    else None.
  (* std::move_backward(first, last, d_last): precondition d_last not in (first, last]   (d_last == last: as above) *)
  Definition std_move_backward (s : bd) (first last d_last : nat) : option bd :=
    if first <=? last then
      if (first =? last) then Some s
      else if ((d_last <=? first) || (last <=? d_last)) && (last - first <=? d_last) then
        data <- read_at s first (last - first) ;; write_at s (d_last - (last - first)) data
      else None
    else None.

  (* while (n) { last.reset(BITS_PER_WORD - 1 - m_pad_end); ++m_pad_end; --n; }     (last = m_deque.back())
     std::bitset::reset(pos) throws for pos >= B: refused *)
  Fixpoint reset_back_loop (bits : list bool) (nb pe n : nat) : option (list bool * nat) :=
    match n with
    | O => Some (bits, pe)
    | S m =>
        if (1 <=? nb) && (pe <? B) then
          b <- buf_set bits ((nb - 1) * B + (B - 1 - pe)) false ;; reset_back_loop b nb (pe + 1) m
        else None
    end.
  (* while (n) { first.reset(m_pad_begin); ++m_pad_begin; --n; }                      (first = m_deque.front()) *)
  Fixpoint reset_front_loop (bits : list bool) (nb pb n : nat) : option (list bool * nat) :=
    match n with
    | O => Some (bits, pb)
    | S m =>
        if (1 <=? nb) && (pb <? B) then
          b <- buf_set bits pb false ;; reset_front_loop b nb (pb + 1) m
        else None
    end.

  (* void erase_back(size_type n) {
         if (n >= static_cast<size_type>(BITS_PER_WORD - m_pad_end)) {
             n -= BITS_PER_WORD - m_pad_end;
             m_pad_end = 0;
             m_deque.erase(m_deque.end() - 1 - (n / BITS_PER_WORD), m_deque.end());
             n %= BITS_PER_WORD;
         }
         if (n) { auto& last = m_deque.back(); while (n) { last.reset(BITS_PER_WORD - 1 - m_pad_end); ++m_pad_end; --n; } } } *)
  Definition erase_back (s : bd) (n : nat) : option bd :=
    s1n <- (if B - d_pe s <=? n then
              let n1 := n - (B - d_pe s) in
              let k := 1 + n1 / B in
              if k <=? d_nb s then
                Some (mkbd (firstn ((d_nb s - k) * B) (d_bits s)) (d_nb s - k) (d_pb s) 0, n1 mod B)
              else None
            else Some (s, n)) ;;
    let '(s1, n2) := s1n in
    if n2 =? 0 then Some s1
    else r <- reset_back_loop (d_bits s1) (d_nb s1) (d_pe s1) n2 ;;
         Some (mkbd (fst r) (d_nb s1) (d_pb s1) (snd r)).

  (* void extend_back(size_type n) {
         if (n > static_cast<size_type>(m_pad_end)) {
             n -= m_pad_end + 1;
             m_pad_end = BITS_PER_WORD - 1;
             m_deque.insert(m_deque.end(), 1 + (n / BITS_PER_WORD), {});
             n %= BITS_PER_WORD;
         }
         m_pad_end -= n; } *)
  Definition extend_back (s : bd) (n : nat) : option bd :=
    let '(s1, n2) :=
      if d_pe s <? n then
        let n1 := n - (d_pe s + 1) in
        let k := 1 + n1 / B in
        (mkbd (d_bits s ++ repeat false (k * B)) (d_nb s + k) (d_pb s) (B - 1), n1 mod B)
      else (s, n) in
    if n2 <=? d_pe s1 then Some (mkbd (d_bits s1) (d_nb s1) (d_pb s1) (d_pe s1 - n2)) else None.

  (* void erase_front(size_type n) {
         if (n >= static_cast<size_type>(BITS_PER_WORD - m_pad_begin)) {
             n -= BITS_PER_WORD - m_pad_begin;
             m_pad_begin = 0;
             m_deque.erase(m_deque.begin(), m_deque.begin() + 1 + (n / BITS_PER_WORD));
             n %= BITS_PER_WORD;
         }
         if (n) { auto& first = m_deque.front(); while (n) { first.reset(m_pad_begin); ++m_pad_begin; --n; } } } *)
  Definition erase_front (s : bd) (n : nat) : option bd :=
    s1n <- (if B - d_pb s <=? n then
              let n1 := n - (B - d_pb s) in
              let k := 1 + n1 / B in
              if k <=? d_nb s then
                Some (mkbd (skipn (k * B) (d_bits s)) (d_nb s - k) 0 (d_pe s), n1 mod B)
              else None
            else Some (s, n)) ;;
    let '(s1, n2) := s1n in
    if n2 =? 0 then Some s1
    else r <- reset_front_loop (d_bits s1) (d_nb s1) (d_pb s1) n2 ;;
         Some (mkbd (fst r) (d_nb s1) (snd r) (d_pe s1)).

  (* void extend_front(size_type n) {
         if (n > static_cast<size_type>(m_pad_begin)) {
             n -= m_pad_begin + 1;
             m_pad_begin = BITS_PER_WORD - 1;
             m_deque.insert(m_deque.begin(), 1 + (n / BITS_PER_WORD), {});
             n %= BITS_PER_WORD;
         }
         m_pad_begin -= n; } *)
  Definition extend_front (s : bd) (n : nat) : option bd :=
    let '(s1, n2) :=
      if d_pb s <? n then
        let n1 := n - (d_pb s + 1) in
        let k := 1 + n1 / B in
        (mkbd (repeat false (k * B) ++ d_bits s) (d_nb s + k) (B - 1) (d_pe s), n1 mod B)
      else (s, n) in
    if n2 <=? d_pb s1 then Some (mkbd (d_bits s1) (d_nb s1) (d_pb s1 - n2) (d_pe s1)) else None.

  (* void insert_zeroes(size_type before, size_type count) {
         size_type after = size() - before;
         if (before < after) {
             extend_front(count);
             std::move(begin() + count, begin() + count + before, begin());
         } else {
             extend_back(count);
             std::move_backward(begin() + before, begin() + before + after, end());
         } } *)
  Definition insert_zeroes (s : bd) (before count : nat) : option bd :=
    if before <=? size s then
      let after := size s - before in
      if before <? after then
        s1 <- extend_front s count ;; std_move s1 count (count + before) 0
      else
        s1 <- extend_back s count ;; std_move_backward s1 before (before + after) (size s1)
    else None.

  (* void assign(size_type count, bool val) {
         m_deque.clear();
         m_deque.resize(CeilDiv(count, size_type{BITS_PER_WORD}));
         m_pad_begin = 0; m_pad_end = 0;
         if (val) { for (auto& elem : m_deque) elem.flip(); }
         if (count % BITS_PER_WORD) erase_back(BITS_PER_WORD - (count % BITS_PER_WORD)); } *)
  Definition assign (s : bd) (count : nat) (val : bool) : option bd :=
    let nb := (count + (B - 1)) / B in
    let s1 := mkbd (repeat val (nb * B)) nb 0 0 in
    if negb (count mod B =? 0) then erase_back s1 (B - count mod B) else Some s1.

  (* template<typename It> void assign(It first, It last) {
         size_type count = std::distance(first, last);
         assign(count, false);
         auto it = begin(); while (first != last) { *(it++) = *(first++); } } *)
  Definition assign_range (s : bd) (data : list bool) : option bd :=
    s1 <- assign s (length data) false ;; write_at s1 0 data.

  (* void clear() noexcept { m_deque.clear(); m_pad_begin = m_pad_end = 0; } *)
  Definition clear (s : bd) : bd := bd_empty.

  (* void push_back(bool val) { extend_back(1); back() = val; }       back() = end()[-1] *)
  Definition push_back (s : bd) (v : bool) : option bd :=
    s1 <- extend_back s 1 ;; if 1 <=? size s1 then set s1 (size s1 - 1) v else None.
  (* void push_front(bool val) { extend_front(1); front() = val; } *)
  Definition push_front (s : bd) (v : bool) : option bd :=
    s1 <- extend_front s 1 ;; set s1 0 v.
  (* void pop_back() { erase_back(1); }    void pop_front() { erase_front(1); }     (empty container: refused) *)
  Definition pop_back (s : bd) : option bd := if 1 <=? size s then erase_back s 1 else None.
  Definition pop_front (s : bd) : option bd := if 1 <=? size s then erase_front s 1 else None.

  (* void resize(size_type n) { if (n < size()) erase_back(size() - n); else extend_back(n - size()); } *)
  Definition resize (s : bd) (n : nat) : option bd :=
    if n <? size s then erase_back s (size s - n) else extend_back s (n - size s).

  (* void swap(bitdeque& other) noexcept { swap m_deque, m_pad_begin, m_pad_end } *)
  Definition swap (s other : bd) : bd * bd := (other, s).

  (* iterator erase(const_iterator first, const_iterator last) {
         size_type before = std::distance(cbegin(), first);
         size_type dist = std::distance(first, last);
         size_type after = std::distance(last, cend());
         if (before < after) {
             std::move_backward(begin(), begin() + before, end() - after);
             erase_front(dist);
             return begin() + before;
         } else {
             std::move(end() - after, end(), begin() + before);
             erase_back(dist);
             return end() - after; } } *)
  Definition erase (s : bd) (first last : nat) : option bd :=
    if (first <=? last) && (last <=? size s) then
      let before := first in
      let dist := last - first in
      let after := size s - last in
      if before <? after then
        s1 <- std_move_backward s 0 before (size s - after) ;; erase_front s1 dist
      else
        s1 <- std_move s (size s - after) (size s) before ;; erase_back s1 dist
    else None.

  (* iterator insert(const_iterator pos, bool val) { before = pos - cbegin(); insert_zeroes(before, 1); *(begin() + before) = val; }
     iterator insert(const_iterator pos, size_type count, bool val) { insert_zeroes(before, count); fill count positions with val }
     template<typename It> iterator insert(const_iterator pos, It first, It last) { insert_zeroes(before, count); copy the range } *)
  Definition insert_range (s : bd) (before : nat) (data : list bool) : option bd :=
    s1 <- insert_zeroes s before (length data) ;; write_at s1 before data.
  Definition insert (s : bd) (before : nat) (v : bool) : option bd := insert_range s before [v].
  Definition insert_n (s : bd) (before count : nat) (v : bool) : option bd := insert_range s before (repeat v count).

  (* ---------------------------------------------------------------------------------------------
     Representation invariant and abstraction function *)
  Definition bd_inv (s : bd) : Prop :=
    length (d_bits s) = d_nb s * B /\ d_pb s < B /\ d_pe s < B /\ d_pb s + d_pe s <= d_nb s * B /\
    firstn (d_pb s) (d_bits s) = repeat false (d_pb s) /\
    skipn (d_nb s * B - d_pe s) (d_bits s) = repeat false (d_pe s).
  Definition bd_abs (s : bd) : list bool := firstn (size s) (skipn (d_pb s) (d_bits s)).

  (* ---------------------------------------------------------------------------------------------
     Operation scripts on a pair of bitdeques (a, b) *)
  Inductive bdop :=
  | PushBack (v : bool) | PushFront (v : bool) | PopBack | PopFront
  | Resize (n : nat) | Clear | Assign (n : nat) (v : bool) | AssignRange (l : list bool)
  | Insert (p : nat) (v : bool) | InsertN (p n : nat) (v : bool) | InsertRange (p : nat) (l : list bool)
  | Erase (p : nat) | EraseRange (a b : nat) | SetAt (i : nat) (v : bool)
  | Swap | CopyAssign.

  Definition on_a (f : bd -> option bd) (st : bd * bd) : option (bd * bd) :=
    a <- f (fst st) ;; Some (a, snd st).

  Definition bd_step (st : bd * bd) (o : bdop) : option (bd * bd) :=
    match o with
    | PushBack v => on_a (fun a => push_back a v) st
    | PushFront v => on_a (fun a => push_front a v) st
    | PopBack => on_a pop_back st
    | PopFront => on_a pop_front st
    | Resize n => on_a (fun a => resize a n) st
    | Clear => Some (clear (fst st), snd st)
    | Assign n v => on_a (fun a => assign a n v) st
    | AssignRange l => on_a (fun a => assign_range a l) st
    | Insert p v => on_a (fun a => insert a p v) st
    | InsertN p n v => on_a (fun a => insert_n a p n v) st
    | InsertRange p l => on_a (fun a => insert_range a p l) st
    | Erase p => on_a (fun a => if p <? size a then erase a p (p + 1) else None) st
    | EraseRange x y => on_a (fun a => erase a x y) st
    | SetAt i v => on_a (fun a => set a i v) st
    | Swap => Some (swap (fst st) (snd st))
    | CopyAssign => Some (snd st, snd st)       (* bitdeque& operator=(const bitdeque& other) = default; *)
    end.

  Fixpoint bd_run (st : bd * bd) (ops : list bdop) : option (bd * bd) :=
    match ops with [] => Some st | o :: r => st' <- bd_step st o ;; bd_run st' r end.

  Fixpoint bd_trace (st : bd * bd) (ops : list bdop) : list (option (bd * bd)) :=
    match ops with
    | [] => []
    | o :: r => match bd_step st o with
                | Some st' => Some st' :: bd_trace st' r
                | None => [None]
                end
    end.

  (* ---------------------------------------------------------------------------------------------
     The standard counterpart: std::deque<bool> as a plain list *)
  Definition bdq_step (st : list bool * list bool) (o : bdop) : option (list bool * list bool) :=
    let (a, b) := st in
    match o with
    | PushBack v => Some (a ++ [v], b)
    | PushFront v => Some (v :: a, b)
    | PopBack => if 1 <=? length a then Some (removelast a, b) else None
    | PopFront => if 1 <=? length a then Some (tl a, b) else None
    | Resize n => Some (firstn n a ++ repeat false (n - length a), b)
    | Clear => Some ([], b)
    | Assign n v => Some (repeat v n, b)
    | AssignRange l => Some (l, b)
    | Insert p v => if p <=? length a then Some (firstn p a ++ [v] ++ skipn p a, b) else None
    | InsertN p n v => if p <=? length a then Some (firstn p a ++ repeat v n ++ skipn p a, b) else None
    | InsertRange p l => if p <=? length a then Some (firstn p a ++ l ++ skipn p a, b) else None
    | Erase p => if p <? length a then Some (firstn p a ++ skipn (p + 1) a, b) else None
    | EraseRange x y => if (x <=? y) && (y <=? length a) then Some (firstn x a ++ skipn y a, b) else None
    | SetAt i v => if i <? length a then Some (firstn i a ++ v :: skipn (S i) a, b) else None
    | Swap => Some (b, a)
    | CopyAssign => Some (b, b)
    end.

  Fixpoint bdq_run (st : list bool * list bool) (ops : list bdop) : option (list bool * list bool) :=
    match ops with [] => Some st | o :: r => st' <- bdq_step st o ;; bdq_run st' r end.

  Fixpoint bdq_trace (st : list bool * list bool) (ops : list bdop) : list (option (list bool * list bool)) :=
    match ops with
    | [] => []
    | o :: r => match bdq_step st o with
                | Some st' => Some st' :: bdq_trace st' r
                | None => [None]
                end
    end.
End Bitdeque.
